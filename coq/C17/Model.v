(* C17 — signature data verifies exactly when made by the right key over the right data
   (crypto/mod.rs create_signature_data / verify_signature_data, security_policy.rs
    asymmetric_sign / asymmetric_verify_signature).

   RSA signing is an oracle.  Two layers:
   * byte level (Section [Bytes]): the signed and verified data is  DER(certificate) ++ nonce ;
     the theorems about it (completeness, coverage, reduction, injectivity of the concatenation
     on well-formed DER) are in Proofs.v;
   * the executable correspondence model uses an IDEAL signature scheme: a signature verifies iff
     it is the untouched output of signing exactly that data with the matching key under the same
     algorithm.  The implementation must give the same verdicts (a difference would be a forgery
     or a completeness failure). *)
From Coq Require Import List ZArith Bool.
Import ListNotations.
Open Scope Z_scope.

Inductive policy := Basic128Rsa15 | Basic256 | Basic256Sha256 | Aes128Sha256RsaOaep | Aes256Sha256RsaPss.
Inductive alg := RsaSha1 | RsaSha256 | PssSha256.
(* security_policy.rs asymmetric_sign / asymmetric_verify_signature *)
Definition alg_of (p : policy) : alg :=
  match p with
  | Basic128Rsa15 | Basic256 => RsaSha1
  | Basic256Sha256 | Aes128Sha256RsaOaep => RsaSha256
  | Aes256Sha256RsaPss => PssSha256
  end.
Definition alg_eqb (a b : alg) : bool :=
  match a, b with RsaSha1, RsaSha1 | RsaSha256, RsaSha256 | PssSha256, PssSha256 => true | _, _ => false end.

(* ---------- DER: total length of a TLV from its header ---------- *)
Fixpoint be_nat (l : list Z) (acc : Z) : Z :=
  match l with [] => acc | b :: l' => be_nat l' (acc * 256 + b) end.

(* Some n = the number of bytes the TLV starting at the head of [l] occupies *)
Definition der_total (l : list Z) : option Z :=
  match l with
  | _tag :: len0 :: rest =>
      if len0 <? 128 then Some (2 + len0)
      else let n := Z.to_nat (len0 - 128) in
           if Nat.leb n (length rest) then Some (2 + Z.of_nat n + be_nat (firstn n rest) 0) else None
  | _ => None
  end.
Definition der_wf (l : list Z) : bool :=
  match der_total l with Some n => n =? Z.of_nat (length l) | None => false end.

(* ---------- correspondence model (ideal signatures) ---------- *)
(* a certificate is identified by a number; its DER header and length are carried so that the
   well-formedness the byte-level theorem needs is checked on the real certificates *)
Record cert := mk_cert { c_id : Z; c_key : Z; c_hdr : list Z; c_len : Z }.
Inductive sigmut := SigIntact | SigFlipped | SigTruncated | SigExtended | SigEmpty.

Record case := mk_case {
  p_sign : policy; p_verify : policy;
  signer_key : Z;                 (* private key that made the signature *)
  signed_cert : cert; signed_nonce : list Z;     (* what was signed *)
  verify_cert : cert;             (* certificate whose public key verifies *)
  checked_cert : cert; checked_nonce : list Z;   (* what the verifier expects to have been signed *)
  mut : sigmut
}.

Fixpoint list_eqb (a b : list Z) : bool :=
  match a, b with
  | [], [] => true
  | x :: a', y :: b' => (x =? y) && list_eqb a' b'
  | _, _ => false
  end.

Definition all_match (c : case) : bool :=
  alg_eqb (alg_of (p_sign c)) (alg_of (p_verify c)) &&
  (signer_key c =? c_key (verify_cert c)) &&
  (c_id (signed_cert c) =? c_id (checked_cert c)) &&
  list_eqb (signed_nonce c) (checked_nonce c) &&
  match mut c with SigIntact => true | _ => false end.

(* 0 = Good, 1 = any Bad status *)
Definition run (c : case) : list Z := [if all_match c then 0 else 1].

(* header of a certificate as carried in the case really describes a well-formed DER TLV *)
Definition hdr_wf (x : cert) : bool :=
  match der_total (c_hdr x ++ repeat 0 (Z.to_nat (c_len x) - length (c_hdr x))) with
  | Some n => n =? c_len x
  | None => false
  end.

Definition valid (c : case) : bool :=
  hdr_wf (signed_cert c) && hdr_wf (checked_cert c).

(* the property: created with the right key over the right data verifies; changing the
   certificate, the nonce, any signature byte or the signer makes verification fail *)
Definition oracle (c : case) (out : list Z) : bool :=
  valid c &&
  match out with
  | [st] => if all_match c then st =? 0 else negb (st =? 0)
  | _ => false
  end.

Definition known (c : case) : Z := 0.
