From Coq Require Import List ZArith Bool Lia Permutation.
Import ListNotations.
From OV Require Import C36.Model.
Open Scope Z_scope.

(* ---------- multiset lemmas ---------- *)
Lemma ack_eqb_refl x : ack_eqb x x = true.
Proof. destruct x; unfold ack_eqb; cbn. rewrite !Z.eqb_refl. reflexivity. Qed.

Lemma ack_eqb_eq x y : ack_eqb x y = true -> x = y.
Proof.
  destruct x, y; unfold ack_eqb; cbn. intro H. apply andb_true_iff in H as [H1 H2].
  apply Z.eqb_eq in H1, H2. congruence.
Qed.

Lemma remove_one_head x l : remove_one x (x :: l) = Some l.
Proof. cbn. rewrite ack_eqb_refl. reflexivity. Qed.

Lemma remove_all_self l : forall r, remove_all l (l ++ r) = Some r.
Proof.
  induction l as [|x l IH]; intro r; [reflexivity|].
  cbn [remove_all app]. rewrite remove_one_head. apply IH.
Qed.

Lemma ms_eqb_refl l : ms_eqb l l = true.
Proof. unfold ms_eqb. rewrite <- (app_nil_r l) at 2. rewrite remove_all_self. reflexivity. Qed.

Lemma remove_one_perm x l r : remove_one x l = Some r -> Permutation l (x :: r).
Proof.
  revert r. induction l as [|y l IH]; intros r H; cbn in H; [discriminate|].
  destruct (ack_eqb x y) eqn:E.
  - apply ack_eqb_eq in E. inversion H; subst. reflexivity.
  - destruct (remove_one x l) as [r'|] eqn:E'; [|discriminate]. inversion H; subst.
    rewrite (IH r' eq_refl). apply perm_swap.
Qed.

Lemma remove_all_perm xs : forall l r, remove_all xs l = Some r -> Permutation l (xs ++ r).
Proof.
  induction xs as [|x xs IH]; intros l r H; cbn in H.
  - inversion H; subst. reflexivity.
  - destruct (remove_one x l) as [l'|] eqn:E; [|discriminate].
    rewrite (remove_one_perm _ _ _ E). cbn. constructor. apply IH. exact H.
Qed.

Lemma ms_eqb_perm a b : ms_eqb a b = true -> Permutation a b.
Proof.
  unfold ms_eqb. destruct (remove_all a b) as [[|? ?]|] eqn:E; try discriminate.
  intros _. apply remove_all_perm in E. rewrite app_nil_r in E. symmetry. exact E.
Qed.

(* ---------- encoding ---------- *)
Lemma take_pairs_flat l rest : take_pairs (length l) (flat l ++ rest) = Some (l, rest).
Proof.
  induction l as [|[a b] l IH]; [reflexivity|]. cbn [length flat app take_pairs]. rewrite IH. reflexivity.
Qed.

Lemma dec_enc l rest : dec (enc l ++ rest) = Some (l, rest).
Proof.
  unfold dec, enc. cbn [app].
  destruct (Z.ltb_spec (Z.of_nat (length l)) 0); [lia|].
  rewrite Nat2Z.id. apply take_pairs_flat.
Qed.

(* ---------- the oracle holds on the model, for every operation sequence ---------- *)
Lemma oracle_from_run c : forall s,
  oracle_from (pending s) (inflight s) c (run_from s c) = true.
Proof.
  induction c as [|o c IH]; intro s; [reflexivity|].
  cbn [run_from oracle_from]. unfold obs.
  destruct o as [|k sub seq data|k sub seq|k|kind|sub|sub|sub|sub].
  - rewrite dec_enc. rewrite <- (app_nil_r (pending s)) at 2. rewrite remove_all_self.
    apply (IH (step s Start)).
  - rewrite dec_enc. cbn [step]. destruct (inflight s) as [|a l] eqn:E.
    + rewrite ms_eqb_refl. cbn [andb]. specialize (IH s). rewrite E in IH. exact IH.
    + cbn [pending]. rewrite ms_eqb_refl. cbn [andb].
      specialize (IH (step s (RespOk k sub seq data))). cbn [step] in IH. rewrite E in IH. exact IH.
  - rewrite dec_enc. cbn [step]. destruct (inflight s) as [|a l] eqn:E.
    + rewrite ms_eqb_refl. cbn [andb]. specialize (IH s). rewrite E in IH. exact IH.
    + cbn [pending]. rewrite ms_eqb_refl. cbn [andb].
      specialize (IH (step s (RespOkBad k sub seq))). cbn [step] in IH. rewrite E in IH. exact IH.
  - rewrite dec_enc. cbn [step]. destruct (inflight s) as [|a l] eqn:E.
    + rewrite ms_eqb_refl. cbn [andb]. specialize (IH s). rewrite E in IH. exact IH.
    + cbn [pending]. rewrite ms_eqb_refl. cbn [andb].
      specialize (IH (step s (RespErr k))). cbn [step] in IH. rewrite E in IH. exact IH.
  - rewrite dec_enc. cbn [step]. rewrite ms_eqb_refl. cbn [andb]. apply IH.
  - rewrite dec_enc. cbn [step]. rewrite ms_eqb_refl. cbn [andb]. apply IH.
  - rewrite dec_enc. cbn [step]. rewrite ms_eqb_refl. cbn [andb]. apply IH.
  - rewrite dec_enc. cbn [step]. rewrite ms_eqb_refl. cbn [andb]. apply IH.
  - rewrite dec_enc. cbn [step]. rewrite ms_eqb_refl. cbn [andb]. apply IH.
Qed.

Theorem oracle_holds c : oracle c (run c) = true.
Proof. exact (oracle_from_run c init). Qed.

(* ---------- the bookkeeping invariant, in the property's own terms ---------- *)
(* every received number is, at every moment, in exactly one place: waiting, in flight, or
   acknowledged by a request that succeeded *)
Definition Inv (s : st) : Prop :=
  Permutation (received s) (concat (sent_ok s) ++ concat (inflight s) ++ pending s).

Lemma nth_remove_nth_perm {A} (d : list A) (l : list (list A)) i : (i < length l)%nat ->
  Permutation (concat l) (nth i l d ++ concat (remove_nth i l)).
Proof.
  revert i. induction l as [|x l IH]; intros i Hi; cbn in Hi; [lia|].
  destruct i as [|i]; cbn [nth remove_nth concat]; [reflexivity|].
  rewrite (IH i) by lia. rewrite !app_assoc. apply Permutation_app_tail. apply Permutation_app_comm.
Qed.

Lemma pick_lt k n : (0 < n)%nat -> (pick k n < n)%nat.
Proof.
  intro Hn. unfold pick.
  pose proof (Z.mod_pos_bound k (Z.of_nat n) ltac:(lia)). lia.
Qed.

Definition adec : forall x y : ack, {x = y} + {x <> y}.
Proof. decide equality; apply Z.eq_dec. Defined.

Ltac count_tac z :=
  repeat rewrite concat_app; cbn [concat]; repeat rewrite count_occ_app; cbn [count_occ];
  repeat match goal with |- context [adec ?a z] => destruct (adec a z) end; lia.

Lemma step_inv s o : Inv s -> Inv (step s o).
Proof.
  unfold Inv. intro H. destruct o as [|k sub seq data|k sub seq|k|kind|sub|sub|sub|sub]; cbn [step]; try exact H.
  - cbn [sent_ok inflight pending received].
    apply (proj2 (Permutation_count_occ adec _ _)). intro z.
    pose proof (proj1 (Permutation_count_occ adec _ _) H z) as Hz.
    repeat rewrite count_occ_app in Hz. count_tac z.
  - destruct (inflight s) as [|a l] eqn:E; [rewrite E; exact H|].
    cbn [sent_ok inflight pending received]. rewrite <- E in *.
    set (i := pick k (length (inflight s))).
    assert (Hi : (i < length (inflight s))%nat) by (apply pick_lt; rewrite E; cbn; lia).
    pose proof (nth_remove_nth_perm [] (inflight s) i Hi) as Hn.
    apply (proj2 (Permutation_count_occ adec _ _)). intro z.
    pose proof (proj1 (Permutation_count_occ adec _ _) H z) as Hz.
    pose proof (proj1 (Permutation_count_occ adec _ _) Hn z) as Hnz.
    repeat rewrite count_occ_app in Hz. repeat rewrite count_occ_app in Hnz. count_tac z.
  - destruct (inflight s) as [|a l] eqn:E; [rewrite E; exact H|].
    cbn [sent_ok inflight pending received]. rewrite <- E in *.
    set (i := pick k (length (inflight s))).
    assert (Hi : (i < length (inflight s))%nat) by (apply pick_lt; rewrite E; cbn; lia).
    pose proof (nth_remove_nth_perm [] (inflight s) i Hi) as Hn.
    apply (proj2 (Permutation_count_occ adec _ _)). intro z.
    pose proof (proj1 (Permutation_count_occ adec _ _) H z) as Hz.
    pose proof (proj1 (Permutation_count_occ adec _ _) Hn z) as Hnz.
    repeat rewrite count_occ_app in Hz. repeat rewrite count_occ_app in Hnz. count_tac z.
  - destruct (inflight s) as [|a l] eqn:E; [rewrite E; exact H|].
    cbn [sent_ok inflight pending received]. rewrite <- E in *.
    set (i := pick k (length (inflight s))).
    assert (Hi : (i < length (inflight s))%nat) by (apply pick_lt; rewrite E; cbn; lia).
    pose proof (nth_remove_nth_perm [] (inflight s) i Hi) as Hn.
    apply (proj2 (Permutation_count_occ adec _ _)). intro z.
    pose proof (proj1 (Permutation_count_occ adec _ _) H z) as Hz.
    pose proof (proj1 (Permutation_count_occ adec _ _) Hn z) as Hnz.
    repeat rewrite count_occ_app in Hz. repeat rewrite count_occ_app in Hnz. count_tac z.
Qed.

Theorem inv_reachable c : Inv (fold_left step c init).
Proof.
  assert (G : forall s, Inv s -> Inv (fold_left step c s)).
  { induction c as [|o c IH]; intros s Hs; [exact Hs|]. cbn. apply IH. apply step_inv. exact Hs. }
  apply G. unfold Inv, init. cbn. constructor.
Qed.

(* quiescence: nothing waiting, nothing in flight -> the successfully sent acknowledgements are
   exactly the received numbers, each as often as it was received (exactly once if received once) *)
Theorem exactly_once_at_quiescence c :
  let s := fold_left step c init in
  pending s = [] -> inflight s = [] -> Permutation (received s) (concat (sent_ok s)).
Proof.
  intros s Hp Hi. pose proof (inv_reachable c) as H. fold s in H. unfold Inv in H.
  rewrite Hp, Hi in H. cbn in H. rewrite !app_nil_r in H. exact H.
Qed.

(* nothing is acknowledged that was not received, and never more often than received *)
Theorem sent_within_received c x :
  let s := fold_left step c init in
  (count_occ adec (concat (sent_ok s)) x <= count_occ adec (received s) x)%nat.
Proof.
  intros s. pose proof (inv_reachable c) as H. fold s in H. unfold Inv in H.
  pose proof (proj1 (Permutation_count_occ adec _ _) H x) as Hx.
  rewrite count_occ_app in Hx. lia.
Qed.

Example inv_nontrivial :
  let s := fold_left step [Start; RespOk 0 1 10 0; Start; SubDel 1; Start; RespErr 0; StartDown 0; RespOk 0 1 11 1; Start; RespOk 5 2 7 2] init in
  received s = [(1, 10); (1, 11); (2, 7)] /\ sent_ok s = [[]; []; [(1, 10); (1, 11)]] /\ pending s = [(2, 7)].
Proof. vm_compute. repeat split. Qed.


(* the acknowledgements of a request that failed are sent again with the very next request,
   together with everything that was waiting, and nothing is left waiting behind it *)
Theorem failed_resent s k : inflight s <> [] ->
  let i := pick k (length (inflight s)) in
  let s' := step (step s (RespErr k)) Start in
  inflight s' = remove_nth i (inflight s) ++ [pending s ++ nth i (inflight s) []] /\ pending s' = [].
Proof.
  intros Hne. cbv zeta. cbn [step]. destruct (inflight s) as [|a l] eqn:E; [congruence|].
  cbn [inflight pending]. split; reflexivity.
Qed.

(* a publish call on a transport that is down, and every subscription change, leave the
   bookkeeping exactly as it was *)
Theorem down_and_subscription_changes_are_neutral s o :
  match o with StartDown _ | SubAdd _ | SubDel _ | SubMod _ | SubPub _ => True | _ => False end ->
  step s o = s.
Proof. destruct o; cbn; intros H; try contradiction; reflexivity. Qed.
