//! C30: browsing in pages returns the full result exactly once.
//! Generated address-space fragments (hub nodes with forward references in a known order and
//! inverse references whose enumeration order is read once from the address space), browsed
//! through the REAL dispatcher (`MessageHandler::handle_message` -> ViewService::browse /
//! browse_next) on an activated session, with every direction / reference-type filter /
//! node-class mask / page size, interleaved with BrowseNext, release, and address-space
//! modifications across several continuation points.
#[path = "../util.rs"]
mod util;
use util::*;

use opcua::core::comms::secure_channel::{Role, SecureChannel};
use opcua::core::supported_message::SupportedMessage;
use opcua::crypto::CertificateStore;
use opcua::server::address_space::AddressSpace;
use opcua::server::comms::tcp_transport::{MessageSender, VerifResponses};
use opcua::server::prelude::*;
use opcua::server::services::message_handler::VerifMessageHandler;
use opcua::server::session::SessionManager;
use opcua::server::state::ServerState;
use opcua::sync::RwLock;
use std::collections::HashMap;
use std::sync::atomic::{AtomicU32, Ordering};
use std::sync::Arc;

/// a reference of a hub: reference type (numeric id in namespace 0) and the class of the node at
/// the other end (0 = that node does not exist)
#[derive(Clone, Debug)]
pub struct Ref { ty: u32, cls: u32 }
#[derive(Clone, Debug)]
pub struct Hub { fwd: Vec<Ref>, inv: Vec<Ref> }
#[derive(Clone, Debug)]
pub struct Desc { hub: u32, dir: u32, filter: u32, subtypes: bool, mask: u32 }
#[derive(Clone, Debug)]
pub enum Op {
    Browse(u32, Vec<Desc>),       // requested max references per node, nodes to browse
    Next(bool, Vec<i64>),         // release flag, continuation points (canonical numbers)
    NextForeign(i64),             // BrowseNext of another session of the connection with this session's point
    AddNode,                      // an unrelated node is inserted
    AddRef(u32, u32, u32),        // hub, type, class: a new forward reference to a new node
    DelRef(u32, u32),             // hub, k: the k-th (mod length) forward reference is deleted
    DelNode(u32, u32),            // hub, k: the target node of that reference is deleted with its references
}
#[derive(Clone, Debug)]
pub struct Case { hubs: Vec<Hub>, ops: Vec<Op> }
pub struct P;

struct World {
    server_state: Arc<RwLock<ServerState>>,
    address_space: Arc<RwLock<AddressSpace>>,
    certificate_store: Arc<RwLock<CertificateStore>>,
    ns: u16,
    _server: Server,
}
thread_local! { static WORLD: World = make_world(); }
static CASE_NO: AtomicU32 = AtomicU32::new(0);

fn make_world() -> World {
    let dir = format!("/tmp/verif-c30-pki-{}", std::process::id());
    let server = ServerBuilder::new_sample().pki_dir(dir).server().expect("sample server");
    let server_state = server.server_state();
    let address_space = server.address_space();
    let certificate_store = server.certificate_store();
    let ns = { address_space.write().register_namespace("urn:verif-c30").unwrap() };
    World { server_state, address_space, certificate_store, ns, _server: server }
}

const ENDPOINT: &str = "opc.tcp://localhost:4855/";
fn hdr(tok: &NodeId) -> RequestHeader { RequestHeader::new(tok, &DateTime::now(), 1) }

fn insert_node(a: &mut AddressSpace, id: &NodeId, cls: u32) {
    let name = match &id.identifier { Identifier::String(s) => s.as_ref().to_string(), _ => "n".to_string() };
    match cls {
        1 => { ObjectBuilder::new(id, name.as_str(), name.as_str()).insert(a); }
        2 => { VariableBuilder::new(id, name.as_str(), name.as_str()).data_type(DataTypeId::Int32).value(0i32).insert(a); }
        4 => { a.insert(opcua::server::address_space::method::Method::new(id, name.as_str(), name.as_str(), false, false), None::<&[(&NodeId, &ReferenceTypeId, ReferenceDirection)]>); }
        8 => { ObjectTypeBuilder::new(id, name.as_str(), name.as_str()).insert(a); }
        _ => {}
    }
}

struct Run<'a> {
    w: &'a World,
    case_no: u32,
    handler: VerifMessageHandler,
    sender: MessageSender,
    responses: VerifResponses,
    sessions: Arc<RwLock<SessionManager>>,
    tokens: Vec<NodeId>,
    session_ids: Vec<NodeId>,
    req_id: u32,
    cps: Vec<ByteString>,              // continuation points in order of first appearance (canonical number = index + 1)
    ids: HashMap<NodeId, i128>,        // node -> canonical number of the reference that leads to it
    fwd: Vec<Vec<(u32, NodeId)>>,      // current forward references of each hub (type, target)
    fwd_made: Vec<u32>,                // forward references ever made per hub
    extra: Vec<NodeId>,
}

impl<'a> Run<'a> {
    fn send(&mut self, m: SupportedMessage) -> Option<SupportedMessage> {
        self.req_id += 1;
        let _ = self.handler.handle_message(self.req_id, &m, &self.sender);
        let mut first = None;
        while let Some((_, msg)) = self.responses.verif_try_next() { if first.is_none() { first = Some(msg); } }
        first
    }
    fn hub_id(&self, h: u32) -> NodeId { NodeId::new(self.w.ns, format!("c30-{}-h{}", self.case_no, h)) }
    fn cp_number(&mut self, cp: &ByteString) -> i128 {
        if cp.is_null() { return 0; }
        if let Some(i) = self.cps.iter().position(|c| c == cp) { return (i + 1) as i128; }
        self.cps.push(cp.clone());
        self.cps.len() as i128
    }
    fn cp_bytes(&self, n: i64) -> ByteString {
        if n >= 1 && (n as usize) <= self.cps.len() { self.cps[n as usize - 1].clone() }
        else { ByteString::from(vec![0xAB, 0xCD, (n & 0xff) as u8, 1, 2, 3, 4]) } // never issued (7 bytes; real ones have 6)
    }
    fn results(&mut self, rs: &Option<Vec<BrowseResult>>, out: &mut Vec<i128>) {
        match rs {
            None => out.push(0),
            Some(rs) => {
                out.push(rs.len() as i128);
                for r in rs {
                    let st = if r.status_code == StatusCode::Good { 0 }
                        else if r.status_code == StatusCode::BadNodeIdUnknown { 1 }
                        else if r.status_code == StatusCode::BadContinuationPointInvalid { 2 } else { 3 };
                    out.push(st);
                    let cpn = self.cp_number(&r.continuation_point);
                    out.push(cpn);
                    match &r.references {
                        None => out.push(-1),
                        Some(refs) => {
                            out.push(refs.len() as i128);
                            for rd in refs { out.push(*self.ids.get(&rd.node_id.node_id).unwrap_or(&-9)); }
                        }
                    }
                }
            }
        }
    }
    fn store_len(&self, s: usize) -> i128 {
        let sm = self.sessions.read();
        match sm.find_session_by_id(&self.session_ids[s]) { Some(s) => s.read().verif_browse_continuation_point_ids().len() as i128, None => -1 }
    }
}

fn exec_case(c: &Case) -> (Vec<i128>, Vec<Hub>) {
    WORLD.with(|w| {
        let case_no = CASE_NO.fetch_add(1, Ordering::Relaxed);
        let decoding_options = { let s = w.server_state.read(); let c = s.config.read(); c.decoding_options() };
        let channel = Arc::new(RwLock::new(SecureChannel::new(w.certificate_store.clone(), Role::Server, decoding_options)));
        channel.write().set_secure_channel_id(1);
        let sessions = Arc::new(RwLock::new(SessionManager::default()));
        let handler = VerifMessageHandler::new(channel.clone(), w.certificate_store.clone(), w.server_state.clone(), sessions.clone(), w.address_space.clone());
        let (sender, responses) = MessageSender::verif_in_memory();
        let mut r = Run { w, case_no, handler, sender, responses, sessions, tokens: vec![], session_ids: vec![], req_id: 0,
                          cps: vec![], ids: HashMap::new(), fwd: vec![], fwd_made: vec![], extra: vec![] };
        // two activated sessions on the connection
        for _ in 0..2 {
            let req = CreateSessionRequest {
                request_header: hdr(&NodeId::null()), client_description: ApplicationDescription::default(), server_uri: UAString::null(),
                endpoint_url: UAString::from(ENDPOINT), session_name: UAString::from("verif"), client_nonce: ByteString::null(),
                client_certificate: ByteString::null(), requested_session_timeout: 60000.0, max_response_message_size: 0,
            };
            if let Some(SupportedMessage::CreateSessionResponse(resp)) = r.send(req.into()) {
                r.tokens.push(resp.authentication_token.clone()); r.session_ids.push(resp.session_id.clone());
            } else { panic!("create session failed"); }
            let tok = r.tokens.last().unwrap().clone();
            let act = ActivateSessionRequest {
                request_header: hdr(&tok), client_signature: SignatureData::null(), client_software_certificates: None, locale_ids: None,
                user_identity_token: ExtensionObject::from_encodable(ObjectId::AnonymousIdentityToken_Encoding_DefaultBinary,
                    &AnonymousIdentityToken { policy_id: UAString::from("anonymous") }),
                user_token_signature: SignatureData::null(),
            };
            match r.send(act.into()) { Some(SupportedMessage::ActivateSessionResponse(_)) => {}, _ => panic!("activate failed") }
        }
        // the address-space fragment
        let mut hubs_out = Vec::new();
        {
            let mut a = w.address_space.write();
            for (h, hub) in c.hubs.iter().enumerate() {
                let hid = r.hub_id(h as u32);
                ObjectBuilder::new(&hid, format!("hub{}", h), format!("hub{}", h)).insert(&mut *a);
                let mut fl = Vec::new();
                for (k, rf) in hub.fwd.iter().enumerate() {
                    let tid = NodeId::new(w.ns, format!("c30-{}-h{}-f{}", case_no, h, k));
                    insert_node(&mut a, &tid, rf.cls);
                    a.insert_reference(&hid, &tid, &NodeId::new(0, rf.ty));
                    r.ids.insert(tid.clone(), (1000 * h + k + 1) as i128);
                    fl.push((rf.ty, tid));
                }
                r.fwd.push(fl);
                r.fwd_made.push(hub.fwd.len() as u32);
                let mut made: Vec<(NodeId, Ref)> = Vec::new();
                for (k, rf) in hub.inv.iter().enumerate() {
                    let sid = NodeId::new(w.ns, format!("c30-{}-h{}-i{}", case_no, h, k));
                    insert_node(&mut a, &sid, rf.cls);
                    a.insert_reference(&sid, &hid, &NodeId::new(0, rf.ty));
                    made.push((sid, rf.clone()));
                }
                // the order in which the address space enumerates the inverse references (a HashSet order)
                let (probe, _) = a.find_references_by_direction(&hid, BrowseDirection::Inverse, Option::<(NodeId, bool)>::None);
                let mut inv_sorted = Vec::new();
                for (pos, rf) in probe.iter().enumerate() {
                    if let Some((_, spec)) = made.iter().find(|(sid, _)| *sid == rf.target_node) {
                        r.ids.insert(rf.target_node.clone(), (1000 * h + 500 + pos + 1) as i128);
                        inv_sorted.push(spec.clone());
                    }
                }
                assert_eq!(inv_sorted.len(), made.len(), "probe of inverse references incomplete");
                hubs_out.push(Hub { fwd: hub.fwd.clone(), inv: inv_sorted });
            }
        }
        let tok = r.tokens[0].clone();
        let tok2 = r.tokens[1].clone();
        let mut out = Vec::new();
        for op in &c.ops {
            match op {
                Op::Browse(k, descs) => {
                    let nodes: Vec<BrowseDescription> = descs.iter().map(|d| BrowseDescription {
                        node_id: r.hub_id(d.hub),
                        browse_direction: match d.dir { 0 => BrowseDirection::Forward, 1 => BrowseDirection::Inverse, _ => BrowseDirection::Both },
                        reference_type_id: if d.filter == 0 { NodeId::null() } else { NodeId::new(0, d.filter) },
                        include_subtypes: d.subtypes, node_class_mask: d.mask, result_mask: 0x3f,
                    }).collect();
                    let req = BrowseRequest {
                        request_header: hdr(&tok),
                        view: ViewDescription { view_id: NodeId::null(), timestamp: DateTime::null(), view_version: 0 },
                        requested_max_references_per_node: *k, nodes_to_browse: Some(nodes),
                    };
                    match r.send(req.into()) {
                        Some(SupportedMessage::BrowseResponse(resp)) => { let rs = resp.results.clone(); r.results(&rs, &mut out); }
                        _ => out.push(-1),
                    }
                }
                Op::Next(release, ids) => {
                    let cps: Vec<ByteString> = ids.iter().map(|n| r.cp_bytes(*n)).collect();
                    let req = BrowseNextRequest { request_header: hdr(&tok), release_continuation_points: *release, continuation_points: Some(cps) };
                    match r.send(req.into()) {
                        Some(SupportedMessage::BrowseNextResponse(resp)) => { let rs = resp.results.clone(); r.results(&rs, &mut out); }
                        _ => out.push(-1),
                    }
                }
                Op::NextForeign(n) => {
                    let req = BrowseNextRequest { request_header: hdr(&tok2), release_continuation_points: false, continuation_points: Some(vec![r.cp_bytes(*n)]) };
                    match r.send(req.into()) {
                        Some(SupportedMessage::BrowseNextResponse(resp)) => { let rs = resp.results.clone(); r.results(&rs, &mut out); }
                        _ => out.push(-1),
                    }
                    out.push(r.store_len(1));
                }
                Op::AddNode | Op::AddRef(..) | Op::DelRef(..) | Op::DelNode(..) => {
                    let mut a = w.address_space.write();
                    let before = a.last_modified();
                    match op {
                        Op::AddNode => {
                            let id = NodeId::new(w.ns, format!("c30-{}-x{}", case_no, r.extra.len()));
                            insert_node(&mut a, &id, 1);
                            r.extra.push(id);
                        }
                        Op::AddRef(h, ty, cls) => {
                            if (*h as usize) < r.fwd.len() {
                                let h = *h as usize;
                                let k = r.fwd_made[h];
                                let hid = r.hub_id(h as u32);
                                let tid = NodeId::new(w.ns, format!("c30-{}-h{}-f{}", case_no, h, k));
                                insert_node(&mut a, &tid, *cls);
                                a.insert_reference(&hid, &tid, &NodeId::new(0, *ty));
                                r.ids.insert(tid.clone(), (1000 * h as u32 + k + 1) as i128);
                                r.fwd[h].push((*ty, tid));
                                r.fwd_made[h] += 1;
                            }
                        }
                        Op::DelRef(h, k) | Op::DelNode(h, k) => {
                            if (*h as usize) < r.fwd.len() && !r.fwd[*h as usize].is_empty() {
                                let h = *h as usize;
                                let i = (*k as usize) % r.fwd[h].len();
                                let (ty, tid) = r.fwd[h].remove(i);
                                let hid = r.hub_id(h as u32);
                                if matches!(op, Op::DelRef(..)) { a.delete_reference(&hid, &tid, NodeId::new(0, ty)); }
                                else { a.delete(&tid, true); }
                            }
                        }
                        _ => {}
                    }
                    out.push(if a.last_modified() != before { 1 } else { 0 });
                }
            }
            out.push(r.store_len(0));
        }
        // clean up the shared address space
        { let sm = r.sessions.clone(); sm.write().clear(w.address_space.clone()); }
        {
            let mut a = w.address_space.write();
            let keys: Vec<NodeId> = r.ids.keys().cloned().collect();
            for id in keys { a.delete(&id, true); }
            for h in 0..c.hubs.len() { let hid = r.hub_id(h as u32); a.delete(&hid, true); }
            for id in r.extra.clone() { a.delete(&id, true); }
        }
        (out, hubs_out)
    })
}

const REF_TYPES: [u32; 6] = [35, 46, 47, 49, 48, 41];
const FILTERS: [u32; 13] = [0, 31, 32, 33, 34, 35, 36, 41, 44, 46, 47, 48, 49];
const CLASSES: [u32; 5] = [1, 2, 4, 8, 0];

fn gen_ref(r: &mut Rng) -> Ref {
    Ref { ty: *r.pick(&REF_TYPES), cls: if r.chance(1, 12) { 0 } else { CLASSES[r.below(4) as usize] } }
}
fn gen_desc(r: &mut Rng, nhubs: u32) -> Desc {
    Desc {
        hub: if r.chance(1, 25) { nhubs + r.below(2) as u32 } else { r.below(nhubs as u64) as u32 },
        dir: r.below(3) as u32,
        filter: if r.chance(1, 2) { 0 } else { *r.pick(&FILTERS) },
        subtypes: r.chance(1, 2),
        mask: match r.below(6) { 0 | 1 | 2 => 0, 3 => *r.pick(&[1u32, 2, 4, 8]), 4 => r.below(16) as u32, _ => *r.pick(&[256u32, 255, 3, 0xffff_ff00]) },
    }
}
fn gen_case(r: &mut Rng) -> Case {
    let nhubs = 1 + r.below(3) as u32;
    let big = r.chance(1, 5);
    let hubs: Vec<Hub> = (0..nhubs).map(|_| {
        let nf = if big { 8 + r.below(20) } else { r.below(10) };
        let ni = r.below(6);
        Hub { fwd: (0..nf).map(|_| gen_ref(r)).collect(), inv: (0..ni).map(|_| gen_ref(r)).collect() }
    }).collect();
    let n = 3 + r.below(14);
    let mut ops = Vec::new();
    let mut cps_guess: i64 = 0; // upper bound on the continuation points issued so far
    let small = r.chance(2, 3);
    for _ in 0..n {
        let c = r.below(100);
        if c < 35 || cps_guess == 0 {
            let nd = if r.chance(1, 12) { 2 + r.below(4) } else { 1 + r.below(2) };
            let k = if small { 1 + r.below(4) as u32 } else { match r.below(5) { 0 => 0, 1 => 300, _ => 1 + r.below(12) as u32 } };
            ops.push(Op::Browse(k, (0..nd).map(|_| gen_desc(r, nhubs)).collect()));
            cps_guess += nd as i64;
        } else if c < 72 {
            // mostly the newest points, sometimes old / repeated / bogus ones
            let m = if r.chance(1, 6) { 2 + r.below(2) } else { 1 };
            let ids: Vec<i64> = (0..m).map(|_| match r.below(10) { 0 => 0, 1 => cps_guess + 1 + r.below(3) as i64, 2 | 3 => 1 + r.below(cps_guess as u64) as i64, _ => (cps_guess - r.below(3) as i64).max(1) }).collect();
            ops.push(Op::Next(false, ids.clone()));
            cps_guess += ids.len() as i64;
        } else if c < 80 {
            let m = 1 + r.below(2);
            ops.push(Op::Next(true, (0..m).map(|_| (cps_guess - r.below(4) as i64).max(0)).collect()));
        } else if c < 84 {
            ops.push(Op::NextForeign((cps_guess - r.below(2) as i64).max(1)));
        } else {
            ops.push(match r.below(5) {
                0 => Op::AddNode,
                1 | 2 => Op::AddRef(r.below(nhubs as u64) as u32, *r.pick(&REF_TYPES), CLASSES[r.below(4) as usize]),
                3 => Op::DelRef(r.below(nhubs as u64) as u32, r.below(8) as u32),
                _ => Op::DelNode(r.below(nhubs as u64) as u32, r.below(8) as u32),
            });
        }
    }
    Case { hubs, ops }
}

fn organizes(n: usize) -> Vec<Ref> { (0..n).map(|i| Ref { ty: 35, cls: [1, 2, 4, 8][i % 4] }).collect() }
fn all(hub: u32) -> Desc { Desc { hub, dir: 0, filter: 0, subtypes: false, mask: 0 } }

impl Property for P {
    type Case = Case;
    fn fixed(tier: &str) -> Vec<Case> {
        use Op::*;
        let mut v = Vec::new();
        // page through 10 references with every page size 1..11 and 0
        for k in [1u32, 2, 3, 4, 5, 9, 10, 11, 0] {
            let mut ops = vec![Browse(k, vec![all(0)])];
            for i in 1..=11 { ops.push(Next(false, vec![i])); }
            v.push(Case { hubs: vec![Hub { fwd: organizes(10), inv: vec![] }], ops });
        }
        // used once; released; unknown
        v.push(Case { hubs: vec![Hub { fwd: organizes(7), inv: organizes(3) }], ops: vec![
            Browse(2, vec![all(0)]), Next(false, vec![1]), Next(false, vec![1]), Next(true, vec![2]), Next(false, vec![2]),
            Next(false, vec![0]), Next(false, vec![9]), Browse(2, vec![Desc { hub: 0, dir: 2, filter: 0, subtypes: false, mask: 0 }]),
            Next(false, vec![3, 3]), NextForeign(4), Next(false, vec![4]), Next(false, vec![5]), Next(false, vec![6]), Next(false, vec![7]), Next(false, vec![])] });
        // invalid after an address-space modification of each kind
        for m in [AddNode, AddRef(0, 35, 1), DelRef(0, 0), DelNode(0, 1), DelRef(1, 0)] {
            v.push(Case { hubs: vec![Hub { fwd: organizes(6), inv: vec![] }], ops: vec![
                Browse(2, vec![all(0)]), Browse(3, vec![all(0)]), m, Next(false, vec![1]), Next(false, vec![2]), Browse(4, vec![all(0)]), Next(false, vec![3]), Next(false, vec![4])] });
        }
        // more continuation points than the session keeps (20): the oldest are dropped
        {
            let mut ops = Vec::new();
            for _ in 0..23 { ops.push(Browse(1, vec![all(0)])); }
            for i in 1..=23 { ops.push(Next(false, vec![i])); }
            v.push(Case { hubs: vec![Hub { fwd: organizes(3), inv: vec![] }], ops });
            // ... also within a single request
            v.push(Case { hubs: vec![Hub { fwd: organizes(3), inv: vec![] }], ops: vec![
                Browse(1, (0..23).map(|_| all(0)).collect()), Next(false, (1..=23).collect()), Next(true, (20..=50).collect()), Browse(1, (0..51).map(|_| all(0)).collect())] });
        }
        // exactly as many continuation points as the session keeps (20), each with several pages
        // left, continued newest first / from the middle: using a point must not cost another one
        for order in 0..3 {
            let mut ops = Vec::new();
            for _ in 0..20 { ops.push(Browse(3, vec![all(0)])); }
            let idx: Vec<i64> = match order { 0 => (1..=20).rev().collect(), 1 => vec![10, 1, 20, 2, 11], _ => vec![20, 1] };
            let mut next_id = 20i64;
            let mut live: Vec<i64> = (1..=20).collect();
            for i in idx {
                // continue point i twice; the follow-up point gets the next canonical number
                let pos = live.iter().position(|x| *x == i).unwrap();
                ops.push(Next(false, vec![i]));
                next_id += 1; live[pos] = next_id;
                ops.push(Next(false, vec![next_id]));
                next_id += 1; live[pos] = next_id;
            }
            for x in live { ops.push(Next(false, vec![x])); }
            v.push(Case { hubs: vec![Hub { fwd: organizes(10), inv: vec![] }], ops });
        }
        // filters: direction x type filter x subtypes x node class mask on a mixed hub
        {
            let hub = Hub {
                fwd: vec![Ref { ty: 35, cls: 1 }, Ref { ty: 47, cls: 2 }, Ref { ty: 46, cls: 2 }, Ref { ty: 49, cls: 1 }, Ref { ty: 48, cls: 1 }, Ref { ty: 41, cls: 8 },
                          Ref { ty: 47, cls: 4 }, Ref { ty: 35, cls: 0 }, Ref { ty: 47, cls: 1 }],
                inv: vec![Ref { ty: 35, cls: 1 }, Ref { ty: 47, cls: 1 }, Ref { ty: 41, cls: 8 }, Ref { ty: 46, cls: 2 }],
            };
            for dir in 0..3u32 {
                for (filter, subtypes) in [(0u32, false), (33, true), (33, false), (44, true), (47, true), (47, false), (32, true), (31, true), (35, false)] {
                    let descs: Vec<Desc> = [0u32, 1, 2, 6, 8, 256].iter().map(|m| Desc { hub: 0, dir, filter, subtypes, mask: *m }).collect();
                    let n = descs.len() as i64;
                    v.push(Case { hubs: vec![hub.clone()], ops: vec![Browse(2, descs), Next(false, (1..=n).collect()), Next(false, (n + 1..=2 * n).collect()), Next(false, (2 * n + 1..=3 * n).collect())] });
                }
            }
        }
        // the cap of 255 references per response
        for (n, k) in [(255usize, 0u32), (256, 0), (256, 300), (300, 255), (260, 256)] {
            v.push(Case { hubs: vec![Hub { fwd: organizes(n), inv: vec![] }], ops: vec![Browse(k, vec![all(0)]), Next(false, vec![1]), Next(false, vec![2])] });
        }
        // unknown node, empty hub
        v.push(Case { hubs: vec![Hub { fwd: vec![], inv: vec![] }], ops: vec![Browse(1, vec![all(0), all(1), all(7)]), Browse(1, vec![]), Next(false, vec![1])] });
        if tier == "thorough" {
            for n in 0..=9usize { for k in 1..=10u32 {
                let mut ops = vec![Browse(k, vec![Desc { hub: 0, dir: 2, filter: 0, subtypes: false, mask: 0 }])];
                for i in 1..=10 { ops.push(Next(false, vec![i])); }
                v.push(Case { hubs: vec![Hub { fwd: organizes(n), inv: organizes(n / 2) }], ops });
            } }
        }
        v
    }
    fn gen(r: &mut Rng) -> Case { gen_case(r) }
    fn exec(c: &Case) -> Out {
        let cc = c.clone();
        let (out, hubs) = match guarded(|| exec_case(&cc)) { Ok(o) => o, Err(e) => { if std::env::var("VERIF_DEBUG").is_ok() { eprintln!("panic: {}", e); } (vec![-2], c.hubs.clone()) } };
        let nb = c.ops.iter().filter(|o| matches!(o, Op::Browse(..))).count();
        let nn = c.ops.iter().filter(|o| matches!(o, Op::Next(false, _))).count();
        let modi = c.ops.iter().any(|o| matches!(o, Op::AddNode | Op::AddRef(..) | Op::DelRef(..) | Op::DelNode(..)));
        let rel = c.ops.iter().any(|o| matches!(o, Op::Next(true, _)));
        let tag = if nb == 0 { "trivial-nobrowse".to_string() } else {
            format!("{}{}{}", if nn > 0 { "paged" } else { "browse" }, if modi { "-modify" } else { "" }, if rel { "-release" } else { "" })
        };
        let rf = |x: &Ref| format!("({}, {})", x.ty, x.cls);
        let hub_t = |h: &Hub| format!("({}, {})", coq_list(&h.fwd, rf), coq_list(&h.inv, rf));
        let desc_t = |d: &Desc| format!("mk_desc {} {} {} {} {}", d.hub, d.dir, d.filter, coq_bool(d.subtypes), d.mask);
        let op_t = |o: &Op| match o {
            Op::Browse(k, ds) => format!("Browse {} {}", k, coq_list(ds, desc_t)),
            Op::Next(rel, ids) => format!("Next {} {}", coq_bool(*rel), zlist(ids.iter().map(|i| *i as i128))),
            Op::NextForeign(n) => format!("NextForeign {}", z(*n as i128)),
            Op::AddNode => "AddNode".to_string(),
            Op::AddRef(h, t, cl) => format!("AddRef {} {} {}", h, t, cl),
            Op::DelRef(h, k) => format!("DelRef {} {}", h, k),
            Op::DelNode(h, k) => format!("DelNode {} {}", h, k),
        };
        let term = format!("(mk_case {} {})", coq_list(&hubs, hub_t), coq_list(&c.ops, op_t));
        Out { tag, term, out }
    }
}
fn main() {
    run_main::<P>();
    let _ = std::fs::remove_dir_all(format!("/tmp/verif-c30-pki-{}", std::process::id()));
}
