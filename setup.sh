#!/bin/sh
# Run once after a fresh restore, offline: build the Coq development and the Rust harness.
set -e
cd "$(dirname "$0")"
export CARGO_NET_OFFLINE=true
python3 - <<'PY'
import sys
sys.path.insert(0, "tools")
import check, glob, os, json
for f in sorted(glob.glob("props/C*.json")):
    m = json.load(open(f))
    check.run_translators(m, [])
check.ensure_makefile()
PY
(cd coq && timeout 3000 make -j16 > ../.cache_coq_build.log 2>&1) || { tail -50 .cache_coq_build.log; echo "coq build failed (checks will report it per property)"; }
rm -f .cache_coq_build.log
# record the per-property proof results (Print Assumptions output) for the sources as they are now
python3 - <<'PY'
import sys, glob, json
sys.path.insert(0, "tools")
import check
for f in sorted(glob.glob("props/C*.json")):
    m = json.load(open(f))
    r = check.build_props(m["property_id"], m, [])
    print("proofs", m["property_id"], "ok" if r.get("ok") else "FAILED: " + r.get("reason", ""))
PY
cp "${VERIF_REPO:-/repo}/Cargo.lock" harness/Cargo.lock
# one binary per property; a binary that does not build is reported by its own check
(cd harness && cargo build --offline -q --bins --keep-going 2>&1 | grep -E "^error" -A8 || true)
echo "setup done"
