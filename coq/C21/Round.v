(* C21 — one scheduling round (Subscriptions::tick) against the reference evaluator: the
   responses of the round are accepted one by one, requests are consumed oldest first, every
   subscription's queue is delivered from its head. *)
From Coq Require Import List ZArith Bool Lia.
Import ListNotations.
From OV Require Import C21.SysLemmas C21.Model C21.SubTick.
Open Scope Z_scope.

(* ----------------------------------------------------------------- spec sub lists *)
Lemma find_ssub_some id l p : find_ssub id l = Some p -> In p l /\ p_id p = id.
Proof.
  induction l as [|a r IH]; cbn [find_ssub]; [discriminate|].
  destruct (Z.eqb_spec (p_id a) id) as [E|E]; intros H.
  - inversion H; subst. split; [left; reflexivity | reflexivity].
  - destruct (IH H) as [H1 H2]. split; [right; exact H1 | exact H2].
Qed.

Lemma find_replace_ssub_same p' l :
  (exists p, find_ssub (p_id p') l = Some p) -> find_ssub (p_id p') (replace_ssub p' l) = Some p'.
Proof.
  induction l as [|a r IH]; cbn [replace_ssub find_ssub]; [intros (p & H); discriminate|].
  destruct (Z.eqb_spec (p_id a) (p_id p')) as [E|E]; intros H; cbn [find_ssub].
  - rewrite Z.eqb_refl. reflexivity.
  - destruct (Z.eqb_spec (p_id a) (p_id p')); [contradiction|]. apply IH. exact H.
Qed.

Lemma find_replace_ssub_other j p' l :
  j <> p_id p' -> find_ssub j (replace_ssub p' l) = find_ssub j l.
Proof.
  intros Hne. induction l as [|a r IH]; cbn [replace_ssub find_ssub]; [reflexivity|].
  destruct (Z.eqb_spec (p_id a) (p_id p')) as [E|E]; cbn [find_ssub].
  - destruct (Z.eqb_spec (p_id p') j); [congruence|].
    destruct (Z.eqb_spec (p_id a) j); [congruence|]. reflexivity.
  - destruct (Z.eqb_spec (p_id a) j); [reflexivity|]. exact IH.
Qed.

Lemma pids_replace p' l : map p_id (replace_ssub p' l) = map p_id l.
Proof.
  induction l as [|a r IH]; cbn [replace_ssub map]; [reflexivity|].
  destruct (Z.eqb_spec (p_id a) (p_id p')) as [E|E]; cbn [map]; [rewrite E; reflexivity | f_equal; exact IH].
Qed.

Lemma data_eqb_refl l : data_eqb l l = true.
Proof. induction l as [|d l IH]; cbn [data_eqb]; [reflexivity|]. unfold datum_eqb. rewrite !Z.eqb_refl. exact IH. Qed.
Lemma zlist_eqb_refl l : zlist_eqb l l = true.
Proof. induction l; cbn; [reflexivity|]. rewrite Z.eqb_refl. assumption. Qed.

(* -------------------------------------------------------- the fields responses leave alone *)
Definition zsame (z z' : spec) : Prop :=
  z_now z' = z_now z /\ z_vars z' = z_vars z /\ z_nextsub z' = z_nextsub z /\
  z_nextrid z' = z_nextrid z /\ z_before z' = z_before z /\ z_track z' = z_track z /\
  map p_id (z_subs z') = map p_id (z_subs z).

Lemma zsame_refl z : zsame z z.
Proof. unfold zsame. repeat split. Qed.
Lemma zsame_trans a b c : zsame a b -> zsame b c -> zsame a c.
Proof. unfold zsame. intuition congruence. Qed.

(* the responses of a round in a normal form: spec_resps does not look at more / avail / results *)
Definition tx_resps (tx : list (Z * req * msg)) : list resp :=
  map (fun e => RPub (q_rid (snd (fst e))) (fst (fst e)) 0 [] [] (snd e)) tx.

Lemma spec_resps_transmit : forall tx rt z,
  spec_resps (snd (transmit tx rt)) z = spec_resps (tx_resps tx) z.
Proof.
  induction tx as [|[[id q] m] r IH]; intros rt z; [reflexivity|].
  cbn [transmit]. destruct (transmit r (rt_insert (id, m_seq m) m rt)) as [rt2 rs] eqn:E.
  cbn [snd tx_resps map fst spec_resps].
  specialize (IH (rt_insert (id, m_seq m) m rt)). rewrite E in IH. cbn [snd] in IH.
  destruct (z_out z) as [|oldest out']; [reflexivity|].
  destruct (negb (q_rid q =? oldest)); [reflexivity|].
  destruct (negb (lookup_seq id (z_lastseq z) <? m_seq m)); [reflexivity|].
  destruct (z_track z && (m_kind m =? 1)).
  - destruct (find_ssub id (z_subs z)) as [p|]; [|apply IH].
    destruct (p_pending p) as [|d rest]; [reflexivity|]. destruct (data_eqb (m_data m) d); [apply IH | reflexivity].
  - apply IH.
Qed.

Lemma spec_resps_app : forall a b z,
  spec_resps (a ++ b) z = match spec_resps a z with Some z1 => spec_resps b z1 | None => None end.
Proof.
  induction a as [|r a IH]; intros b z; [reflexivity|].
  cbn [app spec_resps]. destruct r as [rid sub more avail results m | rid st].
  - destruct (z_out z) as [|oldest out']; [reflexivity|].
    destruct (negb (rid =? oldest)); [reflexivity|].
    destruct (negb (lookup_seq sub (z_lastseq z) <? m_seq m)); [reflexivity|].
    destruct (z_track z && (m_kind m =? 1)); [|apply IH].
    destruct (find_ssub sub (z_subs z)) as [p|]; [|apply IH].
    destruct (p_pending p) as [|d rest]; [reflexivity|]. destruct (data_eqb (m_data m) d); [apply IH | reflexivity].
  - destruct (existsb (Z.eqb rid) (z_out z)); [apply IH | reflexivity].
Qed.

(* ------------------------------------------- delivering one subscription's notifications *)
Lemma lookup_seq_cons_same id q l : lookup_seq id ((id, q) :: l) = q.
Proof. cbn [lookup_seq]. rewrite Z.eqb_refl. reflexivity. Qed.
Lemma lookup_seq_cons_other j id q l : j <> id -> lookup_seq j ((id, q) :: l) = lookup_seq j l.
Proof. intros H. cbn [lookup_seq]. destruct (Z.eqb_spec id j); [congruence | reflexivity]. Qed.

Definition pend_rel (z : spec) (id : Z) (ns : list msg) (extra : list (list datum)) (p0 : option ssub) : Prop :=
  z_track z = true ->
  match p0 with
  | Some p => find_ssub id (z_subs z) = Some (set_p_pending p (data_of ns ++ extra))
  | None => find_ssub id (z_subs z) = None
  end.

Lemma deliver_sub id tl : forall reqs ns tx1 reqs1 ns' z hi extra p0,
  pair_up id reqs ns = (tx1, reqs1, ns') ->
  z_out z = map q_rid reqs ++ tl ->
  chain (lookup_seq id (z_lastseq z)) (map m_seq ns) hi ->
  pend_rel z id ns extra p0 ->
  exists z', spec_resps (tx_resps tx1) z = Some z' /\ zsame z z' /\ z_out z' = map q_rid reqs1 ++ tl /\
    chain (lookup_seq id (z_lastseq z')) (map m_seq ns') hi /\
    (forall j, j <> id -> lookup_seq j (z_lastseq z') = lookup_seq j (z_lastseq z) /\
                          find_ssub j (z_subs z') = find_ssub j (z_subs z)) /\
    pend_rel z' id ns' extra p0.
Proof.
  induction reqs as [|q reqs IH]; intros ns tx1 reqs1 ns' z hi extra p0 Hp Hout Hch Hpend.
  - cbn in Hp. inversion Hp; subst. exists z. cbn. repeat split; auto; apply zsame_refl.
  - destruct ns as [|n ns]; cbn [pair_up] in Hp.
    + inversion Hp; subst. exists z. cbn [tx_resps map spec_resps]. repeat split; auto; apply zsame_refl.
    + destruct (pair_up id reqs ns) as [[tx r] m'] eqn:E. inversion Hp; subst. clear Hp.
      cbn [map app] in Hout, Hch. cbn [chain] in Hch. destruct Hch as [Hlt Hch].
      change (tx_resps ((id, q, n) :: tx)) with (RPub (q_rid q) id 0 [] [] n :: tx_resps tx).
      cbn [spec_resps]. rewrite Hout. rewrite Z.eqb_refl. cbn [negb].
      destruct (Z.ltb_spec (lookup_seq id (z_lastseq z)) (m_seq n)) as [_|Hge]; [|lia]. cbn [negb].
      (* the state after this response *)
      assert (Hnext : exists z1,
                (if z_track z && (m_kind n =? 1)
                 then match find_ssub id (z_subs z) with
                      | Some s => match p_pending s with
                                  | d :: rest => if data_eqb (m_data n) d
                                                 then spec_resps (tx_resps tx)
                                                        (mk_spec (z_now z) (z_vars z) (replace_ssub (set_p_pending s rest) (z_subs z))
                                                                 (z_nextsub z) (map q_rid reqs ++ tl) (z_nextrid z) ((id, m_seq n) :: z_lastseq z) (z_before z) (z_track z))
                                                 else None
                                  | [] => None
                                  end
                      | None => spec_resps (tx_resps tx)
                                  (mk_spec (z_now z) (z_vars z) (z_subs z) (z_nextsub z) (map q_rid reqs ++ tl) (z_nextrid z)
                                           ((id, m_seq n) :: z_lastseq z) (z_before z) (z_track z))
                      end
                 else spec_resps (tx_resps tx)
                        (mk_spec (z_now z) (z_vars z) (z_subs z) (z_nextsub z) (map q_rid reqs ++ tl) (z_nextrid z)
                                 ((id, m_seq n) :: z_lastseq z) (z_before z) (z_track z)))
                = spec_resps (tx_resps tx) z1 /\
                zsame z z1 /\ z_out z1 = map q_rid reqs ++ tl /\ lookup_seq id (z_lastseq z1) = m_seq n /\
                (forall j, j <> id -> lookup_seq j (z_lastseq z1) = lookup_seq j (z_lastseq z) /\
                                      find_ssub j (z_subs z1) = find_ssub j (z_subs z)) /\
                pend_rel z1 id ns extra p0).
      { destruct (z_track z) eqn:Etr; cbn [andb].
        - unfold pend_rel in Hpend. specialize (Hpend Etr).
          destruct (Z.eqb_spec (m_kind n) 1) as [Ek|Ek].
          + (* a data change: it must be the oldest collected payload *)
            assert (Hd : data_of (n :: ns) = m_data n :: data_of ns).
            { unfold data_of. cbn [filter]. rewrite Ek. reflexivity. }
            destruct p0 as [p|].
            * rewrite Hpend. cbn [p_pending set_p_pending]. rewrite Hd. cbn [app]. rewrite data_eqb_refl.
              eexists. split; [reflexivity|]. cbn [z_out z_lastseq z_subs z_track].
              assert (Hpid : p_id (set_p_pending p (m_data n :: data_of ns ++ extra)) = id).
              { apply find_ssub_some in Hpend as [_ H]. exact H. }
              cbn [p_id set_p_pending] in Hpid.
              split; [unfold zsame; cbn; rewrite pids_replace; repeat split; auto|].
              split; [reflexivity|]. split; [apply lookup_seq_cons_same|].
              split.
              { intros j Hj. split; [apply lookup_seq_cons_other; exact Hj|].
                apply find_replace_ssub_other. cbn. congruence. }
              intros _. cbn [z_subs].
              assert (Hx : set_p_pending (set_p_pending p (m_data n :: data_of ns ++ extra)) (data_of ns ++ extra) = set_p_pending p (data_of ns ++ extra)) by reflexivity.
              rewrite Hx. rewrite <- Hpid at 1.
              change (p_id p) with (p_id (set_p_pending p (data_of ns ++ extra))).
              apply find_replace_ssub_same. cbn [p_id set_p_pending]. rewrite Hpid. eauto.
            * rewrite Hpend. eexists. split; [reflexivity|]. cbn [z_out z_lastseq z_subs z_track].
              split; [unfold zsame; cbn; repeat split; auto|]. split; [reflexivity|]. split; [apply lookup_seq_cons_same|].
              split; [intros j Hj; split; [apply lookup_seq_cons_other; exact Hj | reflexivity]|].
              intros _. exact Hpend.
          + eexists. split; [reflexivity|]. cbn [z_out z_lastseq z_subs z_track].
            assert (Hd : data_of (n :: ns) = data_of ns).
            { unfold data_of. cbn [filter]. destruct (Z.eqb_spec (m_kind n) 1); [contradiction | reflexivity]. }
            split; [unfold zsame; cbn; repeat split; auto|]. split; [reflexivity|]. split; [apply lookup_seq_cons_same|].
            split; [intros j Hj; split; [apply lookup_seq_cons_other; exact Hj | reflexivity]|].
            intros _. cbn [z_subs]. rewrite <- Hd. exact Hpend.
        - eexists. split; [reflexivity|]. cbn [z_out z_lastseq z_subs z_track].
          split; [unfold zsame; cbn; repeat split; auto|]. split; [reflexivity|]. split; [apply lookup_seq_cons_same|].
          split; [intros j Hj; split; [apply lookup_seq_cons_other; exact Hj | reflexivity]|].
          intros Habs. cbn in Habs. congruence. }
      destruct Hnext as (z1 & -> & Hs1 & Ho1 & Hl1 & Hf1 & Hp1).
      destruct (IH ns tx reqs1 ns' z1 hi extra p0 E Ho1) as (z' & A & B & C & D & F & G); [rewrite Hl1; exact Hch | exact Hp1|].
      exists z'. split; [exact A|]. split; [eapply zsame_trans; eassumption|]. split; [exact C|]. split; [exact D|].
      split; [|exact G].
      intros j Hj. destruct (F j Hj) as [F1 F2]. destruct (Hf1 j Hj) as [G1 G2]. split; congruence.
Qed.

(* ------------------------------------------------------------ the loop over subscriptions *)
Lemma pair_up_suffix id : forall reqs ns tx r m,
  pair_up id reqs ns = (tx, r, m) -> reqs = map (fun e => snd (fst e)) tx ++ r.
Proof.
  induction reqs as [|q reqs IH]; intros ns tx r m H.
  - cbn in H. inversion H; subst. reflexivity.
  - destruct ns as [|n ns]; cbn [pair_up] in H.
    + inversion H; subst. reflexivity.
    + destruct (pair_up id reqs ns) as [[tx1 r1] m1] eqn:E. inversion H; subst.
      cbn [map fst snd app]. f_equal. eapply IH. exact E.
Qed.

Lemma set_p_pending_eta p : set_p_pending p (p_pending p) = p.
Proof. destruct p. reflexivity. Qed.

Section Loop.
Variables (vars : list Z) (now : Z) (timer : bool) (B : Z) (tl : list Z).

Definition unvisited (subs : list sub) (z : spec) (id : Z) : Prop :=
  exists s, find_sub id subs = Some s /\ wf (lookup_seq id (z_lastseq z)) s /\ state_ok s /\
    s_lastseq s <= B /\
    (z_track z = true ->
     find_ssub id (z_subs z) = if s_state s =? 0 then None
                               else Some (T timer (s_state s) vars now (abs_sub s))).

Definition visited (subs' : list sub) (z' : spec) (id : Z) : Prop :=
  match find_sub id subs' with
  | Some s2 => wf (lookup_seq id (z_lastseq z')) s2 /\ state_ok s2 /\ s_lastseq s2 <= B + 1 /\
               (z_track z' = true -> s_state s2 <> 0 -> find_ssub id (z_subs z') = Some (abs_sub s2))
  | None => True
  end.

Lemma round_loop : forall idl subs reqs z,
  NoDup idl -> NoDup (ids subs) -> (forall id, In id idl -> unvisited subs z id) ->
  z_out z = map q_rid reqs ++ tl -> B + 3 < U32MAX ->
  exists subs' reqs' tx z',
    tick_ids_g sub_tick idl subs reqs vars now timer = Some (subs', reqs', tx) /\
    spec_resps (tx_resps tx) z = Some z' /\ zsame z z' /\ z_out z' = map q_rid reqs' ++ tl /\
    (forall id, In id idl -> visited subs' z' id) /\
    (forall j, ~ In j idl -> find_sub j subs' = find_sub j subs /\
                             find_ssub j (z_subs z') = find_ssub j (z_subs z) /\
                             lookup_seq j (z_lastseq z') = lookup_seq j (z_lastseq z)) /\
    (reqs' <> [] -> forall id s2, In id idl -> find_sub id subs' = Some s2 -> s_notifs s2 = []) /\
    (exists used, reqs = used ++ reqs') /\
    NoDup (ids subs') /\ (forall x, In x (ids subs') -> In x (ids subs)).
Proof.
  induction idl as [|id r IH]; intros subs reqs z Hnd Hnds HU Hout HB.
  - exists subs, reqs, [], z. cbn. repeat split; auto; try apply zsame_refl.
    + intros id [].
    + intros _ id s2 [].
    + exists []. reflexivity.
  - inversion Hnd as [|x l Hnotin Hndr]; subst.
    destruct (HU id (or_introl eq_refl)) as (s & Hf & Hwf & Hso & HBs & Htr).
    pose proof (find_sub_some _ _ _ Hf) as [Hin Hsid].
    destruct (sub_tick_summary (lookup_seq id (z_lastseq z)) s vars now timer (negb (is_nil reqs)) Hwf Hso ltac:(lia))
      as (s1 & added & E1 & Wf1 & So1 & SS & Hn1 & Hls & Hcl & extra & Hpend & Halive).
    destruct (pair_up id reqs (s_notifs s1)) as [[tx1 reqs1] ns] eqn:Ep.
    set (p0 := if s_state s =? 0 then None else Some (T timer (s_state s) vars now (abs_sub s))).
    assert (Hpr : pend_rel z id (s_notifs s1) extra p0).
    { intros Ht. specialize (Htr Ht). subst p0. destruct (s_state s =? 0); [exact Htr|].
      rewrite Htr. f_equal. rewrite <- Hpend. symmetry. apply set_p_pending_eta. }
    destruct Wf1 as (V1 & V2 & V3 & V4 & V5 & V6).
    destruct (deliver_sub id tl reqs (s_notifs s1) tx1 reqs1 ns z (s_lastseq s1) extra p0 Ep Hout V6 Hpr)
      as (z1 & D1 & D2 & D3 & D4 & D5 & D6).
    assert (Hid1 : s_id s1 = id) by (destruct SS as (-> & _); exact Hsid).
    set (s2 := set_notifs s1 ns).
    assert (HU1 : forall j, In j r -> unvisited (after_step id s1 ns subs) z1 j).
    { intros j Hj. assert (Hne : j <> id) by (intros ->; contradiction).
      destruct (HU j (or_intror Hj)) as (sj & Fj & Wj & Sj & Bj & Tj).
      destruct (D5 j Hne) as [L1 L2]. destruct D2 as (_ & _ & _ & _ & _ & Etr & _).
      exists sj. rewrite (after_step_other id s1 ns subs j Hid1 Hne), L1, L2, Etr. auto. }
    destruct (IH (after_step id s1 ns subs) reqs1 z1 Hndr (after_step_nodup id s1 ns subs Hnds) HU1 D3 HB)
      as (subs' & reqs' & tx2 & z' & R1 & R2 & R3 & R4 & R5 & R6 & R7 & (used2 & R8) & R9 & R10).
    exists subs', reqs', (tx1 ++ tx2), z'.
    destruct (R6 id Hnotin) as (G1 & G2 & G3).
    pose proof (pair_up_spec _ _ _ _ _ _ Ep) as (_ & P2 & _).
    pose proof (pair_up_suffix _ _ _ _ _ _ Ep) as Psuf.
    (* the head subscription after the round *)
    assert (Hhead : find_sub id (after_step id s1 ns subs) = Some s2 \/ find_sub id (after_step id s1 ns subs) = None).
    { unfold after_step. fold s2. destruct (_ && _).
      - right. apply find_remove_same. exact Hnds.
      - left. assert (Hid2 : s_id s2 = id) by exact Hid1. rewrite <- Hid2 at 1. apply find_replace_same.
        rewrite Hid2. rewrite <- Hsid. unfold ids. apply in_map. exact Hin. }
    split.
    { cbn [tick_ids_g]. unfold bind. rewrite Hf, E1, Ep. fold (after_step id s1 ns subs). rewrite R1. reflexivity. }
    split.
    { unfold tx_resps. rewrite map_app. fold (tx_resps tx1). fold (tx_resps tx2). rewrite spec_resps_app, D1. exact R2. }
    split; [eapply zsame_trans; eassumption|]. split; [exact R4|].
    split.
    { intros j [<-|Hj]; [|apply R5; exact Hj].
      unfold visited. rewrite G1. destruct Hhead as [-> | ->]; [|exact I].
      split; [unfold wf; subst s2; cbn [s_interval s_maxlife s_life s_seqnext s_lastseq s_notifs set_notifs]; rewrite G3; repeat split; assumption|].
      split; [exact So1|]. split; [subst s2; cbn [s_lastseq set_notifs]; lia|].
      intros Ht Hne. rewrite G2.
      assert (Hne1 : s_state s1 <> 0) by exact Hne.
      assert (Hnes : s_state s <> 0) by (intros Hz; apply Hne1; apply Hcl; exact Hz).
      destruct (Halive Hne1) as [-> Habs].
      assert (Ht1 : z_track z1 = true) by (destruct R3 as (_ & _ & _ & _ & _ & <- & _); exact Ht).
      specialize (D6 Ht1). subst p0. destruct (Z.eqb_spec (s_state s) 0); [contradiction|].
      rewrite D6, <- Habs, app_nil_r. reflexivity. }
    split.
    { intros j Hj. assert (Hne : j <> id) by (intros ->; apply Hj; left; reflexivity).
      assert (Hjr : ~ In j r) by (intros Hin'; apply Hj; right; exact Hin').
      destruct (R6 j Hjr) as (F1 & F2 & F3). destruct (D5 j Hne) as [L1 L2].
      rewrite F1, F2, F3, (after_step_other id s1 ns subs j Hid1 Hne). auto. }
    split.
    { intros Hreq j sj [<-|Hj] Hfj; [|eapply R7; eassumption].
      rewrite G1 in Hfj. destruct Hhead as [Hh|Hh]; rewrite Hh in Hfj; [|discriminate].
      inversion Hfj; subst sj. subst s2. cbn [s_notifs set_notifs]. apply P2.
      intros ->. apply Hreq. destruct used2; [|discriminate]. cbn in R8. symmetry. exact R8. }
    split.
    { exists (map (fun e => snd (fst e)) tx1 ++ used2). rewrite <- app_assoc, <- R8. exact Psuf. }
    split; [exact R9|].
    intros x Hx. eapply after_step_ids; [exact Hid1 | apply R10; exact Hx].
Qed.
End Loop.
