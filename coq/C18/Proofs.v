From Coq Require Import List ZArith Bool Lia.
Import ListNotations.
From OV Require Import C18.Model.
Open Scope Z_scope.

(* The domain is finite except for the key length, which only matters through two comparisons.
   The proof is by case analysis on every component; the key length is split on the two
   comparisons of [valid_keylength]. *)
Theorem oracle1_holds : forall c, oracle1 c (run1 c) = true.
Proof.
  intros [rd td ir t tu sk ct p kb tv h u].
  unfold oracle1, run1, validate_or_reject, validate, spec_accept, valid_keylength. cbn [rej_dir tru_dir in_rej tru trust_unknown skip_verify check_time pol key_bits tm host uri].
  destruct (fst (min_max p) <=? kb) eqn:E1; destruct (kb <=? snd (min_max p)) eqn:E2;
  destruct rd, td, ir, t, tu, sk, ct, tv, h, u; reflexivity.
Qed.

(* the statement's clauses, separately *)
Theorem accepted_iff c : status (validate_or_reject c) = Good <-> spec_accept c = true.
Proof.
  destruct c as [rd td ir t tu sk ct p kb tv h u].
  unfold validate_or_reject, validate, spec_accept, valid_keylength. cbn [rej_dir tru_dir in_rej tru trust_unknown skip_verify check_time pol key_bits tm host uri].
  destruct (fst (min_max p) <=? kb) eqn:E1; destruct (kb <=? snd (min_max p)) eqn:E2;
  destruct rd, td, ir, t, tu, sk, ct, tv, h, u; cbn; split; intro H; try reflexivity; try discriminate.
Qed.

Theorem unknown_untrusted_is_rejected c :
  rej_dir c = true -> tru_dir c = true -> in_rej c = false -> tru c = TAbsent -> trust_unknown c = false ->
  put_rejected (validate_or_reject c) = true /\ status (validate_or_reject c) = BadCertificateUntrusted.
Proof.
  destruct c as [rd td ir t tu sk ct p kb tv h u]. cbn [rej_dir tru_dir in_rej tru trust_unknown].
  intros -> -> -> -> ->. split; reflexivity.
Qed.

Theorem accepted_never_rejected c :
  status (validate_or_reject c) = Good -> put_rejected (validate_or_reject c) = false /\ in_rej c = false.
Proof.
  destruct c as [rd td ir t tu sk ct p kb tv h u].
  unfold validate_or_reject, validate, valid_keylength. cbn [rej_dir tru_dir in_rej tru trust_unknown skip_verify check_time pol key_bits tm host uri].
  destruct (fst (min_max p) <=? kb) eqn:E1; destruct (kb <=? snd (min_max p)) eqn:E2;
  destruct rd, td, ir, t, tu, sk, ct, tv, h, u; cbn; intro H; try discriminate; split; reflexivity.
Qed.

(* the validity period: Good exactly from notBefore to notAfter, both included; the three
   classes are exhaustive and exclusive *)
Theorem time_valid_iff nb na now : time_status nb na now = Good <-> nb <= now <= na.
Proof.
  unfold time_status, time_class. destruct (Z.ltb_spec now nb); [split; [discriminate|lia]|].
  destruct (Z.ltb_spec na now); [split; [discriminate|lia]|]. split; [lia|reflexivity].
Qed.
Theorem time_class_spec nb na now :
  match time_class nb na now with
  | TimeNotYet => now < nb
  | TimeExpired => nb <= now /\ na < now
  | TimeValid => nb <= now <= na
  end.
Proof.
  unfold time_class. destruct (Z.ltb_spec now nb); [assumption|]. destruct (Z.ltb_spec na now); lia.
Qed.

Lemma oracle_step_holds s : oracle_step s (run_step s) = true.
Proof.
  destruct s as [c|nb na now]; [apply oracle1_holds|].
  cbn [oracle_step run_step]. unfold time_status, time_class.
  destruct (Z.ltb_spec now nb); cbn.
  - destruct (Z.leb_spec nb now); [lia|reflexivity].
  - destruct (Z.ltb_spec na now); cbn.
    + destruct (Z.leb_spec nb now); destruct (Z.leb_spec now na); try lia; reflexivity.
    + destruct (Z.leb_spec nb now); destruct (Z.leb_spec now na); try lia; reflexivity.
Qed.
Lemma run_step_width s : length (run_step s) = width s.
Proof. destruct s; reflexivity. Qed.

Theorem oracle_holds : forall c : case, oracle c (run c) = true.
Proof.
  induction c as [|s c IH]; [reflexivity|].
  unfold run. cbn [flat_map oracle]. fold (run c).
  rewrite <- (run_step_width s).
  rewrite firstn_app, Nat.sub_diag, firstn_all, firstn_O, app_nil_r.
  rewrite skipn_app, Nat.sub_diag, skipn_all, skipn_O. cbn [app].
  rewrite oracle_step_holds. exact IH.
Qed.

Example accept_example :
  spec_accept (mk_case true true false TSame false false true Basic256Sha256 2048 TimeValid NMatch NMatch) = true.
Proof. reflexivity. Qed.
Example reject_example :
  run [SVal (mk_case true true false TAbsent false false true Basic256Sha256 2048 TimeValid NMatch NMatch)] = [BadCertificateUntrusted; 1; 0].
Proof. reflexivity. Qed.
Example time_examples :
  map (time_status 1000 9000) [999; 1000; 1001; 8999; 9000; 9001; 9000 + 86399000] = [4; 0; 0; 0; 0; 4; 4].
Proof. reflexivity. Qed.
