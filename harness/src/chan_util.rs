//! Shared helpers of the C07/C08/C09 harnesses: certificates generated once per run, real
//! `SecureChannel` pairs, deterministic filler messages, checksums.
#![allow(dead_code)]
use opcua::core::comms::secure_channel::{Role, SecureChannel};
use opcua::core::supported_message::SupportedMessage;
use opcua::crypto::{pkey::PrivateKey, x509::{X509Data, X509}, CertificateStore, SecurityPolicy};
use opcua::sync::RwLock;
use opcua::types::*;
use std::sync::{Arc, OnceLock};

pub const POLICIES: [SecurityPolicy; 6] = [
    SecurityPolicy::None, SecurityPolicy::Basic128Rsa15, SecurityPolicy::Basic256,
    SecurityPolicy::Basic256Sha256, SecurityPolicy::Aes128Sha256RsaOaep, SecurityPolicy::Aes256Sha256RsaPss,
];
pub fn pol_name(p: usize) -> &'static str {
    ["PNone", "Basic128Rsa15", "Basic256", "Basic256Sha256", "Aes128Sha256RsaOaep", "Aes256Sha256RsaPss"][p]
}
pub const MODES: [MessageSecurityMode; 3] = [MessageSecurityMode::None, MessageSecurityMode::Sign, MessageSecurityMode::SignAndEncrypt];
pub fn mode_name(m: usize) -> &'static str { ["MNone", "MSign", "MSignEnc"][m] }
pub fn mty_name(t: usize) -> &'static str { ["MSG", "OPN", "CLO"][t] }

/// key material: index 0/1 = two independent RSA-2048 identities; 2/3 = RSA-1024; 4/5 = RSA-4096
/// (generated lazily, once per run; the private key is kept as PEM because PrivateKey is not Clone)
pub struct Ident { pub cert: X509, pub pem: Vec<u8>, pub bits: u32 }
impl Ident { pub fn key(&self) -> PrivateKey { PrivateKey::from_pem(&self.pem).unwrap() } }
static IDENTS: [OnceLock<Ident>; 6] = [OnceLock::new(), OnceLock::new(), OnceLock::new(), OnceLock::new(), OnceLock::new(), OnceLock::new()];
pub fn ident(i: usize) -> &'static Ident {
    IDENTS[i].get_or_init(|| {
        let bits = [2048u32, 2048, 1024, 1024, 4096, 4096][i];
        let args = X509Data {
            key_size: bits, common_name: format!("verif{}", i), organization: "x.org".into(),
            organizational_unit: "x.org ops".into(), country: "EN".into(), state: "London".into(),
            alt_host_names: vec!["urn:verifapp".into(), "localhost".into()], certificate_duration_days: 60,
        };
        let (cert, key) = X509::cert_and_pkey(&args).unwrap();
        Ident { cert, pem: key.private_key_to_pem().unwrap(), bits }
    })
}

pub fn big_options() -> DecodingOptions {
    DecodingOptions { max_message_size: 0, max_chunk_count: 0, max_string_length: 1 << 24, max_byte_string_length: 1 << 24, max_array_length: 1 << 20, ..Default::default() }
}

pub fn bare_channel(role: Role) -> SecureChannel {
    let store = Arc::new(RwLock::new(CertificateStore::new(std::path::Path::new("/tmp/verif-chunk-pki"))));
    SecureChannel::new(store, role, big_options())
}

/// A pair (sender, receiver) of real channels for policy/mode, identities `sid` -> `rid`, keys derived
/// from the two nonces.  `sender_role` is the role of the sender.
pub fn channel_pair(policy: usize, mode: usize, sid: usize, rid: usize, sender_is_client: bool,
                    chan_id: u32, token_id: u32, nonce_s: &[u8], nonce_r: &[u8]) -> (SecureChannel, SecureChannel) {
    let (rs, rr) = if sender_is_client { (Role::Client, Role::Server) } else { (Role::Server, Role::Client) };
    let mut s = bare_channel(rs);
    let mut r = bare_channel(rr);
    for (c, me, other, ln, rn) in [(&mut s, sid, rid, nonce_s, nonce_r), (&mut r, rid, sid, nonce_r, nonce_s)] {
        c.set_security_policy(POLICIES[policy]);
        c.set_security_mode(MODES[mode]);
        c.set_secure_channel_id(chan_id);
        c.set_token_id(token_id);
        if policy != 0 {
            c.set_cert(Some(ident(me).cert.clone()));
            c.set_private_key(Some(ident(me).key()));
            c.set_remote_cert(Some(ident(other).cert.clone()));
            c.set_local_nonce(ln);
            c.set_remote_nonce(rn);
            c.derive_keys();
        }
    }
    (s, r)
}

pub fn nonce_for(policy: usize, seed: u8) -> Vec<u8> {
    let n = if policy == 0 { 0 } else { POLICIES[policy].secure_channel_nonce_length() };
    (0..n).map(|i| seed.wrapping_add((i as u8).wrapping_mul(7))).collect()
}

/// deterministic filler: byte i = lo + (a + b*i + i/256) mod m
#[derive(Clone, Copy, Debug)]
pub struct Fill { pub len: usize, pub a: u32, pub b: u32, pub m: u32, pub lo: u32 }
impl Fill {
    pub fn bytes(&self) -> Vec<u8> {
        (0..self.len).map(|i| (self.lo as u64 + (self.a as u64 + self.b as u64 * i as u64 + (i as u64 / 256)) % self.m as u64) as u8).collect()
    }
    pub fn term(&self) -> String { format!("(mk_fill {} {} {} {} {})", self.len, self.a, self.b, self.m, self.lo) }
}

fn req_header(audit: UAString) -> RequestHeader {
    RequestHeader {
        authentication_token: NodeId::new(0, 99u32), timestamp: DateTime::ymd_hms(2020, 1, 2, 3, 4, 5), request_handle: 7,
        return_diagnostics: DiagnosticBits::empty(), audit_entry_id: audit, timeout_hint: 123456, additional_header: ExtensionObject::null(),
    }
}
fn resp_header() -> ResponseHeader {
    ResponseHeader {
        timestamp: DateTime::ymd_hms(2020, 1, 2, 3, 4, 5), request_handle: 7, service_result: StatusCode::Good,
        service_diagnostics: DiagnosticInfo::default(), string_table: None, additional_header: ExtensionObject::null(),
    }
}

/// The message of a given chunk type carrying `fill` (a byte string for MSG/OPN, an ASCII string for CLO)
pub fn message(mty: usize, mode: usize, fill: &Fill) -> SupportedMessage {
    let bytes = fill.bytes();
    match mty {
        0 => ActivateSessionResponse { response_header: resp_header(), server_nonce: ByteString::from(bytes), results: None, diagnostic_infos: None }.into(),
        1 => OpenSecureChannelRequest {
            request_header: req_header(UAString::null()), client_protocol_version: 0, request_type: SecurityTokenRequestType::Issue,
            security_mode: MODES[mode], client_nonce: ByteString::from(bytes), requested_lifetime: 60000 }.into(),
        _ => CloseSecureChannelRequest { request_header: req_header(UAString::from(String::from_utf8(bytes).unwrap())) }.into(),
    }
}

/// node id + message, as Chunker::encode lays it out
pub fn message_bytes(msg: &SupportedMessage) -> Vec<u8> {
    let mut v = Vec::new();
    let _ = msg.node_id().encode(&mut v);
    let _ = msg.encode(&mut v);
    v
}

/// split the encoded message into (prefix, suffix) around the filler
pub fn split_around_fill(data: &[u8], fill: &Fill) -> (Vec<u8>, Vec<u8>) {
    let f = fill.bytes();
    // the filler is preceded by its i32 length
    let lenb = (f.len() as i32).to_le_bytes();
    let mut off = None;
    for i in 4..=data.len().saturating_sub(f.len()) {
        if data[i - 4..i] == lenb && data[i..i + f.len()] == f[..] { off = Some(i); break; }
    }
    let off = off.expect("filler not found in the encoded message");
    (data[..off].to_vec(), data[off + f.len()..].to_vec())
}

/// Adler-32 style checksum (s1, s2) mod 65521
pub fn checksum(bs: &[u8]) -> (i128, i128) {
    let (mut s1, mut s2) = (1u64, 0u64);
    for b in bs { s1 = (s1 + *b as u64) % 65521; s2 = (s2 + s1) % 65521; }
    (s1 as i128, s2 as i128)
}
