(* C19 — proofs.  Part 1: the guard, for every history and every service effect. *)
From Coq Require Import List ZArith Bool String Lia.
Import ListNotations.
From OV Require Import Gen.C19Dispatch C19.Model.
Open Scope Z_scope.

(* ---- facts about the generated dispatch table ------------------------------------------ *)
Lemma dispatch_ok_holds : dispatch_ok = true.
Proof. vm_compute. reflexivity. Qed.

Lemma required_full : forall sv, exempt sv = false -> arm_of sv = Some FullGuard.
Proof. intros sv; destruct sv; vm_compute; intro H; try reflexivity; discriminate H. Qed.

Lemma discovery_unguarded : forall sv, discovery sv = true -> arm_of sv = Some Unguarded.
Proof. intros sv; destruct sv; vm_compute; intro H; try reflexivity; discriminate H. Qed.

Lemma exempt_cases : forall sv, exempt sv = true -> discovery sv = true \/ sv = Cancel.
Proof. intros sv; destruct sv; vm_compute; intro H; auto; discriminate H. Qed.

(* ---- lists of sessions -------------------------------------------------------------------- *)
Definition toks (l : list session) : list Z := map s_tok l.

Lemma find_tok_some : forall t l s, find_tok t l = Some s -> In s l /\ s_tok s = t.
Proof.
  unfold find_tok; intros t l s H. apply find_some in H. destruct H as [H1 H2].
  apply Z.eqb_eq in H2. auto.
Qed.

Lemma find_tok_none : forall t l, find_tok t l = None -> forall s, In s l -> s_tok s <> t.
Proof.
  unfold find_tok; intros t l H s Hin E.
  pose proof (find_none _ _ H s Hin) as H0. cbn in H0. apply Z.eqb_neq in H0. auto.
Qed.

Lemma find_tok_unique : forall t l s,
  NoDup (toks l) -> In s l -> s_tok s = t -> find_tok t l = Some s.
Proof.
  unfold find_tok, toks. induction l as [|x l IH]; intros s Hnd Hin Ht; [destruct Hin|].
  cbn in *. inversion Hnd as [|? ? Hnotin Hnd']; subst.
  destruct Hin as [->|Hin].
  - rewrite Z.eqb_refl. reflexivity.
  - destruct (s_tok x =? s_tok s) eqn:E.
    + apply Z.eqb_eq in E. exfalso. apply Hnotin. rewrite E. apply in_map. exact Hin.
    + apply IH; auto.
Qed.

Lemma tok_inj : forall l s s', NoDup (toks l) -> In s l -> In s' l -> s_tok s = s_tok s' -> s = s'.
Proof.
  intros l s s' Hnd H1 H2 E.
  pose proof (find_tok_unique (s_tok s) l s Hnd H1 eq_refl) as A.
  pose proof (find_tok_unique (s_tok s) l s' Hnd H2 (eq_sym E)) as B.
  congruence.
Qed.

Lemma toks_upd : forall t f l, (forall s, s_tok (f s) = s_tok s) -> toks (upd t f l) = toks l.
Proof.
  intros t f l Hf. unfold toks, upd. rewrite map_map. apply map_ext.
  intro s. destruct (s_tok s =? t); auto.
Qed.

Lemma in_upd : forall t f l s', In s' (upd t f l) -> exists s, In s l /\ (s' = s \/ s' = f s).
Proof.
  intros t f l s' H. unfold upd in H. apply in_map_iff in H. destruct H as [s [E Hin]].
  exists s. split; auto. destruct (s_tok s =? t); auto.
Qed.

Lemma NoDup_map_filter : forall (A B : Type) (f : A -> B) p (l : list A),
  NoDup (map f l) -> NoDup (map f (filter p l)).
Proof.
  induction l as [|x l IH]; intro H; cbn; [constructor|].
  inversion H as [|? ? Hn Hd]; subst. destruct (p x); cbn; auto.
  constructor; auto. intro Hin. apply Hn. apply in_map_iff in Hin. destruct Hin as [y [E Hy]].
  apply filter_In in Hy. destruct Hy as [Hy _]. rewrite <- E. apply in_map. exact Hy.
Qed.

Lemma NoDup_app_one : forall (A : Type) (l : list A) x, NoDup l -> ~ In x l -> NoDup (l ++ [x]).
Proof.
  induction l as [|y l IH]; intros x Hn Hx; cbn.
  - constructor; [intros []|constructor].
  - inversion Hn as [|? ? Hy Hl]; subst. constructor.
    + intro Hin. apply in_app_or in Hin. destruct Hin as [Hin|[->|[]]]; [auto|]. apply Hx. left. reflexivity.
    + apply IH; auto. intro Hin. apply Hx. right. exact Hin.
Qed.

Lemma bindings_upd : forall t f l,
  (forall s, binding (f s) = binding s) -> map binding (upd t f l) = map binding l.
Proof.
  intros t f l Hf. unfold upd. rewrite map_map. apply map_ext.
  intro s. destruct (s_tok s =? t); auto.
Qed.

(* ---- how one step can change the set of sessions --------------------------------------- *)
Inductive sess_change {W} (c c' : conn W) : Prop :=
| sc_same : sessions c' = sessions c -> next_tok c' = next_tok c -> sess_change c c'
| sc_upd : forall t f, (forall s, s_tok (f s) = s_tok s) ->
    sessions c' = upd t f (sessions c) -> next_tok c' = next_tok c -> sess_change c c'
| sc_filter : forall p, sessions c' = filter p (sessions c) -> next_tok c' = next_tok c -> sess_change c c'
| sc_add : forall s, s_tok s = next_tok c -> sessions c' = (sessions c ++ [s])%list ->
    next_tok c' = next_tok c + 1 -> sess_change c c'.

Ltac brk := repeat match goal with
  | |- context [match ?x with _ => _ end] => destruct x eqn:?
  end.

Ltac change_leaf :=
  cbn [fst]; unfold with_sessions, with_world; cbn [sessions next_tok];
  first [ apply sc_same; reflexivity
        | eapply sc_upd; [ | reflexivity | reflexivity ]; intros []; reflexivity
        | eapply sc_filter; reflexivity
        | eapply sc_add; [ | reflexivity | reflexivity ]; reflexivity ].

Lemma step_change : forall W (eff : svc -> Z -> Z -> W -> W) (c : conn W) o,
  sess_change c (fst (step eff c o)).
Proof.
  intros W eff c o. destruct o; unfold step, guarded_call; brk; change_leaf.
Qed.

Record wf {W} (c : conn W) : Prop := {
  wf_range : forall s, In s (sessions c) -> 1 <= s_tok s < next_tok c;
  wf_nodup : NoDup (toks (sessions c));
  wf_next : 1 <= next_tok c }.

Lemma wf_change : forall W (c c' : conn W), wf c -> sess_change c c' -> wf c'.
Proof.
  intros W c c' [Hr Hn H1] Hc. destruct Hc as [Hs Ht | t f Hf Hs Ht | p Hs Ht | s Hk Hs Ht].
  - split; rewrite ?Hs, ?Ht; auto.
  - split; rewrite ?Hs, ?Ht; [ | | lia].
    + intros s' Hin. apply in_upd in Hin. destruct Hin as [s [Hin [->| ->]]]; [|rewrite Hf]; auto.
    + rewrite toks_upd; auto.
  - split; rewrite ?Hs, ?Ht; [ | | lia].
    + intros s Hin. apply filter_In in Hin. destruct Hin; auto.
    + apply NoDup_map_filter; auto.
  - split; rewrite ?Hs, ?Ht; [ | | lia].
    + intros s' Hin. apply in_app_or in Hin. destruct Hin as [Hin | [<- | []]].
      * specialize (Hr _ Hin). lia.
      * lia.
    + unfold toks. rewrite map_app. cbn. apply NoDup_app_one; auto.
      intro Hin. apply in_map_iff in Hin. destruct Hin as [s' [E Hin]]. specialize (Hr _ Hin). lia.
Qed.

Lemma wf_init : forall W (w : W), wf (init w).
Proof. intros. split; cbn; [intros s []| constructor | lia]. Qed.

Lemma wf_step : forall W eff (c : conn W) o, wf c -> wf (fst (step eff c o)).
Proof. intros. eapply wf_change; eauto. apply step_change. Qed.

Lemma wf_exec : forall W eff h (c : conn W), wf c -> wf (exec eff h c).
Proof.
  intros W eff h. unfold exec. induction h as [|o h IH]; intros c Hc; cbn; auto.
  apply IH. apply wf_step. exact Hc.
Qed.

Lemma timed_out_iff : forall now s, timed_out now s = true <-> timed_out_P now s.
Proof.
  intros. unfold timed_out, timed_out_P. rewrite andb_true_iff, !Z.ltb_lt. tauto.
Qed.

(* ---- the guard ------------------------------------------------------------------------------ *)
Lemma full_guard_pass : forall W (c : conn W) t, wf c ->
  (exists s, full_guard c t = Pass s) <-> authorised c t.
Proof.
  intros W c t Hwf. unfold full_guard, authorised. split.
  - intros [s0 H]. destruct (find_tok t (sessions c)) as [s|] eqn:F; [|discriminate].
    apply find_tok_some in F. destruct F as [Hin Ht].
    destruct (s_act s) eqn:A; cbn in H; [|discriminate].
    destruct (s_chan s =? chan_now c) eqn:C; cbn in H; [|discriminate].
    destruct (timed_out (clock c) s) eqn:T; [discriminate|].
    exists s. repeat split; auto.
    + apply Z.eqb_eq. exact C.
    + intro P. apply timed_out_iff in P. congruence.
  - intros [s [Hin [Ht [A [C T]]]]].
    rewrite (find_tok_unique t (sessions c) s (wf_nodup c Hwf) Hin Ht).
    rewrite A. cbn. rewrite C, Z.eqb_refl. cbn.
    destruct (timed_out (clock c) s) eqn:E; [|eauto].
    exfalso. apply T. apply timed_out_iff. exact E.
Qed.

Lemma full_guard_refuse_class : forall W (c : conn W) t k b,
  full_guard c t = Refuse k b -> k = 1 \/ k = 2.
Proof.
  intros W c t k b. unfold full_guard.
  destruct (find_tok t (sessions c)) as [s|]; [|intro H; inversion H; auto].
  destruct (negb (s_act s)); [intro H; inversion H; auto|].
  destruct (negb (s_chan s =? chan_now c)); [intro H; inversion H; auto|].
  destruct (timed_out (clock c) s); intro H; inversion H; auto.
Qed.

Lemma binding_set_term : forall s, binding (set_term s) = binding s.
Proof. intros []; reflexivity. Qed.
Lemma binding_set_last : forall now s, binding (set_last now s) = binding s.
Proof. intros now []; reflexivity. Qed.

(* a request that must be guarded is carried out iff the token is authorised; otherwise a
   ServiceFault (BadSessionIdInvalid / BadSessionNotActivated) and nothing changes *)
Lemma guarded_service : forall W (eff : svc -> Z -> Z -> W -> W) (c : conn W) tr sv arg,
  wf c -> exempt sv = false ->
  let t := tok_val tr in
  let r := step eff c (Service tr sv arg) in
  (snd r = 0 <-> authorised c t) /\
  (snd r = 0 -> world (fst r) = eff sv arg t (world c) /\ bindings (fst r) = bindings c) /\
  (snd r <> 0 -> (snd r = 1 \/ snd r = 2) /\ world (fst r) = world c /\ bindings (fst r) = bindings c).
Proof.
  intros W eff c tr sv arg Hwf Hex t r. subst r. unfold step. fold t.
  rewrite (required_full sv Hex). unfold guarded_call.
  pose proof (full_guard_pass W c t Hwf) as HP.
  destruct (full_guard c t) as [s|k b] eqn:G.
  - cbn [fst snd world]. split; [|split].
    + split; [intros _; apply HP; eauto | reflexivity].
    + intros _. split; [reflexivity|]. unfold bindings. cbn [sessions].
      apply bindings_upd. apply binding_set_last.
    + intro H. exfalso. apply H. reflexivity.
  - assert (Hk : k = 1 \/ k = 2) by (eapply full_guard_refuse_class; eauto).
    assert (Hna : ~ authorised c t).
    { intro A. apply HP in A. destruct A as [s A]. discriminate A. }
    destruct b; cbn [fst snd world]; (split; [|split]).
    + split; [intro; lia | intro; contradiction].
    + intro; lia.
    + intros _. split; [exact Hk|]. split; [reflexivity|].
      unfold bindings, with_sessions. cbn [sessions]. apply bindings_upd. apply binding_set_term.
    + split; [intro; lia | intro; contradiction].
    + intro; lia.
    + intros _. auto.
Qed.

Theorem service_iff : forall W (eff : svc -> Z -> Z -> W -> W) (w0 : W) (h : list op) tr sv arg,
  exempt sv = false ->
  let c := exec eff h (init w0) in
  let t := tok_val tr in
  let r := step eff c (Service tr sv arg) in
  (snd r = 0 <-> authorised c t) /\
  (snd r = 0 -> world (fst r) = eff sv arg t (world c) /\ bindings (fst r) = bindings c) /\
  (snd r <> 0 -> (snd r = 1 \/ snd r = 2) /\ world (fst r) = world c /\ bindings (fst r) = bindings c).
Proof.
  intros. apply guarded_service; auto. apply wf_exec. apply wf_init.
Qed.

(* ---- tokens that do not resolve ---------------------------------------------------------- *)
Lemma resolves_in : forall W (c : conn W) t, resolves c t <-> In t (toks (sessions c)).
Proof.
  intros. unfold resolves, toks. rewrite in_map_iff. split; intros [s H]; exists s; tauto.
Qed.

Lemma unresolved_find : forall W (c : conn W) t, ~ resolves c t -> find_tok t (sessions c) = None.
Proof.
  intros W c t H. destruct (find_tok t (sessions c)) as [s|] eqn:F; auto.
  apply find_tok_some in F. exfalso. apply H. exists s. exact F.
Qed.

(* whatever is asked with a token that does not resolve is answered BadSessionIdInvalid and
   changes nothing (discovery aside, which takes no token) *)
Lemma unresolved_refused : forall W (eff : svc -> Z -> Z -> W -> W) (c : conn W) tr,
  ~ resolves c (tok_val tr) ->
  (forall sv arg, exempt sv = false -> step eff c (Service tr sv arg) = (c, 1)) /\
  (forall cred, step eff c (Activate tr cred) = (c, 1)) /\
  step eff c (Close tr) = (c, 1).
Proof.
  intros W eff c tr H. apply unresolved_find in H. split; [|split].
  - intros sv arg Hex. unfold step. rewrite (required_full sv Hex).
    unfold guarded_call, full_guard. rewrite H. reflexivity.
  - intro cred. unfold step, activate_guard. rewrite H. reflexivity.
  - unfold step. rewrite H. reflexivity.
Qed.

Definition dead {W} (t : Z) (c : conn W) : Prop := t < next_tok c /\ ~ In t (toks (sessions c)).

Lemma dead_change : forall W (c c' : conn W) t, dead t c -> sess_change c c' -> dead t c'.
Proof.
  intros W c c' t [Hlt Hn] Hc. destruct Hc as [Hs Ht | t' f Hf Hs Ht | p Hs Ht | s Hk Hs Ht];
    split; rewrite ?Hs, ?Ht; auto; try lia.
  - rewrite toks_upd; auto.
  - intro Hin. apply Hn. unfold toks in *. apply in_map_iff in Hin. destruct Hin as [s [E Hin]].
    apply filter_In in Hin. destruct Hin as [Hin _]. rewrite <- E. apply in_map. exact Hin.
  - unfold toks. rewrite map_app. intro Hin. apply in_app_or in Hin. destruct Hin as [Hin|[E|[]]]; auto. lia.
Qed.

Lemma dead_exec : forall W eff h (c : conn W) t, dead t c -> dead t (exec eff h c).
Proof.
  intros W eff h. unfold exec. induction h as [|o h IH]; intros c t Hd; cbn; auto.
  apply IH. eapply dead_change; eauto. apply step_change.
Qed.

(* after CloseSession succeeded the token never resolves again, whatever follows *)
Theorem closed_token_dead : forall W (eff : svc -> Z -> Z -> W -> W) (w0 : W) (h1 h2 : list op) tr,
  let c := exec eff h1 (init w0) in
  snd (step eff c (Close tr)) = 0 ->
  ~ resolves (exec eff h2 (fst (step eff c (Close tr)))) (tok_val tr).
Proof.
  intros W eff w0 h1 h2 tr c Hk.
  assert (Hwf : wf c) by (apply wf_exec; apply wf_init).
  rewrite resolves_in. apply dead_exec. revert Hk. unfold step.
  destruct (find_tok (tok_val tr) (sessions c)) as [s|] eqn:F; [|cbn; intro; discriminate].
  apply find_tok_some in F. destruct F as [Hin Ht].
  destruct (negb (s_act s) && negb (s_chan s =? chan_now c)); [cbn; intro; discriminate|].
  intros _. cbn [fst]. unfold with_sessions, dead. cbn [sessions next_tok]. split.
  - pose proof (wf_range c Hwf s Hin). lia.
  - unfold toks. intro H. apply in_map_iff in H. destruct H as [s' [E H]].
    apply filter_In in H. destruct H as [_ H]. rewrite E, Z.eqb_refl in H. discriminate H.
Qed.

(* the null token and values that were never issued do not resolve, in any reachable state *)
Theorem unissued_never_resolves : forall W (eff : svc -> Z -> Z -> W -> W) (w0 : W) (h : list op) t,
  let c := exec eff h (init w0) in
  (t <= 0 \/ next_tok c <= t) -> ~ resolves c t.
Proof.
  intros W eff w0 h t c Ht [s [Hin E]].
  assert (Hwf : wf c) by (apply wf_exec; apply wf_init).
  pose proof (wf_range c Hwf s Hin). lia.
Qed.
