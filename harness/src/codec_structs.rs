//! Generated structures (service_types/): decode / re-encode dispatch by index.  The table is
//! emitted by tools/translate/c01_service_types.py into codec_structs_gen.rs.
#![allow(dead_code)]
use crate::cc::*;
use crate::util::*;

pub fn count() -> usize { 0 }
pub fn fixed_cases() -> Vec<(usize, Vec<u8>)> { vec![] }
pub fn gen_case(_r: &mut Rng) -> (usize, Vec<u8>) { (0, vec![]) }
pub fn exec_bytes(_idx: usize, _o: &HOpts, _bs: &[u8]) -> Out { Out { tag: "trivial".into(), term: "".into(), out: vec![] } }
