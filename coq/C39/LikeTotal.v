(* C39 — whatever the LIKE pattern, the text the repaired like_to_regex emits is a valid regular
   expression inside the modelled subset: [like_model true] is total. *)
From Coq Require Import List ZArith Bool Lia.
From OV Require Import C39.Like C39.LikeProofs.
Import ListNotations.
Open Scope Z_scope.

Lemma opt_app_some a r t : opt_app a r = Some t -> exists t', r = Some t' /\ t = a ++ t'.
Proof. destruct r as [t'|]; cbn; intros H; [inversion H; eauto | discriminate]. Qed.

(* single steps of the scanner on concrete characters *)
Lemma scan_dotstar acc rest :
  re_scan (RItems false) acc (46 :: 42 :: rest) = re_scan (RItems false) ((AAny, Star) :: acc) rest.
Proof. reflexivity. Qed.
Lemma scan_qm a k acc rest :
  re_scan (RItems false) ((a, k) :: acc) (63 :: rest) = re_scan (RItems false) ((a, opt_kind k) :: acc) rest.
Proof. reflexivity. Qed.
Lemma scan_end acc : re_scan (RItems false) acc [36] = Some (Some (rev acc)).
Proof. reflexivity. Qed.
Lemma scan_caret_g pending rs acc rest :
  re_scan (RClass false false true pending false rs) acc (94 :: rest)
  = re_scan (RClass false true true pending false rs) acc rest.
Proof. reflexivity. Qed.
Lemma scan_dash_g neg first lo rs acc rest :
  re_scan (RClass false neg first (Some lo) false rs) acc (45 :: rest)
  = re_scan (RClass false neg false (Some lo) true rs) acc rest.
Proof. destruct neg, first; reflexivity. Qed.

(* the list state of the translation and the class state of the scanner *)
Definition in_rel (ls le : bool) (rf : option Z) (neg first : bool) (pending : option Z) : Prop :=
  first = le /\ ls = (first && negb neg) /\ pending = rf.

Definition sim_goal (m : lmode) (t : list Z) : Prop :=
  match m with
  | MOut _ => forall acc, (acc <> [] \/ hd 0 t <> cQM) -> exists items, re_scan (RItems false) acc t = Some (Some items)
  | MIn _ ls le rf _ =>
      forall neg first pending rs acc, in_rel ls le rf neg first pending ->
      exists items, re_scan (RClass false neg first pending false rs) acc t = Some (Some items)
  end.

Lemma push_lit_out_head c rest : hd 0 (push_lit false c ++ rest) <> cQM.
Proof.
  unfold push_lit. destruct (special_out c) eqn:Hs; cbn; unfold_chars; [lia|].
  mem_false Hs. intros ->. discriminate.
Qed.

(* a list member (escaped or not), in lock step *)
Definition member_expr (c : Z) (r : list Z) (rf : option Z) (ro : bool) : option (list Z) :=
  if ro then
    match rf with
    | Some from => if c <? from then None
                   else opt_app (cDASH :: push_lit true c) (l2r (MIn false false false None false) r)
    | None => None
    end
  else opt_app (push_lit true c) (l2r (MIn false false false (Some c) false) r).

Lemma member_sim c r ls le rf ro t :
  (forall m' t', l2r m' r = Some t' -> sim_goal m' t') ->
  member_expr c r rf ro = Some t ->
  forall neg first pending rs acc, in_rel ls le rf neg first pending ->
  exists items, re_scan (RClass false neg first pending false rs) acc t = Some (Some items).
Proof.
  unfold member_expr. intros IH Hm neg first pending rs acc [Hf [Hls Hp]]. destruct ro.
  - destruct rf as [from|]; [|discriminate]. destruct (c <? from) eqn:Hlt; [discriminate|].
    apply opt_app_some in Hm as [t' [Hr ->]]. subst pending.
    unfold cDASH. cbn [app]. rewrite scan_dash_g.
    rewrite scan_member_hi by (apply Z.ltb_ge in Hlt; lia).
    apply (IH _ _ Hr). repeat split.
  - apply opt_app_some in Hm as [t' [Hr ->]].
    rewrite scan_member. apply (IH _ _ Hr). repeat split.
Qed.

Lemma sim : forall s m t, l2r m s = Some t -> sim_goal m t.
Proof.
  induction s as [|c r IH]; intros m t Hl.
  - cbn in Hl. destruct m as [[|]|]; try discriminate. inversion Hl; subst.
    cbn [sim_goal]. intros acc _. eexists. reflexivity.
  - destruct m as [esc | esc ls le rf ro].
    + (* outside a list *)
      cbn [l2r] in Hl. destruct esc.
      * apply opt_app_some in Hl as [t' [Hr ->]]. cbn [sim_goal]. intros acc _.
        rewrite scan_lit_out. apply (IH _ _ Hr). left. discriminate.
      * destruct (c =? cBS) eqn:E1.
        { specialize (IH _ _ Hl). cbn [sim_goal] in IH |- *. exact IH. }
        destruct (c =? cLB) eqn:E2.
        { apply opt_app_some in Hl as [t' [Hr ->]]. cbn [sim_goal]. intros acc _.
          unfold cLB. cbn [app]. rewrite scan_open. apply (IH _ _ Hr). repeat split. }
        destruct (c =? cPCT) eqn:E3.
        { apply opt_app_some in Hl as [t' [Hr ->]]. cbn [sim_goal]. intros acc _.
          unfold cDOT, cSTAR. cbn [app]. rewrite scan_dotstar. apply (IH _ _ Hr). left. discriminate. }
        destruct (c =? cUS) eqn:E4.
        { apply opt_app_some in Hl as [t' [Hr ->]]. cbn [sim_goal]. intros acc Hacc.
          unfold cQM in *. cbn [app hd] in *. destruct Hacc as [Hacc | Hacc]; [|contradiction].
          destruct acc as [|[a k] acc']; [contradiction|]. rewrite scan_qm.
          apply (IH _ _ Hr). left. discriminate. }
        apply opt_app_some in Hl as [t' [Hr ->]]. cbn [sim_goal]. intros acc _.
        rewrite scan_lit_out. apply (IH _ _ Hr). left. discriminate.
    + (* inside a list *)
      cbn [l2r] in Hl. cbn [sim_goal].
      destruct esc; [apply (member_sim c r ls le rf ro t IH Hl)|].
      destruct (c =? cBS) eqn:E1.
      { specialize (IH _ _ Hl). cbn [sim_goal] in IH. exact IH. }
      destruct (c =? cRB) eqn:E2.
      { destruct le; [discriminate|].
        apply opt_app_some in Hl as [t' [Hr ->]].
        intros neg first pending rs acc [Hf [Hls Hp]]. subst first.
        destruct ro.
        - change (push_lit true cDASH) with [92; 45].
          change (([92; 45] ++ [cRB]) ++ t') with (push_lit true 45 ++ (93 :: t')).
          rewrite scan_member. rewrite scan_close. apply (IH _ _ Hr). left. discriminate.
        - unfold cRB. cbn [app]. rewrite scan_close. apply (IH _ _ Hr). left. discriminate. }
      destruct ((c =? cCARET) && ls) eqn:E3.
      { apply andb_true_iff in E3 as [_ Hls1]. subst ls.
        apply opt_app_some in Hl as [t' [Hr ->]].
        intros neg first pending rs acc [Hf [Hls Hp]].
        symmetry in Hls. apply andb_true_iff in Hls as [Hfirst Hneg]. apply negb_true_iff in Hneg.
        subst neg. rewrite Hfirst in Hf. subst first le.
        unfold cCARET. cbn [app]. rewrite scan_caret_g.
        apply (IH _ _ Hr). repeat split; assumption. }
      destruct ((c =? cDASH) && match rf with Some _ => true | None => false end && negb ro) eqn:E4.
      { specialize (IH _ _ Hl). cbn [sim_goal] in IH. exact IH. }
      apply (member_sim c r ls le rf ro t IH Hl).
Qed.

(* the leading ?s come from leading _s and nothing else *)
Lemma head_not_qm c r t : l2r (MOut false) (c :: r) = Some t -> (c =? cUS) = false -> hd 0 t <> cQM.
Proof.
  intros Hl Hc. cbn [l2r] in Hl.
  destruct (c =? cBS).
  { destruct r as [|c' r']; [discriminate|]. cbn [l2r] in Hl.
    apply opt_app_some in Hl as [t' [_ ->]]. apply push_lit_out_head. }
  destruct (c =? cLB); [apply opt_app_some in Hl as [t' [_ ->]]; cbn; unfold cLB, cQM; lia|].
  destruct (c =? cPCT); [apply opt_app_some in Hl as [t' [_ ->]]; cbn; unfold cDOT, cQM; lia|].
  rewrite Hc in Hl. apply opt_app_some in Hl as [t' [_ ->]]. apply push_lit_out_head.
Qed.

Lemma strip_sim : forall pat t0, l2r (MOut false) pat = Some t0 ->
  exists pat', l2r (MOut false) pat' = Some (snd (strip_qm t0)) /\ hd 0 (snd (strip_qm t0)) <> cQM.
Proof.
  induction pat as [|c r IH]; intros t0 Hl.
  - cbn in Hl. inversion Hl; subst. exists []. split; [reflexivity | vm_compute; intro Hx; discriminate Hx].
  - destruct (c =? cUS) eqn:Hc.
    + pose proof Hl as Hl'. cbn [l2r] in Hl'.
      apply Z.eqb_eq in Hc. subst c. change (cUS =? cBS) with false in Hl'. change (cUS =? cLB) with false in Hl'.
      change (cUS =? cPCT) with false in Hl'. change (cUS =? cUS) with true in Hl'. cbv iota in Hl'.
      apply opt_app_some in Hl' as [t' [Hr ->]].
      destruct (IH _ Hr) as [pat' [Hp Hh]]. exists pat'.
      cbn [app strip_qm]. change (cQM =? cQM) with true. cbv iota. destruct (strip_qm t') as [n t1]. exact (conj Hp Hh).
    + pose proof (head_not_qm c r t0 Hl Hc) as Hh.
      assert (Hs : strip_qm t0 = (O, t0)).
      { destruct t0 as [|x t0]; [reflexivity|]. cbn [hd] in Hh. cbn [strip_qm].
        destruct (x =? cQM) eqn:Hx; [apply Z.eqb_eq in Hx; contradiction | reflexivity]. }
      rewrite Hs. exists (c :: r). split; assumption.
Qed.

Theorem like_fixed_total : forall pat t,
  like_to_regex_fixed pat = Some t -> exists a items, re_parse t = RParsed a items.
Proof.
  intros pat t H. unfold like_to_regex_fixed in H. apply opt_app_some in H as [t0 [Hl ->]].
  unfold re_parse. cbn [app]. change (cCARET =? cCARET) with true. cbv iota.
  destruct (strip_sim pat t0 Hl) as [pat' [Hp Hh]].
  destruct (strip_qm t0) as [n t1]. cbn [snd] in *.
  pose proof (sim pat' (MOut false) t1 Hp) as Hs. cbn in Hs.
  destruct (Hs [] (or_intror Hh)) as [items Hi]. rewrite Hi. eauto.
Qed.

Corollary like_model_fixed_total : forall pat s, like_model true pat s <> None.
Proof.
  intros pat s. unfold like_model. destruct (like_to_regex_fixed pat) as [t|] eqn:Ht; [|discriminate].
  destruct (like_fixed_total pat t Ht) as [a [items Hp]]. rewrite Hp. discriminate.
Qed.
