From Coq Require Import List ZArith NArith Bool Lia.
Import ListNotations.
From OV Require Import C13.Policy C13.Sha Gen.C13Tables C13.Model.
Local Close Scope Z_scope.
Local Close Scope N_scope.
Local Open Scope nat_scope.

(* ================= generic facts about the P_hash stream and the loop ================= *)
Section PShaFacts.
  Variable hm : list byte -> list byte -> list byte.
  Variable hlen : nat.
  Hypothesis Hpos : 0 < hlen.
  Hypothesis Hlen : forall k m, length (hm k m) = hlen.

  Lemma P_hash_S secret seed j :
    P_hash hm secret seed (S j) = P_hash hm secret seed j ++ P_block hm secret seed j.
  Proof.
    unfold P_hash. rewrite seq_S, flat_map_app. cbn [plus flat_map]. rewrite app_nil_r. reflexivity.
  Qed.

  Lemma P_hash_length secret seed j : length (P_hash hm secret seed j) = j * hlen.
  Proof.
    induction j as [|j IH]; [reflexivity|].
    rewrite P_hash_S, app_length, IH. unfold P_block. rewrite Hlen. lia.
  Qed.

  Lemma P_hash_prefix secret seed j k :
    exists r, P_hash hm secret seed (j + k) = P_hash hm secret seed j ++ r.
  Proof.
    induction k as [|k [r IH]].
    - exists []. rewrite Nat.add_0_r, app_nil_r. reflexivity.
    - exists (r ++ P_block hm secret seed (j + k)).
      rewrite Nat.add_succ_r, P_hash_S, IH, app_assoc. reflexivity.
  Qed.

  Lemma firstn_P_hash_indep secret seed len n m :
    len <= n * hlen -> n <= m ->
    firstn len (P_hash hm secret seed n) = firstn len (P_hash hm secret seed m).
  Proof.
    intros Hn Hm. destruct (P_hash_prefix secret seed n (m - n)) as [r Hr].
    replace (n + (m - n)) with m in Hr by lia. rewrite Hr.
    rewrite firstn_app. rewrite P_hash_length.
    replace (len - n * hlen) with 0 by lia. cbn [firstn]. rewrite app_nil_r. reflexivity.
  Qed.

  (* the loop of hash.rs computes a whole number of blocks covering the requested length *)
  Lemma p_sha_loop_spec secret seed len : forall fuel j,
    len < fuel + j * hlen ->
    exists n, len <= n * hlen /\
      p_sha_loop hm fuel secret seed len (P_hash hm secret seed j) (A hm secret seed j)
      = P_hash hm secret seed n.
  Proof.
    induction fuel as [|f IH]; intros j Hf.
    - exists j. split; [lia | reflexivity].
    - cbn [p_sha_loop]. rewrite P_hash_length.
      destruct (Nat.ltb_spec (j * hlen) len) as [Hlt|Hge].
      + specialize (IH (S j)).
        cbn [A] in IH. rewrite P_hash_S in IH. unfold P_block in IH. cbn [A] in IH.
        apply IH. cbn [Nat.mul]. lia.
      + exists j. split; [lia | reflexivity].
  Qed.

  (* T1: the implementation loop yields the first [len] bytes of the RFC 5246 stream *)
  Theorem p_sha_impl_spec secret seed len n :
    len <= n * hlen -> p_sha_impl hm secret seed len = firstn len (P_hash hm secret seed n).
  Proof.
    intro Hn. unfold p_sha_impl.
    destruct (p_sha_loop_spec secret seed len (S len) 0 ltac:(lia)) as [m [Hm Heq]].
    cbn [P_hash seq flat_map A] in Heq. rewrite Heq.
    destruct (Nat.le_ge_cases m n).
    - apply firstn_P_hash_indep; assumption.
    - symmetry. apply firstn_P_hash_indep; assumption.
  Qed.

  Lemma firstn_skipn_firstn {X} (l : list X) len off :
    firstn len (skipn off (firstn (off + len) l)) = firstn len (skipn off l).
  Proof.
    rewrite skipn_firstn_comm. replace (off + len - off) with len by lia.
    rewrite firstn_firstn, Nat.min_id. reflexivity.
  Qed.

  (* T2: prf(secret, seed, length, offset) is the slice [offset, offset+length) of the stream *)
  Theorem prf_spec secret seed len off n :
    off + len <= n * hlen ->
    prf hm secret seed len off = firstn len (skipn off (P_hash hm secret seed n)).
  Proof.
    intro Hn. unfold prf. rewrite (p_sha_impl_spec secret seed (off + len) n Hn).
    apply firstn_skipn_firstn.
  Qed.
End PShaFacts.

(* ================= output lengths of the concrete hashes ================= *)
Lemma round256_len st kw : length st = 8 -> length (round256 st kw) = 8.
Proof.
  intro H. destruct st as [|a [|b [|c [|d [|e [|f [|g [|h [|x st]]]]]]]]]; cbn in H; try discriminate.
  reflexivity.
Qed.
Lemma fold_round256_len l : forall st, length st = 8 -> length (fold_left round256 l st) = 8.
Proof. induction l as [|x l IH]; intros st H; [exact H|]. cbn. apply IH. apply round256_len. exact H. Qed.
Lemma compress256_len h blk : length h = 8 -> length (compress256 h blk) = 8.
Proof.
  intro H. unfold compress256. rewrite map_length, combine_length, fold_round256_len, H by exact H. reflexivity.
Qed.
Lemma fold_compress256_len l : forall h, length h = 8 -> length (fold_left compress256 l h) = 8.
Proof. induction l as [|x l IH]; intros h H; [exact H|]. cbn. apply IH. apply compress256_len. exact H. Qed.
Lemma flat_map_be32_len l : length (flat_map bytes_of_be32 l) = 4 * length l.
Proof. induction l as [|x l IH]; [reflexivity|]. cbn [flat_map]. rewrite app_length, IH. cbn [length bytes_of_be32]. lia. Qed.
Lemma sha256_len m : length (sha256 m) = 32.
Proof. unfold sha256. rewrite flat_map_be32_len, fold_compress256_len; reflexivity. Qed.

Lemma round1_len st tw : length st = 5 -> length (round1 st tw) = 5.
Proof.
  intro H. destruct st as [|a [|b [|c [|d [|e [|x st]]]]]]; cbn in H; try discriminate. reflexivity.
Qed.
Lemma fold_round1_len l : forall st, length st = 5 -> length (fold_left round1 l st) = 5.
Proof. induction l as [|x l IH]; intros st H; [exact H|]. cbn. apply IH. apply round1_len. exact H. Qed.
Lemma compress1_len h blk : length h = 5 -> length (compress1 h blk) = 5.
Proof.
  intro H. unfold compress1. rewrite map_length, combine_length, fold_round1_len, H by exact H. reflexivity.
Qed.
Lemma fold_compress1_len l : forall h, length h = 5 -> length (fold_left compress1 l h) = 5.
Proof. induction l as [|x l IH]; intros h H; [exact H|]. cbn. apply IH. apply compress1_len. exact H. Qed.
Lemma sha1_len m : length (sha1 m) = 20.
Proof. unfold sha1. rewrite flat_map_be32_len, fold_compress1_len; reflexivity. Qed.

Lemma mac_of_len h k m : length (mac_of h k m) = mac_len h.
Proof. destruct h; cbn [mac_of mac_len]; unfold hmac_sha1, hmac_sha256, hmac; [apply sha1_len | apply sha256_len]. Qed.
Lemma mac_len_pos h : 0 < mac_len h.
Proof. destruct h; cbn; lia. Qed.

(* ================= the generated tables are the Part 6 / Part 7 values ================= *)
Lemma tables_ok p :
  src_sig_len p = spec_sig_len p /\ Z.to_nat (src_enc_len p) = spec_enc_len p /\
  Z.to_nat (src_blk_len p) = spec_blk_len p /\ src_hash p = spec_hash p.
Proof. destruct p; repeat split; reflexivity. Qed.
Lemma slices_ok : src_slices = [(0, []); (1, [0]); (2, [0; 1])]%Z.
Proof. reflexivity. Qed.

(* T3: make_secure_channel_keys(secret, seed) = consecutive slices of P_hash(secret, seed) with
   the specified lengths *)
Theorem make_keys_spec p secret seed : make_keys p secret seed = spec_keys p seed secret.
Proof.
  destruct (tables_ok p) as (Hs & He & Hb & Hh).
  unfold make_keys. rewrite slices_ok. cbn [map]. unfold slice. cbn [fst snd map fold_left].
  unfold src_len. cbn [Z.eqb]. rewrite Hs, He, Hb, Hh.
  unfold spec_keys.
  set (h := spec_hash p). set (s := spec_sig_len p). set (e := spec_enc_len p). set (b := spec_blk_len p).
  set (n := S (Nat.div (s + e + b) (mac_len h))).
  assert (Hn : s + e + b <= n * mac_len h).
  { unfold n. pose proof (mac_len_pos h) as Hp.
    pose proof (Nat.div_mod (s + e + b) (mac_len h) ltac:(lia)) as Hd.
    pose proof (Nat.mod_upper_bound (s + e + b) (mac_len h) ltac:(lia)). cbn [Nat.mul]. lia. }
  assert (Hprf : forall len off, off + len <= n * mac_len h ->
            prf (mac_of h) secret seed len off = firstn len (skipn off (P_hash (mac_of h) secret seed n))).
  { intros len off Hlo. apply (prf_spec (mac_of h) (mac_len h) (mac_len_pos h) (mac_of_len h)). exact Hlo. }
  cbn [Nat.add Pos.eqb].
  rewrite (Hprf s 0) by lia. rewrite (Hprf e s) by lia. rewrite (Hprf b (s + e)) by lia.
  reflexivity.
Qed.

(* T4: both ends agree — what one side uses to secure is what the other uses to verify *)
Theorem keys_agree p client_nonce server_nonce :
  let ck := derive_keys p client_nonce server_nonce in      (* client: local = client nonce *)
  let sk := derive_keys p server_nonce client_nonce in      (* server: local = server nonce *)
  local_keys ck = remote_keys sk /\ local_keys sk = remote_keys ck /\
  local_keys ck = spec_keys p client_nonce server_nonce /\
  local_keys sk = spec_keys p server_nonce client_nonce.
Proof. cbn. repeat split; apply make_keys_spec. Qed.

(* ================= hmac_vec: the empty key ================= *)
Definition hash_of (a : hash_alg) : list byte -> list byte := match a with HSha1 => sha1 | HSha256 => sha256 end.
Lemma mac_of_hmac a : mac_of a = hmac (hash_of a).
Proof. destruct a; reflexivity. Qed.

(* RFC 2104 pads the key with zeros to the block size: one zero byte is the empty key *)
Lemma hmac_key_vec h key : hmac_key h (hmac_vec_key key) = hmac_key h key.
Proof. destruct key as [|b key]; reflexivity. Qed.

(* T6: the MAC hash.rs computes (empty key replaced by [0]) is HMAC of the key given, for every
   key and message *)
Theorem mac_impl_is_hmac a key msg : mac_impl a key msg = mac_of a key msg.
Proof. unfold mac_impl. rewrite mac_of_hmac. unfold hmac. rewrite hmac_key_vec. reflexivity. Qed.

Section Ext.
  Variables hm1 hm2 : list byte -> list byte -> list byte.
  Hypothesis Hext : forall k m, hm1 k m = hm2 k m.
  Lemma p_sha_loop_ext secret seed len : forall fuel result a_last,
    p_sha_loop hm1 fuel secret seed len result a_last = p_sha_loop hm2 fuel secret seed len result a_last.
  Proof.
    induction fuel as [|f IH]; intros result a_last; [reflexivity|].
    cbn [p_sha_loop]. destruct (Nat.ltb (length result) len); [|reflexivity].
    rewrite !Hext. apply IH.
  Qed.
  Lemma prf_ext secret seed len off : prf hm1 secret seed len off = prf hm2 secret seed len off.
  Proof. unfold prf, p_sha_impl. rewrite p_sha_loop_ext. reflexivity. Qed.
End Ext.

Theorem make_keys_impl_eq p secret seed : make_keys_impl p secret seed = make_keys p secret seed.
Proof.
  unfold make_keys_impl, make_keys.
  replace (map (slice_impl p secret seed) src_slices) with (map (slice p secret seed) src_slices); [reflexivity|].
  apply map_ext. intro s. unfold slice_impl, slice. symmetry.
  apply prf_ext. apply mac_impl_is_hmac.
Qed.

(* ================= histories of exchanges on one pair of channels ================= *)
Local Open Scope Z_scope.
Lemma list_eqb_refl l : list_eqb l l = true.
Proof. induction l as [|x l IH]; cbn; [reflexivity|]. rewrite Z.eqb_refl. exact IH. Qed.

(* what the oracle tracks of a channel: both key sets, or nothing *)
Definition view (c : chan) : option (key_set * key_set) :=
  match ch_lkeys c, ch_rkeys c with Some l, Some r => Some (l, r) | _, _ => None end.
(* local_keys and remote_keys are only ever assigned together *)
Definition chan_wf (c : chan) : Prop := (ch_lkeys c = None <-> ch_rkeys c = None).

Lemma obs_chan_view c : chan_wf c -> obs_chan c = enc_side (view c).
Proof.
  unfold chan_wf, obs_chan, view, chan_used, enc_side.
  destruct (ch_lkeys c) as [[[ls le] li]|], (ch_rkeys c) as [[[rs re] ri]|]; intros [H1 H2].
  - cbn [enc_opt enc_used]. rewrite <- ?app_assoc. reflexivity.
  - specialize (H2 eq_refl). discriminate.
  - specialize (H1 eq_refl). discriminate.
  - reflexivity.
Qed.

Lemma src_nonce_length_spec p : src_nonce_length p = spec_nonce_length p.
Proof. destruct p; reflexivity. Qed.

Lemma to_bytes_length l : length (to_bytes l) = length l.
Proof. apply map_length. Qed.

Ltac fin := split; [assumption | split; [reflexivity | first [assumption | reflexivity]]].
(* one side of one exchange: own nonce [own], the peer's [peer] *)
Lemma side_step_spec p mode own peer c :
  chan_wf c ->
  let '(st, c') := side_step p mode (to_bytes own) (to_bytes peer) c in
  chan_wf c' /\
  st = (if accepts p mode peer then 0 else 1) /\
  view c' = (if accepts p mode peer
             then Some (spec_keys p (to_bytes own) (to_bytes peer), spec_keys p (to_bytes peer) (to_bytes own))
             else view c).
Proof.
  intro Hwf. unfold side_step, peer_nonce_in, accepts.
  assert (Hd : forall c0, ch_policy c0 = p -> ch_local c0 = to_bytes own -> ch_remote c0 = to_bytes peer ->
            chan_wf (chan_derive c0) /\
            view (chan_derive c0) = Some (spec_keys p (to_bytes own) (to_bytes peer), spec_keys p (to_bytes peer) (to_bytes own))).
  { intros c0 Hp Hl Hr. split.
    - unfold chan_wf, chan_derive. cbn. split; discriminate.
    - unfold view, chan_derive. cbn [ch_lkeys ch_rkeys]. rewrite Hp, Hl, Hr, !make_keys_impl_eq, !make_keys_spec. reflexivity. }
  destruct (mode =? 0) eqn:E0.
  - cbn [orb Z.eqb]. destruct (Hd (set_remote (to_bytes peer) (set_local (to_bytes own) (set_policy p c)))) as [W V]; try reflexivity.
    cbn [Z.eqb]. fin.
  - cbn [orb]. destruct (mode =? 1) eqn:E1; cbn [andb].
    + unfold set_remote_bs. cbn [ch_policy set_local set_policy].
      rewrite src_nonce_length_spec, to_bytes_length.
      destruct (Nat.eqb (length peer) (spec_nonce_length p)).
      * destruct (Hd (set_remote (to_bytes peer) (set_local (to_bytes own) (set_policy p c)))) as [W V]; try reflexivity.
        cbn [Z.eqb]. fin.
      * cbn [Z.eqb]. fin.
    + unfold set_remote_bs. cbn [Z.eqb]. fin.
Qed.

(* T7: every history, from every (well-formed) state of the two channels *)
Theorem run_rounds_spec rs : forall client server,
  chan_wf client -> chan_wf server ->
  run_rounds client server rs = spec_rounds (view client) (view server) rs.
Proof.
  induction rs as [|r rs IH]; intros client server Hc Hs; [reflexivity|].
  cbn [run_rounds spec_rounds].
  pose proof (side_step_spec (r_policy r) (r_mode r) (r_client_nonce r) (r_server_nonce r) client Hc) as H1.
  pose proof (side_step_spec (r_policy r) (r_mode r) (r_server_nonce r) (r_client_nonce r) server Hs) as H2.
  destruct (side_step (r_policy r) (r_mode r) (to_bytes (r_client_nonce r)) (to_bytes (r_server_nonce r)) client) as [stc c'].
  destruct (side_step (r_policy r) (r_mode r) (to_bytes (r_server_nonce r)) (to_bytes (r_client_nonce r)) server) as [sts s'].
  destruct H1 as (W1 & S1 & V1). destruct H2 as (W2 & S2 & V2).
  rewrite (IH c' s' W1 W2), (obs_chan_view c' W1), (obs_chan_view s' W2), S1, S2, V1, V2.
  reflexivity.
Qed.

Lemma chan_new_wf p : chan_wf (chan_new p).
Proof. unfold chan_wf, chan_new. cbn. tauto. Qed.

Theorem run_eq_spec c : run c = spec c.
Proof. unfold run, spec. apply run_rounds_spec; apply chan_new_wf. Qed.

Theorem oracle_holds c : oracle c (run c) = true.
Proof. unfold oracle. rewrite run_eq_spec. apply list_eqb_refl. Qed.

Lemma end_state_wf rs : forall client server, chan_wf client -> chan_wf server ->
  chan_wf (fst (end_state client server rs)) /\ chan_wf (snd (end_state client server rs)).
Proof.
  induction rs as [|x rs IH]; intros client server Hc Hs; [split; assumption|].
  cbn [end_state].
  pose proof (side_step_spec (r_policy x) (r_mode x) (r_client_nonce x) (r_server_nonce x) client Hc) as H1.
  pose proof (side_step_spec (r_policy x) (r_mode x) (r_server_nonce x) (r_client_nonce x) server Hs) as H2.
  destruct (side_step (r_policy x) (r_mode x) (to_bytes (r_client_nonce x)) (to_bytes (r_server_nonce x)) client) as [a c1].
  destruct (side_step (r_policy x) (r_mode x) (to_bytes (r_server_nonce x)) (to_bytes (r_client_nonce x)) server) as [b s1].
  cbn [snd]. apply IH; [apply H1 | apply H2].
Qed.

Lemma end_state_app rs1 : forall rs2 client server,
  end_state client server (rs1 ++ rs2) =
  end_state (fst (end_state client server rs1)) (snd (end_state client server rs1)) rs2.
Proof.
  induction rs1 as [|x rs1 IH]; intros rs2 client server; [reflexivity|].
  cbn [app end_state]. apply IH.
Qed.

Lemma view_used c k : view c = Some k -> chan_used c = Some k.
Proof.
  destruct k as [l0 r0]. unfold view, chan_used.
  destruct (ch_lkeys c) as [[[? ?] ?]|], (ch_rkeys c) as [[[? ?] ?]|]; try discriminate.
  intro H; inversion H; reflexivity.
Qed.

(* T8: the keys each side USES after any history whose last exchange was accepted by both sides
   are the Part 6 keys of that last exchange - nothing survives from earlier exchanges - and what
   one side secures with is what the other verifies with *)
Theorem keys_after_history rs r client server :
  chan_wf client -> chan_wf server ->
  let p := r_policy r in
  let cn := to_bytes (r_client_nonce r) in let sn := to_bytes (r_server_nonce r) in
  accepts p (r_mode r) (r_server_nonce r) = true -> accepts p (r_mode r) (r_client_nonce r) = true ->
  chan_used (fst (end_state client server (rs ++ [r]))) = Some (spec_keys p cn sn, spec_keys p sn cn) /\
  chan_used (snd (end_state client server (rs ++ [r]))) = Some (spec_keys p sn cn, spec_keys p cn sn).
Proof.
  intros Hc Hs p cn sn A1 A2. rewrite end_state_app.
  destruct (end_state_wf rs client server Hc Hs) as [W1 W2].
  set (c0 := fst (end_state client server rs)) in *. set (s0 := snd (end_state client server rs)) in *.
  cbn [end_state fst snd].
  pose proof (side_step_spec (r_policy r) (r_mode r) (r_client_nonce r) (r_server_nonce r) c0 W1) as H1.
  pose proof (side_step_spec (r_policy r) (r_mode r) (r_server_nonce r) (r_client_nonce r) s0 W2) as H2.
  destruct (side_step (r_policy r) (r_mode r) (to_bytes (r_client_nonce r)) (to_bytes (r_server_nonce r)) c0) as [a c1].
  destruct (side_step (r_policy r) (r_mode r) (to_bytes (r_server_nonce r)) (to_bytes (r_client_nonce r)) s0) as [b s1].
  cbn [snd]. destruct H1 as (_ & _ & V1). destruct H2 as (_ & _ & V2).
  fold p in V1, V2. rewrite A1 in V1. rewrite A2 in V2.
  split; apply view_used; assumption.
Qed.
Local Close Scope Z_scope.

(* ================= different nonces, different keys — as a reduction ================= *)
(* Literally "different nonces give different keys" cannot hold of any function from unbounded
   nonces to 48..80 key bytes; what holds is: two different nonce pairs (peer nonces of equal
   length, at most one HMAC block) that derive the same key material exhibit a collision of the
   underlying hash function. *)
Lemma app_inv_len {X} (a : list X) : forall b c d,
  length a = length c -> a ++ b = c ++ d -> a = c /\ b = d.
Proof.
  induction a as [|x a IH]; intros b [|y c] d Hl H; cbn in Hl; try discriminate.
  - cbn in H. split; [reflexivity | exact H].
  - cbn in H. inversion H as [[H1 H2]]. destruct (IH b c d) as [E1 E2]; [lia | exact H2 |].
    subst. split; reflexivity.
Qed.

Section Distinct.
  Variable h : list byte -> list byte.
  Variable hlen : nat.
  Hypothesis Hhlen : forall x, length (h x) = hlen.

  Definition collision : Prop := exists x y, x <> y /\ h x = h y.

  Lemma map_lxor_inj c a b : map (N.lxor c) a = map (N.lxor c) b -> a = b.
  Proof.
    revert b. induction a as [|x a IH]; intros [|y b] H; cbn in H; try discriminate; [reflexivity|].
    inversion H as [[H1 H2]]. f_equal; [|apply IH; exact H2].
    rewrite (N.lxor_comm c x), (N.lxor_comm c y) in H1.
    apply (f_equal (fun v => N.lxor v c)) in H1. rewrite !N.lxor_assoc, N.lxor_nilpotent, !N.lxor_0_r in H1. exact H1.
  Qed.

  Lemma hmac_key_short k : length k <= 64 -> hmac_key h k = k ++ repeat 0%N (64 - length k).
  Proof.
    intro Hk. unfold hmac_key. destruct (Nat.ltb_spec 64 (length k)); [lia|]. reflexivity.
  Qed.

  Lemma hmac_key_inj k k' : length k = length k' -> length k <= 64 -> hmac_key h k = hmac_key h k' -> k = k'.
  Proof.
    intros Hl Hk H. rewrite !hmac_key_short in H by lia.
    apply app_inv_len in H; [|exact Hl]. destruct H as [H _]. exact H.
  Qed.

  Definition bytes_dec : forall a b : list byte, {a = b} + {a <> b} := list_eq_dec N.eq_dec.

  (* two different (key, message) pairs, keys of equal length <= 64, with the same HMAC *)
  Lemma hmac_inj_or_collision k m k' m' :
    length k = length k' -> length k <= 64 -> (k <> k' \/ m <> m') ->
    hmac h k m = hmac h k' m' -> collision.
  Proof.
    intros Hl Hk Hne Heq. unfold hmac in Heq.
    set (K := hmac_key h k) in *. set (K' := hmac_key h k') in *.
    assert (HKl : length K = length K').
    { unfold K, K'. rewrite !hmac_key_short by lia. rewrite !app_length, !repeat_length. lia. }
    destruct (bytes_dec (map (N.lxor 92) K ++ h (map (N.lxor 54) K ++ m))
                        (map (N.lxor 92) K' ++ h (map (N.lxor 54) K' ++ m'))) as [E|NE].
    - (* outer inputs equal: keys equal and inner digests equal *)
      apply app_inv_len in E; [|rewrite !map_length; exact HKl].
      destruct E as [E1 E2].
      apply map_lxor_inj in E1.
      assert (k = k') by (apply hmac_key_inj; assumption).
      destruct Hne as [Hne|Hne]; [contradiction|].
      exists (map (N.lxor 54) K ++ m), (map (N.lxor 54) K' ++ m'). split; [|exact E2].
      rewrite E1. intro E3. apply app_inv_head in E3. contradiction.
    - exists (map (N.lxor 92) K ++ h (map (N.lxor 54) K ++ m)),
             (map (N.lxor 92) K' ++ h (map (N.lxor 54) K' ++ m')). split; assumption.
  Qed.

  (* first block of the stream: HMAC(secret, HMAC(secret, seed) ++ seed) *)
  Theorem first_block_inj_or_collision secret seed secret' seed' :
    length secret = length secret' -> length secret <= 64 ->
    (secret, seed) <> (secret', seed') ->
    P_block (hmac h) secret seed 0 = P_block (hmac h) secret' seed' 0 -> collision.
  Proof.
    intros Hl Hk Hne Heq. unfold P_block in Heq. cbn [A] in Heq.
    destruct (bytes_dec secret secret') as [Es|Ns].
    - subst secret'. assert (Hd : seed <> seed') by (intro; subst; apply Hne; reflexivity).
      apply (hmac_inj_or_collision _ _ _ _ Hl Hk) in Heq; [exact Heq|]. right.
      intro E. apply app_inv_len in E.
      + destruct E; contradiction.
      + unfold hmac. rewrite !Hhlen. reflexivity.
    - apply (hmac_inj_or_collision _ _ _ _ Hl Hk) in Heq; [exact Heq|]. left. exact Ns.
  Qed.
End Distinct.

Lemma hash_of_len a x : length (hash_of a x) = mac_len a.
Proof. destruct a; [apply sha1_len | apply sha256_len]. Qed.

Lemma key_material_covers_block p : mac_len (spec_hash p) <= spec_sig_len p + spec_enc_len p + spec_blk_len p.
Proof. destruct p; cbn; lia. Qed.

Lemma firstn_plus {X} a : forall b (l : list X), firstn (a + b) l = firstn a l ++ firstn b (skipn a l).
Proof.
  induction a as [|a IH]; intros b l; [reflexivity|].
  destruct l as [|x l]; cbn [Nat.add firstn skipn app].
  - destruct b; reflexivity.
  - rewrite IH. reflexivity.
Qed.

Lemma skipn_plus {X} a : forall b (l : list X), skipn (a + b) l = skipn b (skipn a l).
Proof.
  induction a as [|a IH]; intros b l; [reflexivity|].
  destruct l as [|x l]; cbn [Nat.add skipn]; [destruct b; reflexivity | apply IH].
Qed.

Lemma firstn_three {X} (l : list X) s e b :
  firstn (s + e + b) l = firstn s l ++ firstn e (skipn s l) ++ firstn b (skipn (s + e) l).
Proof.
  rewrite <- Nat.add_assoc. rewrite firstn_plus. f_equal. rewrite firstn_plus. f_equal.
  rewrite skipn_plus. reflexivity.
Qed.

(* T5 *)
Theorem distinct_nonces_distinct_keys_or_collision p own peer own' peer' :
  length peer = length peer' -> length peer <= 64 -> (own, peer) <> (own', peer') ->
  spec_keys p own peer = spec_keys p own' peer' ->
  collision (hash_of (spec_hash p)).
Proof.
  intros Hl Hk Hne Heq.
  set (a := spec_hash p) in *.
  apply (first_block_inj_or_collision (hash_of a) (mac_len a) (hash_of_len a) peer own peer' own' Hl Hk).
  { intro E. inversion E; subst. apply Hne. reflexivity. }
  unfold spec_keys in Heq. fold a in Heq. rewrite mac_of_hmac in Heq.
  set (s := spec_sig_len p) in *. set (e := spec_enc_len p) in *. set (b := spec_blk_len p) in *.
  set (n := S (Nat.div (s + e + b) (mac_len a))) in *.
  set (st := P_hash (hmac (hash_of a)) peer own n) in *.
  set (st' := P_hash (hmac (hash_of a)) peer' own' n) in *.
  assert (Hf : firstn (s + e + b) st = firstn (s + e + b) st').
  { rewrite !firstn_three.
    pose proof (f_equal (fun t => fst (fst t)) Heq) as H1.
    pose proof (f_equal (fun t => snd (fst t)) Heq) as H2.
    pose proof (f_equal snd Heq) as H3. cbn [fst snd] in H1, H2, H3.
    rewrite H1, H2, H3. reflexivity. }
  assert (Hcov : mac_len a <= s + e + b) by apply key_material_covers_block.
  apply (f_equal (firstn (mac_len a))) in Hf. rewrite !firstn_firstn in Hf.
  replace (Nat.min (mac_len a) (s + e + b)) with (mac_len a) in Hf by lia.
  assert (Hb : forall sec sd, firstn (mac_len a) (P_hash (hmac (hash_of a)) sec sd n) = P_block (hmac (hash_of a)) sec sd 0).
  { intros sec sd.
    assert (Hbl : length (P_block (hmac (hash_of a)) sec sd 0) = mac_len a)
      by (unfold P_block, hmac; apply hash_of_len).
    unfold n, P_hash. cbn [seq flat_map].
    rewrite firstn_app, Hbl, Nat.sub_diag. cbn [firstn]. rewrite app_nil_r.
    apply firstn_all2. rewrite Hbl. lia. }
  unfold st, st' in Hf. rewrite !Hb in Hf. exact Hf.
Qed.

(* non-vacuity and known-answer checks *)
Example sha256_abc :
  sha256 [97; 98; 99]%N = [186;120;22;191;143;1;207;234;65;65;64;222;93;174;34;35;176;3;97;163;150;23;122;156;180;16;255;97;242;0;21;173]%N.
Proof. vm_compute. reflexivity. Qed.
Example sha1_abc :
  sha1 [97; 98; 99]%N = [169;153;62;54;71;6;129;106;186;62;37;113;120;80;194;108;156;208;216;157]%N.
Proof. vm_compute. reflexivity. Qed.
(* RFC 4231 test case 2 / RFC 2202 test case 2: key "Jefe", data "what do ya want for nothing?" *)
Example hmac_sha256_rfc4231_2 :
  hmac_sha256 [74;101;102;101]%N [119;104;97;116;32;100;111;32;121;97;32;119;97;110;116;32;102;111;114;32;110;111;116;104;105;110;103;63]%N
  = [91;220;193;70;191;96;117;78;106;4;36;38;8;149;117;199;90;0;63;8;157;39;57;131;157;236;88;185;100;236;56;67]%N.
Proof. vm_compute. reflexivity. Qed.
Example hmac_sha1_rfc2202_2 :
  hmac_sha1 [74;101;102;101]%N [119;104;97;116;32;100;111;32;121;97;32;119;97;110;116;32;102;111;114;32;110;111;116;104;105;110;103;63]%N
  = [239;252;223;106;229;235;47;162;210;116;22;213;241;132;223;156;37;154;124;121]%N.
Proof. vm_compute. reflexivity. Qed.
