(* C01 — the hand-written Argument structure (lib/src/types/argument.rs; method input / output
   argument descriptions), as committed after "fix: Argument byte_len counted array dimensions ...".
   Definitions only.

   encode writes the array dimensions only for a positive value rank (and then requires them to be
   present with exactly value_rank entries); otherwise it writes an empty array.  decode reads
   whatever array is there and rejects it only if value_rank > 0 and the number of dimensions
   differs.  So for value_rank <= 0 the dimensions are normalised to the empty array. *)
From Coq Require Import List ZArith Bool Lia.
Import ListNotations.
From OV Require Import C01.Codec C01.Builtins.
Open Scope Z_scope.

(* [desc] is a LocalizedText scalar (SLText locale text) *)
Inductive argval := Arg (name : ustr) (dt : nodeid) (rank : Z) (dims : option (list Z)) (desc : scalar).

Definition enc_arg (a : argval) : bytes :=
  match a with Arg name dt rank dims desc =>
    enc_ustr name ++ enc_nodeid dt ++ enc_i 4 rank
    ++ (if 0 <? rank then enc_array (enc_u 4) dims else enc_u 4 0)
    ++ enc_scalar desc
  end.
(* byte_len after the fix *)
Definition len_arg (a : argval) : Z :=
  match a with Arg name dt rank dims desc =>
    len_ustr name + len_nodeid dt + 4
    + (if 0 <? rank then len_array (fun _ => 4) dims else 4)
    + len_scalar desc
  end.
Definition dec_arg (o : opts) : M argval :=
  name <- dec_str o ;;
  dt <- dec_nodeid o ;;
  rank <- read_i 4 ;;
  dims <- dec_array o 4 (read_u 4) ;;
  if match dims with
     | Some ds => (0 <? rank) && negb (rank =? Z.of_nat (length ds))
     | None => false
     end
  then fail EInvalid
  else desc <- dec_ltext o ;; ret (Arg name dt rank dims desc).

(* what encode() accepts: dimensions present and as many as the rank when the rank is positive *)
Definition wf_arg (a : argval) : Prop :=
  match a with Arg name dt rank dims desc =>
    wf_str name /\ wf_nodeid dt /\ in_i 4 rank
    /\ (0 < rank -> exists ds, dims = Some ds /\ Z.of_nat (length ds) = rank /\ Forall (in_u 4) ds)
    /\ scalar_ty desc = 21 /\ wf_scalar desc
  end.
Definition chk_arg (o : opts) (a : argval) : option err :=
  match a with Arg name dt rank dims desc =>
    seq_chk (chk_ustr (max_str o) name)
      (seq_chk (chk_nodeid o dt)
         (seq_chk (chk_array o (fun _ : Z => None) (if 0 <? rank then dims else Some []))
                  (chk_scalar o O desc)))
  end.
Definition norm_arg (a : argval) : argval :=
  match a with Arg name dt rank dims desc =>
    Arg name dt rank (if 0 <? rank then dims else Some []) (norm_scalar desc)
  end.

Definition arg_codec : codec argval :=
  {| enc := enc_arg; dec := fun o _ => dec_arg o; blen := len_arg; wf := wf_arg;
     chk := fun o _ => chk_arg o; norm := norm_arg |}.

Definition ser_arg (ser_scalar : scalar -> list Z) (a : argval) : list Z :=
  match a with Arg name dt rank dims desc =>
    (match name with None => [0] | Some b => 1 :: Z.of_nat (length b) :: b end)
    ++ (match dt with
        | NId ns (INum v) => [ns; 0; v]
        | NId ns (IStr s) => [ns; 1] ++ (match s with None => [0] | Some b => 1 :: Z.of_nat (length b) :: b end)
        | NId ns (IGuid g) => [ns; 2] ++ Z.of_nat (length g) :: g
        | NId ns (IBStr s) => [ns; 3] ++ (match s with None => [0] | Some b => 1 :: Z.of_nat (length b) :: b end)
        end)
    ++ [rank]
    ++ (match dims with None => [0] | Some ds => 1 :: Z.of_nat (length ds) :: ds end)
    ++ ser_scalar desc
  end.

Module LegacyArg.
  (* byte_len before the fix: the dimensions were counted whatever the rank *)
  Definition len_arg (a : argval) : Z :=
    match a with Arg name dt rank dims desc =>
      len_ustr name + len_nodeid dt + 4 + len_array (fun _ => 4) dims + len_scalar desc
    end.
End LegacyArg.
