(* Executable model of `References` (lib/src/server/address_space/references.rs), shared by
   C28 and C29.  No proofs here.

   Node ids and reference type ids are numeric ids (Z).  A `Reference` is the pair
   (reference_type, target_node).  The two `HashMap`s are association lists that are only ever
   read through [get] and written through [put]/[del] (so the order of entries, like the
   iteration order of a HashMap, is never observable); a `HashSet<NodeId>` is a list of ids.
   Each function follows the Rust function of the same name branch for branch, as committed in
   the repository (after "fix: deleting one reference also removed the opposite-direction
   reference"); the code before that fix is in [Legacy]. *)
From Coq Require Import List ZArith Bool.
Import ListNotations.
Open Scope Z_scope.

(* ---- association lists as maps ------------------------------------------------------- *)
Section AList.
  Context {V : Type}.
  Fixpoint get (k : Z) (m : list (Z * V)) : option V :=
    match m with
    | [] => None
    | (k', v) :: m' => if k =? k' then Some v else get k m'
    end.
  Definition del (k : Z) (m : list (Z * V)) : list (Z * V) :=
    filter (fun kv => negb (fst kv =? k)) m.
  Definition put (k : Z) (v : V) (m : list (Z * V)) : list (Z * V) := (k, v) :: del k m.
End AList.

Section Buckets.
  Context {A : Type}.
  (* the bucket of key k, empty when the key is absent *)
  Definition bucket (k : Z) (m : list (Z * list A)) : list A :=
    match get k m with Some b => b | None => [] end.
  (* "write the bucket back; if it became empty remove the entry" *)
  Definition set_bucket (k : Z) (b : list A) (m : list (Z * list A)) : list (Z * list A) :=
    match b with [] => del k m | _ => put k b m end.
End Buckets.

(* ---- References ------------------------------------------------------------------------ *)
Definition ref := (Z * Z)%type.                   (* (reference_type, target_node) *)
Definition ref_eqb (a b : ref) : bool := (fst a =? fst b) && (snd a =? snd b).
Definition mem_ref (r : ref) (l : list ref) : bool := existsb (ref_eqb r) l.
Definition memZ (x : Z) (l : list Z) : bool := existsb (Z.eqb x) l.

Record refs := mk_refs {
  fwd : list (Z * list ref);     (* references_map    : HashMap<NodeId, Vec<Reference>> *)
  rb  : list (Z * list Z)        (* referenced_by_map : HashMap<NodeId, HashSet<NodeId>> *)
}.
Definition empty_refs : refs := mk_refs [] [].

Inductive outcome := Ok (st : refs) | Panic.

(* insert_reference(source, target, type) *)
Definition insert_reference (st : refs) (s t ty : Z) : outcome :=
  if s =? t then Panic                                   (* panic!("... self reference is not allowed") *)
  else
    let fwd' :=
      match get s (fwd st) with
      | Some b => if mem_ref (ty, t) b then fwd st       (* duplicates are skipped *)
                  else put s (b ++ [(ty, t)]) (fwd st)
      | None => put s [(ty, t)] (fwd st)
      end in
    let rb' :=
      match get t (rb st) with
      | Some l => put t (if memZ s l then l else l ++ [s]) (rb st)
      | None => put t [s] (rb st)
      end in
    Ok (mk_refs fwd' rb').

(* the two halves of the closure in remove_node_from_referenced_nodes, for one node_to_check x *)
Definition fwd_retain (x n : Z) (f : list (Z * list ref)) : list (Z * list ref) :=
  match get x f with
  | Some b => set_bucket x (filter (fun r => negb (snd r =? n)) b) f
  | None => f
  end.
Definition rb_remove (x n : Z) (r : list (Z * list Z)) : list (Z * list Z) :=
  match get x r with
  | Some l => set_bucket x (filter (fun y => negb (y =? n)) l) r
  | None => r
  end.

(* remove_node_from_referenced_nodes(nodes_to_check, node_to_remove) *)
Definition remove_node_from_referenced_nodes (xs : list Z) (n : Z) (st : refs) : refs :=
  fold_left (fun st x => mk_refs (fwd_retain x n (fwd st)) (rb_remove x n (rb st))) xs st.

Definition hit (t ty : Z) (r : ref) : bool := (fst r =? ty) && (snd r =? t).

(* delete_reference(source, target, type) -> deleted *)
Definition delete_reference (st : refs) (s t ty : Z) : bool * refs :=
  match get s (fwd st) with
  | Some b =>
      let before := nodup Z.eq_dec (map snd b) in
      let deleted := existsb (hit t ty) b in
      let b' := filter (fun r => negb (hit t ty r)) b in            (* retain *)
      let after := map snd b' in
      let difference := filter (fun x => negb (memZ x after)) before in
      let rb' := fold_left (fun r x => rb_remove x s r) difference (rb st) in
      (deleted, mk_refs (set_bucket s b' (fwd st)) rb')
  | None => (false, st)
  end.

(* delete_node_references(node) -> deleted_references || deleted_lookups *)
Definition delete_node_references (st : refs) (n : Z) : bool * refs :=
  let '(d1, st1) :=
    match get n (fwd st) with
    | Some b => (true, remove_node_from_referenced_nodes (nodup Z.eq_dec (map snd b)) n
                         (mk_refs (del n (fwd st)) (rb st)))
    | None => (false, st)
    end in
  let '(d2, st2) :=
    match get n (rb st1) with
    | Some l => (true, remove_node_from_referenced_nodes l n (mk_refs (fwd st1) (del n (rb st1))))
    | None => (false, st1)
    end in
  (d1 || d2, st2).

(* has_reference(source, target, type) *)
Definition has_reference (st : refs) (s t ty : Z) : bool :=
  match get s (fwd st) with Some b => mem_ref (ty, t) b | None => false end.

Definition nonempty {A} (l : list A) : option (list A) := match l with [] => None | _ => Some l end.

(* find_references(node, None) *)
Definition find_references (st : refs) (n : Z) : option (list ref) :=
  match get n (fwd st) with Some b => nonempty b | None => None end.

(* find_inverse_references(node, None): pairs (reference_type, source) *)
Definition find_inverse_references (st : refs) (n : Z) : option (list ref) :=
  match get n (rb st) with
  | Some l =>
      nonempty (flat_map (fun s =>
                  match get s (fwd st) with
                  | Some b => map (fun r => (fst r, s)) (filter (fun r => snd r =? n) b)
                  | None => []
                  end) l)
  | None => None
  end.

Definition opt_list {A} (o : option (list A)) : list A := match o with Some l => l | None => [] end.

(* ---- the code before the fix ------------------------------------------------------------ *)
Module Legacy.
  (* delete_reference handed the targets that are no longer referenced to
     remove_node_from_referenced_nodes(difference, source), which also strips every reference
     from such a target back to the source (and never touches the source's own inverse entry) *)
  Definition delete_reference (st : refs) (s t ty : Z) : bool * refs :=
    match get s (fwd st) with
    | Some b =>
        let before := nodup Z.eq_dec (map snd b) in
        let deleted := existsb (hit t ty) b in
        let b' := filter (fun r => negb (hit t ty r)) b in
        let after := map snd b' in
        let difference := filter (fun x => negb (memZ x after)) before in
        let st1 := mk_refs (put s b' (fwd st)) (rb st) in           (* retained in place *)
        let st2 := match difference with
                   | [] => st1
                   | _ => remove_node_from_referenced_nodes difference s st1
                   end in
        (deleted, mk_refs (match b' with [] => del s (fwd st2) | _ => fwd st2 end) (rb st2))
    | None => (false, st)
    end.
End Legacy.
