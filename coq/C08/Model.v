(* C08 — modified or foreign secured chunks are never accepted.
   Correspondence interface.  A case is a receiving channel in Sign or SignAndEncrypt mode (or an
   OPN receiver), a list of chunks and, for each chunk, whether it is an original (produced by
   the peer under the channel's keys: must be accepted) or a modification of an original / a
   chunk secured with other keys or another certificate (must be rejected with an error).  The
   receive path, the segment notation and the transcript of the primitives are those of C09. *)
From Coq Require Import List ZArith Bool.
Import ListNotations.
From OV Require Export C07.Chan.
From OV Require C09.Model.
Open Scope Z_scope.

(* the constructors the harness writes C09 cases with *)
Notation mk_case := C09.Model.mk_case (only parsing).
Notation mk_tr := C09.Model.mk_tr (only parsing).
Notation L := C09.Model.L (only parsing).
Notation Rp := C09.Model.Rp (only parsing).

Record case := mk_case8 {
  c_recv : C09.Model.case;         (* channel, chunks, transcript *)
  c_orig : list bool;              (* per chunk: true = original, false = modified / foreign *)
  c_pre : list (list C09.Model.seg) (* chunks an outsider put on the wire first (unsecured OPN chunks, garbage):
                                      the channel has received them, in order, when it meets each judged chunk *)
}.

Definition report (r : res bytes) : list Z :=
  match r with Ok rc => [0; len rc] | _ => [C09.Model.code9 r; -1] end.

(* the preamble: what the receive path answers to each of its chunks, and the policy the channel
   is left with (an OPN chunk can change it) *)
Fixpoint pre_feed (fx : fixes) (c : case) (p : policy) (pre : list (list C09.Model.seg)) : list Z * policy :=
  match pre with
  | [] => ([], p)
  | ch :: rest =>
      let '(r, p') := recv (C09.Model.tr_prims (C09.Model.c_tr (c_recv c))) fx (C09.Model.receiver_of (c_recv c) p) (C09.Model.flat ch) in
      let '(os, pf) := pre_feed fx c p' rest in (report r ++ os, pf)
  end.
Definition pre_policy (fx : fixes) (c : case) : policy := snd (pre_feed fx c (C09.Model.c_policy (c_recv c)) (c_pre c)).

(* every judged chunk meets the channel in the same state -- configured policy, then the preamble
   (the harness puts the policy back and replays the preamble before each): status and length of
   the returned chunk *)
Definition one (fx : fixes) (c : case) (ch : bytes) : res bytes :=
  fst (recv (C09.Model.tr_prims (C09.Model.c_tr (c_recv c))) fx
            (C09.Model.receiver_of (c_recv c) (pre_policy fx c)) ch).
Definition judged (fx : fixes) (c : case) : list Z :=
  flat_map (fun ch => report (one fx c (C09.Model.flat ch))) (C09.Model.c_chunks (c_recv c)).
Definition run_with (fx : fixes) (c : case) : list Z :=
  fst (pre_feed fx c (C09.Model.c_policy (c_recv c)) (c_pre c)) ++ judged fx c.
Definition run (c : case) : list Z := run_with current c.

(* output: (status, length) per chunk; status 0 = accepted, 1 / 2 = rejected with an error, -2 = panic *)
Fixpoint check (orig : list bool) (out : list Z) : bool :=
  match orig, out with
  | [], [] => true
  | o :: orig', st :: _ :: out' =>
      (if o then st =? 0 else (st =? 1) || (st =? 2)) && check orig' out'
  | _, _ => false
  end.
(* the preamble's two entries per chunk are not judged: whether the unsecured chunks themselves are
   passed on is the business of the layers above (C15); what is judged is every secured chunk after them *)
Definition oracle (c : case) (out : list Z) : bool := check (c_orig c) (skipn (2 * length (c_pre c)) out).

Definition known (c : case) : Z := 0.

Fixpoint differs_from_all (x : bytes) (l : list bytes) : bool :=
  match l with [] => true | y :: t => negb (bytes_eqb x y) && differs_from_all x t end.
Fixpoint select (keep : bool) (orig : list bool) (chunks : list bytes) : list bytes :=
  match orig, chunks with
  | o :: orig', ch :: chunks' => if Bool.eqb o keep then ch :: select keep orig' chunks' else select keep orig' chunks'
  | _, _ => []
  end.
Definition chunk_bytes (c : case) : list bytes := map C09.Model.flat (C09.Model.c_chunks (c_recv c)).
(* no sequence check in this property; every modified chunk differs from every original *)
Definition validb (c : case) : bool :=
  C09.Model.validb (c_recv c) && negb (C09.Model.c_validate (c_recv c))
  && Nat.eqb (length (c_orig c)) (length (C09.Model.c_chunks (c_recv c)))
  && forallb (fun x => differs_from_all x (select true (c_orig c) (chunk_bytes c))) (select false (c_orig c) (chunk_bytes c)).
Definition valid (c : case) : Prop := validb c = true.
