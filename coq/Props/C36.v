(* C36 — Each received notification is acknowledged exactly once.  Statements only. *)
From Coq Require Import List ZArith Permutation.
Import ListNotations.
From OV Require Import C36.Model C36.Proofs C36.Sound.
Open Scope Z_scope.

(* For every interleaving of publish calls, successful responses and failures (any number in
   flight), every received (subscription, sequence number) is in exactly one place: waiting to be
   sent, carried by an in-flight request, or acknowledged by a request that succeeded. *)
Theorem C36_invariant : forall c : list op,
  let s := fold_left step c init in
  Permutation (received s) (concat (sent_ok s) ++ concat (inflight s) ++ pending s).
Proof. exact inv_reachable. Qed.
Print Assumptions C36_invariant.

(* Hence, once nothing waits and nothing is in flight, the successfully sent acknowledgements
   are exactly the received numbers, each exactly as often as it was received. *)
Theorem C36_exactly_once : forall c : list op,
  let s := fold_left step c init in
  pending s = [] -> inflight s = [] -> Permutation (received s) (concat (sent_ok s)).
Proof. exact exactly_once_at_quiescence. Qed.
Print Assumptions C36_exactly_once.

(* None is acknowledged twice after a successful send (never more often than it was received). *)
Theorem C36_never_twice : forall (c : list op) (x : ack),
  let s := fold_left step c init in
  (count_occ adec (concat (sent_ok s)) x <= count_occ adec (received s) x)%nat.
Proof. exact sent_within_received. Qed.
Print Assumptions C36_never_twice.

(* Acknowledgements of a publish request that failed are sent again with a later one: the very
   next request carries them (and everything else that waited), for any state and any in-flight
   request that fails. *)
Theorem C36_failed_resent : forall (s : st) (k : Z), inflight s <> [] ->
  let i := pick k (length (inflight s)) in
  let s' := step (step s (RespErr k)) Start in
  inflight s' = remove_nth i (inflight s) ++ [pending s ++ nth i (inflight s) []] /\ pending s' = [].
Proof. exact failed_resent. Qed.
Print Assumptions C36_failed_resent.

(* Subscription changes on the client, and publish calls that never reach the server, do not touch
   the bookkeeping (so the theorems above cover histories containing them). *)
Theorem C36_neutral_operations : forall (s : st) (o : op),
  match o with StartDown _ | SubAdd _ | SubDel _ | SubMod _ | SubPub _ => True | _ => False end ->
  step s o = s.
Proof. exact down_and_subscription_changes_are_neutral. Qed.
Print Assumptions C36_neutral_operations.

(* The oracle IS the property, for any output and without reference to the model: whatever
   observation sequence it accepts -- the implementation's, which the driver feeds it -- has a
   complete ledger in which every received number is in exactly one place: acknowledged by an
   OBSERVED request that succeeded, carried by an observed request still in flight, or waiting;
   and no number is acknowledged more often than it was received. *)
Theorem C36_oracle_sound : forall (c : case) (out : list Z), oracle c out = true ->
  exists a i s r, ledger [] [] [] [] c out = Some (a, i, s, r) /\
                  Permutation r (concat s ++ concat i ++ a).
Proof. exact oracle_sound. Qed.
Print Assumptions C36_oracle_sound.

Theorem C36_oracle_sound_never_twice : forall (c : case) (out : list Z) (x : ack),
  oracle c out = true ->
  match ledger [] [] [] [] c out with
  | Some (_, _, s, r) => (count_occ adec (concat s) x <= count_occ adec r x)%nat
  | None => False
  end.
Proof. exact oracle_sound_never_twice. Qed.
Print Assumptions C36_oracle_sound_never_twice.

(* The executable oracle used on the implementation's observations holds on the model for every
   operation sequence (no validity hypothesis is needed: every sequence is a valid history). *)
Theorem C36_oracle : forall c : case, known c = 0 -> oracle c (run c) = true.
Proof. intros c _. apply oracle_holds. Qed.
Print Assumptions C36_oracle.
