(* C25 — the deadband comparison in the reals (Flocq Bminus_correct / Bcompare_correct). *)
From Coq Require Import ZArith Reals Bool Lia Lra.
From Flocq Require Import Core.Core IEEE754.Binary IEEE754.Bits.
From OV Require Import C25.Model.
Open Scope R_scope.

Notation B2R64 := (B2R 53 1024).
Definition rnd64 (x : R) : R :=
  round radix2 (SpecFloat.fexp 53 1024) (BinarySingleNaN.round_mode BinarySingleNaN.mode_NE) x.

#[local] Instance prec53 : Prec_gt_0 53 := eq_refl.
#[local] Instance emax1024 : BinarySingleNaN.Prec_lt_emax 53 1024 := eq_refl.

Lemma fle_Rle a b : ffinite a = true -> ffinite b = true -> (fle a b = true <-> B2R64 a <= B2R64 b).
Proof.
  intros Ha Hb. unfold fle, fcmp. rewrite Bcompare_correct by assumption.
  destruct (Rcompare_spec (B2R64 a) (B2R64 b)); split; intros H'; try reflexivity; try discriminate; lra.
Qed.

(* |round(x - y)| <= d in the reals makes the code's comparison say "the same" *)
Lemma abs_compare_of_real x y d :
  ffinite x = true -> ffinite y = true -> ffinite d = true ->
  Rabs (rnd64 (B2R64 x - B2R64 y)) <= B2R64 d -> abs_compare x y d = true.
Proof.
  intros Hx Hy Hd Hr.
  unfold abs_compare, fabs, fsub, b64_abs, b64_minus.
  match goal with |- context [Bminus 53 1024 ?p1 ?p2 _ _ x y] =>
    pose proof (Bminus_correct 53 1024 p1 p2 binop_nan_pl64 BinarySingleNaN.mode_NE x y Hx Hy) as Hm end.
  pose proof (abs_B2R_lt_emax 53 1024 d) as Hdm.
  rewrite Rlt_bool_true in Hm.
  2:{ eapply Rle_lt_trans; [exact Hr|]. eapply Rle_lt_trans; [apply RRle_abs|exact Hdm]. }
  destruct Hm as (Hv & Hf & _).
  match goal with |- fle ?a d = true =>
    assert (Hfa : ffinite a = true) by (unfold ffinite; rewrite is_finite_Babs; exact Hf);
    apply (fle_Rle a d Hfa Hd) end.
  rewrite B2R_Babs, Hv. exact Hr.
Qed.

(* conversely, when the code says "the same", the rounded difference is within the deadband *)
Lemma real_of_abs_compare x y d :
  ffinite x = true -> ffinite y = true -> ffinite d = true ->
  abs_compare x y d = true -> Rabs (rnd64 (B2R64 x - B2R64 y)) <= B2R64 d.
Proof.
  intros Hx Hy Hd Hc.
  unfold abs_compare, fabs, fsub, b64_abs, b64_minus in Hc.
  match type of Hc with context [Bminus 53 1024 ?p1 ?p2 _ _ x y] =>
    pose proof (Bminus_correct 53 1024 p1 p2 binop_nan_pl64 BinarySingleNaN.mode_NE x y Hx Hy) as Hm end.
  fold (rnd64 (B2R64 x - B2R64 y)) in Hm.
  destruct (Rlt_bool (Rabs (rnd64 (B2R64 x - B2R64 y))) (bpow radix2 1024)) eqn:Eb.
  - destruct Hm as (Hv & Hf & _).
    match type of Hc with fle ?a d = true =>
      assert (Hfa : ffinite a = true) by (unfold ffinite; rewrite is_finite_Babs; exact Hf);
      apply (fle_Rle a d Hfa Hd) in Hc end.
    rewrite B2R_Babs, Hv in Hc. exact Hc.
  - (* overflow: the difference is an infinity, which is above every finite deadband *)
    destruct Hm as (Hm & _). exfalso.
    match type of Hc with context [Bminus 53 1024 ?p1 ?p2 ?n ?m x y] =>
      destruct (Bminus 53 1024 p1 p2 n m x y) as [s|s|s pl Hpl|s mm e He] end.
    all: cbn in Hm; try discriminate Hm.
    destruct d; cbn in Hd; try discriminate Hd; destruct s; cbn in Hc; discriminate Hc.
Qed.

Theorem report_means_real_move x y d :
  ffinite x = true -> ffinite y = true -> ffinite d = true ->
  abs_compare x y d = false -> B2R64 d < Rabs (B2R64 x - B2R64 y).
Proof.
  intros Hx Hy Hd Hc. apply Rnot_le_lt. intros Hle.
  rewrite abs_compare_of_real in Hc; try assumption; [discriminate|].
  unfold rnd64. cbn [BinarySingleNaN.round_mode].
  rewrite <- round_NE_abs by apply (fexp_correct 53 1024 prec53).
  rewrite <- (round_generic radix2 (SpecFloat.fexp 53 1024) ZnearestE (B2R64 d))
    by apply generic_format_B2R.
  apply round_le; [apply (fexp_correct 53 1024 prec53) | apply valid_rnd_N | exact Hle].
Qed.
