(* C39 — LIKE: the translated pattern, read back by the regex subset and matched, is the LIKE
   specification, for every well-formed pattern without `_` and every string. *)
From Coq Require Import List ZArith Bool Lia.
From OV Require Import C39.Like.
Import ListNotations.
Open Scope Z_scope.

Lemma mem_true_iff c l : mem c l = true <-> In c l.
Proof.
  unfold mem. rewrite existsb_exists. split.
  - intros [x [Hin Heq]]. apply Z.eqb_eq in Heq. subst. exact Hin.
  - intros Hin. exists c. split; [exact Hin | apply Z.eqb_refl].
Qed.

Ltac unfold_chars :=
  unfold cBS, cLB, cRB, cCARET, cDASH, cPCT, cUS, cDOT, cSTAR, cQM, cDOLLAR in *.

Ltac split_orb_false :=
  repeat match goal with
         | H : (_ || _) = false |- _ => apply orb_false_iff in H; destruct H
         end.

(* from `special c = false` to the disequalities, as rewritable facts *)
Ltac mem_false H :=
  unfold like_special, list_special, special_in, special_out, raw_forbidden_out, raw_forbidden_in, mem in H;
  unfold_chars; cbn [existsb] in H; split_orb_false.

Ltac rewrite_neqs :=
  repeat match goal with
         | H : (?c =? ?k) = false |- _ => rewrite ?H; clear H
         | H : false = false |- _ => clear H
         end.

(* from `special c = true` to the finitely many characters *)
Ltac mem_true H :=
  unfold like_special, list_special, special_in, special_out in H;
  repeat match type of H with (_ || _) = true => apply orb_true_iff in H; destruct H as [H | H] end;
  apply mem_true_iff in H; unfold_chars; cbn [In] in H;
  repeat match type of H with _ \/ _ => destruct H as [H | H] end; try contradiction; subst.

(* ---- what the translation emits, item by item ------------------------------------------------- *)
Definition emit_range (r : Z * Z) : list Z :=
  if fst r =? snd r then push_lit true (fst r) else push_lit true (fst r) ++ cDASH :: push_lit true (snd r).
Definition emit_item (it : litem) : list Z :=
  match it with
  | LChar c => push_lit false c
  | LOne => [cQM]
  | LMany => [cDOT; cSTAR]
  | LSet neg rs => [cLB] ++ (if neg then [cCARET] else []) ++ flat_map emit_range rs ++ [cRB]
  end.

Lemma opt_app_app a b r : opt_app (a ++ b) r = opt_app a (opt_app b r).
Proof. destruct r; cbn; [rewrite app_assoc|]; reflexivity. Qed.
Lemma opt_app_nil r : opt_app [] r = r.
Proof. destruct r; reflexivity. Qed.

Lemma l2r_char c rest :
  l2r (MOut false) (print_char c ++ rest) = opt_app (push_lit false c) (l2r (MOut false) rest).
Proof.
  unfold print_char. destruct (like_special c) eqn:Hs.
  - mem_true Hs; reflexivity.
  - mem_false Hs. cbn [app l2r]. unfold_chars. rewrite_neqs. reflexivity.
Qed.

(* a list member, printed, from any list state that is not inside a range and not escaped *)
Lemma l2r_member c ls le rf rest :
  l2r (MIn false ls le rf false) (print_member c ++ rest)
  = opt_app (push_lit true c) (l2r (MIn false false false (Some c) false) rest).
Proof.
  unfold print_member. destruct (list_special c) eqn:Hs.
  - mem_true Hs; cbn [app l2r]; unfold_chars; cbn; reflexivity.
  - mem_false Hs. cbn [app l2r]. unfold_chars. rewrite_neqs. cbn [andb]. reflexivity.
Qed.

Lemma l2r_member_hi lo c rest :
  lo <= c ->
  l2r (MIn false false false (Some lo) true) (print_member c ++ rest)
  = opt_app (cDASH :: push_lit true c) (l2r (MIn false false false None false) rest).
Proof.
  intros Hle. assert (Hlt : (c <? lo) = false) by (apply Z.ltb_ge; lia).
  unfold print_member. destruct (list_special c) eqn:Hs.
  - mem_true Hs; cbn [app l2r]; unfold_chars; cbn [Z.eqb Pos.eqb andb negb]; rewrite ?Hlt; cbn; rewrite ?Hlt; reflexivity.
  - mem_false Hs. cbn [app l2r]. unfold_chars. rewrite_neqs. cbn [andb negb]. rewrite Hlt. reflexivity.
Qed.

Definition rf_after (r : Z * Z) : option Z := if fst r =? snd r then Some (fst r) else None.

Lemma l2r_open rest : l2r (MOut false) (91 :: rest) = opt_app [91] (l2r (MIn false true true None false) rest).
Proof. reflexivity. Qed.
Lemma l2r_caret le rest :
  l2r (MIn false true le None false) (94 :: rest) = opt_app [94] (l2r (MIn false false le None false) rest).
Proof. reflexivity. Qed.
Lemma l2r_close rf rest :
  l2r (MIn false false false rf false) (93 :: rest) = opt_app [93] (l2r (MOut false) rest).
Proof. reflexivity. Qed.
Lemma l2r_dash lo ls le rest :
  l2r (MIn false ls le (Some lo) false) (45 :: rest) = l2r (MIn false ls le (Some lo) true) rest.
Proof. destruct ls; reflexivity. Qed.

Lemma l2r_range r ls le rf rest :
  fst r <= snd r ->
  l2r (MIn false ls le rf false) (print_range r ++ rest)
  = opt_app (emit_range r) (l2r (MIn false false false (rf_after r) false) rest).
Proof.
  intros Hle. unfold print_range, emit_range, rf_after. destruct (fst r =? snd r) eqn:He.
  - apply l2r_member.
  - rewrite <- app_assoc. rewrite l2r_member.
    unfold cDASH. cbn [app]. rewrite l2r_dash.
    rewrite (l2r_member_hi (fst r) (snd r) rest Hle).
    unfold cDASH. rewrite opt_app_app. reflexivity.
Qed.

Lemma l2r_ranges rs : forall ls le rf rest,
  forallb (fun r => fst r <=? snd r) rs = true -> rs <> [] ->
  exists rf', l2r (MIn false ls le rf false) (flat_map print_range rs ++ rest)
              = opt_app (flat_map emit_range rs) (l2r (MIn false false false rf' false) rest).
Proof.
  induction rs as [|r rs IH]; intros ls le rf rest Hwf Hne; [contradiction|].
  cbn [forallb] in Hwf. apply andb_true_iff in Hwf as [Hr Hrs]. apply Z.leb_le in Hr.
  cbn [flat_map]. rewrite <- app_assoc. rewrite (l2r_range r ls le rf _ Hr).
  destruct rs as [|r' rs'].
  - cbn [flat_map app]. rewrite app_nil_r. eexists. reflexivity.
  - destruct (IH false false (rf_after r) rest Hrs ltac:(discriminate)) as [rf' Heq].
    exists rf'. rewrite Heq. rewrite opt_app_app. reflexivity.
Qed.

Lemma opt_app_cons a l r : opt_app (a :: l) r = opt_app [a] (opt_app l r).
Proof. destruct r; reflexivity. Qed.

Lemma l2r_item it rest :
  litem_wf it = true ->
  l2r (MOut false) (print_item it ++ rest) = opt_app (emit_item it) (l2r (MOut false) rest).
Proof.
  intros Hwf. destruct it as [c | | | neg rs].
  - apply l2r_char.
  - reflexivity.
  - reflexivity.
  - cbn [litem_wf] in Hwf. apply andb_true_iff in Hwf as [Hne Hwf].
    assert (Hne' : rs <> []) by (destruct rs; [discriminate | discriminate]).
    unfold print_item, emit_item. unfold_chars. destruct neg.
    + cbn [app]. rewrite <- app_assoc. rewrite l2r_open, l2r_caret.
      destruct (l2r_ranges rs false true None ([93] ++ rest) Hwf Hne') as [rf' Heq].
      rewrite Heq. cbn [app]. rewrite l2r_close.
      destruct (l2r (MOut false) rest); cbn [opt_app]; [|reflexivity]. cbn [app]. rewrite <- ?app_assoc. reflexivity.
    + cbn [app]. rewrite <- app_assoc. rewrite l2r_open.
      destruct (l2r_ranges rs true true None ([93] ++ rest) Hwf Hne') as [rf' Heq].
      rewrite Heq. cbn [app]. rewrite l2r_close.
      destruct (l2r (MOut false) rest); cbn [opt_app]; [|reflexivity]. cbn [app]. rewrite <- ?app_assoc. reflexivity.
Qed.

Lemma l2r_print p :
  like_wf p = true ->
  l2r (MOut false) (like_print p) = Some (flat_map emit_item p ++ [cDOLLAR]).
Proof.
  induction p as [|it p IH]; intros Hwf; [reflexivity|].
  cbn [like_wf forallb] in Hwf. apply andb_true_iff in Hwf as [Hit Hp].
  unfold like_print. cbn [flat_map]. rewrite (l2r_item it _ Hit).
  fold (like_print p). rewrite (IH Hp). cbn [opt_app]. rewrite app_assoc. reflexivity.
Qed.

(* ---- reading the emitted text back ------------------------------------------------------------- *)
Definition compile_item (it : litem) : atom * kind :=
  match it with
  | LChar c => (ALit c, One)
  | LOne => (AAny, Opt)         (* not what the scanner does with it; never used below *)
  | LMany => (AAny, Star)
  | LSet neg rs => (AClass neg rs, One)
  end.

Lemma special_out_in c : special_out c = true -> special_in c = true.
Proof. intros H. unfold special_in. rewrite H. reflexivity. Qed.

Lemma scan_lit_out c acc rest :
  re_scan (RItems false) acc (push_lit false c ++ rest) = re_scan (RItems false) ((ALit c, One) :: acc) rest.
Proof.
  unfold push_lit. destruct (special_out c) eqn:Hs.
  - pose proof (special_out_in c Hs) as Hin.
    cbn [app re_scan]. unfold_chars. cbn [Z.eqb Pos.eqb]. rewrite Hin. reflexivity.
  - mem_false Hs. cbn [app re_scan]. unfold raw_forbidden_out, mem. unfold_chars. cbn [existsb].
    rewrite_neqs. cbn [orb]. reflexivity.
Qed.

Lemma scan_member c neg first pending rs acc rest :
  re_scan (RClass false neg first pending false rs) acc (push_lit true c ++ rest)
  = re_scan (RClass false neg false (Some c) false (class_ranges pending rs)) acc rest.
Proof.
  unfold push_lit. destruct (special_in c) eqn:Hs.
  - cbn [app re_scan]. unfold_chars. cbn [Z.eqb Pos.eqb]. rewrite Hs. reflexivity.
  - mem_false Hs. cbn [app re_scan]. unfold raw_forbidden_in, mem. unfold_chars. cbn [existsb].
    rewrite_neqs. cbn [orb andb]. reflexivity.
Qed.

Lemma scan_member_hi lo c neg rs acc rest :
  lo <= c ->
  re_scan (RClass false neg false (Some lo) true rs) acc (push_lit true c ++ rest)
  = re_scan (RClass false neg false None false ((lo, c) :: rs)) acc rest.
Proof.
  intros Hle. assert (Hlt : (c <? lo) = false) by (apply Z.ltb_ge; lia).
  unfold push_lit. destruct (special_in c) eqn:Hs.
  - cbn [app re_scan]. unfold_chars. cbn [Z.eqb Pos.eqb]. rewrite Hs, Hlt. reflexivity.
  - mem_false Hs. cbn [app re_scan]. unfold raw_forbidden_in, mem. unfold_chars. cbn [existsb].
    rewrite_neqs. cbn [orb andb]. rewrite Hlt. reflexivity.
Qed.

(* the scanner state after the ranges [done] have been read *)
Definition class_state_ok (done : list (Z * Z)) (pending : option Z) (rs : list (Z * Z)) : Prop :=
  rev (class_ranges pending rs) = done.

Lemma scan_open acc rest :
  re_scan (RItems false) acc (91 :: rest) = re_scan (RClass false false true None false []) acc rest.
Proof. reflexivity. Qed.
Lemma scan_caret acc rest :
  re_scan (RClass false false true None false []) acc (94 :: rest) = re_scan (RClass false true true None false []) acc rest.
Proof. reflexivity. Qed.
Lemma scan_close neg pending rs acc rest :
  re_scan (RClass false neg false pending false rs) acc (93 :: rest)
  = re_scan (RItems false) ((AClass neg (rev (class_ranges pending rs)), One) :: acc) rest.
Proof. reflexivity. Qed.
Lemma scan_dash neg lo rs acc rest :
  re_scan (RClass false neg false (Some lo) false rs) acc (45 :: rest)
  = re_scan (RClass false neg false (Some lo) true rs) acc rest.
Proof. destruct neg; reflexivity. Qed.

Lemma scan_range r neg first pending rs acc rest done :
  fst r <= snd r -> class_state_ok done pending rs ->
  exists pending' rs',
    re_scan (RClass false neg first pending false rs) acc (emit_range r ++ rest)
    = re_scan (RClass false neg false pending' false rs') acc rest
    /\ class_state_ok (done ++ [r]) pending' rs'.
Proof.
  intros Hle Hok. unfold emit_range. destruct (fst r =? snd r) eqn:He.
  - apply Z.eqb_eq in He. rewrite scan_member.
    exists (Some (fst r)), (class_ranges pending rs). split; [reflexivity|].
    unfold class_state_ok in *. cbn [class_ranges rev]. rewrite Hok.
    destruct r as [a b]; cbn in *; subst; reflexivity.
  - rewrite <- app_assoc. rewrite scan_member.
    unfold cDASH. cbn [app]. rewrite scan_dash.
    rewrite (scan_member_hi (fst r) (snd r) neg _ acc rest Hle).
    exists None, ((fst r, snd r) :: class_ranges pending rs). split; [reflexivity|].
    unfold class_state_ok in *. cbn [class_ranges rev]. rewrite Hok. destruct r; reflexivity.
Qed.

Lemma scan_ranges rs0 : forall neg first pending rs acc rest done,
  forallb (fun r => fst r <=? snd r) rs0 = true -> class_state_ok done pending rs ->
  exists pending' rs',
    re_scan (RClass false neg first pending false rs) acc (flat_map emit_range rs0 ++ rest)
    = re_scan (RClass false neg (match rs0 with [] => first | _ => false end) pending' false rs') acc rest
    /\ class_state_ok (done ++ rs0) pending' rs'.
Proof.
  induction rs0 as [|r rs0 IH]; intros neg first pending rs acc rest done Hwf Hok.
  - exists pending, rs. cbn [flat_map app]. rewrite app_nil_r. split; [reflexivity | exact Hok].
  - cbn [forallb] in Hwf. apply andb_true_iff in Hwf as [Hr Hrs]. apply Z.leb_le in Hr.
    cbn [flat_map]. rewrite <- app_assoc.
    destruct (scan_range r neg first pending rs acc (flat_map emit_range rs0 ++ rest) done Hr Hok)
      as [p1 [rs1 [Heq1 Hok1]]].
    rewrite Heq1.
    destruct (IH neg false p1 rs1 acc rest (done ++ [r]) Hrs Hok1) as [p2 [rs2 [Heq2 Hok2]]].
    exists p2, rs2. rewrite Heq2. split.
    + destruct rs0; reflexivity.
    + rewrite <- app_assoc in Hok2. exact Hok2.
Qed.

Lemma scan_item it acc rest :
  litem_wf it = true -> it <> LOne ->
  re_scan (RItems false) acc (emit_item it ++ rest) = re_scan (RItems false) (compile_item it :: acc) rest.
Proof.
  intros Hwf Hone. destruct it as [c | | | neg rs].
  - apply scan_lit_out.
  - contradiction.
  - reflexivity.
  - cbn [litem_wf] in Hwf. apply andb_true_iff in Hwf as [Hne Hwf].
    destruct rs as [|r rs]; [discriminate|].
    unfold emit_item, compile_item. unfold_chars. destruct neg.
    + cbn [app]. rewrite <- app_assoc. rewrite scan_open, scan_caret.
      destruct (scan_ranges (r :: rs) true true None [] acc ([93] ++ rest) [] Hwf eq_refl) as [p' [rs' [Heq Hok]]].
      rewrite Heq. cbn [app]. rewrite scan_close.
      unfold class_state_ok in Hok. rewrite Hok. reflexivity.
    + cbn [app]. rewrite <- app_assoc. rewrite scan_open.
      destruct (scan_ranges (r :: rs) false true None [] acc ([93] ++ rest) [] Hwf eq_refl) as [p' [rs' [Heq Hok]]].
      rewrite Heq. cbn [app]. rewrite scan_close.
      unfold class_state_ok in Hok. rewrite Hok. reflexivity.
Qed.

Lemma scan_items p : forall acc,
  like_wf p = true -> has_one p = false ->
  re_scan (RItems false) acc (flat_map emit_item p ++ [cDOLLAR]) = Some (Some (rev acc ++ map compile_item p)).
Proof.
  induction p as [|it p IH]; intros acc Hwf Hone.
  - cbn. rewrite app_nil_r. reflexivity.
  - cbn [like_wf forallb] in Hwf. apply andb_true_iff in Hwf as [Hit Hp].
    cbn [has_one existsb] in Hone. apply orb_false_iff in Hone as [Hit1 Hp1].
    cbn [flat_map]. rewrite <- app_assoc. rewrite scan_item; [|exact Hit|destruct it; discriminate].
    rewrite (IH _ Hp Hp1). cbn [rev map]. rewrite <- app_assoc. reflexivity.
Qed.

(* the text after ^ does not start with ? *)
Lemma emit_head p : has_one p = false ->
  strip_qm (flat_map emit_item p ++ [cDOLLAR]) = (O, flat_map emit_item p ++ [cDOLLAR]).
Proof.
  destruct p as [|it p]; intros Hone; [reflexivity|].
  cbn [has_one existsb] in Hone. apply orb_false_iff in Hone as [Hit _].
  cbn [flat_map]. destruct it as [c | | | neg rs]; try discriminate; try reflexivity.
  cbn [emit_item]. unfold push_lit. destruct (special_out c) eqn:Hs; [reflexivity|].
  mem_false Hs. cbn [app strip_qm]. unfold_chars. rewrite_neqs. reflexivity.
Qed.

(* ---- matching ------------------------------------------------------------------------------------ *)
Lemma match_spec p : has_one p = false -> forall s, re_full true (map compile_item p) s = like_spec p s.
Proof.
  induction p as [|it p IH]; intros Hone s; [reflexivity|].
  cbn [has_one existsb] in Hone. apply orb_false_iff in Hone as [Hit Hp].
  specialize (IH Hp).
  destruct it as [c | | | neg rs]; try discriminate.
  - cbn. destruct s as [|x s]; [reflexivity|]. rewrite IH. reflexivity.
  - cbn [map compile_item re_full like_spec].
    induction s as [|x s IHs].
    + cbn. rewrite IH. reflexivity.
    + cbn. rewrite IH. cbn in IHs. rewrite IHs. reflexivity.
  - cbn. destruct s as [|x s]; [reflexivity|]. rewrite IH. reflexivity.
Qed.

(* ---- the theorem --------------------------------------------------------------------------------- *)
Theorem like_fixed_is_spec : forall p s,
  like_wf p = true -> has_one p = false ->
  like_model true (like_print p) s = Some (like_spec p s).
Proof.
  intros p s Hwf Hone. unfold like_model, like_to_regex_fixed.
  rewrite (l2r_print p Hwf). cbn [opt_app app].
  unfold re_parse. unfold_chars. cbn [Z.eqb Pos.eqb].
  pose proof (emit_head p Hone) as Hh. unfold_chars. rewrite Hh.
  pose proof (scan_items p [] Hwf Hone) as Hs. unfold_chars. rewrite Hs.
  cbn [rev app re_is_match]. rewrite (match_spec p Hone). reflexivity.
Qed.

(* and directly for the CLike form of [run]: the regex is never outside the subset *)
Lemma like_fixed_text : forall p,
  like_wf p = true -> like_to_regex_fixed (like_print p) = Some (cCARET :: flat_map emit_item p ++ [cDOLLAR]).
Proof. intros p Hwf. unfold like_to_regex_fixed. rewrite (l2r_print p Hwf). reflexivity. Qed.

Lemma like_fixed_parse : forall p,
  like_wf p = true -> has_one p = false ->
  re_parse (cCARET :: flat_map emit_item p ++ [cDOLLAR]) = RParsed true (map compile_item p).
Proof.
  intros p Hwf Hone. unfold re_parse. unfold_chars. cbn [Z.eqb Pos.eqb].
  pose proof (emit_head p Hone) as Hh. unfold_chars. rewrite Hh.
  pose proof (scan_items p [] Hwf Hone) as Hs. unfold_chars. rewrite Hs. reflexivity.
Qed.

(* a canonical text without the character _ has no _ wildcard *)
Lemma no_us_no_one : forall p, mem cUS (like_print p) = false -> has_one p = false.
Proof.
  induction p as [|it p IH]; intros H; [reflexivity|].
  unfold like_print in H. cbn [flat_map] in H. unfold mem in H. rewrite existsb_app in H.
  apply orb_false_iff in H as [H1 H2]. cbn [has_one existsb]. fold (has_one p).
  rewrite (IH H2). destruct it; try reflexivity. cbn in H1. discriminate.
Qed.

Lemma list_Zeqb_eq : forall a b, list_Zeqb a b = true -> a = b.
Proof.
  induction a as [|x a IH]; intros [|y b] H; cbn in H; try discriminate; [reflexivity|].
  apply andb_true_iff in H as [H1 H2]. apply Z.eqb_eq in H1. rewrite (IH b H2). congruence.
Qed.

Lemma like_parse_checked_sound : forall pat p,
  like_parse_checked pat = Some p -> like_wf p = true /\ like_print p = pat.
Proof.
  intros pat p H. unfold like_parse_checked in H.
  destruct (like_parse_go (S (length pat)) POut [] pat) as [q|]; [|discriminate].
  destruct (like_wf q && list_Zeqb (like_print q) pat) eqn:Hc; [|discriminate].
  inversion H; subst. apply andb_true_iff in Hc as [Hw He]. split; [exact Hw | apply list_Zeqb_eq; exact He].
Qed.
