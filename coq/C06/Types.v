(* C06 — vocabulary shared by the generated table (Gen/C06Table.v) and the model. *)
From Coq Require Import ZArith.

(* VariantTypeId, in the order of the Rust enum *)
Inductive ty :=
| TEmpty | TBoolean | TSByte | TByte | TInt16 | TUInt16 | TInt32 | TUInt32 | TInt64 | TUInt64
| TFloat | TDouble | TString | TDateTime | TGuid | TStatusCode | TByteString | TXmlElement
| TQualifiedName | TLocalizedText | TNodeId | TExpandedNodeId | TExtensionObject | TVariant
| TDataValue | TDiagnosticInfo | TArray.

(* comparison operators as written in the source *)
Inductive ord := OLt | OLe | OGt | OGe.

(* right-hand sides of the arms of Variant::convert *)
Inductive crule :=
| RAs       (* (v as T).into()   [also ((v as u8) as T) for Boolean, (v.bits() as T) for StatusCode] *)
| RTry      (* T::try_from(v).map(|v| v.into()).unwrap_or(Variant::Empty) *)
| RNonNeg   (* if v < 0 { Variant::Empty } else { (v as T).into() } *)
| ROpaque.  (* anything involving a non-numeric type: present in the table, not interpreted *)

(* the value handed to a cast macro *)
Inductive arg :=
| AV           (* v *)
| ARound       (* f64::round(v) / f32::round(v): nearest, ties away from zero *)
| ATruncHalf   (* f64::trunc(v + 0.5) — the pinned code before the fix *)
| AAsI64.      (* v as i64 *)

(* right-hand sides of the explicit arms of Variant::cast *)
Inductive xrule :=
| XInt (a : arg)     (* cast_to_integer!(a, from, to) *)
| XFloat (a : arg)   (* cast_float_to_integer!(a, from, to) *)
| XBool (a : arg)    (* cast_to_bool!(a) *)
| XAs                (* (v as T).into(), T::from(v) for a Boolean v *)
| XStatusHi          (* (((v.bits() & 0xffff_0000) >> 16) as u16).into() *)
| XOpaque.
