From Coq Require Import List ZArith Bool Lia.
Import ListNotations.
From OV Require Import C15.Model.
Open Scope Z_scope.

Lemma legacy_refuted : oracle [FHel 0 true true; FMsg 0 true] (render (Legacy.trace [FHel 0 true true; FMsg 0 true])) = false.
Proof. vm_compute. reflexivity. Qed.
