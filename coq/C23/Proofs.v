From Coq Require Import List ZArith Bool Lia.
From Flocq Require Import IEEE754.Binary IEEE754.Bits.
Import ListNotations.
From OV Require Import C23.Model.
Open Scope Z_scope.

(* ---- IEEE comparison facts (structural; no real-number reasoning) ------------------------- *)
Lemma fcmp_nan_l a b : fnan a = true -> fcmp a b = None.
Proof. destruct a; try discriminate. reflexivity. Qed.

Lemma fcmp_nan_r a b : fnan b = true -> fcmp a b = None.
Proof. destruct b; try discriminate. destruct a; reflexivity. Qed.

Lemma fcmp_none a b : fcmp a b = None -> fnan a = true \/ fnan b = true.
Proof.
  destruct a as [sa|sa|sa pa Ha|sa ma ea Ha], b as [sb|sb|sb pb Hb|sb mb eb Hb];
    cbn; intros H; try discriminate; auto.
Qed.

Lemma fcmp_refl a : fnan a = false -> fcmp a a = Some Eq.
Proof.
  destruct a as [s|s|s p H|s m e H]; cbn; intros Hn; try discriminate.
  - reflexivity.
  - destruct s; reflexivity.
  - unfold fcmp, Bcompare, BinarySingleNaN.Bcompare. cbn.
    rewrite Z.compare_refl, Pos.compare_cont_refl. destruct s; reflexivity.
Qed.

Lemma fcmp_swap a b :
  fcmp b a = match fcmp a b with Some c => Some (CompOpp c) | None => None end.
Proof. apply Bcompare_swap. Qed.

Lemma fcmp_zero_sign a s1 s2 : fcmp a (B754_zero 53 1024 s1) = fcmp a (B754_zero 53 1024 s2).
Proof. destruct a; reflexivity. Qed.

(* the canonical form loses nothing a comparison can see *)
Lemma of_bits_canon_cmp a f : fcmp a (of_bits (canon f)) = fcmp a f.
Proof.
  destruct f as [s|s|s p H|s m e H].
  - cbn [canon]. change (of_bits 0) with (B754_zero 53 1024 false). apply fcmp_zero_sign.
  - unfold canon, of_bits, b64_of_bits, bits_of_b64. rewrite binary_float_of_bits_of_binary_float. reflexivity.
  - cbn [canon]. rewrite !fcmp_nan_r; [reflexivity | reflexivity | vm_compute; reflexivity].
  - unfold canon, of_bits, b64_of_bits, bits_of_b64. rewrite binary_float_of_bits_of_binary_float. reflexivity.
Qed.

Lemma fle_canon a f : fle a (of_bits (canon f)) = fle a f.
Proof. unfold fle. rewrite of_bits_canon_cmp. reflexivity. Qed.

Lemma canon_fm1 : canon fm1 = BITS_M1.
Proof. vm_compute. reflexivity. Qed.

(* ---- the five bounds, for all requests ------------------------------------------------------ *)

(* 1. publishing interval: every f64 request (NaN, infinities, negatives) *)
Theorem pub_bound (mn r : f64) : fnan mn = false -> fle mn (fmax r mn) = true.
Proof.
  intros Hm. unfold fmax. rewrite Hm.
  destruct (fnan r) eqn:Hr.
  - unfold fle. rewrite fcmp_refl by exact Hm. reflexivity.
  - unfold flt. destruct (fcmp r mn) as [[| |]|] eqn:E.
    + unfold fle. rewrite fcmp_swap, E. reflexivity.
    + unfold fle. rewrite fcmp_refl by exact Hm. reflexivity.
    + unfold fle. rewrite fcmp_swap, E. reflexivity.
    + apply fcmp_none in E. destruct E; congruence.
Qed.

(* the revised publishing interval is a number whenever the minimum is *)
Theorem pub_not_nan (mn r : f64) : fnan mn = false -> fnan (fmax r mn) = false.
Proof.
  intros Hm. unfold fmax. rewrite Hm. destruct (fnan r) eqn:Hr; [exact Hm|].
  destruct (flt r mn); assumption.
Qed.

(* 2. keep-alive count *)
Theorem ka_bound l rka : 1 <= l_def_ka l <= l_max_ka l -> 0 <= rka ->
  1 <= revise_keep_alive l rka <= l_max_ka l.
Proof.
  intros Hd Hr. unfold revise_keep_alive.
  destruct (Z.ltb_spec (l_max_ka l) rka); [lia|].
  destruct (Z.eqb_spec rka 0); lia.
Qed.

(* 3. lifetime count: no overflow, at least three times the keep-alive count *)
Theorem lt_bound l ka rlt : 1 <= ka <= l_max_ka l -> 3 * l_max_ka l <= l_max_lt l <= U32MAX ->
  exists t, revise_lifetime l ka rlt = Done t /\ 3 * ka <= t.
Proof.
  intros Hk Hl. unfold revise_lifetime.
  replace (U32MAX <? ka * 3) with false by (symmetry; apply Z.ltb_ge; lia).
  eexists; split; [reflexivity|].
  destruct (Z.ltb_spec rlt (ka * 3)); [lia|].
  destruct (Z.ltb_spec (l_max_lt l) rlt); lia.
Qed.

(* 4. sampling interval: -1 or at least the minimum, for every f64 request *)
Theorem samp_bound l (r : f64) : fnan (l_min_samp l) = false ->
  sanitize_sampling_interval l r = fm1 \/
  fle (l_min_samp l) (sanitize_sampling_interval l r) = true.
Proof.
  intros Hm. unfold sanitize_sampling_interval.
  destruct (flt r fzero); [left; reflexivity|]. right.
  destruct (fnan r) eqn:Hr; cbn [orb].
  - unfold fle. rewrite fcmp_refl by exact Hm. reflexivity.
  - destruct (feq r fzero); cbn [orb].
    + unfold fle. rewrite fcmp_refl by exact Hm. reflexivity.
    + unfold flt. destruct (fcmp r (l_min_samp l)) as [[| |]|] eqn:E.
      * unfold fle. rewrite fcmp_swap, E. reflexivity.
      * unfold fle. rewrite fcmp_refl by exact Hm. reflexivity.
      * unfold fle. rewrite fcmp_swap, E. reflexivity.
      * apply fcmp_none in E. destruct E; congruence.
Qed.

(* the revised sampling interval is never NaN *)
Theorem samp_not_nan l (r : f64) : fnan (l_min_samp l) = false ->
  fnan (sanitize_sampling_interval l r) = false.
Proof.
  intros Hm. unfold sanitize_sampling_interval.
  destruct (flt r fzero); [vm_compute; reflexivity|].
  destruct (fnan r) eqn:Hr; cbn [orb]; [exact Hm|].
  destruct (feq r fzero || flt r (l_min_samp l)); assumption.
Qed.

(* 5. queue size *)
Theorem q_bound l r : 1 <= l_max_q l -> 0 <= r -> 1 <= sanitize_queue_size l r <= l_max_q l.
Proof.
  intros Hm Hr. unfold sanitize_queue_size.
  destruct (Z.eqb_spec r 0); [cbn; lia|].
  destruct (Z.eqb_spec r 1); [cbn; lia|]. cbn [orb].
  destruct (Z.ltb_spec (l_max_q l) r); lia.
Qed.

(* whatever the configured maximum (0 included), a revised queue size is at least 1 *)
Theorem q_floor l r : 0 <= r -> 1 <= sanitize_queue_size l r.
Proof.
  intros Hr. unfold sanitize_queue_size.
  destruct (Z.eqb_spec r 0); [cbn; lia|].
  destruct (Z.eqb_spec r 1); [cbn; lia|]. cbn [orb].
  destruct (Z.ltb_spec (l_max_q l) r); lia.
Qed.

(* ---- the oracle on the model's own output -------------------------------------------------- *)
Lemma validb_spec c : valid c ->
  fnan (of_bits (c_min_pub c)) = false /\ fnan (of_bits (c_min_samp c)) = false /\
  1 <= c_def_ka c <= c_max_ka c /\ 3 * c_max_ka c <= c_max_lt c <= U32MAX /\ 1 <= c_max_q c /\
  0 <= c_ka c <= U32MAX /\ 0 <= c_lt c <= U32MAX /\ 0 <= c_q c <= U32MAX.
Proof.
  unfold valid, validb. intros H.
  repeat (apply andb_true_iff in H as [H ?]).
  repeat match goal with
         | H : negb _ = true |- _ => apply negb_true_iff in H
         | H : (_ <=? _) = true |- _ => apply Z.leb_le in H
         end.
  repeat split; assumption.
Qed.

Theorem bounds_hold c : valid c -> bounds c (run c) = true.
Proof.
  intros Hv. apply validb_spec in Hv as (Hp & Hs & Hd & Hl & Hq & Hka & Hlt & Hrq).
  unfold run, run_with, revise_subscription_values.
  pose proof (ka_bound (lim c) (c_ka c) Hd (proj1 Hka)) as Hk.
  destruct (lt_bound (lim c) (revise_keep_alive (lim c) (c_ka c)) (c_lt c) Hk Hl) as (t & Et & Ht).
  rewrite Et. cbn [app]. unfold bounds.
  rewrite fle_canon.
  change (l_min_pub (lim c)) with (of_bits (c_min_pub c)).
  rewrite (pub_bound (of_bits (c_min_pub c)) (of_bits (c_pub c)) Hp).
  change (l_max_ka (lim c)) with (c_max_ka c) in Hk.
  cbn [andb].
  replace (1 <=? revise_keep_alive (lim c) (c_ka c)) with true by (symmetry; apply Z.leb_le; lia).
  replace (revise_keep_alive (lim c) (c_ka c) <=? c_max_ka c) with true by (symmetry; apply Z.leb_le; lia).
  replace (3 * revise_keep_alive (lim c) (c_ka c) <=? t) with true by (symmetry; apply Z.leb_le; lia).
  pose proof (q_bound (lim c) (c_q c) Hq (proj1 Hrq)) as Hqb.
  change (l_max_q (lim c)) with (c_max_q c) in Hqb.
  replace (1 <=? sanitize_queue_size (lim c) (c_q c)) with true by (symmetry; apply Z.leb_le; lia).
  replace (sanitize_queue_size (lim c) (c_q c) <=? c_max_q c) with true by (symmetry; apply Z.leb_le; lia).
  cbn [andb]. rewrite andb_true_r.
  assert (Hok : samp_ok c (canon (sanitize_sampling_interval (lim c) (of_bits (c_samp c)))) = true).
  { unfold samp_ok. destruct (samp_bound (lim c) (of_bits (c_samp c)) Hs) as [E|E].
    - rewrite E, canon_fm1, Z.eqb_refl. reflexivity.
    - rewrite fle_canon. change (l_min_samp (lim c)) with (of_bits (c_min_samp c)) in E.
      rewrite E. apply orb_true_r. }
  unfold item_intervals, modify_answer, revise_subscription_values. rewrite Et.
  cbn [repeat app length Nat.eqb firstn skipn forallb]. rewrite !Hok. cbn [andb].
  rewrite fle_canon. change (l_min_pub (lim c)) with (of_bits (c_min_pub c)).
  rewrite (pub_bound (of_bits (c_min_pub c)) (of_bits (c_pub c)) Hp). cbn [andb].
  replace (1 <=? revise_keep_alive (lim c) (c_ka c)) with true by (symmetry; apply Z.leb_le; lia).
  replace (revise_keep_alive (lim c) (c_ka c) <=? c_max_ka c) with true by (symmetry; apply Z.leb_le; lia).
  replace (3 * revise_keep_alive (lim c) (c_ka c) <=? t) with true by (symmetry; apply Z.leb_le; lia).
  reflexivity.
Qed.

Theorem oracle_holds c : valid c -> known c = 0 -> oracle c (run c) = true.
Proof. intros Hv _. unfold oracle. rewrite bounds_hold by exact Hv. apply orb_true_r. Qed.

(* under a valid configuration the only panic site (`keep_alive * 3` in u32) is unreachable *)
Theorem no_panic c : valid c ->
  exists p k t, revise_subscription_values (lim c) (of_bits (c_pub c)) (c_ka c) (c_lt c) = Done (p, k, t).
Proof.
  intros Hv. apply validb_spec in Hv as (Hp & Hs & Hd & Hl & Hq & Hka & Hlt & Hrq).
  unfold revise_subscription_values.
  pose proof (ka_bound (lim c) (c_ka c) Hd (proj1 Hka)) as Hk.
  destruct (lt_bound (lim c) (revise_keep_alive (lim c) (c_ka c)) (c_lt c) Hk Hl) as (t & Et & Ht).
  rewrite Et. eauto.
Qed.

(* ---- the pinned code before the fix ---------------------------------------------------------- *)
(* default limits (100 ms, 100 ms, 10, 30000, 90000, 10), NaN sampling interval *)
Definition nan_witness : case :=
  mk_case 0x4059000000000000 0x4059000000000000 10 30000 90000 10
          0x408F400000000000 20 100 0x7FF8000000000000 5.

Theorem legacy_refuted : exists c, valid c /\ oracle c (legacy_run c) = false.
Proof. exists nan_witness. split; vm_compute; reflexivity. Qed.

Example nan_witness_now : run nan_witness = [0x408F400000000000; 20; 100; 0x4059000000000000; 5] ++ repeat 0x4059000000000000 6 ++ [0x408F400000000000; 20; 100].
Proof. vm_compute. reflexivity. Qed.
Example valid_extreme :
  valid (mk_case 0x7FF0000000000000 0 1431655765 1431655765 4294967295 1 0x7FF8000000000001 0 0 0xFFF0000000000000 4294967295).
Proof. vm_compute. reflexivity. Qed.
