(* C04 — DateTime: the printed text parses back (full precision for Display, milliseconds for
   to_rfc3339), on the model's parser of the two printed formats *)
From Coq Require Import String List ZArith Bool Lia.
From OV Require Import C04.Text C04.TextProofs C04.Date C04.Calendar.
Import ListNotations.
Open Scope Z_scope.

Lemma firstn_app_len : forall (a b : str), firstn (length a) (a ++ b) = a.
Proof. induction a as [|x a IH]; intro b; cbn; [reflexivity | rewrite IH; reflexivity]. Qed.
Lemma skipn_app_len : forall (a b : str), skipn (length a) (a ++ b) = b.
Proof. induction a as [|x a IH]; intro b; cbn; [reflexivity | apply IH]. Qed.

Lemma take_num_app : forall d r, forallb is_digit d = true ->
  take_num (length d) (d ++ r) = match val_digits 0 d with Some v => Some (v, r) | None => None end.
Proof.
  intros d r D. unfold take_num. rewrite firstn_app_len, skipn_app_len, Nat.eqb_refl, D. reflexivity.
Qed.

Lemma take_num_decw : forall k n r, 0 <= n < 10 ^ Z.of_nat k ->
  take_num k (decw k n [] ++ r) = Some (n, r).
Proof.
  intros k n r H. pose proof (take_num_app (decw k n []) r (decw_digits k n)) as T.
  rewrite decw_length in T. rewrite T, decw_val by exact H. reflexivity.
Qed.

Lemma expect_cons : forall c r, expect c (c :: r) = Some r.
Proof. intros. cbn. rewrite Z.eqb_refl. reflexivity. Qed.

Lemma pow10_pow : forall n, pow10 n = 10 ^ Z.of_nat n.
Proof.
  induction n as [|n IH]; [reflexivity|].
  cbn [pow10]. rewrite IH, Nat2Z.inj_succ, Z.pow_succ_r by lia. reflexivity.
Qed.

(* a fraction of [k] digits followed by a suffix that starts with a non-digit *)
Lemma take_frac_decw : forall k v c r, 0 <= v < 10 ^ Z.of_nat k -> (1 <= k <= 9)%nat ->
  is_digit c = false ->
  take_frac (46 :: decw k v [] ++ c :: r) = Some (v * 10 ^ Z.of_nat (9 - k), c :: r).
Proof.
  intros k v c r H K C. unfold take_frac.
  rewrite span_digits_app by (apply decw_digits || exact C).
  rewrite decw_length.
  replace (Nat.leb 1 k) with true by (symmetry; apply Nat.leb_le; lia).
  replace (Nat.leb k 9) with true by (symmetry; apply Nat.leb_le; lia). cbn [andb].
  rewrite decw_val by exact H. rewrite pow10_pow. reflexivity.
Qed.

(* ---- date and time of day ----------------------------------------------------------------------- *)
Definition SECS_MIN : Z := -719468 * 86400.          (* 0000-03-01T00:00:00 *)
Definition SECS_MAX : Z := 2932896 * 86400 + 86399.  (* 9999-12-31T23:59:59 *)

Lemma parse_head_print : forall secs r, SECS_MIN <= secs <= SECS_MAX ->
  parse_head (print_ymdhms secs ++ r) = Some (secs, r).
Proof.
  intros secs r H. unfold SECS_MIN, SECS_MAX in H. unfold print_ymdhms.
  set (days := secs / 86400). set (sod := secs mod 86400).
  assert (Hsod : 0 <= sod < 86400) by (subst sod; apply Z.mod_pos_bound; lia).
  assert (Hdays : -719468 <= days <= 2932896) by (subst days; zdm).
  assert (Hsplit : secs = days * 86400 + sod) by (subst days sod; zdm).
  pose proof (civil_roundtrip days) as R. pose proof (civil_year_range days Hdays) as Y.
  destruct (civil_from_days days) as [[y m] d]. destruct R as (R1 & R2 & R3).
  assert (Hdim : days_in_month y m <= 31).
  { unfold days_in_month. destruct (m =? 2); [destruct (is_leap y); lia|].
    destruct ((m =? 4) || (m =? 6) || (m =? 9) || (m =? 11)); lia. }
  unfold parse_head.
  repeat (rewrite <- app_assoc || rewrite <- app_comm_cons).
  rewrite take_num_decw by (cbn; lia). cbn [bind]. rewrite expect_cons. cbn [bind].
  rewrite take_num_decw by (cbn; lia). cbn [bind]. rewrite expect_cons. cbn [bind].
  rewrite take_num_decw by (cbn; lia). cbn [bind]. rewrite expect_cons. cbn [bind].
  rewrite take_num_decw by (cbn; zdm). cbn [bind]. rewrite expect_cons. cbn [bind].
  rewrite take_num_decw by (cbn; zdm). cbn [bind]. rewrite expect_cons. cbn [bind].
  rewrite take_num_decw by (cbn; zdm). cbn [bind].
  replace (1 <=? m) with true by (symmetry; apply Z.leb_le; lia).
  replace (m <=? 12) with true by (symmetry; apply Z.leb_le; lia).
  replace (1 <=? d) with true by (symmetry; apply Z.leb_le; lia).
  replace (d <=? days_in_month y m) with true by (symmetry; apply Z.leb_le; lia).
  replace (sod / 3600 <? 24) with true by (symmetry; apply Z.ltb_lt; zdm).
  replace (sod / 60 mod 60 <? 60) with true by (symmetry; apply Z.ltb_lt; zdm).
  replace (sod mod 60 <? 60) with true by (symmetry; apply Z.ltb_lt; zdm).
  cbn [andb]. rewrite R1. f_equal. f_equal. zdm.
Qed.

(* ---- Display (AutoSi, +00:00) ---------------------------------------------------------------------- *)
Theorem display_roundtrip : forall secs ns,
  SECS_MIN <= secs <= SECS_MAX -> 0 <= ns < 1000000000 ->
  parse_strict (dt_display (secs, ns)) = Some (secs, ns).
Proof.
  intros secs ns Hs Hn. unfold parse_strict, dt_display. cbn [fst snd].
  rewrite parse_head_print by exact Hs. cbn [bind].
  unfold print_frac_auto.
  destruct (ns =? 0) eqn:E0.
  { apply Z.eqb_eq in E0. subst ns. reflexivity. }
  apply Z.eqb_neq in E0.
  change (lit "+00:00") with [43; 48; 48; 58; 48; 48].
  destruct (ns mod 1000000 =? 0) eqn:E6.
  { apply Z.eqb_eq in E6. cbn [app].
    rewrite (take_frac_decw 3) by (cbn; try reflexivity; zdm || lia). cbn [bind].
    change (str_eqb [43; 48; 48; 58; 48; 48] [90] || str_eqb [43; 48; 48; 58; 48; 48] [43; 48; 48; 58; 48; 48]) with true.
    cbv iota. f_equal. f_equal. change (10 ^ Z.of_nat (9 - 3)) with 1000000. zdm. }
  destruct (ns mod 1000 =? 0) eqn:E3.
  { apply Z.eqb_eq in E3. cbn [app].
    rewrite (take_frac_decw 6) by (cbn; try reflexivity; zdm || lia). cbn [bind].
    change (str_eqb [43; 48; 48; 58; 48; 48] [90] || str_eqb [43; 48; 48; 58; 48; 48] [43; 48; 48; 58; 48; 48]) with true.
    cbv iota. f_equal. f_equal. change (10 ^ Z.of_nat (9 - 6)) with 1000. zdm. }
  cbn [app].
  rewrite (take_frac_decw 9) by (cbn; try reflexivity; lia). cbn [bind].
  change (str_eqb [43; 48; 48; 58; 48; 48] [90] || str_eqb [43; 48; 48; 58; 48; 48] [43; 48; 48; 58; 48; 48]) with true.
  cbv iota. f_equal. f_equal. change (10 ^ Z.of_nat (9 - 9)) with 1. lia.
Qed.

(* ---- to_rfc3339 (Millis, Z) -------------------------------------------------------------------------- *)
Theorem rfc3339_roundtrip : forall secs ns,
  SECS_MIN <= secs <= SECS_MAX -> 0 <= ns < 1000000000 ->
  parse_strict (dt_to_rfc3339 (secs, ns)) = Some (secs, ns / 1000000 * 1000000).
Proof.
  intros secs ns Hs Hn. unfold parse_strict, dt_to_rfc3339. cbn [fst snd].
  rewrite parse_head_print by exact Hs. cbn [bind].
  rewrite (take_frac_decw 3) by (cbn; try reflexivity; zdm || lia). cbn [bind].
  change (str_eqb [90] [90] || str_eqb [90] (lit "+00:00")) with true. cbv iota.
  reflexivity.
Qed.

(* ---- DateTime values built from ticks ------------------------------------------------------------------ *)
Lemma dt_from_ticks_inrange : forall t, 0 <= t <= END_TICKS ->
  dt_from_ticks t = (t / 10000000 - UNIX_OPC_SECS, (t mod 10000000) * 100).
Proof.
  intros t H. unfold END_TICKS, END_SECS, UNIX_OPC_SECS, TICKS_PER_SECOND in H.
  unfold dt_from_ticks, I64MAX.
  replace (t =? 9223372036854775807) with false by (symmetry; apply Z.eqb_neq; lia).
  unfold TICKS_PER_SECOND, NANOS_PER_SECOND, dt_from_chrono. cbn [fst snd].
  rewrite Z.quot_div_nonneg by lia.
  f_equal; zdm.
Qed.

Lemma secs_of_ticks_range : forall t, 0 <= t <= END_TICKS ->
  SECS_MIN <= t / 10000000 - UNIX_OPC_SECS <= SECS_MAX.
Proof.
  intros t H. unfold END_TICKS, END_SECS, UNIX_OPC_SECS, TICKS_PER_SECOND in *.
  unfold SECS_MIN, SECS_MAX. zdm.
Qed.

(* DateTime::from_str (Display dt) = dt, to the tick, for every in-range DateTime *)
Theorem date_display_roundtrip : forall t, 0 <= t <= END_TICKS ->
  dt_from_str_strict (dt_display (dt_from_ticks t)) = Some (dt_from_ticks t).
Proof.
  intros t H. rewrite dt_from_ticks_inrange by exact H. unfold dt_from_str_strict.
  rewrite display_roundtrip by (apply secs_of_ticks_range; exact H) || zdm.
  cbn [option_map]. unfold dt_from_chrono. cbn [fst snd]. f_equal. f_equal. zdm.
Qed.

(* DateTime::parse_from_rfc3339 (to_rfc3339 dt) = dt truncated to the millisecond *)
Theorem date_rfc3339_roundtrip : forall t, 0 <= t <= END_TICKS ->
  dt_parse_rfc3339_strict (dt_to_rfc3339 (dt_from_ticks t))
  = Some (fst (dt_from_ticks t), snd (dt_from_ticks t) / 1000000 * 1000000).
Proof.
  intros t H. rewrite dt_from_ticks_inrange by exact H. unfold dt_parse_rfc3339_strict.
  rewrite rfc3339_roundtrip by (apply secs_of_ticks_range; exact H) || zdm.
  cbn [option_map fst snd]. f_equal.
  pose proof (secs_of_ticks_range t H) as R.
  unfold END_TICKS, END_SECS, UNIX_OPC_SECS, TICKS_PER_SECOND, SECS_MIN, SECS_MAX in *.
  unfold dt_clamp, dt_ltb, dt_epoch, dt_endtimes, END_SECS, UNIX_OPC_SECS. cbn [fst snd].
  set (s := t / 10000000 - 11644473600) in *.
  set (n := t mod 10000000 * 100 / 1000000 * 1000000).
  assert (Hn : 0 <= n) by (subst n; zdm).
  assert (Hs : -11644473600 <= s <= 253402300799) by (subst s; zdm).
  replace (s <? - (11644473600)) with false by (symmetry; apply Z.ltb_ge; lia).
  replace (n <? 0) with false by (symmetry; apply Z.ltb_ge; lia).
  rewrite andb_false_r. cbn [orb].
  replace (253402300799 <? s) with false by (symmetry; apply Z.ltb_ge; lia). cbn [orb].
  destruct (253402300799 =? s) eqn:E; [|reflexivity].
  (* at the last second the value is exactly END_TICKS, so the fraction is zero *)
  apply Z.eqb_eq in E. assert (t = 2650467743990000000) by (subst s; zdm). subst t. reflexivity.
Qed.
