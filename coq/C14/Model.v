(* C14 — security token renewal never breaks a healthy channel
   (core/comms/secure_channel.rs: one key slot per direction, no token id check on receipt;
    server/comms/secure_channel_service.rs: the server switches keys when it PROCESSES the renew
    request; server/comms/tcp_transport.rs: responses are secured when they are WRITTEN;
    client/transport/state.rs: the client switches keys when it receives the renew response;
    client/transport/core.rs: requests are secured when the transport task dequeues them).

   Two endpoints with the single key slot the code has, FIFO links in both directions, and the
   server's queue of responses that have been produced but not yet secured/written.  An epoch is
   the number of renewals an endpoint has applied; a symmetric message verifies iff it was secured
   under the receiver's current epoch (the keys differ between epochs: C13). *)
From Coq Require Import List ZArith Bool.
Import ListNotations.
Open Scope Z_scope.

Inductive op :=
| CSend      (* the client secures a request under its current keys and sends it *)
| CRenew     (* the client sends a renew OpenSecureChannel request (at most one outstanding) *)
| SRecv      (* the server takes the next frame from the client->server link and processes it *)
| SWrite     (* the server secures (under its current keys) and writes the next queued response *)
| CRecv      (* the client takes the next frame from the server->client link *)
| CForge     (* a third party puts a frame on the client->server link, secured with keys of a token the
                server never issued (same channel and token ids in the header) *)
| SForge.    (* the same on the server->client link *)

Inductive frame := FMsg (epoch : Z) | FOpn | FBad.  (* OPN frames are asymmetric: independent of the epoch;
                                                        FBad: secured under keys no endpoint ever derived *)
Inductive resp := RMsg | ROpn.

Record st := {
  ce : Z; se : Z;                 (* epochs of client and server *)
  renewing : bool;                (* the client has a renew request outstanding *)
  c2s : list frame;               (* client -> server link, oldest first *)
  sq : list resp;                 (* server: responses produced, not yet secured and written *)
  s2c : list frame                (* server -> client link *)
}.

Definition init : st := {| ce := 0; se := 0; renewing := false; c2s := []; sq := []; s2c := [] |}.

(* observation codes: 1 message accepted, 0 message REJECTED, 2 renew request/response applied,
   3 nothing to do, 4 sent, 5 forged frame rejected, 6 forged frame ACCEPTED (7/8: a renewal was
   refused by the real code -- never produced by the model) *)
Definition step (s : st) (o : op) : st * Z :=
  match o with
  | CSend =>
      ({| ce := ce s; se := se s; renewing := renewing s; c2s := c2s s ++ [FMsg (ce s)]; sq := sq s; s2c := s2c s |}, 4)
  | CRenew =>
      if renewing s then (s, 3)
      else ({| ce := ce s; se := se s; renewing := true; c2s := c2s s ++ [FOpn]; sq := sq s; s2c := s2c s |}, 4)
  | SRecv =>
      match c2s s with
      | [] => (s, 3)
      | FMsg e :: r =>
          if e =? se s
          then ({| ce := ce s; se := se s; renewing := renewing s; c2s := r; sq := sq s ++ [RMsg]; s2c := s2c s |}, 1)
          else ({| ce := ce s; se := se s; renewing := renewing s; c2s := r; sq := sq s; s2c := s2c s |}, 0)
      | FOpn :: r =>
          ({| ce := ce s; se := se s + 1; renewing := renewing s; c2s := r; sq := sq s ++ [ROpn]; s2c := s2c s |}, 2)
      | FBad :: r =>
          ({| ce := ce s; se := se s; renewing := renewing s; c2s := r; sq := sq s; s2c := s2c s |}, 5)
      end
  | SWrite =>
      match sq s with
      | [] => (s, 3)
      | RMsg :: r => ({| ce := ce s; se := se s; renewing := renewing s; c2s := c2s s; sq := r; s2c := s2c s ++ [FMsg (se s)] |}, 4)
      | ROpn :: r => ({| ce := ce s; se := se s; renewing := renewing s; c2s := c2s s; sq := r; s2c := s2c s ++ [FOpn] |}, 4)
      end
  | CRecv =>
      match s2c s with
      | [] => (s, 3)
      | FMsg e :: r =>
          ({| ce := ce s; se := se s; renewing := renewing s; c2s := c2s s; sq := sq s; s2c := r |},
           if e =? ce s then 1 else 0)
      | FOpn :: r =>
          ({| ce := ce s + 1; se := se s; renewing := false; c2s := c2s s; sq := sq s; s2c := r |}, 2)
      | FBad :: r =>
          ({| ce := ce s; se := se s; renewing := renewing s; c2s := c2s s; sq := sq s; s2c := r |}, 5)
      end
  | CForge =>
      ({| ce := ce s; se := se s; renewing := renewing s; c2s := c2s s ++ [FBad]; sq := sq s; s2c := s2c s |}, 4)
  | SForge =>
      ({| ce := ce s; se := se s; renewing := renewing s; c2s := c2s s; sq := sq s; s2c := s2c s ++ [FBad] |}, 4)
  end.

Definition case := list op.

Fixpoint run_from (s : st) (c : case) : list Z :=
  match c with
  | [] => []
  | o :: c' => let '(s', x) := step s o in x :: run_from s' c'
  end.
Definition run (c : case) : list Z := run_from init c.

(* the property: every message in this model (other than a forged one) is correctly secured under
   the token current when it was secured, so none may be rejected (no 0); a forged one must be
   rejected (no 6); and a renewal is never refused (no 7, 8) *)
Definition oracle (c : case) (out : list Z) : bool :=
  (length out =? length c)%nat && forallb (fun x => negb (x =? 0) && (x <? 6)) out.

(* ---- the known classes: the two schedules around a renewal the single key slot cannot serve ---- *)
Definition has_ropn (l : list resp) : bool := existsb (fun r => match r with ROpn => true | RMsg => false end) l.

(* class 1: the client secures a request while its renew request is outstanding;
   class 2: the server writes a response that was queued before it processed a renew request whose
            response is still queued behind it *)
Definition racy (s : st) (o : op) : Z :=
  match o with
  | CSend => if renewing s then 1 else 0
  | SWrite => match sq s with RMsg :: r => if has_ropn r then 2 else 0 | _ => 0 end
  | _ => 0
  end.

Fixpoint known_from (s : st) (c : case) : Z :=
  match c with
  | [] => 0
  | o :: c' => let k := racy s o in if k =? 0 then known_from (fst (step s o)) c' else k
  end.
Definition known (c : case) : Z := known_from init c.
