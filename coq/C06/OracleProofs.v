(* C06 — the decidable oracle holds of the model's output (towards C06_oracle). *)
From Coq Require Import List ZArith Bool Lia Reals Lra.
From Flocq Require Import Core IEEE754.BinarySingleNaN.
From Flocq Require IEEE754.Binary IEEE754.Bits.
From OV Require Import C06.Model C06.Spec C06.IntFacts C06.FloatFacts C06.Dyadic C06.Proofs.
Import ListNotations.
Open Scope Z_scope.

(* ---- what the oracle sees of a float ------------------------------------------------------------- *)

Definition xclass (x : xval) : vclass :=
  match x with XFin _ => CFinite | XInf s => CInf s | XNaN => CNaN end.
Definition xR (x : xval) : R := match x with XFin d => dy2R d | _ => 0%R end.

Definition xview {prec emax} (g : binary_float prec emax) : xval :=
  match g with
  | B754_zero _ => XFin (0, 0)
  | B754_infinity s => XInf s
  | B754_nan => XNaN
  | B754_finite s m e _ => XFin (cond_Zopp s (Zpos m), e)
  end.

Lemma xview_spec : forall prec emax (g : binary_float prec emax),
  xclass (xview g) = f_class g /\ xR (xview g) = B2R g.
Proof.
  intros prec emax [s | s | | s m e Hb]; cbn; split; try reflexivity.
  unfold dy2R. cbn. ring.
Qed.

Lemma view32_xview : forall b, view32 b = xview (f32_of_bits b).
Proof. intros b. unfold view32, f32_of_bits. destruct (Bits.b32_of_bits b); reflexivity. Qed.
Lemma view64_xview : forall b, view64 b = xview (f64_of_bits b).
Proof. intros b. unfold view64, f64_of_bits. destruct (Bits.b64_of_bits b); reflexivity. Qed.

Lemma f32_bits_roundtrip : forall g : f32, f32_of_bits (bits_of_f32 g) = g.
Proof.
  intros g. unfold f32_of_bits, bits_of_f32, Bits.b32_of_bits, Bits.bits_of_b32.
  rewrite Bits.binary_float_of_bits_of_binary_float. apply Binary.B2BSN_BSN2B.
Qed.
Lemma f64_bits_roundtrip : forall g : f64, f64_of_bits (bits_of_f64 g) = g.
Proof.
  intros g. unfold f64_of_bits, bits_of_f64, Bits.b64_of_bits, Bits.bits_of_b64.
  rewrite Bits.binary_float_of_bits_of_binary_float. apply Binary.B2BSN_BSN2B.
Qed.

Lemma bits_of_f32_range : forall g : f32, 0 <= bits_of_f32 g < 2 ^ 32.
Proof. intros g. apply (Bits.bits_of_binary_float_range 23 8); reflexivity. Qed.
Lemma bits_of_f64_range : forall g : f64, 0 <= bits_of_f64 g < 2 ^ 64.
Proof. intros g. apply (Bits.bits_of_binary_float_range 52 11); reflexivity. Qed.

Lemma view32_format : forall b h, view32 b = XFin h -> generic_format radix2 (FLT_exp (-149) 24) (dy2R h).
Proof.
  intros b h H. rewrite view32_xview in H.
  destruct (xview_spec _ _ (f32_of_bits b)) as [_ HR]. rewrite H in HR. cbn [xR] in HR.
  rewrite HR. apply (generic_format_B2R 24 128).
Qed.
Lemma view64_format : forall b h, view64 b = XFin h -> generic_format radix2 (FLT_exp (-1074) 53) (dy2R h).
Proof.
  intros b h H. rewrite view64_xview in H.
  destruct (xview_spec _ _ (f64_of_bits b)) as [_ HR]. rewrite H in HR. cbn [xR] in HR.
  rewrite HR. apply (generic_format_B2R 53 1024).
Qed.

(* ---- integer targets ------------------------------------------------------------------------------ *)

Lemma nearest_int_correct : forall d w, nearest_int d w = true <-> (Rabs (dy2R d - IZR w) <= / 2)%R.
Proof.
  intros d w. unfold nearest_int. rewrite dy_le_correct, dy_dist_correct, dy2R_int, dy2R_half. tauto.
Qed.

Lemma check_int_convert_some : forall lo hi d k,
  lo <= k <= hi -> dy2R d = IZR k -> check_int lo hi Convert (XFin d) (Some k) = true.
Proof.
  intros lo hi d k Hk Hd. unfold check_int.
  replace (lo <=? k) with true by (symmetry; apply Z.leb_le; lia).
  replace (k <=? hi) with true by (symmetry; apply Z.leb_le; lia). cbn [andb].
  apply dy_eq_correct. rewrite dy2R_int. exact Hd.
Qed.

Lemma nearest_int_ZnearestA : forall d, nearest_int d (ZnearestA (dy2R d)) = true.
Proof. intros d. apply nearest_int_correct. apply Znearest_half. Qed.

Lemma check_int_cast_some : forall lo hi d,
  lo <= ZnearestA (dy2R d) <= hi ->
  check_int lo hi Cast (XFin d) (Some (ZnearestA (dy2R d))) = true.
Proof.
  intros lo hi d Hk. unfold check_int.
  replace (lo <=? _) with true by (symmetry; apply Z.leb_le; lia).
  replace (_ <=? hi) with true by (symmetry; apply Z.leb_le; lia). cbn [andb].
  apply nearest_int_ZnearestA.
Qed.

Lemma check_int_cast_none : forall lo hi d,
  ~ (lo <= ZnearestA (dy2R d) <= hi) -> check_int lo hi Cast (XFin d) None = true.
Proof.
  intros lo hi d Hk. unfold check_int. rewrite dy_floor_correct.
  set (x := dy2R d) in *. pose proof (nearest_int_ZnearestA d) as Hn. fold x in Hn.
  assert (Hout : forall k, k = ZnearestA x -> (lo <=? k) && (k <=? hi) = false).
  { intros k ->. destruct ((lo <=? ZnearestA x) && (ZnearestA x <=? hi)) eqn:E; [|reflexivity].
    apply andb_true_iff in E as [E1 E2]. apply Z.leb_le in E1. apply Z.leb_le in E2. lia. }
  destruct (Znearest_DN_or_UP (Z.leb 0) x) as [E | E].
  - rewrite <- E. rewrite Hn, (Hout _ eq_refl). reflexivity.
  - destruct (Req_dec (IZR (Zfloor x)) x) as [Hi | Hi].
    + (* x is an integer: ceil = floor *)
      assert (Zceil x = Zfloor x) by (rewrite <- Hi at 1; rewrite Zceil_IZR; reflexivity).
      rewrite H in E. rewrite <- E. rewrite Hn, (Hout _ eq_refl). reflexivity.
    + rewrite (Zceil_floor_neq x Hi) in E. rewrite <- E. rewrite Hn, (Hout _ eq_refl).
      cbn [negb andb]. apply orb_true_r.
Qed.

(* ---- float targets --------------------------------------------------------------------------------- *)

Lemma check_float_ok : forall width mx view o x w (F : R -> Prop),
  0 <= w < 2 ^ width ->
  (forall nb h, view nb = XFin h -> F (dy2R h)) ->
  match x with
  | XNaN => view w = XNaN
  | XInf s => view w = XInf s
  | XFin d => ((Rabs (dy2R d) <= dy2R mx)%R -> exists g, view w = XFin g /\ Rnd_N_pt F (dy2R d) (dy2R g)) /\
              (o = Convert -> (Rabs (dy2R d) <= dy2R mx)%R)
  end ->
  check_float width mx view o x w = true.
Proof.
  intros width mx view o x w F Hw HF Hx. unfold check_float.
  replace (0 <=? w) with true by (symmetry; apply Z.leb_le; lia).
  replace (w <? 2 ^ width) with true by (symmetry; apply Z.ltb_lt; lia). cbn [andb].
  destruct x as [d | s | ].
  - destruct Hx as [H1 H2].
    destruct (dy_le (dy_abs d) mx) eqn:Hr.
    + apply dy_le_correct in Hr. rewrite dy_abs_correct in Hr.
      destruct (H1 Hr) as (g & Hg & _ & Hn). rewrite Hg.
      apply forallb_forall. intros nb _.
      destruct (view nb) as [h | | ] eqn:Hv; try reflexivity.
      apply dy_le_correct. rewrite !dy_dist_correct.
      rewrite (Rabs_minus_sym (dy2R d) (dy2R g)), (Rabs_minus_sym (dy2R d) (dy2R h)).
      apply Hn. apply (HF nb). exact Hv.
    + destruct o; [|destruct (view w); reflexivity].
      exfalso. specialize (H2 eq_refl). rewrite <- dy_abs_correct in H2.
      apply dy_le_correct in H2. congruence.
  - rewrite Hx. apply eqb_reflx.
  - rewrite Hx. reflexivity.
Qed.

(* ---- one payload ------------------------------------------------------------------------------------ *)

Lemma ty_code_nonneg : forall t, 0 <= ty_code t.
Proof. intros t. destruct t; cbn; lia. Qed.

Lemma code_not_m1 : forall t, (ty_code t =? -1) = false.
Proof. intros t. apply Z.eqb_neq. pose proof (ty_code_nonneg t). lia. Qed.
Lemma code_not_m2 : forall t, (ty_code t =? -2) = false.
Proof. intros t. apply Z.eqb_neq. pose proof (ty_code_nonneg t). lia. Qed.

Lemma out_shape : forall r, exists tc w, out_of_res r = [tc; w] /\ (tc =? -2) = false.
Proof.
  intros [t v | | ]; cbn [out_of_res]; eexists _, _; (split; [reflexivity|]);
    [apply code_not_m2 | reflexivity | reflexivity].
Qed.

Lemma src_range_int : forall s sg b, int_ty s = Some (sg, b) -> src_range s = Some (pmin sg b, pmax sg b).
Proof. intros s sg b H. destruct s; cbn in H; try discriminate; injection H as <- <-; reflexivity. Qed.

Lemma decode_numeric : forall s ks p lo hi,
  num_of s = Some ks -> src_range s = Some (lo, hi) -> lo <= p <= hi ->
  exists v x, decode s p = Some v /\ src_view s p = Some x /\ well_typed s v /\
              xclass x = val_class v /\ xR x = valR v.
Proof.
  intros s ks p lo hi Hs Hr Hp.
  destruct (int_ty s) as [[sg b]|] eqn:Hi.
  - rewrite (src_range_int _ _ _ Hi) in Hr. injection Hr as <- <-.
    exists (VInt p), (XFin (p, 0)).
    assert (Hw : well_typed s (VInt p)).
    { unfold well_typed. destruct s; cbn in Hi; try discriminate; injection Hi as <- <-; cbn [num_of int_ty];
        apply in_range_iff; exact Hp. }
    repeat split.
    + destruct s; cbn in Hi; try discriminate; reflexivity.
    + destruct s; cbn in Hi; try discriminate; reflexivity.
    + exact Hw.
    + cbn. apply dy2R_int.
  - destruct s; cbn in Hs, Hi; try discriminate.
    + exists (VF32 (f32_of_bits p)), (view32 p).
      destruct (xview_spec _ _ (f32_of_bits p)) as [H1 H2]. rewrite <- view32_xview in H1, H2.
      repeat split; try reflexivity; assumption.
    + exists (VF64 (f64_of_bits p)), (view64 p).
      destruct (xview_spec _ _ (f64_of_bits p)) as [H1 H2]. rewrite <- view64_xview in H1, H2.
      repeat split; try reflexivity; assumption.
Qed.

Lemma check1_int_target : forall o s t ts tb p tc w, num_of t = Some (NInt ts tb) ->
  check1 o s t p tc w =
  negb (tc =? -2) &&
  match src_view s p with
  | None => true
  | Some x => if tc =? -1 then check_int (pmin ts tb) (pmax ts tb) o x None
              else (tc =? ty_code t) && check_int (pmin ts tb) (pmax ts tb) o x (Some w)
  end.
Proof. intros o s t ts tb p tc w H. destruct t; cbn in H; try discriminate; injection H as <- <-; reflexivity. Qed.

Lemma finite_of_class : forall v, val_class v = CFinite -> finite_val v = true.
Proof. intros v H. unfold finite_val. rewrite H. reflexivity. Qed.

Lemma xfin_of_class : forall x, xclass x = CFinite -> exists d, x = XFin d.
Proof. intros [d | s | ] H; try discriminate. exists d. reflexivity. Qed.

(* float targets: the facts the two theorems give about a result w are what check_float needs *)
Lemma check_float32_res : forall o x v (g : f32),
  xclass x = val_class v -> xR x = valR v ->
  (finite_val v = false -> f_class g = val_class v) ->
  (finite_val v = true -> in_float_range NF32 v -> f_class g = CFinite /\ denotes NF32 (VF32 g) v) ->
  (o = Convert -> finite_val v = true -> in_float_range NF32 v) ->
  check_float 32 max32 view32 o x (bits_of_f32 g) = true.
Proof.
  intros o x v g Hc HR Hnf Hf Hcv.
  apply (check_float_ok 32 max32 view32 o x _ (generic_format radix2 (FLT_exp (-149) 24))).
  - apply bits_of_f32_range.
  - apply view32_format.
  - rewrite view32_xview, f32_bits_roundtrip.
    destruct (xview_spec _ _ g) as [G1 G2].
    destruct x as [d | s | ]; cbn [xclass xR] in Hc, HR.
    + assert (Hfin : finite_val v = true) by (apply finite_of_class; congruence).
      split.
      * intros Hr. destruct (Hf Hfin) as [Hg Hd]; [cbn [in_float_range]; rewrite <- HR; exact Hr|].
        rewrite <- G1 in Hg. destruct (xfin_of_class _ Hg) as [gd Egd]. exists gd. split; [exact Egd|].
        rewrite Egd in G2. cbn [xR] in G2. rewrite G2, HR.
        cbn [denotes valR] in Hd. rewrite Hd. apply round_N_pt. apply FLT_exp_valid. exact prec32.
      * intros Ho. specialize (Hcv Ho Hfin). cbn [in_float_range] in Hcv. rewrite HR. exact Hcv.
    + assert (Hfin : finite_val v = false) by (unfold finite_val; rewrite <- Hc; reflexivity).
      specialize (Hnf Hfin). rewrite <- Hc, <- G1 in Hnf. destruct (xview g); cbn in Hnf; congruence.
    + assert (Hfin : finite_val v = false) by (unfold finite_val; rewrite <- Hc; reflexivity).
      specialize (Hnf Hfin). rewrite <- Hc, <- G1 in Hnf. destruct (xview g); cbn in Hnf; congruence.
Qed.

Lemma check_float64_res : forall o x v (g : f64),
  xclass x = val_class v -> xR x = valR v ->
  (finite_val v = false -> f_class g = val_class v) ->
  (finite_val v = true -> in_float_range NF64 v -> f_class g = CFinite /\ denotes NF64 (VF64 g) v) ->
  (o = Convert -> finite_val v = true -> in_float_range NF64 v) ->
  check_float 64 max64 view64 o x (bits_of_f64 g) = true.
Proof.
  intros o x v g Hc HR Hnf Hf Hcv.
  apply (check_float_ok 64 max64 view64 o x _ (generic_format radix2 (FLT_exp (-1074) 53))).
  - apply bits_of_f64_range.
  - apply view64_format.
  - rewrite view64_xview, f64_bits_roundtrip.
    destruct (xview_spec _ _ g) as [G1 G2].
    destruct x as [d | s | ]; cbn [xclass xR] in Hc, HR.
    + assert (Hfin : finite_val v = true) by (apply finite_of_class; congruence).
      split.
      * intros Hr. destruct (Hf Hfin) as [Hg Hd]; [cbn [in_float_range]; rewrite <- HR; exact Hr|].
        rewrite <- G1 in Hg. destruct (xfin_of_class _ Hg) as [gd Egd]. exists gd. split; [exact Egd|].
        rewrite Egd in G2. cbn [xR] in G2. rewrite G2, HR.
        cbn [denotes valR] in Hd. rewrite Hd. apply round_N_pt. apply FLT_exp_valid. exact prec64.
      * intros Ho. specialize (Hcv Ho Hfin). cbn [in_float_range] in Hcv. rewrite HR. exact Hcv.
    + assert (Hfin : finite_val v = false) by (unfold finite_val; rewrite <- Hc; reflexivity).
      specialize (Hnf Hfin). rewrite <- Hc, <- G1 in Hnf. destruct (xview g); cbn in Hnf; congruence.
    + assert (Hfin : finite_val v = false) by (unfold finite_val; rewrite <- Hc; reflexivity).
      specialize (Hnf Hfin). rewrite <- Hc, <- G1 in Hnf. destruct (xview g); cbn in Hnf; congruence.
Qed.

Lemma none_view : forall s p, num_of s = None -> src_view s p = None.
Proof. intros s p H. destruct s; cbn in H; try discriminate; reflexivity. Qed.

Lemma check1_outside : forall o s t p tc w,
  (tc =? -2) = false -> src_view s p = None -> check1 o s t p tc w = true.
Proof. intros o s t p tc w H1 H2. unfold check1. rewrite H1, H2. reflexivity. Qed.

Lemma check1_bool_target : forall o s p tc w, (tc =? -2) = false -> check1 o s TBoolean p tc w = true.
Proof. intros o s p tc w H. unfold check1. rewrite H. destruct (src_view s p); reflexivity. Qed.

Theorem run1_check1 : forall cfg o s t p lo hi,
  cfg_ok cfg = true -> tgt_ok t = true -> src_range s = Some (lo, hi) -> lo <= p <= hi ->
  exists tc w, run1 cfg o s t p = [tc; w] /\ check1 o s t p tc w = true.
Proof.
  intros cfg o s t p lo hi Hok Ht Hr Hp.
  destruct (num_of s) as [ks|] eqn:Hs.
  2: { (* Boolean / StatusCode source: outside the claims *)
    unfold run1. destruct (decode s p) as [v|].
    - destruct (out_shape (apply cfg o s t v)) as (tc & w & E1 & E2). exists tc, w. split; [exact E1|].
      apply check1_outside; [exact E2 | apply none_view; exact Hs].
    - exists (-3), 0. split; [reflexivity|]. apply check1_outside; [reflexivity | apply none_view; exact Hs]. }
  destruct (decode_numeric s ks p lo hi Hs Hr Hp) as (v & x & Hdec & Hview & Hv & Hxc & HxR).
  unfold run1. rewrite Hdec.
  destruct (num_of t) as [kt|] eqn:Hkt.
  2: { (* Boolean target *)
    assert (t = TBoolean) by (destruct t; cbn in Ht, Hkt; try discriminate; reflexivity). subst t.
    destruct (out_shape (apply cfg o s TBoolean v)) as (tc & w & E1 & E2). exists tc, w.
    split; [exact E1 | apply check1_bool_target; exact E2]. }
  destruct kt as [ts tb | | ].
  - (* integer target *)
    destruct o; cbn [apply].
    + pose proof (convert_correct cfg s t ks _ v Hok Hs Hkt Hv) as H.
      destruct (convert cfg s t v) as [t' w | | ]; [| |contradiction].
      * destruct H as (-> & Hw & Hc & Hd). unfold well_typed in Hw. rewrite Hkt in Hw.
        destruct w as [k | g | g]; try contradiction. cbn [val_class] in Hc.
        assert (Hfin : finite_val v = true) by (apply finite_of_class; congruence).
        destruct (Hd Hfin) as [Hden _]. cbn [denotes valR] in Hden.
        exists (ty_code t), k. split; [reflexivity|].
        rewrite (check1_int_target _ _ _ _ _ _ _ _ Hkt), Hview, code_not_m2, code_not_m1, Z.eqb_refl.
        cbn [negb andb].
        destruct (xfin_of_class x ltac:(congruence)) as [d ->]. cbn [xR] in HxR.
        apply check_int_convert_some; [apply in_range_iff; exact Hw | congruence].
      * exists (-1), 0. split; [reflexivity|].
        rewrite (check1_int_target _ _ _ _ _ _ _ _ Hkt), Hview. reflexivity.
    + rewrite (cast_to_int_correct cfg s t ks ts tb v Hok Hs Hkt Hv). unfold cast_int_spec, rounded.
      destruct (finite_val v) eqn:Hfin.
      * assert (Hcl : val_class v = CFinite) by (unfold finite_val in Hfin; destruct (val_class v); try discriminate; reflexivity).
        destruct (xfin_of_class x ltac:(congruence)) as [d ->]. cbn [xR] in HxR. rewrite <- HxR.
        cbn [andb]. destruct (in_range ts tb (ZnearestA (dy2R d))) eqn:Hin.
        -- exists (ty_code t), (ZnearestA (dy2R d)). split; [reflexivity|].
           rewrite (check1_int_target _ _ _ _ _ _ _ _ Hkt), Hview, code_not_m2, code_not_m1, Z.eqb_refl.
           cbn [negb andb]. apply check_int_cast_some. apply in_range_iff. exact Hin.
        -- exists (-1), 0. split; [reflexivity|].
           rewrite (check1_int_target _ _ _ _ _ _ _ _ Hkt), Hview. cbn [negb andb Z.eqb].
           apply check_int_cast_none. rewrite <- in_range_iff. congruence.
      * cbn [andb]. exists (-1), 0. split; [reflexivity|].
        rewrite (check1_int_target _ _ _ _ _ _ _ _ Hkt), Hview. cbn [negb andb Z.eqb].
        destruct x as [d | sx | ]; [|reflexivity|reflexivity].
        exfalso. cbn [xclass] in Hxc. unfold finite_val in Hfin. rewrite <- Hxc in Hfin. discriminate.
  - (* Float target *)
    assert (t = TFloat) by (destruct t; cbn in Hkt; try discriminate; reflexivity). subst t.
    destruct o; cbn [apply].
    + pose proof (convert_correct cfg s TFloat ks _ v Hok Hs Hkt Hv) as H.
      destruct (convert cfg s TFloat v) as [t' w | | ]; [| |contradiction].
      * destruct H as (-> & Hw & Hc & Hd). unfold well_typed in Hw. rewrite Hkt in Hw.
        destruct w as [k | g | g]; try contradiction. cbn [val_class] in Hc.
        exists 10, (bits_of_f32 g). split; [reflexivity|].
        unfold check1. rewrite Hview. cbn [negb andb Z.eqb].
        apply (check_float32_res Convert x v g Hxc HxR).
        -- intros _. exact Hc.
        -- intros Hf _. split; [|apply Hd; exact Hf].
           rewrite Hc. unfold finite_val in Hf. destruct (val_class v); try discriminate; reflexivity.
        -- intros _ Hf. apply Hd. exact Hf.
      * exists (-1), 0. split; [reflexivity|]. unfold check1. rewrite Hview. reflexivity.
    + destruct (cast_to_float_correct cfg s TFloat ks _ v Hok Hs Hkt ltac:(tauto) Hv) as (w & Ew & Hw & Hnf & Hf).
      rewrite Ew. unfold well_typed in Hw. rewrite Hkt in Hw. destruct w as [k | g | g]; try contradiction.
      exists 10, (bits_of_f32 g). split; [reflexivity|].
      unfold check1. rewrite Hview. cbn [negb andb Z.eqb].
      apply (check_float32_res Cast x v g Hxc HxR); [exact Hnf | exact Hf | discriminate].
  - (* Double target *)
    assert (t = TDouble) by (destruct t; cbn in Hkt; try discriminate; reflexivity). subst t.
    destruct o; cbn [apply].
    + pose proof (convert_correct cfg s TDouble ks _ v Hok Hs Hkt Hv) as H.
      destruct (convert cfg s TDouble v) as [t' w | | ]; [|contradiction|contradiction].
      destruct H as (-> & Hw & Hc & Hd). unfold well_typed in Hw. rewrite Hkt in Hw.
      destruct w as [k | g | g]; try contradiction. cbn [val_class] in Hc.
      exists 11, (bits_of_f64 g). split; [reflexivity|].
      unfold check1. rewrite Hview. cbn [negb andb Z.eqb].
      apply (check_float64_res Convert x v g Hxc HxR).
      * intros _. exact Hc.
      * intros Hf _. split; [|apply Hd; exact Hf].
        rewrite Hc. unfold finite_val in Hf. destruct (val_class v); try discriminate; reflexivity.
      * intros _ Hf. apply Hd. exact Hf.
    + destruct (cast_to_float_correct cfg s TDouble ks _ v Hok Hs Hkt ltac:(tauto) Hv) as (w & Ew & Hw & Hnf & Hf).
      rewrite Ew. unfold well_typed in Hw. rewrite Hkt in Hw. destruct w as [k | g | g]; try contradiction.
      exists 11, (bits_of_f64 g). split; [reflexivity|].
      unfold check1. rewrite Hview. cbn [negb andb Z.eqb].
      apply (check_float64_res Cast x v g Hxc HxR); [exact Hnf | exact Hf | discriminate].
Qed.

(* ---- all payloads of a case, through the run-length encoding --------------------------------------- *)

Fixpoint expand (L : list (nat * (Z * Z))) : list (Z * Z) :=
  match L with [] => [] | e :: t => repeat (snd e) (fst e) ++ expand t end.

Lemma pair_eqb_eq : forall a b, pair_eqb a b = true -> a = b.
Proof.
  intros [a1 a2] [b1 b2] H. unfold pair_eqb in H. cbn [fst snd] in H.
  apply andb_true_iff in H as [H1 H2]. apply Z.eqb_eq in H1. apply Z.eqb_eq in H2. congruence.
Qed.

Lemma rle_expand : forall l, expand (rle l) = l.
Proof.
  induction l as [|x r IH]; [reflexivity|]. cbn [rle].
  destruct (rle r) as [|[n y] t] eqn:E.
  - cbn in IH. subst r. reflexivity.
  - destruct (pair_eqb x y) eqn:Exy.
    + apply pair_eqb_eq in Exy. subst y. cbn [expand fst snd repeat] in *. rewrite <- IH. reflexivity.
    + cbn [expand fst snd repeat app] in *. rewrite <- IH. reflexivity.
Qed.

Lemma rle_pos : forall l, Forall (fun e => (0 < fst e)%nat) (rle l).
Proof.
  induction l as [|x r IH]; [constructor|]. cbn [rle].
  destruct (rle r) as [|[n y] t] eqn:E.
  - repeat constructor.
  - inversion IH as [|? ? H1 H2]; subst. destruct (pair_eqb x y); repeat constructor; cbn [fst] in *; try lia; assumption.
Qed.

Fixpoint check_pairs (o : op) (s t : ty) (ps : list Z) (l : list (Z * Z)) : bool :=
  match ps, l with
  | [], [] => true
  | p :: ps', x :: l' => check1 o s t p (fst x) (undelta s (fst x) p (snd x)) && check_pairs o s t ps' l'
  | _, _ => false
  end.

Lemma check_rle_expand : forall o s t ps k tc d L,
  Forall (fun e => (0 < fst e)%nat) L ->
  check_rle o s t ps (Z.of_nat k) tc d (flatten3 L) = check_pairs o s t ps (repeat (tc, d) k ++ expand L).
Proof.
  intros o s t ps. induction ps as [|p ps IH]; intros k tc d L HL.
  - cbn [check_rle check_pairs]. destruct k as [|k].
    + cbn [repeat app Z.of_nat Z.eqb andb]. destruct L as [|[n x] L']; [reflexivity|].
      inversion HL as [|? ? Hn _]; subst. cbn [fst] in Hn. destruct n as [|n]; [lia|]. reflexivity.
    + replace (Z.of_nat (S k) =? 0) with false by (symmetry; apply Z.eqb_neq; lia). reflexivity.
  - cbn [check_rle]. destruct k as [|k].
    + cbn [Z.of_nat Z.ltb Z.compare repeat app].
      destruct L as [|[n [tc' d']] L']; [reflexivity|].
      inversion HL as [|? ? Hn HL']; subst. cbn [fst] in Hn. destruct n as [|n]; [lia|].
      cbn [flatten3 flat_map fst snd app expand repeat check_pairs].
      replace (0 <? Z.of_nat (S n)) with true by (symmetry; apply Z.ltb_lt; lia). cbn [andb].
      replace (Z.of_nat (S n) - 1) with (Z.of_nat n) by lia.
      fold (flatten3 L'). rewrite (IH n tc' d' L' HL'). reflexivity.
    + replace (0 <? Z.of_nat (S k)) with true by (symmetry; apply Z.ltb_lt; lia).
      replace (Z.of_nat (S k) - 1) with (Z.of_nat k) by lia.
      rewrite (IH k tc d L HL). reflexivity.
Qed.

Lemma undelta_delta : forall s tc p w, undelta s tc p (delta s tc p w) = w.
Proof. intros s tc p w. unfold undelta, delta. destruct (use_delta s tc); lia. Qed.

Lemma check_pairs_enc : forall cfg o s t lo hi ps,
  cfg_ok cfg = true -> tgt_ok t = true -> src_range s = Some (lo, hi) ->
  Forall (fun p => lo <= p <= hi) ps ->
  check_pairs o s t ps (map (enc1 cfg o s t) ps) = true.
Proof.
  intros cfg o s t lo hi ps Hok Ht Hr Hps. induction Hps as [|p ps Hp _ IH]; [reflexivity|].
  cbn [map check_pairs]. destruct (run1_check1 cfg o s t p lo hi Hok Ht Hr Hp) as (tc & w & E & Hc).
  rewrite IH. unfold enc1. rewrite E. cbn [pair_of fst snd]. rewrite undelta_delta, Hc. reflexivity.
Qed.

Lemma apply_fast_eq : forall cfg o s t v, apply_fast cfg o s t v = apply cfg o s t v.
Proof. intros cfg o s t v. destruct o; reflexivity. Qed.

Lemma enc1_fast_eq : forall cfg o s t p, enc1_fast cfg o s t p = enc1 cfg o s t p.
Proof.
  intros cfg o s t p. unfold enc1_fast, enc1, run1. cbv zeta.
  destruct (decode s p); [rewrite apply_fast_eq|]; reflexivity.
Qed.

Theorem oracle_holds_cfg : forall cfg c, cfg_ok cfg = true -> valid c -> oracle c (run_with cfg c) = true.
Proof.
  intros cfg c Hok [Ht Hv]. unfold oracle, run_with.
  rewrite (map_ext _ _ (enc1_fast_eq cfg (c_op c) (c_src c) (c_tgt c))).
  destruct (src_range (c_src c)) as [[lo hi]|] eqn:Hr; [|contradiction].
  rewrite (check_rle_expand _ _ _ _ 0%nat 0 0 _ (rle_pos _)). cbn [repeat app].
  rewrite rle_expand. apply (check_pairs_enc cfg _ _ _ lo hi); assumption.
Qed.

Theorem oracle_holds : forall c, valid c -> known c = 0 -> oracle c (run c) = true.
Proof. intros c Hv _. apply oracle_holds_cfg; [apply gen_cfg_ok | exact Hv]. Qed.
