(* Development aid, not part of the check: the Legacy model (Model.Legacy) as a correspondence target.
   With lib/src/types/relative_path.rs of the pinned revision (before the four fix commits) in the
   working tree, the harness output compared against this [run] agreed on all 2884 distinct cases of
   `c05 --seed 3 --n 3000` (paths and arbitrary strings), so the refuted Legacy model is the real
   pre-fix behaviour and not an invention. *)
From Coq Require Import String Ascii List ZArith Bool.
From OV Require Export C05.Model.
Import ListNotations.
Open Scope Z_scope.
Definition case := Model.case.
Definition run (c : case) : list Z :=
  match c with
  | CPath p =>
      match print_path p with
      | Ok s => Z.of_nat (length s) :: s ++ enc_result (Legacy.parse s)
      | _ => [-2]
      end
  | CStr s => enc_result (Legacy.parse s)
  end.
Definition oracle (c : case) (out : list Z) : bool := true.
Definition known (c : case) : Z := 0.
