(* C11 — stub while the correspondence is brought up *)
From Coq Require Import List ZArith.
From OV Require Import C11.Model C11.Proofs.
Open Scope Z_scope.
Theorem C11_stub : forall l, list_eqb l l = true.
Proof. exact list_eqb_refl. Qed.
Print Assumptions C11_stub.
