(* C01 — the theorems: "within the limits" (fits) is exactly "no violation met while decoding"
   (chk = None); round trip; the oracle holds on the model. *)
From Coq Require Import List ZArith Bool Lia.
Import ListNotations.
From OV Require Import C01.Codec C01.CodecProofs C01.Builtins C01.BuiltinsProofs C01.VariantProofs
  C01.Types C01.TypesProofs C01.Argument C01.ArgumentProofs C01.Model.
Open Scope Z_scope.

Definition is_none {A} (x : option A) : bool := match x with None => true | Some _ => false end.
Lemma is_none_seq a b : is_none (seq_chk a b) = is_none a && is_none b.
Proof. destruct a; reflexivity. Qed.
Lemma is_none_true {A} (x : option A) : is_none x = true <-> x = None.
Proof. destruct x; cbn; split; congruence. Qed.

Lemma fits_chk_ustr limit s : is_none (chk_ustr limit s) = fits_ustr limit s.
Proof.
  destruct s as [bs|]; [|reflexivity]. unfold chk_ustr, fits_ustr, zlen.
  destruct (Z.ltb_spec limit (Z.of_nat (length bs))); destruct (Z.leb_spec (Z.of_nat (length bs)) limit);
    try reflexivity; lia.
Qed.
Lemma fits_chk_part limit s : 0 <= limit -> is_none (chk_ustr limit (norm_part s)) = fits_ustr limit s.
Proof.
  intros Hl. destruct s as [[|b bs]|].
  - cbn. unfold zlen. cbn. destruct (Z.leb_spec 0 limit); [reflexivity|lia].
  - change (norm_part (Some (b :: bs))) with (Some (b :: bs)). apply fits_chk_ustr.
  - reflexivity.
Qed.
Lemma fits_chk_nodeid o n : is_none (chk_nodeid o n) = fits_nodeid o n.
Proof. destruct n as [ns [v|s|g|b]]; cbn; try reflexivity; apply fits_chk_ustr. Qed.

Lemma fits_chk_diag o : forall d x, is_none (chk_diag o d x) = fits_diag o d x.
Proof.
  induction d as [|d IH]; intros x; [reflexivity|].
  destruct x as [a b c e info st inner]. cbn [chk_diag fits_diag]. rewrite is_none_seq.
  f_equal.
  - destruct info; [apply fits_chk_ustr|reflexivity].
  - destruct inner; [apply IH|reflexivity].
Qed.

Definition lim_ok (o : opts) : Prop := 0 <= max_str o /\ 0 <= max_bstr o /\ 0 <= max_arr o.

Lemma fits_chk_scalar o d s : lim_ok o -> is_none (chk_scalar o d s) = fits_scalar o d s.
Proof.
  intros (Hs & Hb & Ha). destruct s; cbn [chk_scalar fits_scalar]; try reflexivity;
    try apply fits_chk_ustr; try apply fits_chk_nodeid.
  - destruct e as [n uri srv]. cbn [chk_expnid]. rewrite is_none_seq, fits_chk_nodeid, fits_chk_ustr. reflexivity.
  - rewrite is_none_seq, !fits_chk_part by exact Hs. reflexivity.
  - destruct d; [reflexivity|]. rewrite is_none_seq, fits_chk_nodeid. f_equal.
    destruct b; cbn; try reflexivity; apply fits_chk_ustr.
  - apply fits_chk_diag.
Qed.

Lemma is_none_chk_list {A} (f : A -> option err) (g : A -> bool) xs :
  (forall x, In x xs -> is_none (f x) = g x) -> is_none (chk_list f xs) = forallb g xs.
Proof.
  induction xs as [|x xs IH]; intros H; [reflexivity|]. cbn [chk_list forallb].
  rewrite <- (H x) by (left; reflexivity). destruct (f x); [reflexivity|]. cbn. apply IH.
  intros y Hy. apply H. right. exact Hy.
Qed.

Lemma fits_chk_variant o : lim_ok o -> forall v d, is_none (chk_variant o d v) = fits_variant o d v.
Proof.
  intros Hl. induction v as [|s|w IHw|ov r IHov|ty vals dims IHvals] using variant_ind'; intros d.
  - reflexivity.
  - apply fits_chk_scalar, Hl.
  - cbn [chk_variant fits_variant]. destruct d; [reflexivity|apply IHw].
  - cbn [chk_variant fits_variant]. destruct d; [reflexivity|]. destruct ov; [apply IHov|reflexivity].
  - destruct vals as [|x xs]; [reflexivity|]. set (vals := x :: xs) in *.
    assert (E : chk_variant o d (VArray ty vals dims) =
                if max_arr o <? Z.of_nat (length vals) then Some ELimit
                else seq_chk (chk_list (chk_variant o d) vals)
                       (match dims with
                        | Some ds => if max_arr o <? Z.of_nat (length ds) then Some ELimit else None
                        | None => None end)).
    { subst vals. cbn [chk_variant]. rewrite <- chk_first_list. reflexivity. }
    rewrite E. subst vals. cbn [fits_variant]. unfold zlen.
    destruct (Z.ltb_spec (max_arr o) (Z.of_nat (length (x :: xs))));
      destruct (Z.leb_spec (Z.of_nat (length (x :: xs))) (max_arr o)); try lia; [reflexivity|].
    cbn [andb]. rewrite is_none_seq. f_equal.
    + apply is_none_chk_list. intros y Hy. rewrite Forall_forall in IHvals. apply IHvals, Hy.
    + destruct dims as [ds|]; [|reflexivity].
      destruct (Z.ltb_spec (max_arr o) (Z.of_nat (length ds)));
        destruct (Z.leb_spec (Z.of_nat (length ds)) (max_arr o)); try lia; reflexivity.
Qed.

Fixpoint fits_go (o : opts) (d : nat) (fs : list ty) (vs : list uval) : bool :=
  match fs, vs with f :: fs', x :: vs' => fits_ty f o d x && fits_go o d fs' vs' | _, _ => true end.
Lemma fits_struct o d fs vs : fits_ty (TStruct fs) o d (UT vs) = fits_go o d fs vs.
Proof.
  revert vs. induction fs as [|f fs IH]; intros [|x vs]; try reflexivity.
  change (fits_go o d (f :: fs) (x :: vs)) with (fits_ty f o d x && fits_go o d fs vs).
  rewrite <- (IH vs). reflexivity.
Qed.

Lemma fits_chk_ty o d : lim_ok o -> forall t v, is_none (chk_ty t o d v) = fits_ty t o d v.
Proof.
  intros Hl. induction t as [k| | |t IH|fs IH|w vals|w b|w vals dflt] using ty_ind'; intros v.
  - destruct v; try reflexivity. apply fits_chk_scalar, Hl.
  - destruct v; try reflexivity. apply fits_chk_variant, Hl.
  - destruct v; try reflexivity. unfold chk_ty, chk_dv. cbn [fst snd]. apply fits_chk_variant, Hl.
  - destruct v as [| | |xs| |]; try reflexivity. cbn [chk_ty fits_ty]. destruct xs as [l|]; [|reflexivity].
    unfold chk_array, zlen.
    destruct (Z.ltb_spec (max_arr o) (Z.of_nat (length l)));
      destruct (Z.leb_spec (Z.of_nat (length l)) (max_arr o)); try lia; [reflexivity|].
    cbn [andb]. apply is_none_chk_list. intros x _. apply IH.
  - destruct v as [| | | |vs|]; try reflexivity.
    destruct (struct_unfold fs vs o d) as (_ & _ & _ & E & _). rewrite E, fits_struct. clear E.
    revert vs. induction IH as [|f fs Hf Hfs IHfs]; intros vs; [destruct vs; reflexivity|].
    destruct vs as [|x vs]; [reflexivity|].
    change (chk_go o d (f :: fs) (x :: vs)) with (seq_chk (chk_ty f o d x) (chk_go o d fs vs)).
    change (fits_go o d (f :: fs) (x :: vs)) with (fits_ty f o d x && fits_go o d fs vs).
    rewrite is_none_seq, Hf, IHfs. reflexivity.
  - destruct v; reflexivity.
  - destruct v; reflexivity.
  - destruct v; reflexivity.
Qed.

(* ---- round trip in readable form ------------------------------------------------------------------------ *)
Theorem roundtrip t v o rest : wf_ty t v -> plain o -> fits_ty t o (depth0 o) v = true ->
  len_ty t v = zlen (enc_ty t v) /\
  Codec.run (dec_ty t o (depth0 o)) (enc_ty t v ++ rest) = Ok (norm_ty t v, rest).
Proof.
  intros Hw (Ho & Hd & Hl) Hf. destruct (ty_codec_ok t v Hw) as (L & _ & D).
  unfold ty_codec in *. cbn [enc dec blen wf chk norm] in *. split; [exact L|].
  rewrite D by exact Ho. rewrite <- fits_chk_ty in Hf by exact Hl. apply is_none_true in Hf.
  rewrite Hf. reflexivity.
Qed.
(* ---- the oracle holds on the model ------------------------------------------------------------------------ *)
Lemma list_eqb_refl l : list_eqb l l = true.
Proof. induction l as [|x l IH]; cbn; [reflexivity|]. rewrite Z.eqb_refl. exact IH. Qed.
Lemma starts_with_app p l : starts_with p (p ++ l) = Some l.
Proof. induction p as [|x p IH]; cbn; [reflexivity|]. rewrite Z.eqb_refl. exact IH. Qed.
Lemma firstn_zlen {A} (b l : list A) : firstn (Z.to_nat (zlen b)) (b ++ l) = b.
Proof. unfold zlen. rewrite Nat2Z.id, firstn_app, Nat.sub_diag, firstn_all. cbn. apply app_nil_r. Qed.
Lemma skipn_zlen {A} (b l : list A) : skipn (Z.to_nat (zlen b)) (b ++ l) = l.
Proof. unfold zlen. rewrite Nat2Z.id, skipn_app, Nat.sub_diag, skipn_all. reflexivity. Qed.

Lemma oracle_val_holds t v o rest : wf_ty t v -> plain o ->
  oracle_val t v o ([len_ty t v; zlen (enc_ty t v)] ++ enc_ty t v ++ report t o (enc_ty t v ++ rest)) = true.
Proof.
  intros Hw (Ho & Hd & Hl). destruct (ty_codec_ok t v Hw) as (L & _ & D).
  unfold ty_codec in *. cbn [enc dec blen wf chk norm] in *.
  unfold oracle_val. cbn [app]. rewrite skipn_zlen, L, Z.eqb_refl.
  assert (H0 : (0 <=? zlen (enc_ty t v)) = true) by (apply Z.leb_le; unfold zlen; lia).
  assert (H1 : (zlen (enc_ty t v) <=? zlen (enc_ty t v ++ report t o (enc_ty t v ++ rest))) = true).
  { apply Z.leb_le. unfold zlen. rewrite app_length. lia. }
  rewrite H0, H1. cbn [andb]. unfold report. rewrite D by exact Ho.
  rewrite <- (fits_chk_ty o (depth0 o) Hl t v).
  destruct (chk_ty t o (depth0 o) v) as [e|]; cbn [is_none]; [reflexivity|].
  replace (zlen (enc_ty t v ++ rest) - zlen rest) with (zlen (enc_ty t v))
    by (unfold zlen; rewrite app_length; lia).
  match goal with |- context [starts_with ?p ?l] =>
    replace l with (p ++ ([zlen (enc_ty t (norm_ty t v))] ++ enc_ty t (norm_ty t v)))
      by (cbn [app]; rewrite <- ?app_assoc; reflexivity) end.
  rewrite starts_with_app. cbn [app]. apply Z.eqb_refl.
Qed.

Lemma fits_chk_arg o a : lim_ok o -> is_none (chk_arg o a) = fits_arg o a.
Proof.
  intros Hl. destruct a as [name dt rank dims desc]. unfold chk_arg, fits_arg.
  rewrite !is_none_seq, fits_chk_ustr, fits_chk_nodeid, (fits_chk_scalar o O desc Hl), !andb_assoc.
  f_equal. f_equal. destruct (if 0 <? rank then dims else Some []) as [ds|]; [|reflexivity].
  unfold chk_array, zlen. rewrite chk_list_none.
  destruct (Z.ltb_spec (max_arr o) (Z.of_nat (length ds))); destruct (Z.leb_spec (Z.of_nat (length ds)) (max_arr o));
    try reflexivity; lia.
Qed.

Lemma oracle_arg_holds a o rest : wf_arg a -> plain o ->
  oracle_arg a o ([len_arg a; zlen (enc_arg a)] ++ enc_arg a ++ report_arg o (enc_arg a ++ rest)) = true.
Proof.
  intros Hw (Ho & Hd & Hl). destruct (arg_codec_ok a Hw) as (L & _ & D).
  unfold arg_codec in *. cbn [enc dec blen wf chk norm] in *.
  unfold oracle_arg. cbn [app]. rewrite skipn_zlen, L, Z.eqb_refl.
  assert (H0 : (0 <=? zlen (enc_arg a)) = true) by (apply Z.leb_le; unfold zlen; lia).
  assert (H1 : (zlen (enc_arg a) <=? zlen (enc_arg a ++ report_arg o (enc_arg a ++ rest))) = true).
  { apply Z.leb_le. unfold zlen. rewrite app_length. lia. }
  rewrite H0, H1. cbn [andb]. unfold report_arg. rewrite (D o O rest Ho).
  rewrite <- (fits_chk_arg o a Hl).
  destruct (chk_arg o a) as [e|]; cbn [is_none]; [reflexivity|].
  replace (zlen (enc_arg a ++ rest) - zlen rest) with (zlen (enc_arg a))
    by (unfold zlen; rewrite app_length; lia).
  match goal with |- context [starts_with ?p ?l] =>
    replace l with (p ++ ([zlen (enc_arg (norm_arg a))] ++ enc_arg (norm_arg a)))
      by (cbn [app]; rewrite <- ?app_assoc; reflexivity) end.
  rewrite starts_with_app. cbn [app]. apply Z.eqb_refl.
Qed.

Theorem oracle_holds c : valid c -> known c = 0 -> oracle c (Model.run c) = true.
Proof.
  intros Hv _. destruct c as [t v o rest|t o bs|a o rest]; cbn [valid oracle Model.run] in *;
    [| |destruct Hv as [Hw Hp]; apply oracle_arg_holds; assumption].
  - destruct Hv as [Hw Hp]. apply oracle_val_holds; assumption.
  - destruct Hv as (Hp & Hwf & Hnp). unfold oracle_bytes.
    destruct (Codec.run (dec_ty t o (depth0 o)) bs) as [[v rest]|e|p] eqn:E.
    + rewrite app_assoc, starts_with_app. apply oracle_val_holds; [|exact Hp]. apply (Hwf v rest eq_refl).
    + reflexivity.
    + exfalso. apply (Hnp p). reflexivity.
Qed.

(* ---- the code before the fix: an empty array with dimensions is written with the dimensions bit and
   an empty dimension list, 9 bytes, of which the decoder consumes 5 ------------------------------------ *)
Lemma legacy_refuted :
  let o := mk_opts 65535 65535 1000 327675 10 0 in
  let v := VArray 6 [] (Some []) in
  wf_variant v /\ length (Legacy.enc_variant v) = 9%nat /\
  exists v' rest', Codec.run (dec_variant o 10) (Legacy.enc_variant v) = Ok (v', rest') /\ length rest' = 4%nat.
Proof.
  cbv zeta. split; [|split; [reflexivity|]].
  - cbn. repeat split; try lia; auto.
  - eexists. eexists. split; vm_compute; reflexivity.
Qed.

(* the hypotheses are satisfiable by a non-trivial value: a DataValue holding a 2x1 array of
   Variants (a localized text with an empty locale, a nested string array), default options *)
Example roundtrip_example :
  let o := mk_opts 65535 65535 1000 327675 10 0 in
  let v := UD (Some (VArray 24 [VVar (VS (SLText (Some []) (Some [104; 105])));
                                VVar (VArray 12 [VS (SStr (Some [226; 130; 172])); VS (SStr None)] None)]
                             (Some [2; 1])))
              (mk_dvrest (Some 2150957056) (Some (-5)) (Some 7) None None) in
  wf_ty TDV v /\ plain o /\ fits_ty TDV o (depth0 o) v = true /\ norm_ty TDV v <> v.
Proof.
  cbv zeta. split; [|split; [|split]].
  - cbn. unfold wf_dvrest, wf_bytes, in_u, in_i, is_byte. cbn.
    repeat match goal with
           | |- _ /\ _ => split
           | |- _ \/ _ => right
           | |- Forall _ _ => constructor
           | |- True => exact I
           | |- _ = _ => reflexivity
           | |- _ => lia
           end.
  - unfold plain. cbn. lia.
  - vm_compute. reflexivity.
  - vm_compute. discriminate.
Qed.
