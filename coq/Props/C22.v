(* C22 — Keep-alives keep flowing and idle subscriptions expire on time.  Statements only.

   Vocabulary (C22/Model.v): a history is a list of [Pub] (the client sends a publish request) and
   [Timer dt] (the subscription timer fires dt ms after the previous operation) applied to a
   `Subscriptions` holding one subscription without monitored items; [trace_gen true true] is the
   model of the repaired code, its result the list of observations (publish responses produced,
   state snapshot) per operation and a panic flag; [flags ivl ops] marks the timer ticks at which a
   publishing interval has elapsed; [avail ops]: every timer tick is directly preceded by a publish
   request; states: 0 Closed 2 Normal 3 Late 4 KeepAlive. *)
From Coq Require Import List ZArith Bool.
From OV Require Import C22.Model C22.ProofsTable C22.ProofsTrace C22.ProofsExpiry C22.ProofsAlive C22.ProofsSchedule C22.Proofs.
Import ListNotations.
Open Scope Z_scope.

(* the property oracle holds on the model's output for every keep-alive count >= 1, lifetime count
   >= 3 * keep-alive count, publishing interval >= 1 ms and every history of any length *)
Theorem C22_oracle : forall c, valid c -> known c = 0 -> oracle c (run c) = true.
Proof. exact oracle_holds. Qed.
Print Assumptions C22_oracle.

(* First half.  Publishing enabled, a publish request before every timer tick, tick times
   arbitrary: the subscription is never closed and no BadTimeout status change is sent; a
   keep-alive is sent no later than at the first elapsed publishing interval; any kac+1 elapsed
   publishing intervals, anywhere in the history, contain a keep-alive.  For ever: any length. *)
Theorem C22_keepalive : forall k l ivl ops, 1 <= k -> 3 * k <= l -> 1 <= ivl -> avail ops = true ->
  let t := fst (trace_gen true true ivl 0 (init_world k l true) ops) in
  let fl := flags ivl ops in
  (forall o, In o t -> (exists s, snap_state o = Some s /\ s <> 0) /\ timeout_of o = false) /\
  (forall i, nth i fl false = true -> exists p, (p <= i)%nat /\ nth p (map ka_of t) false = true) /\
  (forall i m, k < count_true (firstn m (skipn i fl)) ->
     exists p, (i <= p < i + m)%nat /\ nth p (map ka_of t) false = true).
Proof. exact keepalive_holds. Qed.
Print Assumptions C22_keepalive.

(* First half, exact form.  A publish request before every tick, ticks one publishing interval
   apart (requests_history): the responses of interval j+1 (operation 2j+3) contain a keep-alive
   exactly when j+1 is 1, kac+2, kac+2+kac, kac+2+2*kac, ... (ka_schedule); a publish request
   itself (operation 2j+2) is never answered with one.  For every number n of intervals. *)
Theorem C22_keepalive_schedule : forall k l ivl n j, 1 <= k -> 3 * k <= l -> 1 <= ivl -> (j < n)%nat ->
  let kas := map ka_of (fst (trace_gen true true ivl 0 (init_world k l true) (requests_history ivl n))) in
  nth (2 * j + 2) kas false = false /\ nth (2 * j + 3) kas false = ka_schedule k (Z.of_nat j + 1).
Proof. exact keepalive_schedule. Qed.
Print Assumptions C22_keepalive_schedule.

(* Second half, exact form.  No publish requests, ticks one publishing interval apart, publishing
   enabled or not: after the creating tick the subscription is Late at intervals 1 .. life-1 and
   Closed from interval `life` on -- it expires exactly at interval `life`, not before. *)
Theorem C22_expiry_exact : forall k l en ivl n i, 2 <= l -> 1 <= ivl -> (1 <= i <= n)%nat ->
  nth i (states_of (fst (trace_gen true true ivl 0 (init_world k l en) (idle_history ivl n)))) (-1) =
    (if l <=? Z.of_nat i then 0 else 3).
Proof. exact idle_expires_exactly. Qed.
Print Assumptions C22_expiry_exact.

(* ... and the closure comes with the BadTimeout status change: the next publish request, whenever
   it arrives, is answered with it (response kind 2) and the subscription is removed *)
Theorem C22_expiry_status_change : forall k l en ivl n now, 2 <= l -> 1 <= ivl -> l <= Z.of_nat n ->
  exists w w', final_gen true true ivl 0 (init_world k l en) (idle_history ivl n) = Some w /\
    step_gen true true ivl now Pub w = Some (w', [2]) /\ ws w' = None.
Proof. exact idle_timeout_delivered. Qed.
Print Assumptions C22_expiry_status_change.

(* Second half for arbitrary tick times (the checker of the oracle: not closed while fewer than
   life-1 intervals have elapsed, closed once life+1 have, nothing sent meanwhile, and the first
   publish request after the closure answered with the status change) *)
Theorem C22_expiry : forall k l en ivl ops, 2 <= l -> 1 <= ivl ->
  check_expiry l 0 false ops (flags ivl ops) (fst (trace_gen true true ivl 0 (init_world k l en) ops)) = true.
Proof. exact expiry_holds. Qed.
Print Assumptions C22_expiry.

(* update_state is the state table of Part 4 5.13.1.2 (as data, first matching row) *)
Theorem C22_table : forall s p, update_state s p = table_eval s p.
Proof. exact update_state_eq_table. Qed.
Print Assumptions C22_table.

(* the transition function is total on live counters (no `lifetime_counter -= 1` at 0) and keeps
   them live *)
Theorem C22_step_total : forall s p,
  1 <= life s -> 2 <= maxlife s -> recv p && te p = false ->
  exists row a s', update_state s p = Res row a s' /\
    1 <= life s' /\ maxlife s' = maxlife s /\ maxkac s' = maxkac s /\ enabled s' = enabled s.
Proof. exact update_state_total. Qed.
Print Assumptions C22_step_total.

(* no history panics, every operation is observed *)
Theorem C22_no_panic : forall k l en ivl ops, 1 <= k -> 3 * k <= l -> 1 <= ivl ->
  snd (trace_gen true true ivl 0 (init_world k l en) ops) = false /\
  length (fst (trace_gen true true ivl 0 (init_world k l en) ops)) = length ops.
Proof. exact no_panic. Qed.
Print Assumptions C22_no_panic.

(* the pinned code (before "fix: keep-alive rows 14/15 ..."): kac 3, life 9, requests always
   available: after the first keep-alive none is sent any more *)
Theorem C22_legacy_refuted :
  let c := Hist 3 9 true 1000 (requests_history 1000 12) in
  valid c /\ oracle c (Legacy.run c) = false.
Proof. exact legacy_refuted. Qed.
Print Assumptions C22_legacy_refuted.

(* after that repair and before the repair of row 9: kac 1, life 3 (the minimum the server revises
   to): closed with BadTimeout at the third interval although requests are always available *)
Theorem C22_legacy9_refuted :
  let c := Hist 1 3 true 1000 (requests_history 1000 5) in
  valid c /\ oracle c (Legacy9.run c) = false.
Proof. exact legacy9_refuted. Qed.
Print Assumptions C22_legacy9_refuted.
