(* C37 — Reconnect back-off follows its policy and never overflows.  Statements only. *)
From Coq Require Import List ZArith.
Import ListNotations.
From OV Require Import C37.Model C37.Proofs.
Open Scope Z_scope.

(* For every policy (any durations up to Duration::MAX, any limit) and any number of observed
   calls, the iterator model yields exactly: delay_0 = initial, delay_(k+1) = min(max, 2*delay_k),
   for the first `limit` calls, then None; never a panic.  A case also says how the policy object
   was built (new / infinity / never / default / client configuration) and whether the iterator
   or the connect loop that consumes it is observed. *)
Theorem C37_sequence : forall c, valid c -> run c = spec c.
Proof. exact run_eq_spec. Qed.
Print Assumptions C37_sequence.

Theorem C37_oracle : forall c, valid c -> oracle c (run c) = true.
Proof. exact oracle_holds. Qed.
Print Assumptions C37_oracle.

Theorem C37_iterator : forall p, valid_p p -> run_p p = spec_p p.
Proof. exact run_eq_spec_p. Qed.
Print Assumptions C37_iterator.

Theorem C37_limit : forall c k, valid_p c -> c_count0 c = 0 -> (k < Z.to_nat (c_n c))%nat ->
  (nth k (run_p c) 0 <> -1 <-> match c_limit c with Some m => Z.of_nat k < m | None => True end).
Proof. exact yields_iff_within_limit_p. Qed.
Print Assumptions C37_limit.

Theorem C37_doubling : forall mx d0 k,
  delay mx d0 0 = d0 /\ delay mx d0 (S k) = Z.min mx (2 * delay mx d0 k).
Proof. intros; split; [apply first_is_initial | apply later_doubles_capped]. Qed.
Print Assumptions C37_doubling.

Theorem C37_no_panic : forall c, valid c -> ~ In (-2) (run c).
Proof. exact no_panic. Qed.
Print Assumptions C37_no_panic.

(* The loop that consumes the policy (AsyncSecureChannel::connect): against a server that refuses
   every attempt a fresh policy of limit m makes exactly m + 1 attempts, sleeps exactly the
   policy's m delays in order and gives up; an unlimited policy never gives up.  For every limit,
   every duration and every observation bound [fuel] above the limit. *)
Theorem C37_connect_limited : forall c m fuel, valid_p c -> c_count0 c = 0 -> c_limit c = Some m ->
  (Z.to_nat m < fuel)%nat ->
  connect fuel (init_state c) =
  (m + 1, 1, map (fun j => delay (c_max c) (c_init c) j) (seq 0 (Z.to_nat m))).
Proof. exact connect_limited. Qed.
Print Assumptions C37_connect_limited.

Theorem C37_connect_unlimited : forall c fuel, valid_p c -> c_limit c = None ->
  let '(a, g, ds) := connect fuel (init_state c) in a = Z.of_nat fuel /\ g = 0.
Proof. exact connect_unlimited. Qed.
Print Assumptions C37_connect_unlimited.

(* every constructor yields a valid policy from valid arguments (so [valid] is inhabited for each) *)
Theorem C37_constructors_valid : forall h pre b p, valid_p p ->
  match h with Config l => -1 <= l <= 2147483647 | _ => True end ->
  valid_p (policy_of (mk_case h pre b p)).
Proof. exact policy_of_valid. Qed.
Print Assumptions C37_constructors_valid.

Theorem C37_legacy_refuted :
  exists c, valid_p c /\ In (-2) (Legacy.take (Z.to_nat (c_n c)) (init_state c)).
Proof. exact legacy_refuted_mul. Qed.
Print Assumptions C37_legacy_refuted.

(* the connect loop before the fix: the back-off was created inside the loop, so a policy of
   limit 2 never gave up and slept the initial delay every time *)
Theorem C37_legacy_connect_refuted :
  exists c, valid_p c /\ c_count0 c = 0 /\ c_limit c = Some 2 /\
            LegacyConnect.connect 10 (init_state c) = (10, 0, repeat (c_init c) 10) /\
            connect 10 (init_state c) = (3, 1, [c_init c; 2 * c_init c]).
Proof. exact legacy_connect_refuted. Qed.
Print Assumptions C37_legacy_connect_refuted.
