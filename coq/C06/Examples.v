(* C06 — refutation of the pinned (pre-fix) code, and concrete instances showing that the hypotheses
   of the theorems are satisfiable. *)
From Coq Require Import List ZArith Bool Lia Reals.
From Flocq Require Import Core IEEE754.BinarySingleNaN.
From OV Require Import C06.Model C06.Spec C06.Proofs C06.OracleProofs.
Import ListNotations.
Open Scope Z_scope.

Ltac valid_case := split; [reflexivity | simpl; repeat (apply Forall_cons || apply Forall_nil); cbn [c_lo]; lia].

(* UInt32(4_000_000_000).convert(Int32) was Int32(-294967296) *)
Lemma legacy_refuted_convert :
  exists c, valid c /\ c_op c = Convert /\ oracle c (run_with Legacy.cfg c) = false.
Proof.
  exists (mk_case Convert TUInt32 TInt32 0 0 [4000000000]).
  split; [valid_case|]. split; [reflexivity|]. vm_compute. reflexivity.
Qed.
Example legacy_convert_output :
  run1 Legacy.cfg Convert TUInt32 TInt32 4000000000 = [6; -294967296] /\
  run1 gen_cfg Convert TUInt32 TInt32 4000000000 = [-1; 0].
Proof. split; vm_compute; reflexivity. Qed.

(* Double(-1.6).cast(Int32) was -1 (13832806255468478874 = bits of -1.6), NaN became 0
   (9221120237041090560 = bits of the quiet NaN), 1e30 became u64::MAX (5075496445960327109 = bits
   of 1e30) *)
Lemma legacy_refuted_cast_round :
  exists c, valid c /\ c_op c = Cast /\ oracle c (run_with Legacy.cfg c) = false.
Proof.
  exists (mk_case Cast TDouble TInt32 0 0 [13832806255468478874]).
  split; [valid_case|]. split; [reflexivity|]. vm_compute. reflexivity.
Qed.
Example legacy_cast_outputs :
  run1 Legacy.cfg Cast TDouble TInt32 13832806255468478874 = [6; -1] /\
  run1 gen_cfg Cast TDouble TInt32 13832806255468478874 = [6; -2] /\
  run1 Legacy.cfg Cast TDouble TInt32 9221120237041090560 = [6; 0] /\
  run1 gen_cfg Cast TDouble TInt32 9221120237041090560 = [-1; 0] /\
  run1 Legacy.cfg Cast TDouble TUInt64 5075496445960327109 = [9; 18446744073709551615] /\
  run1 gen_cfg Cast TDouble TUInt64 5075496445960327109 = [-1; 0].
Proof. repeat split; vm_compute; reflexivity. Qed.

Lemma legacy_refuted_cast_nan :
  exists c, valid c /\ c_op c = Cast /\ oracle c (run_with Legacy.cfg c) = false.
Proof.
  exists (mk_case Cast TDouble TInt32 0 0 [9221120237041090560]).
  split; [valid_case|]. split; [reflexivity|]. vm_compute. reflexivity.
Qed.

(* UInt64(5).cast(Int32) was Empty: there was no arm *)
Lemma legacy_refuted_cast_missing :
  exists c, valid c /\ c_op c = Cast /\
            run1 Legacy.cfg Cast (c_src c) (c_tgt c) 5 = [-1; 0] /\ run1 gen_cfg Cast (c_src c) (c_tgt c) 5 = [6; 5] /\
            payloads c = [5] /\ oracle c (run_with Legacy.cfg c) = false.
Proof.
  exists (mk_case Cast TUInt64 TInt32 0 0 [5]).
  split; [valid_case|]. repeat split; vm_compute; reflexivity.
Qed.

Lemma legacy_cfg_not_ok : cfg_ok Legacy.cfg = false.
Proof. vm_compute. reflexivity. Qed.

(* the canonical (run-length encoded) output of a range: all of Byte cast to SByte is 128 values
   unchanged (result - source = 0), then 128 times no result *)
Example rle_output_ex : run (mk_case Cast TByte TSByte 0 256 []) = [128; 2; 0; 128; -1; 0].
Proof. vm_compute. reflexivity. Qed.

(* hypotheses of the theorems are satisfiable by non-trivial cases *)
Example valid_range_case : valid (mk_case Cast TInt16 TByte (-3) 6 [32767; -32768]).
Proof. valid_case. Qed.
Example valid_float_case : valid (mk_case Convert TFloat TDouble 2139095039 3 [0; 4294967295]).
Proof. valid_case. Qed.
Example well_typed_ex : well_typed TUInt32 (VInt 4000000000) /\ well_typed TDouble (VF64 (f64_of_bits 13832806255468478874)).
Proof. split; [reflexivity | exact I]. Qed.
Example convert_out_of_range_ex : convert gen_cfg TUInt32 TInt32 (VInt 4000000000) = Empty.
Proof. vm_compute. reflexivity. Qed.
Example cast_rounds_ex :
  out_of_res (cast gen_cfg TDouble TInt32 (VF64 (f64_of_bits 13832806255468478874))) = [6; -2] /\
  out_of_res (cast gen_cfg TDouble TByte (VF64 (f64_of_bits 4643193890987769856))) = [-1; 0] (* 255.5 -> 256 *).
Proof. split; vm_compute; reflexivity. Qed.
