(* C06 — vocabulary of the theorems: the numeric types, the real number a value denotes, and the
   decidable well-formedness check of a (translated) configuration that the generic proofs need.
   Definitions only. *)
From Coq Require Import List ZArith Bool Reals.
From Flocq Require Import Core IEEE754.BinarySingleNaN.
From OV Require Import C06.Model.
Import ListNotations.
Open Scope Z_scope.

(* the numeric types of the property: eight integer types, Float, Double *)
Inductive num := NInt (s : bool) (b : Z) | NF32 | NF64.
Definition num_of (t : ty) : option num :=
  match t with
  | TFloat => Some NF32
  | TDouble => Some NF64
  | _ => match int_ty t with Some (s, b) => Some (NInt s b) | None => None end
  end.

Definition numeric_types : list ty :=
  [TSByte; TByte; TInt16; TUInt16; TInt32; TUInt32; TInt64; TUInt64; TFloat; TDouble].
Definition int_types : list (bool * Z) :=
  [(true, 8); (false, 8); (true, 16); (false, 16); (true, 32); (false, 32); (true, 64); (false, 64)].

(* a value of the given numeric type *)
Definition well_typed (t : ty) (v : val) : Prop :=
  match num_of t, v with
  | Some (NInt s b), VInt n => in_range s b n = true
  | Some NF32, VF32 _ => True
  | Some NF64, VF64 _ => True
  | _, _ => False
  end.

(* the number a value denotes (0 for NaN and infinities, which [val_class] tells apart) *)
Definition valR (v : val) : R :=
  match v with VInt n => IZR n | VF32 f => B2R f | VF64 f => B2R f end.
Inductive vclass := CFinite | CInf (neg : bool) | CNaN.
Definition f_class {prec emax} (f : binary_float prec emax) : vclass :=
  match f with B754_infinity s => CInf s | B754_nan => CNaN | _ => CFinite end.
Definition val_class (v : val) : vclass :=
  match v with VInt _ => CFinite | VF32 f => f_class f | VF64 f => f_class f end.
Definition finite_val (v : val) : bool :=
  match val_class v with CFinite => true | _ => false end.

(* the value of a float that denotes an integer *)
Definition exact_Z {prec emax} (f : binary_float prec emax) : option Z :=
  match f with
  | B754_zero _ => Some 0
  | B754_finite s m e _ =>
    if 0 <=? e then Some (cond_Zopp s (Zpos m) * 2 ^ e)
    else if Zpos m mod 2 ^ (- e) =? 0 then Some (cond_Zopp s (Zpos m / 2 ^ (- e))) else None
  | _ => None
  end.
Definition opt_Z_eqb (a : option Z) (b : Z) : bool :=
  match a with Some x => x =? b | None => false end.

(* both bounds of the float-domain range test are exact: MIN as f = MIN, (MAX as f) + 1.0 = MAX + 1 *)
Definition bounds_exact (prec emax : Z) {Hp : Prec_gt_0 prec} {Hm : Prec_lt_emax prec emax}
           (plus : bool) (s : bool) (b : Z) : bool :=
  opt_Z_eqb (exact_Z (f_of_Z prec emax (pmin s b))) (pmin s b) &&
  opt_Z_eqb (exact_Z (f_upper prec emax plus (pmax s b))) (pmax s b + 1).

Definition ord_eqb (a b : ord) : bool :=
  match a, b with OLt, OLt | OLe, OLe | OGt, OGt | OGe, OGe => true | _, _ => false end.

(* what the arms for one ordered pair of distinct numeric types must look like for the property to
   hold of the interpreted code *)
Definition pair_ok (cfg : config) (s t : ty) : bool :=
  match num_of s, num_of t with
  | Some (NInt ss sb), Some (NInt ts tb) =>
    let xok := match lookup (c_cast cfg) s t with
               | None => true | Some (XInt AV) => true | Some _ => false end in
    match lookup (c_convert cfg) s t with
    | Some RAs => (pmin ts tb <=? pmin ss sb) && (pmax ss sb <=? pmax ts tb) && xok
    | Some RTry => xok
    | Some RNonNeg => (pmin ts tb =? 0) && (pmax ss sb <=? pmax ts tb) && xok
    | Some ROpaque => false
    | None => match lookup (c_cast cfg) s t with Some (XInt AV) => true | _ => false end
    end
  | Some (NInt _ _), Some _ =>
    match lookup (c_convert cfg) s t with Some RAs => true | _ => false end
  | Some NF32, Some NF64 =>
    match lookup (c_convert cfg) s t with Some RAs => true | _ => false end
  | Some NF64, Some NF32 =>
    match lookup (c_convert cfg) s t, lookup (c_cast cfg) s t with None, Some XAs => true | _, _ => false end
  | Some NF32, Some (NInt ts tb) =>
    match lookup (c_convert cfg) s t, lookup (c_cast cfg) s t with
    | None, Some (XFloat ARound) => bounds_exact 24 128 (c_fl_plus cfg) ts tb
    | _, _ => false end
  | Some NF64, Some (NInt ts tb) =>
    match lookup (c_convert cfg) s t, lookup (c_cast cfg) s t with
    | None, Some (XFloat ARound) => bounds_exact 53 1024 (c_fl_plus cfg) ts tb
    | _, _ => false end
  | _, _ => false
  end.

Definition cfg_ok (cfg : config) : bool :=
  ord_eqb (c_int_neg cfg) OLt && ord_eqb (c_int_lo cfg) OGe && ord_eqb (c_int_hi cfg) OLe &&
  ord_eqb (c_fl_lo cfg) OGe && ord_eqb (c_fl_hi cfg) OLt && c_fl_plus cfg &&
  forallb (fun s => forallb (fun t => ty_eqb s t || pair_ok cfg s t) numeric_types) numeric_types.
