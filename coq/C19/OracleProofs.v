(* C19 — proofs.  Part 2: the executable oracle accepts the model's own output, for every
   history (simulation between the model state and the oracle's ledger). *)
From Coq Require Import List ZArith Bool String Lia.
Import ListNotations.
From OV Require Import Gen.C19Dispatch C19.Model C19.Proofs.
Open Scope Z_scope.

Lemma nondiscovery_full : forall sv, discovery sv = false -> arm_of sv = Some FullGuard.
Proof. intros sv; destruct sv; vm_compute; intro H; try reflexivity; discriminate H. Qed.

Lemma discovery_eff0 : forall sv arg t w, discovery sv = true -> eff0 sv arg t w = w.
Proof. intros sv arg t w; destruct sv; vm_compute; intro H; try reflexivity; discriminate H. Qed.

(* ---- rows --------------------------------------------------------------------------------- *)
Lemma row_eqb_refl : forall r, row_eqb r r = true.
Proof. intros [[[a b] c] d]. unfold row_eqb. cbn. rewrite !Z.eqb_refl. reflexivity. Qed.
Lemma rows_eqb_refl : forall l, rows_eqb l l = true.
Proof. induction l as [|r l IH]; cbn; auto. rewrite row_eqb_refl, IH. reflexivity. Qed.

Lemma r_tok_row : forall w s, r_tok (row_of w s) = s_tok s. Proof. reflexivity. Qed.
Lemma r_chan_row : forall w s, r_chan (row_of w s) = s_chan s. Proof. reflexivity. Qed.
Lemma r_act_row : forall w s, r_act (row_of w s) = s_act s.
Proof. intros w s. unfold r_act, row_of, flags. cbn. destruct (s_act s), (s_term s); reflexivity. Qed.
Lemma r_term_row : forall w s, r_term (row_of w s) = s_term s.
Proof. intros w s. unfold r_term, row_of, flags. cbn. destruct (s_act s), (s_term s); reflexivity. Qed.

Lemma row_set_term_row : forall w s, row_set_term (row_of w s) = row_of w (set_term s).
Proof.
  intros w s. unfold row_set_term. rewrite r_act_row. unfold row_of, flags, mk_flags, set_term. cbn.
  reflexivity.
Qed.
Lemma row_set_act_row : forall w a ch now s, row_set_act a ch (row_of w s) = row_of w (set_act a ch now s).
Proof.
  intros w a ch now s. unfold row_set_act. rewrite r_term_row. unfold row_of, flags, mk_flags, set_act. cbn.
  reflexivity.
Qed.
Lemma row_set_last : forall w now s, row_of w (set_last now s) = row_of w s.
Proof. intros w now s. reflexivity. Qed.

Lemma find_row_rows : forall w t l,
  find_row t (map (row_of w) l) = option_map (row_of w) (find_tok t l).
Proof.
  intros w t l. unfold find_row, find_tok. induction l as [|s l IH]; cbn; auto.
  destruct (s_tok s =? t); auto.
Qed.

Lemma upd_row_rows : forall w t g f l,
  (forall s, g (row_of w s) = row_of w (f s)) ->
  upd_row t g (map (row_of w) l) = map (row_of w) (upd t f l).
Proof.
  intros w t g f l H. unfold upd_row, upd. rewrite !map_map. apply map_ext. intro s.
  cbn. destruct (s_tok s =? t); auto.
Qed.

Lemma filter_rows : forall w t l,
  filter (fun r => negb (r_tok r =? t)) (map (row_of w) l) =
  map (row_of w) (filter (fun s => negb (s_tok s =? t)) l).
Proof.
  intros w t l. induction l as [|s l IH]; cbn; auto.
  destruct (negb (s_tok s =? t)); cbn; rewrite IH; reflexivity.
Qed.

Lemma rows_same_world : forall (w w' : world0) l,
  snd w = snd w' -> map (row_of w) l = map (row_of w') l.
Proof. intros w w' l H. apply map_ext. intro s. unfold row_of. rewrite H. reflexivity. Qed.

Lemma all_pos_rows : forall w l, (forall s, In s l -> 1 <= s_tok s) ->
  all_tokens_positive (map (row_of w) l) = true.
Proof.
  intros w l H. unfold all_tokens_positive. apply forallb_forall. intros r Hin.
  apply in_map_iff in Hin. destruct Hin as [s [<- Hin]]. rewrite r_tok_row.
  apply Z.ltb_lt. specialize (H s Hin). lia.
Qed.

(* ---- subscriptions in the concrete world ---------------------------------------------------- *)
Lemma subs_bump_other : forall t t' l, t' <> t -> subs_of t' (bump t l) = subs_of t' l.
Proof.
  intros t t' l H. induction l as [|[k n] l IH]; cbn.
  - destruct (t =? t') eqn:E; auto. apply Z.eqb_eq in E. congruence.
  - destruct (k =? t) eqn:E; cbn.
    + apply Z.eqb_eq in E. subst k. destruct (t =? t') eqn:E'; auto. apply Z.eqb_eq in E'. congruence.
    + destruct (k =? t'); auto.
Qed.

Lemma eff0_subs_other : forall sv arg t t' w, t' <> t -> subs_of t' (snd (eff0 sv arg t w)) = subs_of t' (snd w).
Proof. intros sv arg t t' w H. destruct sv; cbn; auto. apply subs_bump_other. exact H. Qed.

Lemma rows_but_subs : forall t (w w' : world0) now l,
  (forall t', t' <> t -> subs_of t' (snd w') = subs_of t' (snd w)) ->
  rows_eqb_but_subs t (map (row_of w) l) (map (row_of w') (upd t (set_last now) l)) = true.
Proof.
  intros t w w' now l H. unfold upd. induction l as [|s l IH]; [reflexivity|].
  cbn [map rows_eqb_but_subs]. rewrite IH.
  destruct (s_tok s =? t) eqn:E.
  - rewrite row_set_last. unfold row_of. cbn. rewrite !Z.eqb_refl, E. reflexivity.
  - unfold row_of. cbn. rewrite !Z.eqb_refl, E. cbn.
    rewrite H; [rewrite Z.eqb_refl; reflexivity|]. apply Z.eqb_neq. exact E.
Qed.

(* ---- the ledger --------------------------------------------------------------------------- *)
Definition led_rel (l : list session) (led : list (Z * (Z * Z))) : Prop :=
  forall s, In s l -> led_get (s_tok s) led = Some (s_last s, s_timeout s).

Lemma led_get_touch : forall t now t' led,
  led_get t' (led_touch t now led) =
  if t' =? t then match led_get t led with Some (_, to) => Some (now, to) | None => None end
  else led_get t' led.
Proof.
  intros t now t' led. induction led as [|[k [la to]] led IH]; cbn.
  - destruct (t' =? t); reflexivity.
  - destruct (Z.eqb_spec k t) as [->|Hk]; cbn.
    + destruct (Z.eqb_spec t' t) as [->|Ht].
      * rewrite Z.eqb_refl. reflexivity.
      * destruct (Z.eqb_spec t t'); [congruence|reflexivity].
    + destruct (Z.eqb_spec k t') as [->|Hk'].
      * destruct (Z.eqb_spec t' t); [congruence|reflexivity].
      * exact IH.
Qed.

Lemma led_get_app : forall t k v led,
  led_get t (led ++ [(k, v)]) =
  match led_get t led with Some x => Some x | None => if k =? t then Some v else None end.
Proof.
  intros t k v led. induction led as [|[k' v'] led IH]; cbn; auto.
  destruct (k' =? t); auto.
Qed.

Lemma led_rel_upd_same : forall t f l led,
  (forall s, s_tok (f s) = s_tok s /\ s_last (f s) = s_last s /\ s_timeout (f s) = s_timeout s) ->
  led_rel l led -> led_rel (upd t f l) led.
Proof.
  intros t f l led Hf H s' Hin. apply in_upd in Hin. destruct Hin as [s [Hin [->| ->]]]; auto.
  destruct (Hf s) as [A [B C]]. rewrite A, B, C. auto.
Qed.

Lemma led_rel_upd_touch : forall t now f l led,
  (forall s, s_tok (f s) = s_tok s /\ s_last (f s) = now /\ s_timeout (f s) = s_timeout s) ->
  led_rel l led -> led_rel (upd t f l) (led_touch t now led).
Proof.
  intros t now f l led Hf H s' Hin. unfold upd in Hin. apply in_map_iff in Hin.
  destruct Hin as [s [E Hin]]. rewrite led_get_touch. specialize (H s Hin).
  destruct (s_tok s =? t) eqn:Et; subst s'.
  - destruct (Hf s) as [A [B C]]. rewrite A, B, C, Et. apply Z.eqb_eq in Et. rewrite <- Et, H. reflexivity.
  - rewrite Et. exact H.
Qed.

Lemma led_rel_filter : forall p l led, led_rel l led -> led_rel (filter p l) led.
Proof. intros p l led H s Hin. apply filter_In in Hin. destruct Hin. auto. Qed.

(* ---- the simulation relation ---------------------------------------------------------------- *)
Record R (c : conn world0) (o : ostate) : Prop := {
  R_rows : o_rows o = rows_of c;
  R_var : o_var o = fst (world c);
  R_chan : o_chan o = chan_now c;
  R_clock : o_clock o = clock c;
  R_next : o_next o = next_tok c;
  R_led : led_rel (sessions c) (o_led o);
  R_fresh : forall t, next_tok c <= t -> led_get t (o_led o) = None;
  R_subs : forall t, next_tok c <= t -> subs_of t (snd (world c)) = 0 }.

Lemma o_timed_out_eq : forall c o s, R c o -> In s (sessions c) ->
  o_timed_out o (s_tok s) = timed_out (clock c) s.
Proof.
  intros c o s HR Hin. unfold o_timed_out, timed_out. rewrite (R_led c o HR s Hin), (R_clock c o HR).
  apply andb_comm.
Qed.

Lemma o_timed_out_none : forall c o t, R c o -> find_tok t (sessions c) = None -> wf c ->
  o_timed_out o t = false \/ True.
Proof. auto. Qed.

Lemma o_authorised_eq : forall c o t, R c o ->
  o_authorised o t =
  match find_tok t (sessions c) with
  | Some s => s_act s && (s_chan s =? chan_now c) && negb (timed_out (clock c) s)
  | None => false
  end.
Proof.
  intros c o t HR. unfold o_authorised. rewrite (R_rows c o HR). unfold rows_of. rewrite find_row_rows.
  destruct (find_tok t (sessions c)) as [s|] eqn:F; cbn [option_map]; auto.
  apply find_tok_some in F. destruct F as [Hin Ht].
  rewrite r_act_row, r_chan_row, (R_chan c o HR). rewrite <- Ht, (o_timed_out_eq c o s HR Hin). reflexivity.
Qed.

Lemma dec_enc : forall k v rows rest, dec_obs (enc_obs k v rows ++ rest) = Some (k, v, rows, rest).
Proof.
  intros k v rows rest. unfold dec_obs, enc_obs. cbn [app].
  assert (H : Z.of_nat (List.length rows) <? 0 = false) by (apply Z.ltb_ge; lia). rewrite H.
  rewrite Nat2Z.id.
  assert (T : forall l, take_rows (List.length l) (flat_rows l ++ rest) = Some (l, rest)).
  { induction l as [|[[[a b] c0] d] l IH]; cbn; auto. rewrite IH. reflexivity. }
  rewrite T. reflexivity.
Qed.

Ltac fin := eexists; split; [reflexivity | constructor; cbn; auto].

Lemma pos_ok : forall (c : conn world0), wf c -> negb (all_tokens_positive (rows_of c)) = false.
Proof.
  intros c Hwf. unfold rows_of. rewrite all_pos_rows; [reflexivity|].
  intros s Hin. pose proof (wf_range c Hwf s Hin). lia.
Qed.

Lemma new_row : forall (w : world0) t ch la to,
  subs_of t (snd w) = 0 -> row_of w (mk_session t false ch la to false) = (t, 0, ch, 0).
Proof. intros w t ch la to H. unfold row_of, flags. cbn. rewrite H. reflexivity. Qed.

Section Sim.
Variable c : conn world0.
Variable o : ostate.
Hypothesis Hwf : wf c.
Hypothesis HR : R c o.

Let Goal (op0 : op) : Prop :=
  let r := step eff0 c op0 in
  exists o', ostep o op0 (snd r) (fst (world (fst r))) (rows_of (fst r)) = Some o' /\ R (fst r) o'.

Lemma sim_channel : forall id, Goal (Channel id).
Proof.
  intro id. unfold Goal. cbn [step fst snd world]. unfold ostep.
  change (rows_of (mk_conn (sessions c) id (clock c) (next_tok c) (world c))) with (rows_of c).
  rewrite (pos_ok c Hwf).
  rewrite (R_var c o HR), (R_rows c o HR), Z.eqb_refl, Z.eqb_refl, rows_eqb_refl. cbn [andb].
  destruct HR. fin.
Qed.

Lemma sim_elapse : forall ms, Goal (Elapse ms).
Proof.
  intro ms. unfold Goal. cbn [step fst snd world]. unfold ostep.
  change (rows_of (mk_conn (sessions c) (chan_now c) (clock c + ms) (next_tok c) (world c))) with (rows_of c).
  rewrite (pos_ok c Hwf).
  rewrite (R_var c o HR), (R_rows c o HR), Z.eqb_refl, Z.eqb_refl, rows_eqb_refl. cbn [andb].
  destruct HR. fin. congruence.
Qed.

Lemma sim_create : forall timeout ok, Goal (Create timeout ok).
Proof.
  intros timeout ok. unfold Goal.
  pose proof (wf_step _ eff0 c (Create timeout ok) Hwf) as Hwf'.
  revert Hwf'. cbn [step].
  destruct (MAX_SESSIONS <=? Z.of_nat (List.length (sessions c))) eqn:E1;
    [|destruct (negb ok) eqn:E2]; intro Hwf'; cbn [fst snd world] in *; unfold ostep;
    rewrite (pos_ok _ Hwf').
  - cbn [Z.eqb]. rewrite (R_var c o HR), (R_rows c o HR), Z.eqb_refl, rows_eqb_refl. cbn [andb].
    destruct HR. fin.
  - cbn [Z.eqb]. rewrite (R_var c o HR), (R_rows c o HR), Z.eqb_refl, rows_eqb_refl. cbn [andb].
    destruct HR. fin.
  - cbn [Z.eqb]. rewrite (R_var c o HR), (R_rows c o HR), (R_next c o HR), (R_chan c o HR), (R_clock c o HR), Z.eqb_refl.
    unfold rows_of. cbn [sessions world]. rewrite map_app. cbn [map].
    rewrite new_row by (apply (R_subs c o HR); lia).
    rewrite rows_eqb_refl. cbn [andb].
    destruct HR as [H1 H2 H3 H4 H5 H6 H7 H8].
    eexists; split; [reflexivity|]. constructor; cbn [o_rows o_var o_chan o_clock o_next o_led sessions world chan_now clock next_tok]; auto.
    + unfold rows_of. cbn [sessions world]. rewrite map_app. cbn [map].
      rewrite new_row by (apply H8; lia). reflexivity.
    + intros s' Hin. apply in_app_or in Hin. rewrite led_get_app. destruct Hin as [Hin | [<- | []]].
      * rewrite (H6 s' Hin). reflexivity.
      * cbn [s_tok s_last s_timeout]. rewrite (H7 (next_tok c)) by lia. rewrite Z.eqb_refl. reflexivity.
    + intros t Ht. rewrite led_get_app. rewrite (H7 t) by lia.
      destruct (Z.eqb_spec (next_tok c) t); [lia|reflexivity].
    + intros t Ht. apply H8. lia.
Qed.

Lemma sim_close : forall tr, Goal (Close tr).
Proof.
  intro tr. unfold Goal.
  pose proof (wf_step _ eff0 c (Close tr) Hwf) as Hwf'.
  revert Hwf'. cbn [step]. set (t := tok_val tr).
  destruct (find_tok t (sessions c)) as [s|] eqn:F;
    [destruct (negb (s_act s) && negb (s_chan s =? chan_now c)) eqn:E|];
    intro Hwf'; cbn [fst snd world] in *; unfold ostep; rewrite (pos_ok _ Hwf'); fold t.
  - cbn [Z.eqb]. rewrite (R_var c o HR), (R_rows c o HR), Z.eqb_refl, rows_eqb_refl. cbn [andb].
    destruct HR. fin.
  - cbn [Z.eqb]. rewrite (R_rows c o HR). unfold rows_of at 1. rewrite find_row_rows, F. cbn [option_map].
    rewrite (R_var c o HR). unfold with_sessions. cbn [world]. rewrite Z.eqb_refl.
    unfold rows_of. cbn [sessions world]. rewrite filter_rows, rows_eqb_refl. cbn [andb].
    destruct HR as [H1 H2 H3 H4 H5 H6 H7 H8].
    eexists; split; [reflexivity|]. constructor; cbn [o_rows o_var o_chan o_clock o_next o_led sessions world chan_now clock next_tok]; auto.
    apply led_rel_filter. exact H6.
  - cbn [Z.eqb]. rewrite (R_var c o HR), (R_rows c o HR), Z.eqb_refl, rows_eqb_refl. cbn [andb].
    destruct HR. fin.
Qed.

(* ---- refusals ------------------------------------------------------------------------------ *)
Lemma unchanged_same : forall t, unchanged_mod_term o t (fst (world c)) (rows_of c) = true.
Proof.
  intro t. unfold unchanged_mod_term. rewrite (R_var c o HR), (R_rows c o HR), Z.eqb_refl, rows_eqb_refl.
  reflexivity.
Qed.

Lemma unchanged_term : forall t s, find_tok t (sessions c) = Some s -> timed_out (clock c) s = true ->
  unchanged_mod_term o t (fst (world c)) (rows_of (with_sessions c (upd t set_term (sessions c)))) = true.
Proof.
  intros t s F T. apply find_tok_some in F. destruct F as [Hin Ht]. subst t.
  unfold unchanged_mod_term. rewrite (R_var c o HR), Z.eqb_refl. cbn [andb].
  rewrite (o_timed_out_eq c o s HR Hin), T. cbn [andb].
  rewrite (R_rows c o HR). unfold rows_of, with_sessions. cbn [sessions world].
  rewrite (upd_row_rows (world c) (s_tok s) row_set_term set_term) by (apply row_set_term_row).
  rewrite rows_eqb_refl. apply orb_true_r.
Qed.

Lemma fresh_touch : forall t now led (n : Z),
  (forall t', n <= t' -> led_get t' led = None) ->
  forall t', n <= t' -> led_get t' (led_touch t now led) = None.
Proof.
  intros t now led n H t' Ht'. rewrite led_get_touch. destruct (Z.eqb_spec t' t) as [->|].
  - rewrite (H t Ht'). reflexivity.
  - apply H. exact Ht'.
Qed.

Lemma R_upd : forall t f led' (w' : world0),
  (forall s, s_tok (f s) = s_tok s) ->
  led_rel (upd t f (sessions c)) led' ->
  (forall t', next_tok c <= t' -> led_get t' led' = None) ->
  (forall t', next_tok c <= t' -> subs_of t' (snd w') = 0) ->
  let c' := mk_conn (upd t f (sessions c)) (chan_now c) (clock c) (next_tok c) w' in
  R c' (mk_ostate (rows_of c') (fst w') (chan_now c) (clock c) (next_tok c) led').
Proof.
  intros t f led' w' Hf Hl Hfr Hs c'. destruct HR as [H1 H2 H3 H4 H5 H6 H7 H8].
  constructor; cbn; auto.
Qed.

Lemma ostep_service_refused : forall tr sv arg k var rows,
  negb (all_tokens_positive rows) = false -> discovery sv = false ->
  o_authorised o (tok_val tr) = false -> (k = 1 \/ k = 2) ->
  unchanged_mod_term o (tok_val tr) var rows = true ->
  ostep o (Service tr sv arg) k var rows = Some (mk_ostate rows var (chan_now c) (clock c) (next_tok c) (o_led o)).
Proof.
  intros tr sv arg k var rows Hp Hd Ha Hk Hu. unfold ostep. rewrite Hp, Hd, Ha, Hu.
  rewrite (R_chan c o HR), (R_clock c o HR), (R_next c o HR).
  destruct (exempt sv); destruct Hk; subst k; reflexivity.
Qed.

Lemma ostep_activate_refused : forall tr cred var rows,
  negb (all_tokens_positive rows) = false ->
  unchanged_mod_term o (tok_val tr) var rows = true ->
  ostep o (Activate tr cred) 1 var rows = Some (mk_ostate rows var (chan_now c) (clock c) (next_tok c) (o_led o)).
Proof.
  intros tr cred var rows Hp Hu. unfold ostep. rewrite Hp, Hu.
  rewrite (R_chan c o HR), (R_clock c o HR), (R_next c o HR). reflexivity.
Qed.

Lemma R_same : R c (mk_ostate (rows_of c) (fst (world c)) (chan_now c) (clock c) (next_tok c) (o_led o)).
Proof. destruct HR. constructor; cbn; auto. Qed.

Lemma R_term : forall t,
  let c' := with_sessions c (upd t set_term (sessions c)) in
  R c' (mk_ostate (rows_of c') (fst (world c)) (chan_now c) (clock c) (next_tok c) (o_led o)).
Proof.
  intros t c'. apply (R_upd t set_term (o_led o) (world c)).
  - intros []; reflexivity.
  - apply led_rel_upd_same; [intros []; auto | apply (R_led c o HR)].
  - apply (R_fresh c o HR).
  - apply (R_subs c o HR).
Qed.

Lemma sim_activate : forall tr cred, Goal (Activate tr cred).
Proof.
  intros tr cred. unfold Goal.
  pose proof (wf_step _ eff0 c (Activate tr cred) Hwf) as Hwf'.
  revert Hwf'. cbn [step]. unfold activate_guard. set (t := tok_val tr).
  destruct (find_tok t (sessions c)) as [s|] eqn:F;
    [destruct (timed_out (clock c) s) eqn:T;
     [|destruct ((cred <? 2) && (s_act s || (s_chan s =? chan_now c))) eqn:G]|];
    intro Hwf'; cbn [fst snd world] in *.
  - (* timed out *)
    unfold with_sessions at 1. cbn [world].
    rewrite ostep_activate_refused; [| apply (pos_ok _ Hwf') | apply (unchanged_term t s F T)].
    eexists; split; [reflexivity|]. apply R_term.
  - (* activated *)
    unfold ostep. rewrite (pos_ok _ Hwf'). fold t. cbn [Z.eqb].
    rewrite (R_rows c o HR). unfold rows_of at 1. rewrite find_row_rows, F. cbn [option_map].
    apply andb_true_iff in G. destruct G as [G1 G2]. rewrite G1.
    unfold with_sessions. cbn [world]. rewrite (R_var c o HR), Z.eqb_refl. cbn [andb].
    unfold rows_of. cbn [sessions world]. rewrite (R_chan c o HR).
    rewrite (upd_row_rows (world c) t (row_set_act true (chan_now c)) (set_act true (chan_now c) (clock c)))
      by (intro; apply row_set_act_row).
    rewrite rows_eqb_refl. rewrite (R_clock c o HR), (R_next c o HR).
    eexists; split; [reflexivity|].
    apply (R_upd t (set_act true (chan_now c) (clock c)) (led_touch t (clock c) (o_led o)) (world c)).
    + intros []; reflexivity.
    + apply led_rel_upd_touch; [intros []; auto | apply (R_led c o HR)].
    + apply fresh_touch. apply (R_fresh c o HR).
    + apply (R_subs c o HR).
  - (* rejected: de-activated *)
    unfold ostep. rewrite (pos_ok _ Hwf'). fold t. cbn [Z.eqb].
    unfold with_sessions. cbn [world]. rewrite (R_var c o HR), Z.eqb_refl. cbn [andb].
    rewrite (R_rows c o HR). unfold rows_of. cbn [sessions world]. rewrite find_row_rows, F. cbn [option_map].
    rewrite r_chan_row.
    rewrite (upd_row_rows (world c) t (row_set_act false (s_chan s)) (set_act false (s_chan s) (clock c)))
      by (intro; apply row_set_act_row).
    rewrite rows_eqb_refl, orb_true_r. rewrite (R_chan c o HR), (R_clock c o HR), (R_next c o HR).
    eexists; split; [reflexivity|].
    apply (R_upd t (set_act false (s_chan s) (clock c)) (led_touch t (clock c) (o_led o)) (world c)).
    + intros []; reflexivity.
    + apply led_rel_upd_touch; [intros []; auto | apply (R_led c o HR)].
    + apply fresh_touch. apply (R_fresh c o HR).
    + apply (R_subs c o HR).
  - (* unknown token *)
    rewrite ostep_activate_refused; [| apply (pos_ok _ Hwf) | apply unchanged_same].
    eexists; split; [reflexivity|]. apply R_same.
Qed.

Lemma sim_service : forall tr sv arg, Goal (Service tr sv arg).
Proof.
  intros tr sv arg. unfold Goal.
  pose proof (wf_step _ eff0 c (Service tr sv arg) Hwf) as Hwf'.
  revert Hwf'. cbn [step]. set (t := tok_val tr).
  destruct (discovery sv) eqn:D.
  - (* discovery: no guard, no effect *)
    rewrite (discovery_unguarded sv D), (discovery_eff0 sv arg t (world c) D).
    unfold with_world. intro Hwf'. cbn [fst snd world] in *.
    unfold ostep. rewrite (pos_ok _ Hwf'), D.
    change (rows_of (mk_conn (sessions c) (chan_now c) (clock c) (next_tok c) (world c))) with (rows_of c).
    rewrite (R_rows c o HR), rows_eqb_refl. cbn [Z.eqb andb].
    destruct HR. fin.
  - rewrite (nondiscovery_full sv D). unfold guarded_call, full_guard.
    pose proof (o_authorised_eq c o t HR) as HA.
    destruct (find_tok t (sessions c)) as [s|] eqn:F.
    + destruct (s_act s) eqn:A; cbn [negb].
      * destruct (s_chan s =? chan_now c) eqn:C; cbn [negb].
        -- destruct (timed_out (clock c) s) eqn:T.
           ++ (* timed out *)
              intro Hwf'. cbn [fst snd world] in *. unfold with_sessions at 1. cbn [world].
              rewrite ostep_service_refused; auto; [| apply (pos_ok _ Hwf') | apply (unchanged_term t s F T)].
              eexists; split; [reflexivity|]. apply R_term.
           ++ (* carried out *)
              intro Hwf'. cbn [fst snd world] in *.
              unfold ostep. rewrite (pos_ok _ Hwf'), D. fold t. rewrite HA. cbn [andb negb Z.eqb].
              rewrite (R_rows c o HR). unfold rows_of. cbn [sessions world].
              rewrite rows_but_subs by (intros; apply eff0_subs_other; auto).
              rewrite (R_chan c o HR), (R_clock c o HR), (R_next c o HR).
              eexists; split; [reflexivity|].
              apply find_tok_some in F. destruct F as [Hin Ht].
              apply (R_upd t (set_last (clock c)) (led_touch t (clock c) (o_led o)) (eff0 sv arg t (world c))).
              ** intros []; reflexivity.
              ** apply led_rel_upd_touch; [intros []; auto | apply (R_led c o HR)].
              ** apply fresh_touch. apply (R_fresh c o HR).
              ** intros t' Ht'. pose proof (wf_range c Hwf s Hin).
                 rewrite eff0_subs_other by lia. apply (R_subs c o HR). exact Ht'.
        -- (* another channel *)
           intro Hwf'. cbn [fst snd world] in *.
           rewrite ostep_service_refused; auto; [| apply (pos_ok _ Hwf) | apply unchanged_same].
           eexists; split; [reflexivity|]. apply R_same.
      * (* not activated *)
        intro Hwf'. cbn [fst snd world] in *.
        rewrite ostep_service_refused; auto; [| apply (pos_ok _ Hwf) | apply unchanged_same].
        eexists; split; [reflexivity|]. apply R_same.
    + (* unknown token *)
      intro Hwf'. cbn [fst snd world] in *.
      rewrite ostep_service_refused; auto; [| apply (pos_ok _ Hwf) | apply unchanged_same].
      eexists; split; [reflexivity|]. apply R_same.
Qed.

Lemma sim_step : forall op0, Goal op0.
Proof.
  intros [timeout ok | tr cred | tr | tr sv arg | id | ms].
  - apply sim_create. - apply sim_activate. - apply sim_close.
  - apply sim_service. - apply sim_channel. - apply sim_elapse.
Qed.

End Sim.

Lemma oracle_from_run : forall h c o, wf c -> R c o -> oracle_from o h (run_from c h) = true.
Proof.
  induction h as [|op0 h IH]; intros c o Hwf HR; [reflexivity|].
  cbn [run_from oracle_from].
  destruct (sim_step c o Hwf HR op0) as [o' [Ho HR']].
  destruct (step eff0 c op0) as [c' k] eqn:S. cbn [fst snd] in *.
  rewrite dec_enc, Ho. apply IH; auto.
  pose proof (wf_step _ eff0 c op0 Hwf) as W. rewrite S in W. exact W.
Qed.

Lemma R_init : R (init (0, [])) oinit.
Proof. constructor; cbn; auto. intros s []. Qed.

Theorem oracle_holds : forall h : case, oracle h (run h) = true.
Proof. intro h. apply oracle_from_run; [apply wf_init | apply R_init]. Qed.

(* ---- examples: the hypotheses of the theorems are inhabited by non-trivial histories -------- *)
Definition ex_history : list op :=
  [Create 20000 true; Create 30000 true; Activate (Tok 1) 0; Service (Tok 1) Write 5;
   Channel 2; Elapse 13000].

Example ex_authorised_then_not :
  (* session 1 is activated on channel 1; after the channel change it is no longer authorised,
     session 2 never was; both tokens still resolve *)
  let c := exec eff0 ex_history (init (0, [])) in
  snd (step eff0 c (Service (Tok 1) Write 9)) = 1 /\
  snd (step eff0 c (Service (Tok 2) Write 9)) = 2 /\
  snd (step eff0 (exec eff0 [Channel 1] c) (Service (Tok 1) Write 9)) = 0 /\
  snd (step eff0 (exec eff0 [Channel 1; Elapse 13000] c) (Service (Tok 1) Write 9)) = 1 /\
  fst (world (fst (step eff0 (exec eff0 [Channel 1] c) (Service (Tok 1) Write 9)))) = 9.
Proof. vm_compute. repeat split. Qed.

Example ex_close_succeeds :
  snd (step eff0 (exec eff0 ex_history (init (0, []))) (Close (Tok 1))) = 0.
Proof. vm_compute. reflexivity. Qed.

Example ex_required : exempt Write = false /\ exempt Publish = false /\ exempt Cancel = true /\ exempt GetEndpoints = true.
Proof. vm_compute. repeat split. Qed.
