(* C23 — Revised subscription and monitored item parameters respect the limits.  Statements only. *)
From Coq Require Import List ZArith Bool.
From Flocq Require Import IEEE754.Binary IEEE754.Bits.
Import ListNotations.
From OV Require Import C23.Model C23.Proofs.
Open Scope Z_scope.

(* f64 = every IEEE binary64 value: NaN (any payload), +-infinity, +-0, subnormals.
   fle a b is Rust's `a <= b` (false when unordered). *)

(* 1. For every requested publishing interval the revised one is at least the minimum (and is a
      number), whenever the configured minimum is not NaN. *)
Theorem C23_publishing_interval : forall (mn r : f64), fnan mn = false ->
  fle mn (fmax r mn) = true /\ fnan (fmax r mn) = false.
Proof. intros mn r H. split; [apply pub_bound | apply pub_not_nan]; exact H. Qed.
Print Assumptions C23_publishing_interval.

(* 2. keep-alive count between 1 and the maximum, for every u32 request *)
Theorem C23_keep_alive : forall l rka, 1 <= l_def_ka l <= l_max_ka l -> 0 <= rka ->
  1 <= revise_keep_alive l rka <= l_max_ka l.
Proof. exact ka_bound. Qed.
Print Assumptions C23_keep_alive.

(* 3. lifetime count at least three times the keep-alive count, and `keep_alive * 3` does not
      overflow u32 *)
Theorem C23_lifetime : forall l ka rlt,
  1 <= ka <= l_max_ka l -> 3 * l_max_ka l <= l_max_lt l <= U32MAX ->
  exists t, revise_lifetime l ka rlt = Done t /\ 3 * ka <= t.
Proof. exact lt_bound. Qed.
Print Assumptions C23_lifetime.

(* 4. sampling interval: -1 or at least the minimum, and never NaN, for every f64 request *)
Theorem C23_sampling_interval : forall l (r : f64), fnan (l_min_samp l) = false ->
  (sanitize_sampling_interval l r = fm1 \/ fle (l_min_samp l) (sanitize_sampling_interval l r) = true)
  /\ fnan (sanitize_sampling_interval l r) = false.
Proof. intros l r H. split; [apply samp_bound | apply samp_not_nan]; exact H. Qed.
Print Assumptions C23_sampling_interval.

(* 5. queue size between 1 and the server maximum *)
Theorem C23_queue_size : forall l r, 1 <= l_max_q l -> 0 <= r ->
  1 <= sanitize_queue_size l r <= l_max_q l.
Proof. exact q_bound. Qed.
Print Assumptions C23_queue_size.

Theorem C23_queue_size_floor : forall l r, 0 <= r -> 1 <= sanitize_queue_size l r.
Proof. exact q_floor. Qed.
Print Assumptions C23_queue_size_floor.

(* all five on the observable output, for every valid configuration and request *)
Theorem C23_oracle : forall c, valid c -> known c = 0 -> oracle c (run c) = true.
Proof. exact oracle_holds. Qed.
Print Assumptions C23_oracle.

Theorem C23_no_panic : forall c, valid c ->
  exists p k t, revise_subscription_values (lim c) (of_bits (c_pub c)) (c_ka c) (c_lt c) = Done (p, k, t).
Proof. exact no_panic. Qed.
Print Assumptions C23_no_panic.

(* before "fix: NaN sampling interval was returned unrevised" a NaN request came back as NaN *)
Theorem C23_legacy_refuted : exists c, valid c /\ oracle c (legacy_run c) = false.
Proof. exact legacy_refuted. Qed.
Print Assumptions C23_legacy_refuted.
