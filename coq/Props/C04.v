(* C04 — Textual identifiers parse back to the value they were printed from.  Statements only.

   Strings are lists of Unicode scalar values.  [print_*] model Display / as_string / to_rfc3339,
   [*_from_str] model FromStr (the regexes as direct recognisers, see the pins at the end);
   results are [Ok v | Err | Panic].  UAString / ByteString are [option]: None is the null value. *)
From Coq Require Import String List ZArith Bool.
From OV Require Import C04.Text C04.Date C04.Model C04.TextProofs C04.Calendar C04.DateProofs
  C04.Proofs C04.Main Gen.C04Patterns.
Import ListNotations.
Open Scope Z_scope.

(* ---- NodeId: every namespace index, every numeric / non-empty string / guid / non-empty
        byte-string identifier (strings over ALL code points, newline and ';' included) ---------- *)
Theorem C04_node_roundtrip : forall ns id,
  0 <= ns <= 65535 -> ident_validb id = true ->
  node_from_str (print_node (mk_node ns id)) = Ok (mk_node ns id).
Proof. exact node_roundtrip. Qed.
Print Assumptions C04_node_roundtrip.
Example C04_node_roundtrip_ex :
  0 <= 65535 <= 65535 /\ ident_validb (IStr (Some [110; 115; 61; 49; 59; 10; 8364])) = true.
Proof. split; [split; discriminate | reflexivity]. Qed.

Theorem C04_ident_roundtrip : forall id,
  ident_validb id = true -> ident_from_str (print_ident id) = Ok id.
Proof. exact ident_roundtrip. Qed.
Print Assumptions C04_ident_roundtrip.

(* ---- ExpandedNodeId: {no URI, URI} x {server index 0, <> 0}; a URI is non-empty and implies
        namespace index 0 (Display does not print the index next to a URI) ------------------------- *)
Theorem C04_enode_roundtrip : forall svr uri ns id,
  0 <= svr <= 4294967295 -> 0 <= ns <= 65535 -> ident_validb id = true ->
  match uri with None => True | Some [] => False | Some _ => ns = 0 end ->
  enode_from_str (print_enode (mk_enode svr uri (mk_node ns id))) = Ok (mk_enode svr uri (mk_node ns id)).
Proof. exact enode_roundtrip. Qed.
Print Assumptions C04_enode_roundtrip.
Example C04_enode_roundtrip_ex :
  enode_from_str (print_enode (mk_enode 0 None (mk_node 0 (INum 5)))) = Ok (mk_enode 0 None (mk_node 0 (INum 5)))
  /\ enode_from_str (print_enode (mk_enode 7 (Some [37; 59; 37; 51; 98]) (mk_node 0 (INum 5))))
     = Ok (mk_enode 7 (Some [37; 59; 37; 51; 98]) (mk_node 0 (INum 5))).
Proof. split; vm_compute; reflexivity. Qed.

(* the %25 / %3b escaping of the namespace URI is inverted by the two sequential replace passes *)
Theorem C04_uri_escape_roundtrip : forall u, uri_unescape (uri_escape u) = u.
Proof. exact uri_escape_roundtrip. Qed.
Print Assumptions C04_uri_escape_roundtrip.

(* ---- Guid, base64 ------------------------------------------------------------------------------------ *)
Theorem C04_guid_roundtrip : forall b,
  length b = 16%nat -> forallb byteb b = true -> parse_guid (print_guid b) = Some b.
Proof. exact guid_roundtrip. Qed.
Print Assumptions C04_guid_roundtrip.

Theorem C04_base64_roundtrip : forall bs,
  forallb byteb bs = true -> b64_decode (b64_encode bs) = Some bs.
Proof. exact b64_roundtrip. Qed.
Print Assumptions C04_base64_roundtrip.

(* ---- NumericRange: None, Index, Range with min < max, 2..10 parts ------------------------------------- *)
Theorem C04_nrange_roundtrip : forall r,
  match r with
  | NRNone => True
  | NROne x => nr1_wf x = true
  | NRMulti l => forallb nr1_wf l = true /\ (2 <= length l <= 10)%nat
  end ->
  nrange_from_str (print_nrange r) = Some r.
Proof. exact nrange_roundtrip. Qed.
Print Assumptions C04_nrange_roundtrip.
Example C04_nrange_roundtrip_ex :
  forallb nr1_wf [Idx 4294967295; Rng 0 4294967295] = true /\ (2 <= length [Idx 4294967295; Rng 0 4294967295] <= 10)%nat.
Proof. split; [reflexivity | cbn; split; repeat constructor]. Qed.

(* ---- DateTime ------------------------------------------------------------------------------------------ *)
(* the calendar arithmetic used to print a date is exact: for EVERY day number the civil date it
   yields is a valid date that maps back to the day number *)
Theorem C04_calendar : forall z,
  let '(y, m, d) := civil_from_days z in
  days_from_civil y m d = z /\ 1 <= m <= 12 /\ 1 <= d <= days_in_month y m.
Proof. exact civil_roundtrip. Qed.
Print Assumptions C04_calendar.

(* Display -> from_str gives back every in-range DateTime to the tick; to_rfc3339 -> parse_from_rfc3339
   gives it back truncated to the printed millisecond.  The parser here is the model's parser of the
   two printed formats ([parse_strict]); that chrono's parser agrees with it on the printed strings is
   the correspondence run's part (chrono is an oracle, see props/C04.json). *)
Theorem C04_date_display_roundtrip : forall t, 0 <= t <= END_TICKS ->
  dt_from_str_strict (dt_display (dt_from_ticks t)) = Some (dt_from_ticks t).
Proof. exact date_display_roundtrip. Qed.
Print Assumptions C04_date_display_roundtrip.

Theorem C04_date_rfc3339_roundtrip : forall t, 0 <= t <= END_TICKS ->
  dt_parse_rfc3339_strict (dt_to_rfc3339 (dt_from_ticks t))
  = Some (fst (dt_from_ticks t), snd (dt_from_ticks t) / 1000000 * 1000000).
Proof. exact date_rfc3339_roundtrip. Qed.
Print Assumptions C04_date_rfc3339_roundtrip.
Example C04_date_ex : 0 <= 125911584001234567 <= END_TICKS.
Proof. split; discriminate. Qed.

(* ---- no parser panics, on any string ------------------------------------------------------------------- *)
(* Guid, NumericRange and base64 parsers are [option]-valued functions: total by construction *)
Theorem C04_parsers_total : forall s,
  node_from_str s <> Panic /\ enode_from_str s <> Panic /\ ident_from_str s <> Panic.
Proof.
  intro s. split; [apply node_from_str_total | split; [apply enode_from_str_total | apply ident_from_str_total]].
Qed.
Print Assumptions C04_parsers_total.

(* ---- the oracle of the correspondence run ---------------------------------------------------------------- *)
Theorem C04_oracle : forall c, valid c -> known c = 0 -> oracle c (run c) = true.
Proof. exact oracle_holds. Qed.
Print Assumptions C04_oracle.
Example C04_oracle_ex :
  valid (CExp 7 (Some [117; 59]) 0 (IBytes (Some [251; 255]))) /\ known (CExp 7 (Some [117; 59]) 0 (IBytes (Some [251; 255]))) = 0.
Proof. split; reflexivity. Qed.

(* known class 1 (NumericRange::is_valid accepts MultipleRanges with < 2 or > 10 parts) *)
Theorem C04_known_1_refuted : exists c, valid c /\ known c = 1 /\ oracle c (run c) = false.
Proof. exact known_1_refuted. Qed.
Print Assumptions C04_known_1_refuted.

(* ---- the code before the three fixes is refuted ------------------------------------------------------------ *)
Theorem C04_legacy_refuted :
  Legacy.enode_from_str (print_enode (mk_enode 0 None (mk_node 0 (INum 5)))) = Err
  /\ Legacy.node_from_str (print_node (mk_node 2 (IStr (Some [97; 10; 98])))) = Err
  /\ Legacy.ident_from_str [97; 233] = Panic.
Proof. split; [exact legacy_enode_refuted | split; [exact legacy_node_refuted | exact legacy_ident_refuted]]. Qed.
Print Assumptions C04_legacy_refuted.

(* ---- pins: the source literals the recognisers were written for (Gen/C04Patterns.v is regenerated
        from the repository by tools/translate/c04_patterns.py on every check) ---------------------------------- *)
Example C04_pin_node_regex :
  node_id_regex = "(?s)^(ns=(?P<ns>[0-9]+);)?(?P<t>[isgb]=.+)$"%string.
Proof. reflexivity. Qed.
Example C04_pin_enode_regex :
  expanded_node_id_regex
  = "(?s)^svr=(?P<svr>[0-9]+);((ns=(?P<ns>[0-9]+)|nsu=(?P<nsu>[^;]+));)?(?P<t>[isgb]=.+)$"%string.
Proof. reflexivity. Qed.
Example C04_pin_range_regex :
  numeric_range_regex = "^(?P<min>[0-9]{1,10})(:(?P<max>[0-9]{1,10}))?$"%string.
Proof. reflexivity. Qed.
Example C04_pin_base64 : base64_engines = "STANDARD"%string.
Proof. reflexivity. Qed.
Example C04_pin_uri_replacements : uri_replacements = "%>%25 ;>%3b %3b>; %25>%"%string.
Proof. reflexivity. Qed.
Example C04_pin_constants :
  max_indices = Z.of_nat MAX_INDICES /\ nanos_per_tick = 100 /\ min_year = 1601 /\ max_year = 9999.
Proof. repeat split. Qed.
