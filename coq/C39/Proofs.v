(* C39 — proofs (first stage). *)
From Coq Require Import List ZArith Bool Lia.
From OV Require Import C39.Values C39.Like C39.Model.
Import ListNotations.
Open Scope Z_scope.

Lemma empty_clause_true : forall f, run (CFilter f None) = [1; 1].
Proof. reflexivity. Qed.
