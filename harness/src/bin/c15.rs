//! C15: no service is processed before the handshake or after channel close.
//! Frame sequences (HEL / OPN / MSG / CLO / ACK, SecurityPolicy None) are encoded by a client-side
//! `Chunker`, pushed through a real `TcpCodec` into a socket-less server `TcpTransport`
//! (hooks `verif_process_hello` / `verif_process_chunk`), and the messages the transport queues
//! for its writer are observed after every frame.
#[path = "../util.rs"]
mod util;
use util::*;
#[path = "../frame_common.rs"]
mod frame_common;
use frame_common::*;
use opcua::core::supported_message::SupportedMessage;
use opcua::server::comms::tcp_transport::VerifOutgoing;
use opcua::server::comms::transport::Transport;
use opcua::types::*;

#[derive(Clone, Debug)]
pub enum F {
    Hel { pv: u32, bufs_ok: bool, url_ok: bool },
    Opn { renew: bool, pv: u32 },
    Msg { kind: u8, cid_ok: bool },
    Clo { cid_ok: bool },
    Ack,
}
pub struct Case { frames: Vec<F>, live: bool }
pub struct P;

thread_local! { static RIG: Rig = Rig::new("c15"); }

fn status_class(e: StatusCode) -> i128 {
    if e == StatusCode::BadCommunicationError { 12 }
    else if e == StatusCode::BadSecureChannelIdInvalid { 13 }
    else if e == StatusCode::BadConnectionClosed { 14 }
    else if e == StatusCode::BadUnexpectedError { 15 }
    else if e == StatusCode::BadTcpEndpointUrlInvalid { 16 }
    else if e == StatusCode::BadProtocolVersionUnsupported { 17 }
    else { 19 }
}
fn term(f: &F) -> String {
    match f {
        F::Hel { pv, bufs_ok, url_ok } => format!("(FHel {} {} {})", pv, coq_bool(*bufs_ok), coq_bool(*url_ok)),
        F::Opn { renew, pv } => format!("(FOpn {} {})", coq_bool(*renew), pv),
        F::Msg { kind, cid_ok } => format!("(FMsg {} {})", kind, coq_bool(*cid_ok)),
        F::Clo { cid_ok } => format!("(FClo {})", coq_bool(*cid_ok)),
        F::Ack => "FAck".to_string(),
    }
}
fn letter(f: &F) -> char { match f { F::Hel { .. } => 'H', F::Opn { renew: false, .. } => 'O', F::Opn { .. } => 'R', F::Msg { .. } => 'M', F::Clo { .. } => 'C', F::Ack => 'A' } }

fn frame_bytes(cl: &mut Client, f: &F) -> Vec<u8> {
    let real_cid = cl.sc.secure_channel_id();
    match f {
        F::Hel { pv, bufs_ok, url_ok } => Client::hello(if *url_ok { URL } else { "http://127.0.0.1/" }, *pv, if *bufs_ok { 65536 } else { 8195 }, 65536),
        F::Opn { renew, pv } => cl.open(*renew, *pv).1,
        F::Msg { kind, cid_ok } => {
            if !*cid_ok { cl.sc.set_secure_channel_id(real_cid + 5); }
            let b = if *kind == 2 {
                use opcua::types::*;
                cl.stale(GetEndpointsRequest { request_header: RequestHeader::dummy(), endpoint_url: UAString::from(URL), locale_ids: None, profile_uris: None }.into())
            } else if *kind == 0 { cl.get_endpoints().1 } else { cl.read(1).1 };
            cl.sc.set_secure_channel_id(real_cid);
            b
        }
        F::Clo { cid_ok } => {
            if !*cid_ok { cl.sc.set_secure_channel_id(real_cid + 5); }
            let b = cl.close().1;
            cl.sc.set_secure_channel_id(real_cid);
            b
        }
        F::Ack => { let mut v = b"ACKF".to_vec(); v.extend(28u32.to_le_bytes()); v.extend([0u8; 20]); v }
    }
}

/// The same frames against the REAL connection tasks over a loopback socket (`LiveConn`).
/// `expected` is the hook-based result: per frame [status, n, kinds...].  After each frame the
/// client reads the expected number of response frames (decoding them with the crate's own
/// Chunker) and, after a frame that must close the connection, expects the server to close the
/// socket without sending anything.  Returns false on any deviation.
fn live(frames: &[F], expected: &[i128]) -> bool {
    let Some(mut lc) = RIG.with(|rig| LiveConn::connect(rig, 0, 0)) else { return true };
    let mut cl = Client::new();
    let mut e = 0usize;
    let mut ok = true;
    for f in frames {
        if expected[e] == -1 { break; } // the hook run stopped here (connection closed)
        let (status, n) = (expected[e], expected[e + 1] as usize);
        let kinds = &expected[e + 2..e + 2 + n];
        e += 2 + n;
        let bytes = frame_bytes(&mut cl, f);
        if !lc.send(&bytes) { ok = false; break; }
        for k in kinds {
            let Some(fr) = lc.read_frame() else { ok = false; break; };
            if LiveConn::response_kind(&mut cl, fr) != *k { ok = false; }
        }
        if !ok { break; }
        if status != 0 { ok = lc.expect_close(); break; }
    }
    if ok && expected[expected.len() - 1] == 0 {
        // never closed by the server: we close, and nothing more may arrive
        ok = lc.close_and_expect_close();
    }
    lc.finish();
    ok
}

fn run(frames: &[F]) -> Vec<i128> {
    RIG.with(|rig| {
        let mut conn = Conn::new(rig.transport(0, 0));
        let mut cl = Client::new();
        let mut out = Vec::new();
        for f in frames {
            let bytes = frame_bytes(&mut cl, f);
            if std::env::var("C15_DEBUG").is_ok() { eprintln!("frame {:?} server last_received {} client seq {}", term(f), conn.t.verif_last_received_sequence_number(), cl.seq); }
            match guarded(|| conn.feed(&bytes)) {
                Err(_) => { out.push(-2); break; }
                Ok(Step::NeedMore) => { out.push(-3); break; }
                Ok(Step::Done(r, msgs)) => {
                    out.push(match r { Ok(()) => 0, Err(e) => status_class(e) });
                    out.push(msgs.len() as i128);
                    for m in &msgs {
                        match m {
                            VerifOutgoing::Quit => out.push(8),
                            VerifOutgoing::Message(_, sm) => {
                                out.push(response_kind(sm));
                                // the client follows the channel / token the server assigned
                                if let SupportedMessage::OpenSecureChannelResponse(r) = sm {
                                    cl.sc.set_secure_channel_id(r.security_token.channel_id);
                                    cl.sc.set_token_id(r.security_token.token_id);
                                }
                            }
                        }
                    }
                    if r.is_err() { break; }
                }
            }
        }
        out.push(-1);
        out.push(if conn.t.is_finished() { 1 } else { 0 });
        // drop the sessions this connection may have created (shared session manager)
        conn.t.finish(StatusCode::Good);
        out
    })
}

const H: F = F::Hel { pv: 0, bufs_ok: true, url_ok: true };
const O: F = F::Opn { renew: false, pv: 0 };
const R: F = F::Opn { renew: true, pv: 0 };
const M: F = F::Msg { kind: 0, cid_ok: true };
const M1: F = F::Msg { kind: 1, cid_ok: true };
const C: F = F::Clo { cid_ok: true };

impl Property for P {
    type Case = Case;
    fn fixed(tier: &str) -> Vec<Case> {
        let mut v: Vec<Vec<F>> = vec![
            vec![H, O, M, M1, C],
            // a service request straight after HEL/ACK: answered before the fix
            vec![H, M],
            vec![H, M1, O, M],
            vec![H, C],
            // nothing but a Hello is answered first
            vec![M], vec![O], vec![C], vec![F::Ack], vec![],
            vec![H, H], vec![H, F::Ack], vec![H, O, H],
            // after CLO nothing more
            vec![H, O, C, M], vec![H, O, C, O, M],
            // renew without issue, protocol version mismatch leaves the channel unissued
            vec![H, R, M], vec![H, F::Opn { renew: false, pv: 1 }, M], vec![H, F::Opn { renew: false, pv: 1 }, O, M],
            // an OpenSecureChannel request with security mode Invalid is answered with a fault and issues nothing
            vec![H, F::Opn { renew: false, pv: 1000 }, M], vec![H, F::Opn { renew: false, pv: 1000 }, C], vec![H, F::Opn { renew: false, pv: 1000 }, R, M],
            vec![H, F::Opn { renew: false, pv: 1000 }, O, M, M], vec![H, O, F::Opn { renew: true, pv: 1000 }, M], vec![H, O, F::Opn { renew: false, pv: 1000 }, M, C],
            vec![H, F::Opn { renew: true, pv: 1000 }, M], vec![H, F::Opn { renew: false, pv: 1001 }, M],
            // a replayed sequence number is refused: straight away, after a renewal, after a second issue, before any chunk
            vec![H, O, M, F::Msg { kind: 2, cid_ok: true }], vec![H, O, M, R, F::Msg { kind: 2, cid_ok: true }], vec![H, O, M, M, R, R, F::Msg { kind: 2, cid_ok: true }, M],
            vec![H, O, M, O, F::Msg { kind: 2, cid_ok: true }], vec![H, F::Msg { kind: 2, cid_ok: true }], vec![H, O, F::Msg { kind: 2, cid_ok: true }],
            vec![H, O, R, F::Msg { kind: 2, cid_ok: false }],
            vec![H, O, R, M, O, M, C],
            vec![H, O, F::Msg { kind: 0, cid_ok: false }, M],
            vec![H, O, F::Clo { cid_ok: false }, M],
            vec![F::Hel { pv: 1, bufs_ok: true, url_ok: true }, O], vec![F::Hel { pv: 0, bufs_ok: false, url_ok: true }, O],
            vec![F::Hel { pv: 0, bufs_ok: true, url_ok: false }, O, M],
        ];
        // all sequences over {H, O, R, M, C, A} up to length 4 (quick) / 5 (thorough)
        let alpha = [H, O, R, M, C, F::Ack];
        let maxlen = if tier == "thorough" { 5 } else { 4 };
        let mut level: Vec<Vec<F>> = vec![vec![]];
        for _ in 0..maxlen {
            let mut next = Vec::new();
            for s in &level { for a in &alpha { let mut t = s.clone(); t.push(a.clone()); next.push(t); } }
            v.extend(next.iter().cloned());
            level = next;
        }
        // the explicit list and every sequence up to length 3 are also run against the live connection tasks
        v.into_iter().enumerate().map(|(i, frames)| { let live = i < 24 || frames.len() <= 3; Case { frames, live } }).collect()
    }
    fn gen(r: &mut Rng) -> Case {
        let n = 1 + r.below(12) as usize;
        let mut frames = Vec::new();
        let orderly = r.chance(2, 3);
        for i in 0..n {
            let f = if orderly && i == 0 { F::Hel { pv: if r.chance(1, 10) { 1 } else { 0 }, bufs_ok: !r.chance(1, 12), url_ok: !r.chance(1, 12) } }
                else if orderly && i == 1 && r.chance(3, 4) { F::Opn { renew: r.chance(1, 8), pv: if r.chance(1, 8) { 1 } else if r.chance(1, 6) { 1000 } else { 0 } } }
                else { match r.below(12) {
                    0 => F::Hel { pv: r.below(2) as u32, bufs_ok: r.chance(5, 6), url_ok: r.chance(5, 6) },
                    1 | 2 => F::Opn { renew: r.chance(1, 2), pv: if r.chance(1, 6) { 1 } else if r.chance(1, 5) { 1000 + r.below(2) as u32 } else { 0 } },
                    3 => F::Clo { cid_ok: r.chance(4, 5) },
                    4 => F::Ack,
                    _ => F::Msg { kind: if r.chance(1, 7) { 2 } else { r.below(2) as u8 }, cid_ok: r.chance(9, 10) },
                } };
            frames.push(f);
        }
        let live = r.chance(1, 10);
        Case { frames, live }
    }
    fn exec(c: &Case) -> Out {
        let mut out = run(&c.frames);
        // cross-check against the real socket tasks; a deviation breaks the output format
        if c.live && !live(&c.frames, &out) { out.push(-98); }
        let shape: String = c.frames.iter().take(4).map(letter).collect();
        let tag = if c.frames.is_empty() { "trivial-empty".to_string() } else { format!("{}{}-len{}", shape, if c.frames.len() > 4 { "+" } else { "" }, std::cmp::min(c.frames.len(), 9)) };
        Out { tag, term: coq_list(&c.frames, term), out }
    }
}
fn main() { run_main::<P>() }
