(* C22 — what [check_alive] means: the explicit "for all ... exists" reading of the checker. *)
From Coq Require Import List ZArith Bool Lia.
From OV Require Import C22.Model.
Import ListNotations.
Open Scope Z_scope.

Lemma count_true_nonneg : forall l, 0 <= count_true l.
Proof. induction l as [|b l IH]; cbn [count_true]; [lia|]. destruct b; lia. Qed.

(* never closed *)
Lemma check_alive_never_closed : forall k fl t cnt seen, check_alive k cnt seen fl t = true ->
  forall o, In o t -> (exists s, snap_state o = Some s /\ s <> 0) /\ timeout_of o = false.
Proof.
  intros k fl. induction fl as [|f fl IH]; intros t cnt seen H o Hin; destruct t as [|o1 t];
    cbn [check_alive] in H; try discriminate; [destruct Hin|].
  unfold timeout_of in *.
  destruct (snap_state o1) as [s|] eqn:Hs; [|discriminate].
  apply andb_true_iff in H. destruct H as [H H3]. apply andb_true_iff in H. destruct H as [H1 H2].
  destruct Hin as [<- | Hin].
  - apply negb_true_iff in H1, H2. apply Z.eqb_neq in H1. split; [eauto | assumption].
  - destruct (mem 1 (o_pre o1)).
    + eapply IH; eassumption.
    + destruct f.
      * apply andb_true_iff in H3. destruct H3 as [_ H3]. eapply IH; eassumption.
      * eapply IH; eassumption.
Qed.

(* the counter stays within 0..k and any k+1 elapsed intervals from here contain a keep-alive *)
Lemma check_alive_window_prefix : forall k fl t cnt seen, check_alive k cnt seen fl t = true ->
  0 <= cnt <= k -> forall m, k < count_true (firstn m fl) + cnt ->
  exists p, (p < m)%nat /\ nth p (map ka_of t) false = true.
Proof.
  intros k fl. induction fl as [|f fl IH]; intros t cnt seen H Hc m Hm; destruct t as [|o t];
    cbn [check_alive] in H; try discriminate.
  - rewrite firstn_nil in Hm. cbn in Hm. lia.
  - destruct m as [|m]; [cbn in Hm; lia|]. cbn [firstn count_true] in Hm.
    destruct (snap_state o) as [s|]; [|discriminate].
    apply andb_true_iff in H. destruct H as [_ H].
    destruct (mem 1 (o_pre o)) eqn:Hka.
    + exists 0%nat. split; [lia|]. cbn [map nth]. exact Hka.
    + destruct f.
      * apply andb_true_iff in H. destruct H as [H H3]. apply andb_true_iff in H. destruct H as [_ H2].
        apply Z.leb_le in H2.
        destruct (IH t (cnt + 1) seen H3 ltac:(lia) m ltac:(lia)) as (p & Hp & Hn).
        exists (S p). split; [lia|]. cbn [map nth]. exact Hn.
      * destruct (IH t cnt seen H Hc m ltac:(lia)) as (p & Hp & Hn).
        exists (S p). split; [lia|]. cbn [map nth]. exact Hn.
Qed.

Lemma check_alive_suffix : forall k i fl t cnt seen, check_alive k cnt seen fl t = true -> 0 <= cnt <= k ->
  exists cnt' seen', check_alive k cnt' seen' (skipn i fl) (skipn i t) = true /\ 0 <= cnt' <= k.
Proof.
  intros k. induction i as [|i IH]; intros fl t cnt seen H Hc.
  - exists cnt, seen. split; assumption.
  - destruct fl as [|f fl]; destruct t as [|o t]; cbn [check_alive] in H; try discriminate.
    + exists cnt, seen. split; [reflexivity | assumption].
    + cbn [skipn]. destruct (snap_state o) as [s|]; [|discriminate].
      apply andb_true_iff in H. destruct H as [_ H].
      destruct (mem 1 (o_pre o)).
      * apply (IH fl t 0 true H). lia.
      * destruct f.
        -- apply andb_true_iff in H. destruct H as [H H3]. apply andb_true_iff in H. destruct H as [_ H2].
           apply Z.leb_le in H2. apply (IH fl t (cnt + 1) seen H3). lia.
        -- apply (IH fl t cnt seen H Hc).
Qed.

(* any k+1 elapsed publishing intervals, anywhere in the history, contain a keep-alive *)
Theorem check_alive_window : forall k fl t, 0 <= k -> check_alive k 0 false fl t = true ->
  forall i m, k < count_true (firstn m (skipn i fl)) ->
  exists p, (i <= p < i + m)%nat /\ nth p (map ka_of t) false = true.
Proof.
  intros k fl t Hk H i m Hm.
  destruct (check_alive_suffix k i fl t 0 false H ltac:(lia)) as (cnt' & seen' & H' & Hc').
  destruct (check_alive_window_prefix k _ _ cnt' seen' H' Hc' m ltac:(lia)) as (p & Hp & Hn).
  exists (i + p)%nat. split; [lia|].
  rewrite <- (firstn_skipn i (map ka_of t)).
  rewrite app_nth2; rewrite firstn_length.
  - rewrite <- skipn_map in Hn.
    assert (Hlen : (i <= length (map ka_of t))%nat).
    { destruct (Nat.le_gt_cases i (length (map ka_of t))) as [?|Hgt]; [assumption|].
      rewrite skipn_all2 in Hn by lia. destruct p; discriminate Hn. }
    replace (i + p - Nat.min i (length (map ka_of t)))%nat with p by lia. exact Hn.
  - lia.
Qed.

(* a keep-alive is sent no later than at the first elapsed publishing interval *)
Lemma check_alive_first : forall k fl t cnt, check_alive k cnt false fl t = true ->
  forall i, nth i fl false = true ->
  exists p, (p <= i)%nat /\ nth p (map ka_of t) false = true.
Proof.
  intros k fl. induction fl as [|f fl IH]; intros t cnt H i Hi; destruct t as [|o t];
    cbn [check_alive] in H; try discriminate.
  - destruct i; discriminate Hi.
  - destruct (snap_state o) as [s|]; [|discriminate].
    apply andb_true_iff in H. destruct H as [_ H].
    destruct (mem 1 (o_pre o)) eqn:Hka.
    + exists 0%nat. split; [lia | exact Hka].
    + destruct f.
      * cbn [andb] in H. discriminate H.
      * destruct i as [|i]; [discriminate Hi|]. cbn [nth] in Hi.
        destruct (IH t cnt H i Hi) as (p & Hp & Hn).
        exists (S p). split; [lia | exact Hn].
Qed.
