//! C18: certificate trust verdicts.  Real `CertificateStore::validate_or_reject_application_instance_cert`
//! on real temporary PKI directories with real certificates (RSA 1024/2048/4096, valid / expired /
//! not yet valid, with a URI and a DNS subject alternative name).
#[path = "../util.rs"]
mod util;
use util::*;
use opcua::crypto::{CertificateStore, SecurityPolicy, X509};
use opcua::types::StatusCode;
use std::path::PathBuf;
use std::sync::OnceLock;

#[derive(Clone, Debug)]
pub struct Case { rej_dir: bool, tru_dir: bool, in_rej: bool, tru: u8, trust_unknown: bool, skip: bool, check_time: bool,
                  pol: usize, bits: u32, tm: u8, host: u8, uri: u8,
                  /// harness only: take the certificate whose validity period has its decisive end close to the wall
                  /// clock (just valid / expired two seconds ago / valid in two hours) rather than days away
                  near: bool,
                  /// harness only: what the "different file under the certificate's name" in trusted/ is -- another
                  /// certificate, an empty file, the certificate cut in half, cut by one byte, or with one byte changed
                  dk: u8 }
#[derive(Clone, Debug)]
pub enum Step { Val(Case), Time { nb: i64, na: i64, now_ms: i64 } }
pub struct Hist(Vec<Step>);
pub struct P;

const POLS: [(SecurityPolicy, &str); 5] = [(SecurityPolicy::Basic128Rsa15, "Basic128Rsa15"), (SecurityPolicy::Basic256, "Basic256"),
    (SecurityPolicy::Basic256Sha256, "Basic256Sha256"), (SecurityPolicy::Aes128Sha256RsaOaep, "Aes128Sha256RsaOaep"),
    (SecurityPolicy::Aes256Sha256RsaPss, "Aes256Sha256RsaPss")];
const BITS: [u32; 3] = [1024, 2048, 4096];

/// certs[bits index][2 * time index + near] = (cert, a different cert with the same subject)
fn certs() -> &'static Vec<Vec<(X509, X509)>> {
    static C: OnceLock<Vec<Vec<(X509, X509)>>> = OnceLock::new();
    C.get_or_init(|| {
        use openssl::{asn1::Asn1Time, bn::BigNum, hash::MessageDigest, pkey::PKey, rsa::Rsa, x509::{extension::SubjectAlternativeName, X509Builder, X509NameBuilder}};
        let now = std::time::SystemTime::now().duration_since(std::time::UNIX_EPOCH).unwrap().as_secs() as i64;
        let day = 86400i64;
        let mk = |pkey: &PKey<openssl::pkey::Private>, serial: u32, nb: i64, na: i64| -> X509 {
            let mut b = X509Builder::new().unwrap();
            b.set_version(2).unwrap();
            let mut n = X509NameBuilder::new().unwrap();
            n.append_entry_by_text("CN", "verif").unwrap();
            n.append_entry_by_text("O", "verif").unwrap();
            let n = n.build();
            b.set_subject_name(&n).unwrap();
            b.set_issuer_name(&n).unwrap();
            b.set_serial_number(&BigNum::from_u32(serial).unwrap().to_asn1_integer().unwrap()).unwrap();
            b.set_not_before(&Asn1Time::from_unix(nb).unwrap()).unwrap();
            b.set_not_after(&Asn1Time::from_unix(na).unwrap()).unwrap();
            b.set_pubkey(pkey).unwrap();
            let san = SubjectAlternativeName::new().uri("urn:verif:app").dns("verifhost").build(&b.x509v3_context(None, None)).unwrap();
            b.append_extension(san).unwrap();
            b.sign(pkey, MessageDigest::sha256()).unwrap();
            X509::from(b.build())
        };
        BITS.iter().map(|bits| {
            let pkey = PKey::from_rsa(Rsa::generate(*bits).unwrap()).unwrap();
            // far from / near to the wall clock (a run lasts well under two hours)
            [(now - day, now + 365 * day), (now - 2, now + 6 * 3600),
             (now + day, now + 2 * day), (now + 2 * 3600, now + day),
             (now - 2 * day, now - day), (now - day, now - 2)].iter().enumerate()
                .map(|(i, (nb, na))| (mk(&pkey, 10 + i as u32, *nb, *na), mk(&pkey, 20 + i as u32, *nb, *na))).collect()
        }).collect()
    })
}

/// certificates for the direct validity-period questions: one per (notBefore, notAfter), RSA 1024
fn period_cert(nb: i64, na: i64) -> X509 {
    use openssl::{asn1::Asn1Time, bn::BigNum, hash::MessageDigest, pkey::PKey, rsa::Rsa, x509::{X509Builder, X509NameBuilder}};
    use std::sync::Mutex;
    static KEY: OnceLock<PKey<openssl::pkey::Private>> = OnceLock::new();
    static CACHE: OnceLock<Mutex<std::collections::HashMap<(i64, i64), X509>>> = OnceLock::new();
    let cache = CACHE.get_or_init(|| Mutex::new(Default::default()));
    if let Some(c) = cache.lock().unwrap().get(&(nb, na)) { return c.clone(); }
    let pkey = KEY.get_or_init(|| PKey::from_rsa(Rsa::generate(1024).unwrap()).unwrap());
    let mut b = X509Builder::new().unwrap();
    b.set_version(2).unwrap();
    let mut n = X509NameBuilder::new().unwrap();
    n.append_entry_by_text("CN", "period").unwrap();
    let n = n.build();
    b.set_subject_name(&n).unwrap(); b.set_issuer_name(&n).unwrap();
    b.set_serial_number(&BigNum::from_u32(7).unwrap().to_asn1_integer().unwrap()).unwrap();
    b.set_not_before(&Asn1Time::from_unix(nb).unwrap()).unwrap();
    b.set_not_after(&Asn1Time::from_unix(na).unwrap()).unwrap();
    b.set_pubkey(pkey).unwrap();
    b.sign(pkey, MessageDigest::sha256()).unwrap();
    let c = X509::from(b.build());
    cache.lock().unwrap().insert((nb, na), c.clone());
    c
}
/// instants around both ends of a period, in ms: the ends themselves, one ms / one s / minutes / just under and
/// over a day / weeks to either side
fn instants(nb: i64, na: i64) -> Vec<i64> {
    let mut v = Vec::new();
    for e in [nb * 1000, na * 1000] {
        for d in [0i64, 1, 999, 1000, 1001, 59_000, 3_600_000, 86_399_000, 86_399_999, 86_400_000, 86_400_001, 172_800_000, 14 * 86_400_000, 400 * 86_400_000] {
            v.push(e - d); v.push(e + d);
        }
    }
    v.push((nb + na) * 500);
    v
}
const PERIODS: [(i64, i64); 5] = [(1_600_000_000, 1_600_864_000), (1_700_000_000, 1_700_000_001), (1_500_000_000, 1_500_000_000),
                                  (946_684_800, 2_524_608_000), (1_650_000_000, 1_650_003_600)];

fn class(s: StatusCode) -> i128 {
    if s == StatusCode::Good { 0 } else if s == StatusCode::BadUnexpectedError { 1 } else if s == StatusCode::BadSecurityChecksFailed { 2 }
    else if s == StatusCode::BadCertificateUntrusted { 3 } else if s == StatusCode::BadCertificateTimeInvalid { 4 }
    else if s == StatusCode::BadCertificateHostNameInvalid { 5 } else if s == StatusCode::BadCertificateUriInvalid { 6 } else { 9 }
}

fn from_index(mut i: u64) -> Case {
    let dk = ((i / 11) % 5) as u8;
    let mut t = |n: u64| { let v = i % n; i /= n; v };
    Case { rej_dir: t(2) == 1, tru_dir: t(2) == 1, in_rej: t(2) == 1, tru: t(3) as u8, trust_unknown: t(2) == 1, skip: t(2) == 1,
           check_time: t(2) == 1, pol: t(5) as usize, bits: BITS[t(3) as usize], tm: t(3) as u8, host: t(3) as u8, uri: t(3) as u8, near: t(2) == 1, dk }
}
const SPACE: u64 = 2 * 2 * 2 * 3 * 2 * 2 * 2 * 5 * 3 * 3 * 3 * 3 * 2;

fn arrange(c: &Case, dir: &PathBuf, cert: &X509, other: &X509, name: &str) {
    let rej = dir.join("rejected"); let tru = dir.join("trusted");
    // put the directories into exactly the state of this step
    let _ = std::fs::remove_dir_all(&rej); let _ = std::fs::remove_dir_all(&tru);
    if c.rej_dir { std::fs::create_dir_all(&rej).unwrap(); }
    if c.tru_dir { std::fs::create_dir_all(&tru).unwrap(); }
    if c.rej_dir && c.in_rej { std::fs::write(rej.join(name), cert.to_der().unwrap()).unwrap(); }
    if c.tru_dir && c.tru == 1 { std::fs::write(tru.join(name), cert.to_der().unwrap()).unwrap(); }
    if c.tru_dir && c.tru == 2 {
        let der = cert.to_der().unwrap();
        let bytes = match c.dk {
            0 => other.to_der().unwrap(),
            1 => Vec::new(),
            2 => der[..der.len() / 2].to_vec(),
            3 => der[..der.len() - 1].to_vec(),
            _ => { let mut d = der.clone(); let n = d.len(); d[n - 20] ^= 0x04; d }   // inside the signature: still parses
        };
        std::fs::write(tru.join(name), bytes).unwrap();
    }
}

fn term1(s: &Step) -> String {
    let c = match s { Step::Val(c) => c, Step::Time { nb, na, now_ms } => return format!("(STime {} {} {})", nb * 1000, na * 1000, z(*now_ms as i128)) };
    format!("(SVal (mk_case {} {} {} {} {} {} {} {} {} {} {} {})", coq_bool(c.rej_dir), coq_bool(c.tru_dir), coq_bool(c.in_rej),
        ["TAbsent", "TSame", "TDiff"][c.tru as usize], coq_bool(c.trust_unknown), coq_bool(c.skip), coq_bool(c.check_time),
        POLS[c.pol].1, c.bits, ["TimeValid", "TimeNotYet", "TimeExpired"][c.tm as usize],
        ["NNone", "NMatch", "NMismatch"][c.host as usize], ["NNone", "NMatch", "NMismatch"][c.uri as usize]) + ")"
}

impl Property for P {
    type Case = Hist;
    fn fixed(tier: &str) -> Vec<Hist> {
        // the validity period asked directly, around both ends of five periods
        let mut periods: Vec<Hist> = Vec::new();
        for (nb, na) in PERIODS { periods.push(Hist(instants(nb, na).into_iter().map(|now_ms| Step::Time { nb, na, now_ms }).collect())); }
        if tier == "thorough" { let mut v: Vec<Hist> = (0..SPACE).map(|i| Hist(vec![Step::Val(from_index(i))])).collect(); v.extend(periods); return v; }
        let base = Case { near: false, dk: 0, rej_dir: true, tru_dir: true, in_rej: false, tru: 1, trust_unknown: false, skip: false, check_time: true, pol: 2, bits: 2048, tm: 0, host: 1, uri: 1 };
        let mut v = vec![base.clone()];
        v.push(Case { tru: 0, ..base.clone() });                       // unknown, untrusted -> rejected store
        v.push(Case { tru: 0, trust_unknown: true, ..base.clone() });  // unknown but trusted by configuration
        for dk in 0..5 { v.push(Case { tru: 2, dk, ..base.clone() }); }  // different bytes under the same name: another cert, empty, cut, changed
        v.push(Case { in_rej: true, ..base.clone() });
        v.push(Case { bits: 1024, ..base.clone() });
        v.push(Case { bits: 4096, pol: 0, ..base.clone() });
        v.push(Case { tm: 2, ..base.clone() });
        v.push(Case { tm: 1, ..base.clone() });
        v.push(Case { tm: 2, check_time: false, ..base.clone() });
        v.push(Case { tm: 2, skip: true, host: 2, uri: 2, ..base.clone() });
        v.push(Case { host: 2, ..base.clone() });
        v.push(Case { uri: 2, ..base.clone() });
        v.push(Case { host: 0, uri: 0, ..base.clone() });
        v.push(Case { rej_dir: false, ..base.clone() });
        v.push(Case { tru_dir: false, ..base.clone() });
        v.push(Case { tru: 0, trust_unknown: true, tm: 2, ..base.clone() });
        // the same with the certificates whose period ends (or starts) within seconds / hours of the wall clock
        for i in 0..v.len() { let c = Case { near: true, ..v[i].clone() }; v.push(c); }
        let mut h: Vec<Hist> = v.into_iter().map(|c| Hist(vec![Step::Val(c)])).collect();
        h.extend(periods);
        let hist = |v: Vec<Case>| Hist(v.into_iter().map(Step::Val).collect());
        // histories on one store instance: trust withdrawn / replaced / cert rejected after it was accepted once
        h.push(hist(vec![base.clone(), Case { tru: 0, ..base.clone() }]));
        h.push(hist(vec![base.clone(), Case { tru: 2, ..base.clone() }]));
        h.push(hist(vec![base.clone(), Case { in_rej: true, ..base.clone() }, base.clone()]));
        h.push(hist(vec![base.clone(), Case { host: 2, ..base.clone() }, Case { uri: 2, ..base.clone() }]));
        h.push(hist(vec![Case { tru: 0, trust_unknown: true, ..base.clone() }, Case { tru: 0, ..base.clone() }]));
        h.push(hist(vec![Case { skip: true, tm: 2, ..base.clone() }, Case { tm: 2, ..base.clone() }]));
        h
    }
    fn gen(r: &mut Rng) -> Hist {
        // mostly "interesting" configurations: directories present, not already rejected
        let mut one = |r: &mut Rng| { let mut c = from_index(r.below(SPACE));
            if r.chance(5, 6) { c.rej_dir = true; c.tru_dir = true; }
            if r.chance(3, 4) { c.in_rej = false; }
            c };
        if r.chance(1, 10) {
            // direct questions about a random period at instants near its ends
            let nb = 1_000_000_000 + r.below(900_000_000) as i64;
            let na = nb + *r.pick(&[0i64, 1, 59, 3600, 86_399, 86_400, 86_401, 30 * 86_400, 3650 * 86_400]);
            let all = instants(nb, na);
            return Hist((0..6).map(|_| Step::Time { nb, na, now_ms: *r.pick(&all) + r.range(-2, 3) }).collect());
        }
        let first = one(r);
        let mut h = vec![first.clone()];
        // half of the cases are histories of 2..3 validations of the SAME certificate on one store
        // instance; later steps differ from the first in a few components only
        if r.chance(1, 2) {
            for _ in 0..1 + r.below(2) {
                let mut c = if r.chance(2, 3) { h[0].clone() } else { one(r) };
                c.bits = first.bits; c.tm = first.tm; c.near = first.near;
                match r.below(7) { 0 => c.tru = r.below(3) as u8, 1 => c.in_rej = !c.in_rej, 2 => c.host = r.below(3) as u8, 3 => c.uri = r.below(3) as u8,
                                   4 => c.pol = r.below(5) as usize, 5 => c.skip = !c.skip, _ => c.trust_unknown = !c.trust_unknown }
                h.push(c);
            }
        }
        Hist(h.into_iter().map(Step::Val).collect())
    }
    fn exec(hist: &Hist) -> Out {
        static N: std::sync::atomic::AtomicU64 = std::sync::atomic::AtomicU64::new(0);
        let n = N.fetch_add(1, std::sync::atomic::Ordering::SeqCst);
        let dir = PathBuf::from(format!("/tmp/verif-c18-{}/{}", std::process::id(), n));
        let _ = std::fs::remove_dir_all(&dir);
        std::fs::create_dir_all(&dir).unwrap();
        let mut store = CertificateStore::new(&dir);
        let mut out = Vec::new();
        // the setters are only called when a flag really changes (a store is configured once and
        // then used for many validations)
        let mut flags: Option<(bool, bool, bool)> = None;
        for st in &hist.0 {
            let c = match st {
                Step::Val(c) => c,
                Step::Time { nb, na, now_ms } => {
                    let cert = period_cert(*nb, *na);
                    let now = chrono::DateTime::<chrono::Utc>::from_timestamp_millis(*now_ms).unwrap();
                    match guarded(|| cert.is_time_valid(&now)) { Ok(s) => out.push(class(s)), Err(_) => out.push(-2) }
                    continue;
                }
            };
            let (cert, other) = &certs()[BITS.iter().position(|b| *b == c.bits).unwrap()][2 * c.tm as usize + c.near as usize];
            let name = CertificateStore::cert_file_name(cert);
            arrange(c, &dir, cert, other, &name);
            let f = flags.unwrap_or((!c.trust_unknown, !c.skip, !c.check_time));
            if f.0 != c.trust_unknown { store.set_trust_unknown_certs(c.trust_unknown); }
            if f.1 != c.skip { store.set_skip_verify_certs(c.skip); }
            if f.2 != c.check_time { store.set_check_time(c.check_time); }
            flags = Some((c.trust_unknown, c.skip, c.check_time));
            let host = match c.host { 0 => None, 1 => Some("VerifHost"), _ => Some("otherhost") };
            let uri = match c.uri { 0 => None, 1 => Some("urn:verif:app"), _ => Some("urn:verif:other") };
            match guarded(|| store.validate_or_reject_application_instance_cert(cert, POLS[c.pol].0, host, uri)) {
                Ok(s) => out.extend([class(s), dir.join("rejected").join(&name).exists() as i128, dir.join("trusted").join(&name).exists() as i128]),
                Err(_) => out.extend([-2, 0, 0]),
            }
        }
        let _ = std::fs::remove_dir_all(&dir);
        let c = match &hist.0[0] { Step::Val(c) => c, Step::Time { .. } => return Out { tag: "validity-period".into(), term: coq_list(&hist.0, term1), out } };
        let tag = format!("{}{}{}{}", ["unknown", "trusted", "tampered"][c.tru as usize], if c.in_rej { "-rejected" } else { "" }, if c.skip { "-skipverify" } else { "" },
                          if hist.0.len() > 1 { "-history" } else if c.near { "-near" } else { "" });
        Out { tag, term: coq_list(&hist.0, term1), out }
    }
}
fn main() { run_main::<P>() }
