(* C42 — JSON encoding of the built-in types (lib/src/types: the hand-written Serialize /
   Deserialize impls of UAString, ByteString, Guid, DateTime, StatusCode, NodeId, ExpandedNodeId,
   Variant (variant_json.rs) and the derived ones of QualifiedName, LocalizedText, DataValue,
   ExtensionObject, DiagnosticInfo).

   What is modelled is the mapping  value <-> serde_json::Value tree  that the repository controls:
   which JSON shape each built-in produces ([*_tree]) and which shapes it accepts ([*_of]).  The
   text layer (serde_json's printer / parser, including number <-> decimal text) is an oracle: a
   JSON number is either an integer (NInt) or "the f64 that serde_json reads from the number's
   text" (NFlt); for an f32 that f64 is supplied with the case as a transcript (second argument of
   VFloat) and constrained by the law [f64_to_f32 w = b].

   The model follows the code after the four `fix:` commits; [cfg] switches each repair off again
   (Module Legacy = all off).  No proofs in this file. *)
From Coq Require Import List ZArith Bool String.
From OV Require Import C42.Text C42.Flt.
Import ListNotations.
Open Scope Z_scope.

Notation "'do' x <- a ; b" := (match a with Some x => b | None => None end)
  (at level 200, x name, a at level 100, b at level 200).

(* ---- values ------------------------------------------------------------------------------- *)
Definition ustr := option str.            (* UAString / XmlElement: null or a string *)
Definition bstr := option (list Z).       (* ByteString: null or bytes *)

Inductive ident := INum (n : Z) | IStr (s : ustr) | IGuid (g : list Z) | IBytes (b : bstr).
Inductive nodeid := NodeId (ns : Z) (i : ident).
Inductive xnodeid := XNodeId (n : nodeid) (uri : ustr) (srv : Z).
Inductive qname := QName (ns : Z) (name : ustr).
Inductive ltext := LText (locale text : ustr).
Inductive eobody := EONone | EOBytes (b : bstr) | EOXml (s : ustr).
Inductive extobj := ExtObj (n : nodeid) (b : eobody).
Inductive diag :=
  Diag (sym ns loc lt : option Z) (info : option ustr) (isc : option Z) (inner : option diag).
(* DataValue without its value: status, source timestamp / picoseconds, server timestamp / picoseconds *)
Inductive dvrest := DVRest (status sts sps vts vps : option Z).

Inductive variant :=
| VEmpty | VBool (b : bool)
| VSByte (z : Z) | VByte (z : Z) | VInt16 (z : Z) | VUInt16 (z : Z) | VInt32 (z : Z) | VUInt32 (z : Z)
| VInt64 (z : Z) | VUInt64 (z : Z)
| VFloat (b w : Z)          (* f32 bits; w = the f64 (bits) read back from its JSON form (transcript) *)
| VDouble (b : Z)           (* f64 bits *)
| VString (s : ustr) | VDateTime (t : Z) | VGuid (g : list Z) | VByteString (b : bstr) | VXml (s : ustr)
| VNodeId (n : nodeid) | VXNodeId (x : xnodeid) | VStatus (z : Z) | VQName (q : qname) | VLText (l : ltext)
| VExtObj (e : extobj)
| VDataValue (v : option variant) (r : dvrest)
| VVariant (v : variant)
| VDiag (d : diag)
| VArray (vals : list Z) (dims : option (list Z)).   (* an Int32 array; serialisation panics *)

Inductive value :=
| AString (s : ustr) | ABytes (b : bstr) | AGuid (g : list Z) | ADate (t : Z) | ANodeId (n : nodeid)
| AXNodeId (x : xnodeid) | AStatus (z : Z) | AQName (q : qname) | ALText (l : ltext)
| ADataValue (v : option variant) (r : dvrest) | AVariant (v : variant) | AExtObj (e : extobj)
| ADiag (d : diag).

(* ---- trees -------------------------------------------------------------------------------- *)
Inductive num := NInt (z : Z) | NFlt (w : Z).
Inductive tree :=
| TNull | TBool (b : bool) | TNum (n : num) | TStr (s : str) | TArr (l : list tree)
| TObj (fs : list (str * tree)).      (* serde_json::Map: fields in key order *)

Definition tint (z : Z) : tree := TNum (NInt z).

Fixpoint get (k : str) (fs : list (str * tree)) : option tree :=
  match fs with
  | [] => None
  | (k', t) :: r => if str_eqb k k' then Some t else get k r
  end.

(* object from (key, optional value): skip_serializing_if = "Option::is_none" *)
Fixpoint fields (l : list (str * option tree)) : list (str * tree) :=
  match l with
  | [] => []
  | (k, Some t) :: r => (k, t) :: fields r
  | (_, None) :: r => fields r
  end.

Definition kType := zs "Type".
Definition kBody := zs "Body".
Definition kDimensions := zs "Dimensions".
Definition kId := zs "Id".
Definition kNamespace := zs "Namespace".
Definition kServerUri := zs "ServerUri".
Definition kName := zs "Name".
Definition kUri := zs "Uri".
Definition kLocale := zs "Locale".
Definition kText := zs "Text".
Definition kNodeId := zs "NodeId".
Definition kByteString := zs "ByteString".
Definition kXmlElement := zs "XmlElement".
Definition kNone := zs "None".
Definition kValue := zs "Value".
Definition kStatus := zs "Status".
Definition kSourceTimestamp := zs "SourceTimestamp".
Definition kSourcePicoseconds := zs "SourcePicoseconds".
Definition kServerTimestamp := zs "ServerTimestamp".
Definition kServerPicoseconds := zs "ServerPicoseconds".
Definition kSymbolicId := zs "SymbolicId".
Definition kNamespaceUri := zs "NamespaceUri".
Definition kLocalizedText := zs "LocalizedText".
Definition kAdditionalInfo := zs "AdditionalInfo".
Definition kInnerStatusCode := zs "InnerStatusCode".
Definition kInnerDiagnosticInfo := zs "InnerDiagnosticInfo".
Definition sInfinity := zs "Infinity".
Definition sNegInfinity := zs "-Infinity".
Definition sNaN := zs "NaN".

Definition U8MAX := 255.
Definition U16MAX := 65535.
Definition U32MAX := 4294967295.
Definition U64MAX := 18446744073709551615.
Definition I64MIN := -9223372036854775808.
Definition I64MAX := 9223372036854775807.

(* which of the four repairs are in the code *)
Record cfg := mk_cfg { fix_f32 : bool; fix_xml : bool; fix_diag : bool; fix_xuri : bool }.
Definition now : cfg := mk_cfg true true true true.

Section WithCfg.
Variable c : cfg.

(* ==== value -> tree (Serialize) ============================================================= *)
Definition as_ref (s : ustr) : str := match s with Some x => x | None => [] end.
Definition ustr_tree (s : ustr) : tree := match s with Some x => TStr x | None => TNull end.
Definition bstr_tree (b : bstr) : tree := match b with Some x => TStr (b64_encode x) | None => TNull end.
Definition guid_tree (g : list Z) : tree := TStr (guid_text g).
Definition date_tree (t : Z) : tree := TStr (date_text t).
Definition otree {A} (f : A -> tree) (o : option A) : option tree := option_map f o.

(* NodeId / ExpandedNodeId: (Type, Id) *)
Definition ident_parts (i : ident) : option Z * tree :=
  match i with
  | INum n => (None, tint n)
  | IStr s => (Some 1, TStr (as_ref s))
  | IGuid g => (Some 2, TStr (guid_text g))
  | IBytes b => (Some 3, TStr (b64_encode (match b with Some x => x | None => [] end)))
  end.

Definition nodeid_tree (n : nodeid) : tree :=
  let '(NodeId ns i) := n in
  let '(ty, id) := ident_parts i in
  TObj (fields [(kId, Some id);
                (kNamespace, if ns =? 0 then None else Some (tint ns));
                (kType, otree tint ty)]).

Definition xnodeid_tree (x : xnodeid) : tree :=
  let '(XNodeId (NodeId ns i) uri srv) := x in
  let '(ty, id) := ident_parts i in
  let namespace :=
    match (if fix_xuri c then uri else None) with
    | Some u => Some (TStr u)
    | None => if ns =? 0 then None else Some (tint ns)
    end in
  TObj (fields [(kId, Some id); (kNamespace, namespace);
                (kServerUri, if srv =? 0 then None else Some (tint srv));
                (kType, otree tint ty)]).

Definition qname_tree (q : qname) : tree :=
  let '(QName ns name) := q in TObj [(kName, ustr_tree name); (kUri, tint ns)].
Definition ltext_tree (l : ltext) : tree :=
  let '(LText locale text) := l in TObj [(kLocale, ustr_tree locale); (kText, ustr_tree text)].
Definition eobody_tree (b : eobody) : tree :=
  match b with
  | EONone => TStr kNone
  | EOBytes b => TObj [(kByteString, bstr_tree b)]
  | EOXml s => TObj [(kXmlElement, ustr_tree s)]
  end.
Definition extobj_tree (e : extobj) : tree :=
  let '(ExtObj n b) := e in TObj [(kBody, eobody_tree b); (kNodeId, nodeid_tree n)].

Fixpoint diag_tree (d : diag) : tree :=
  let '(Diag sym ns loc lt info isc inner) := d in
  TObj (fields [(kAdditionalInfo, otree ustr_tree info);
                (kInnerDiagnosticInfo, match inner with Some d' => Some (diag_tree d') | None => None end);
                (kInnerStatusCode, otree tint isc);
                (kLocale, otree tint loc); (kLocalizedText, otree tint lt);
                (kNamespaceUri, otree tint ns); (kSymbolicId, otree tint sym)]).

Definition dv_tree (value : option tree) (r : dvrest) : tree :=
  let '(DVRest status sts sps vts vps) := r in
  TObj (fields [(kServerPicoseconds, otree tint vps); (kServerTimestamp, otree date_tree vts);
                (kSourcePicoseconds, otree tint sps); (kSourceTimestamp, otree date_tree sts);
                (kStatus, otree tint status); (kValue, value)]).

(* float_to_json! *)
Definition f32_tree (b w : Z) : tree :=
  if b =? INF32 then TStr sInfinity else if b =? NEG_INF32 then TStr sNegInfinity
  else if is_nan32 b then TStr sNaN else TNum (NFlt w).
Definition f64_tree (b : Z) : tree :=
  if b =? INF64 then TStr sInfinity else if b =? NEG_INF64 then TStr sNegInfinity
  else if is_nan64 b then TStr sNaN else TNum (NFlt b).

Definition mkv (ty : Z) (body : tree) : tree := TObj [(kBody, body); (kType, tint ty)].

(* Variant::serialize; None = panic ("Unsupported variant type") *)
Fixpoint variant_tree (v : variant) : option tree :=
  match v with
  | VEmpty => Some (TObj [(kType, tint 0)])
  | VBool b => Some (mkv 1 (TBool b))
  | VSByte z => Some (mkv 2 (tint z))
  | VByte z => Some (mkv 3 (tint z))
  | VInt16 z => Some (mkv 4 (tint z))
  | VUInt16 z => Some (mkv 5 (tint z))
  | VInt32 z => Some (mkv 6 (tint z))
  | VUInt32 z => Some (mkv 7 (tint z))
  | VInt64 z => Some (mkv 8 (TStr (show_int z)))
  | VUInt64 z => Some (mkv 9 (TStr (show_int z)))
  | VFloat b w => Some (mkv 10 (f32_tree b w))
  | VDouble b => Some (mkv 11 (f64_tree b))
  | VString s => Some (mkv 12 (ustr_tree s))
  | VDateTime t => Some (mkv 13 (date_tree t))
  | VGuid g => Some (mkv 14 (guid_tree g))
  | VByteString b => Some (mkv 15 (bstr_tree b))
  | VXml s => Some (mkv 16 (ustr_tree s))
  | VNodeId n => Some (mkv 17 (nodeid_tree n))
  | VXNodeId x => Some (mkv 18 (xnodeid_tree x))
  | VStatus z => Some (mkv 19 (tint z))
  | VQName q => Some (mkv 20 (qname_tree q))
  | VLText l => Some (mkv 21 (ltext_tree l))
  | VExtObj e => Some (mkv 22 (extobj_tree e))
  | VDataValue None r => Some (mkv 23 (dv_tree None r))
  | VDataValue (Some v') r => do t <- variant_tree v'; Some (mkv 23 (dv_tree (Some t) r))
  | VVariant v' => do t <- variant_tree v'; Some (mkv 24 t)
  | VDiag d => Some (mkv 25 (diag_tree d))
  | VArray _ _ => None
  end.

Definition to_tree (a : value) : option tree :=
  match a with
  | AString s => Some (ustr_tree s)
  | ABytes b => Some (bstr_tree b)
  | AGuid g => Some (guid_tree g)
  | ADate t => Some (date_tree t)
  | ANodeId n => Some (nodeid_tree n)
  | AXNodeId x => Some (xnodeid_tree x)
  | AStatus z => Some (tint z)
  | AQName q => Some (qname_tree q)
  | ALText l => Some (ltext_tree l)
  | ADataValue None r => Some (dv_tree None r)
  | ADataValue (Some v) r => do t <- variant_tree v; Some (dv_tree (Some t) r)
  | AVariant v => variant_tree v
  | AExtObj e => Some (extobj_tree e)
  | ADiag d => Some (diag_tree d)
  end.

(* ==== tree -> value (Deserialize); None = any error ========================================= *)
(* A field is an [option tree]: None = absent from the object.  serde's missing-field rule gives an
   absent field to `deserialize_option` implementors as "none": UAString, ByteString and Variant
   therefore read an absent field as null / null / Empty, every other type reports an error. *)
Definition as_u64 (t : tree) : option Z :=
  match t with TNum (NInt z) => if (0 <=? z) && (z <=? U64MAX) then Some z else None | _ => None end.
Definition as_i64 (t : tree) : option Z :=
  match t with TNum (NInt z) => if (I64MIN <=? z) && (z <=? I64MAX) then Some z else None | _ => None end.
Definition as_str (t : tree) : option str := match t with TStr s => Some s | _ => None end.
Definition as_f64 (t : tree) : option Z :=
  match t with
  | TNum (NFlt w) => Some w
  | TNum (NInt z) => let w := f64_of_Z z in if finite64 w then Some w else None
  | _ => None
  end.

(* a primitive integer type: any JSON integer in range *)
Definition int_of (lo hi : Z) (f : option tree) : option Z :=
  match f with
  | Some (TNum (NInt z)) => if (lo <=? z) && (z <=? hi) then Some z else None
  | _ => None
  end.
Definition ustr_of (f : option tree) : option ustr :=
  match f with
  | None | Some TNull => Some None
  | Some (TStr s) => Some (Some s)
  | _ => None
  end.
Definition bstr_of (f : option tree) : option bstr :=
  match f with
  | None | Some TNull => Some None
  | Some (TStr s) => do b <- b64_decode s; Some (Some b)
  | _ => None
  end.
Definition guid_of (f : option tree) : option (list Z) :=
  match f with Some (TStr s) => parse_guid s | _ => None end.
Definition date_of (f : option tree) : option Z :=
  match f with Some (TStr s) => parse_date s | _ => None end.
(* StatusCode::deserialize = deserializer.deserialize_u32(StatusCodeVisitor).  From a
   serde_json::Value (arbitrary_precision) the number's text is parsed as u32 and given to visit_u32,
   so only 0..=u32::MAX is accepted; from_bits_truncate keeps all 32 bits (StatusCode::all() is
   0xFFFFFFFF).  (Reading from TEXT goes through visit_u64 / visit_i64, which truncate with `as u32`;
   that path is not reached from a tree.) *)
Definition status_of (f : option tree) : option Z := int_of 0 U32MAX f.
(* Option<T>: absent or null = None *)
Definition opt_of {A} (g : option tree -> option A) (f : option tree) : option (option A) :=
  match f with
  | None | Some TNull => Some None
  | Some t => do a <- g (Some t); Some (Some a)
  end.
(* Option<serde_json::Value> *)
Definition opt_value (f : option tree) : option tree :=
  match f with None | Some TNull => None | Some t => Some t end.

(* the identifier, shared by NodeId and ExpandedNodeId *)
Definition ident_of (ty : option Z) (id : tree) : option ident :=
  match match ty with Some t => t | None => 0 end with
  | 0 => do n <- as_u64 id; Some (INum (n mod 2 ^ 32))
  | 1 => do s <- as_str id; match s with [] => None | _ => Some (IStr (Some s)) end
  | 2 => do s <- as_str id; match s with [] => None | _ => do g <- parse_guid s; Some (IGuid g) end
  | 3 => do s <- as_str id; match s with [] => None | _ => do b <- b64_decode s; Some (IBytes (Some b)) end
  | _ => None
  end.

Definition ns_index_of (t : tree) : option Z :=
  do n <- as_u64 t; if U16MAX <? n then None else Some n.

Definition nodeid_of (f : option tree) : option nodeid :=
  match f with
  | Some (TObj fs) =>
      do ty <- opt_of (int_of 0 U32MAX) (get kType fs);
      do id <- get kId fs;
      do ns <- match opt_value (get kNamespace fs) with Some t => ns_index_of t | None => Some 0 end;
      do i <- ident_of ty id;
      Some (NodeId ns i)
  | _ => None
  end.

Definition xnodeid_of (f : option tree) : option xnodeid :=
  match f with
  | Some (TObj fs) =>
      do ty <- opt_of (int_of 0 U32MAX) (get kType fs);
      do id <- get kId fs;
      do nsu <- match opt_value (get kNamespace fs) with
                | Some t =>
                    match (if fix_xuri c then as_str t else None) with
                    | Some u => Some (0, Some u)
                    | None => do n <- ns_index_of t; Some (n, None)
                    end
                | None => Some (0, None)
                end;
      do srv <- match opt_value (get kServerUri fs) with
                | Some t => do n <- as_u64 t; if U32MAX <? n then None else Some n
                | None => Some 0
                end;
      do i <- ident_of ty id;
      Some (XNodeId (NodeId (fst nsu) i) (snd nsu) srv)
  | _ => None
  end.

Definition qname_of (f : option tree) : option qname :=
  match f with
  | Some (TObj fs) =>
      do ns <- int_of 0 U16MAX (get kUri fs); do name <- ustr_of (get kName fs); Some (QName ns name)
  | _ => None
  end.
Definition ltext_of (f : option tree) : option ltext :=
  match f with
  | Some (TObj fs) =>
      do l <- ustr_of (get kLocale fs); do t <- ustr_of (get kText fs); Some (LText l t)
  | _ => None
  end.
(* externally tagged enum: "None" | {"None": null} | {"ByteString": ..} | {"XmlElement": ..} *)
Definition eobody_of (f : option tree) : option eobody :=
  match f with
  | Some (TStr s) => if str_eqb s kNone then Some EONone else None
  | Some (TObj [(k, t)]) =>
      if str_eqb k kNone then match t with TNull => Some EONone | _ => None end
      else if str_eqb k kByteString then do b <- bstr_of (Some t); Some (EOBytes b)
      else if str_eqb k kXmlElement then do s <- ustr_of (Some t); Some (EOXml s)
      else None
  | _ => None
  end.
Definition extobj_of (f : option tree) : option extobj :=
  match f with
  | Some (TObj fs) =>
      do n <- nodeid_of (get kNodeId fs); do b <- eobody_of (get kBody fs); Some (ExtObj n b)
  | _ => None
  end.

Definition I32MIN := -2147483648.
Definition I32MAX := 2147483647.

Fixpoint diag_of (fuel : nat) (f : option tree) : option diag :=
  match fuel with O => None | S fuel' =>
  match f with
  | Some (TObj fs) =>
      do sym <- opt_of (int_of I32MIN I32MAX) (get kSymbolicId fs);
      do ns <- opt_of (int_of I32MIN I32MAX) (get kNamespaceUri fs);
      do loc <- opt_of (int_of I32MIN I32MAX) (get kLocale fs);
      do lt <- opt_of (int_of I32MIN I32MAX) (get kLocalizedText fs);
      do info <- (if fix_diag c
                  then match get kAdditionalInfo fs with
                       | None => Some None
                       | Some t => do s <- ustr_of (Some t); Some (Some s)
                       end
                  else opt_of ustr_of (get kAdditionalInfo fs));
      do isc <- opt_of status_of (get kInnerStatusCode fs);
      do inner <- opt_of (diag_of fuel') (get kInnerDiagnosticInfo fs);
      Some (Diag sym ns loc lt info isc inner)
  | _ => None
  end end.

(* VariantVisitor::numeric_i64 / numeric_u64 *)
Definition numeric_int (as_int : tree -> option Z) (body : option tree) (lo hi : Z) : option Z :=
  match body with
  | Some v => do z <- as_int v; if (z <? lo) || (hi <? z) then None else Some z
  | None => Some 0
  end.
(* VariantVisitor::numeric_f64: f64 bits *)
Definition numeric_f64 (body : option tree) (lo hi : Z) : option Z :=
  match body with
  | Some v =>
      match as_str v with
      | Some s => if str_eqb s sInfinity then Some INF64
                  else if str_eqb s sNegInfinity then Some NEG_INF64
                  else if str_eqb s sNaN then Some NAN64 else None
      | None => do w <- as_f64 v;
                if (key64 w <? key64 lo) || (key64 hi <? key64 w) then None else Some w
      end
  | None => Some 0
  end.
Definition int64_body (signed : bool) (lo hi : Z) (body : option tree) : option Z :=
  match body with
  | Some v => do s <- as_str v; parse_int signed lo hi s
  | None => Some 0
  end.

Definition dvrest_of (fs : list (str * tree)) : option dvrest :=
  do status <- opt_of status_of (get kStatus fs);
  do sts <- opt_of date_of (get kSourceTimestamp fs);
  do sps <- opt_of (int_of 0 U16MAX) (get kSourcePicoseconds fs);
  do vts <- opt_of date_of (get kServerTimestamp fs);
  do vps <- opt_of (int_of 0 U16MAX) (get kServerPicoseconds fs);
  Some (DVRest status sts sps vts vps).

(* the `match t { ... }` of VariantVisitor::visit_some, with the recursive readers as parameters *)
Definition variant_body (vrec : option tree -> option variant) (drec : option tree -> option diag)
           (ty : Z) (body : option tree) : option variant :=
  match ty with
  | 0 => match body with Some _ => None | None => Some VEmpty end
  | 1 => match body with Some (TBool b) => Some (VBool b) | _ => None end
  | 2 => do z <- numeric_int as_i64 body (-128) 127; Some (VSByte z)
  | 3 => do z <- numeric_int as_u64 body 0 U8MAX; Some (VByte z)
  | 4 => do z <- numeric_int as_i64 body (-32768) 32767; Some (VInt16 z)
  | 5 => do z <- numeric_int as_u64 body 0 U16MAX; Some (VUInt16 z)
  | 6 => do z <- numeric_int as_i64 body I32MIN I32MAX; Some (VInt32 z)
  | 7 => do z <- numeric_int as_u64 body 0 U32MAX; Some (VUInt32 z)
  | 8 => do z <- int64_body true I64MIN I64MAX body; Some (VInt64 z)
  | 9 => do z <- int64_body false 0 U64MAX body; Some (VUInt64 z)
  | 10 =>
      if fix_f32 c then
        do w <- numeric_f64 body F64_MIN F64_MAX;
        let b := f64_to_f32 w in
        if is_inf32 b && negb (is_inf64 w) then None else Some (VFloat b w)
      else
        do w <- numeric_f64 body F32_MIN_AS_F64 F32_MAX_AS_F64; Some (VFloat (f64_to_f32 w) w)
  | 11 => do w <- numeric_f64 body F64_MIN F64_MAX; Some (VDouble w)
  | 12 => match body with None => Some (VString None) | Some _ => do s <- ustr_of body; Some (VString s) end
  | 13 => do t <- date_of body; Some (VDateTime t)
  | 14 => do g <- guid_of body; Some (VGuid g)
  | 15 => match body with None => Some (VByteString None) | Some _ => do b <- bstr_of body; Some (VByteString b) end
  | 16 => match body with
          | None => if fix_xml c then Some (VXml None) else None
          | Some _ => do s <- ustr_of body; Some (VXml s)
          end
  | 17 => do n <- nodeid_of body; Some (VNodeId n)
  | 18 => do x <- xnodeid_of body; Some (VXNodeId x)
  | 19 => do z <- int_of 0 U32MAX body; Some (VStatus z)
  | 20 => do q <- qname_of body; Some (VQName q)
  | 21 => do l <- ltext_of body; Some (VLText l)
  | 22 => do e <- extobj_of body; Some (VExtObj e)
  | 23 => match body with
          | Some (TObj bfs) =>
              do v <- opt_of vrec (get kValue bfs);
              do r <- dvrest_of bfs; Some (VDataValue v r)
          | _ => None
          end
  | 24 => match body with Some _ => do v <- vrec body; Some (VVariant v) | None => None end
  | 25 => match body with Some _ => do d <- drec body; Some (VDiag d) | None => None end
  | _ => None
  end.

(* Variant::deserialize = deserialize_option(VariantVisitor) *)
Fixpoint variant_of (fuel : nat) (f : option tree) : option variant :=
  match fuel with O => None | S fuel' =>
  match f with
  | None | Some TNull => Some VEmpty
  | Some (TObj fs) =>
      do ty <- int_of 0 U32MAX (get kType fs);
      match opt_value (get kDimensions fs) with
      | Some _ => None                (* "Dimensions not supported yet" *)
      | None => variant_body (variant_of fuel') (diag_of fuel') ty (opt_value (get kBody fs))
      end
  | _ => None
  end end.

Definition dvalue_of (fuel : nat) (f : option tree) : option (option variant * dvrest) :=
  match f with
  | Some (TObj fs) =>
      do v <- opt_of (variant_of fuel) (get kValue fs); do r <- dvrest_of fs; Some (v, r)
  | _ => None
  end.

(* kinds of top-level value: 0 UAString 1 ByteString 2 Guid 3 DateTime 4 NodeId 5 ExpandedNodeId
   6 StatusCode 7 QualifiedName 8 LocalizedText 9 DataValue 10 Variant 11 ExtensionObject
   12 DiagnosticInfo *)
Definition kind (a : value) : Z :=
  match a with
  | AString _ => 0 | ABytes _ => 1 | AGuid _ => 2 | ADate _ => 3 | ANodeId _ => 4 | AXNodeId _ => 5
  | AStatus _ => 6 | AQName _ => 7 | ALText _ => 8 | ADataValue _ _ => 9 | AVariant _ => 10
  | AExtObj _ => 11 | ADiag _ => 12
  end.

Definition of_tree (fuel : nat) (k : Z) (t : tree) : option value :=
  let f := Some t in
  match k with
  | 0 => do s <- ustr_of f; Some (AString s)
  | 1 => do b <- bstr_of f; Some (ABytes b)
  | 2 => do g <- guid_of f; Some (AGuid g)
  | 3 => do d <- date_of f; Some (ADate d)
  | 4 => do n <- nodeid_of f; Some (ANodeId n)
  | 5 => do x <- xnodeid_of f; Some (AXNodeId x)
  | 6 => do z <- status_of f; Some (AStatus z)
  | 7 => do q <- qname_of f; Some (AQName q)
  | 8 => do l <- ltext_of f; Some (ALText l)
  | 9 => do vr <- dvalue_of fuel f; Some (ADataValue (fst vr) (snd vr))
  | 10 => do v <- variant_of fuel f; Some (AVariant v)
  | 11 => do e <- extobj_of f; Some (AExtObj e)
  | 12 => do d <- diag_of fuel f; Some (ADiag d)
  | _ => None
  end.

End WithCfg.

(* nesting depth of a tree: enough fuel for the recursive readers *)
Fixpoint tdepth (t : tree) : nat :=
  match t with
  | TArr l => S (list_max (map tdepth l))
  | TObj fs => S (list_max (map (fun kx : str * tree => let '(_, x) := kx in tdepth x) fs))
  | _ => O
  end.
Definition fuel_for (t : tree) : nat := S (tdepth t).

(* ==== canonical encodings for the correspondence run ======================================== *)
Definition enc_list (l : list Z) : list Z := zlen l :: l.
Definition enc_ostr (s : option (list Z)) : list Z := match s with Some x => enc_list x | None => [-1] end.
Definition enc_oz (o : option Z) : list Z := match o with Some z => [1; z] | None => [0] end.
Definition enc_num (n : num) : list Z := match n with NInt z => [2; z] | NFlt w => [3; w] end.

Fixpoint enc_tree (t : tree) : list Z :=
  match t with
  | TNull => [0]
  | TBool b => [1; if b then 1 else 0]
  | TNum n => enc_num n
  | TStr s => 4 :: enc_list s
  | TArr l => 5 :: zlen l :: (fix go (l : list tree) : list Z :=
                                match l with [] => [] | x :: r => enc_tree x ++ go r end) l
  | TObj fs => 6 :: zlen fs :: (fix go (fs : list (str * tree)) : list Z :=
                                  match fs with [] => [] | (k, x) :: r => enc_list k ++ enc_tree x ++ go r end) fs
  end.

Definition enc_ident (i : ident) : list Z :=
  match i with
  | INum n => [0; n] | IStr s => 1 :: enc_ostr s | IGuid g => 2 :: g | IBytes b => 3 :: enc_ostr b
  end.
Definition enc_nodeid (n : nodeid) : list Z := let '(NodeId ns i) := n in ns :: enc_ident i.
Definition enc_xnodeid (x : xnodeid) : list Z :=
  let '(XNodeId n uri srv) := x in enc_nodeid n ++ enc_ostr uri ++ [srv].
Definition enc_qname (q : qname) : list Z := let '(QName ns name) := q in ns :: enc_ostr name.
Definition enc_ltext (l : ltext) : list Z := let '(LText a b) := l in enc_ostr a ++ enc_ostr b.
Definition enc_extobj (e : extobj) : list Z :=
  let '(ExtObj n b) := e in
  enc_nodeid n ++ match b with EONone => [0] | EOBytes b => 1 :: enc_ostr b | EOXml s => 2 :: enc_ostr s end.
Fixpoint enc_diag (d : diag) : list Z :=
  let '(Diag sym ns loc lt info isc inner) := d in
  enc_oz sym ++ enc_oz ns ++ enc_oz loc ++ enc_oz lt ++
  match info with Some s => 1 :: enc_ostr s | None => [0] end ++ enc_oz isc ++
  match inner with Some d' => 1 :: enc_diag d' | None => [0] end.
Definition enc_dvrest (r : dvrest) : list Z :=
  let '(DVRest a b c d e) := r in enc_oz a ++ enc_oz b ++ enc_oz c ++ enc_oz d ++ enc_oz e.

Fixpoint enc_variant (v : variant) : list Z :=
  match v with
  | VEmpty => [0]
  | VBool b => [1; if b then 1 else 0]
  | VSByte z => [2; z] | VByte z => [3; z] | VInt16 z => [4; z] | VUInt16 z => [5; z]
  | VInt32 z => [6; z] | VUInt32 z => [7; z] | VInt64 z => [8; z] | VUInt64 z => [9; z]
  | VFloat b _ => [10; b] | VDouble b => [11; b]
  | VString s => 12 :: enc_ostr s | VDateTime t => [13; t] | VGuid g => 14 :: g
  | VByteString b => 15 :: enc_ostr b | VXml s => 16 :: enc_ostr s
  | VNodeId n => 17 :: enc_nodeid n | VXNodeId x => 18 :: enc_xnodeid x | VStatus z => [19; z]
  | VQName q => 20 :: enc_qname q | VLText l => 21 :: enc_ltext l | VExtObj e => 22 :: enc_extobj e
  | VDataValue None r => 23 :: 0 :: enc_dvrest r
  | VDataValue (Some v') r => 23 :: 1 :: enc_variant v' ++ enc_dvrest r
  | VVariant v' => 24 :: enc_variant v'
  | VDiag d => 25 :: enc_diag d
  | VArray vals dims => 26 :: enc_list vals ++ match dims with Some d => 1 :: enc_list d | None => [0] end
  end.

Definition enc_value (a : value) : list Z :=
  match a with
  | AString s => 0 :: enc_ostr s | ABytes b => 1 :: enc_ostr b | AGuid g => 2 :: g | ADate t => [3; t]
  | ANodeId n => 4 :: enc_nodeid n | AXNodeId x => 5 :: enc_xnodeid x | AStatus z => [6; z]
  | AQName q => 7 :: enc_qname q | ALText l => 8 :: enc_ltext l
  | ADataValue v r => 9 :: enc_variant (VDataValue v r)
  | AVariant v => 10 :: enc_variant v
  | AExtObj e => 11 :: enc_extobj e | ADiag d => 12 :: enc_diag d
  end.

(* ==== predicates on values ================================================================== *)
(* a float inside: Rust's `==` is false on any value holding a NaN *)
Fixpoint v_has_nan (v : variant) : bool :=
  match v with
  | VFloat b _ => is_nan32 b
  | VDouble b => is_nan64 b
  | VDataValue (Some v') _ => v_has_nan v'
  | VVariant v' => v_has_nan v'
  | _ => false
  end.
Definition has_nan (a : value) : bool :=
  match a with ADataValue (Some v) _ => v_has_nan v | AVariant v => v_has_nan v | _ => false end.

Fixpoint v_has_array (v : variant) : bool :=
  match v with
  | VArray _ _ => true
  | VDataValue (Some v') _ => v_has_array v'
  | VVariant v' => v_has_array v'
  | _ => false
  end.
Definition x_both (x : xnodeid) : bool :=
  let '(XNodeId (NodeId ns _) uri _) := x in
  match uri with Some _ => negb (ns =? 0) | None => false end.
Fixpoint v_has_both (v : variant) : bool :=
  match v with
  | VXNodeId x => x_both x
  | VDataValue (Some v') _ => v_has_both v'
  | VVariant v' => v_has_both v'
  | _ => false
  end.

(* depth of JSON nesting of the produced text: serde_json's text reader (from_str) refuses 128
   nested objects or more ("recursion limit exceeded"); the tree reader has no limit *)
Definition json_depth (a : value) : Z :=
  match to_tree now a with Some t => Z.of_nat (tdepth t) | None => 0 end.
Definition DEPTH_LIMIT := 127.
Definition text_readable (t : tree) : bool := Z.of_nat (tdepth t) <=? DEPTH_LIMIT.

Fixpoint vnest (n : nat) (v : variant) : variant :=
  match n with O => v | S n' => VVariant (vnest n' v) end.

(* ---- NaN payloads are not representable in JSON ("NaN"): compare modulo the payload --------- *)
Fixpoint v_norm (v : variant) : variant :=
  match v with
  | VFloat b w => if is_nan32 b then VFloat NAN32 NAN64 else v
  | VDouble b => if is_nan64 b then VDouble NAN64 else v
  | VDataValue (Some v') r => VDataValue (Some (v_norm v')) r
  | VVariant v' => VVariant (v_norm v')
  | _ => v
  end.
Definition norm (a : value) : value :=
  match a with
  | ADataValue (Some v) r => ADataValue (Some (v_norm v)) r
  | AVariant v => AVariant (v_norm v)
  | _ => a
  end.

(* ---- the quantifier of the property ---------------------------------------------------------- *)
Definition in_range (lo hi z : Z) : bool := (lo <=? z) && (z <=? hi).
Definition bytes_ok (l : list Z) : bool := forallb (in_range 0 255) l.
Definition guid_ok (g : list Z) : bool := (zlen g =? 16) && bytes_ok g.
(* millisecond precision, inside [epoch, endtimes] *)
Definition date_ok (t : Z) : bool := in_range 0 ENDTIMES_TICKS t && (t mod TICKS_PER_MS =? 0).
Definition odate_ok (o : option Z) : bool := match o with Some t => date_ok t | None => true end.
Definition oz_ok (lo hi : Z) (o : option Z) : bool := match o with Some z => in_range lo hi z | None => true end.
Definition bstr_ok (b : bstr) : bool := match b with Some x => bytes_ok x | None => true end.
(* identifiers non-empty *)
Definition ident_ok (i : ident) : bool :=
  match i with
  | INum n => in_range 0 U32MAX n
  | IStr (Some (_ :: _)) => true
  | IStr _ => false
  | IGuid g => guid_ok g
  | IBytes (Some (x :: r)) => bytes_ok (x :: r)
  | IBytes _ => false
  end.
Definition nodeid_ok (n : nodeid) : bool := let '(NodeId ns i) := n in in_range 0 U16MAX ns && ident_ok i.
Definition xnodeid_ok (x : xnodeid) : bool :=
  let '(XNodeId n _ srv) := x in nodeid_ok n && in_range 0 U32MAX srv.
Definition qname_ok (q : qname) : bool := let '(QName ns _) := q in in_range 0 U16MAX ns.
Definition extobj_ok (e : extobj) : bool :=
  let '(ExtObj n b) := e in nodeid_ok n && match b with EOBytes b => bstr_ok b | _ => true end.
Fixpoint diag_ok (d : diag) : bool :=
  let '(Diag sym ns loc lt info isc inner) := d in
  oz_ok I32MIN I32MAX sym && oz_ok I32MIN I32MAX ns && oz_ok I32MIN I32MAX loc && oz_ok I32MIN I32MAX lt &&
  oz_ok 0 U32MAX isc && match inner with Some d' => diag_ok d' | None => true end.
Definition dvrest_ok (r : dvrest) : bool :=
  let '(DVRest status sts sps vts vps) := r in
  oz_ok 0 U32MAX status && odate_ok sts && oz_ok 0 U16MAX sps && odate_ok vts && oz_ok 0 U16MAX vps.
(* f32 with its transcript: the law of the text layer (the f64 read from the text rounds to the f32) *)
Definition f32_ok (b w : Z) : bool :=
  in_range 0 (2 ^ 32 - 1) b &&
  if is_nan32 b then true
  else if is_inf32 b then (w =? (if b =? INF32 then INF64 else NEG_INF64))
  else finite64 w && in_range 0 (2 ^ 64 - 1) w && (f64_to_f32 w =? b).
Fixpoint variant_ok (v : variant) : bool :=
  match v with
  | VEmpty | VBool _ | VString _ | VXml _ | VLText _ => true
  | VSByte z => in_range (-128) 127 z | VByte z => in_range 0 U8MAX z
  | VInt16 z => in_range (-32768) 32767 z | VUInt16 z => in_range 0 U16MAX z
  | VInt32 z => in_range I32MIN I32MAX z | VUInt32 z => in_range 0 U32MAX z
  | VInt64 z => in_range I64MIN I64MAX z | VUInt64 z => in_range 0 U64MAX z
  | VFloat b w => f32_ok b w
  | VDouble b => in_range 0 (2 ^ 64 - 1) b
  | VDateTime t => date_ok t | VGuid g => guid_ok g | VByteString b => bstr_ok b
  | VNodeId n => nodeid_ok n | VXNodeId x => xnodeid_ok x | VStatus z => in_range 0 U32MAX z
  | VQName q => qname_ok q | VExtObj e => extobj_ok e
  | VDataValue None r => dvrest_ok r
  | VDataValue (Some v') r => variant_ok v' && dvrest_ok r
  | VVariant v' => variant_ok v'
  | VDiag d => diag_ok d
  | VArray vals dims => forallb (in_range I32MIN I32MAX) vals &&
                        match dims with Some d => forallb (in_range 0 U32MAX) d | None => true end
  end.
Definition inscope (a : value) : bool :=
  match a with
  | AString _ | ALText _ => true
  | ABytes b => bstr_ok b | AGuid g => guid_ok g | ADate t => date_ok t
  | ANodeId n => nodeid_ok n | AXNodeId x => xnodeid_ok x | AStatus z => in_range 0 U32MAX z
  | AQName q => qname_ok q
  | ADataValue v r => variant_ok (VDataValue v r)
  | AVariant v => variant_ok v
  | AExtObj e => extobj_ok e | ADiag d => diag_ok d
  end.

(* ==== correspondence interface =============================================================== *)
(* CVal a: serialise a, deserialise the result.  CTree k t: deserialise the tree t as kind k
   (checks the reader model on shapes the writer does not produce; no property attached). *)
Inductive case := CVal (a : value) | CTree (k : Z) (t : tree).

(* output of a CVal case:
     [-2]                                       the serialiser panicked
     1 :: n :: <tree, n numbers> ++ 0 :: [txt]   the tree was rejected by the deserialiser
     1 :: n :: <tree> ++ 1 :: <value> ++ [eq; txt]
   eq = Rust `==` of the original and the deserialised value; txt = to_string / from_str gave the
   same as to_value / from_value (the text layer, an oracle). *)
Fixpoint list_eqb (a b : list Z) : bool :=
  match a, b with
  | [], [] => true
  | x :: a', y :: b' => (x =? y) && list_eqb a' b'
  | _, _ => false
  end.
Definition rust_eq (a a' : value) : bool := list_eqb (enc_value a) (enc_value a') && negb (has_nan a).

Definition run_with (c : cfg) (cs : case) : list Z :=
  match cs with
  | CVal a =>
      match to_tree c a with
      | None => [-2]
      | Some t =>
          let e := enc_tree t in
          1 :: zlen e :: e ++
          match of_tree c (fuel_for t) (kind a) t with
          | None => [0; 1]
          | Some a' => 1 :: enc_value a' ++ [if rust_eq a a' then 1 else 0; if text_readable t then 1 else 0]
          end
      end
  | CTree k t =>
      match of_tree c (fuel_for t) k t with
      | None => [0]
      | Some a' => 1 :: enc_value a'
      end
  end.
Definition run : case -> list Z := run_with now.

Module Legacy.
  Definition cfg0 : cfg := mk_cfg false false false false.
  Definition run : case -> list Z := run_with cfg0.
End Legacy.

(* The property: the value that comes back is the original (NaN payloads aside), Rust's `==` agrees
   unless a NaN is inside, and the text form gives the same.  Cases outside the quantifier (sub-
   millisecond or out-of-range times, empty identifiers, ...) carry no obligation. *)
Definition oracle (cs : case) (out : list Z) : bool :=
  match cs with
  | CVal a =>
      if negb (inscope a) then true
      else match out with
           | 1 :: n :: rest =>
               list_eqb (skipn (Z.to_nat n) rest)
                        (1 :: enc_value (norm a) ++ [if has_nan a then 0 else 1; 1])
           | _ => false
           end
  | CTree _ _ => true
  end.

(* known findings: 1 arrays (serialiser panics), 2 ExpandedNodeId with a namespace uri AND a non-zero
   namespace index (JSON has one Namespace field), 3 text nested deeper than serde_json reads *)
Definition known (cs : case) : Z :=
  match cs with
  | CVal a =>
      let v := match a with
               | ADataValue v r => VDataValue v r | AVariant v => v | AXNodeId x => VXNodeId x
               | _ => VEmpty end in
      if v_has_array v then 1 else if v_has_both v then 2
      else if DEPTH_LIMIT <? json_depth a then 3 else 0
  | CTree _ _ => 0
  end.

Definition valid (cs : case) : Prop :=
  match cs with CVal a => inscope a = true | CTree _ _ => True end.
