(* C11 — Framing is independent of how the byte stream is segmented.  Statements only.

   Part A is about the model of TcpCodec::decode ([decode]) and of a framed reader that calls it
   until it wants more bytes ([drain_all] on one buffer; [feed_all] segment by segment, carrying
   the residue).  Part B is about the model of the client SendBuffer driven by the transport's
   poll loop ([sb_run]) against a writer that takes ks[i] bytes at its i-th call. *)
From Coq Require Import List ZArith.
Import ListNotations.
From OV Require Import C11.Model C11.Proofs.
Open Scope Z_scope.

(* key lemma: decode is prefix-stable — a frame (or an error) decoded from b is decoded
   identically from b ++ x, for every decoding limit, buffer and continuation *)
Theorem C11_prefix_stable : forall o b x,
  (forall f r, decode o b = Got f r -> decode o (b ++ x) = Got f (r ++ x)) /\
  (forall e, decode o b = Fail e -> decode o (b ++ x) = Fail e).
Proof. intros; split; intros; [apply decode_got_app | apply decode_fail_app]; assumption. Qed.
Print Assumptions C11_prefix_stable.

(* for every list of segments (any number, any sizes down to single bytes and empty reads):
   feeding them one by one yields the same frames, in the same order, and the same final status
   (residue or error) as feeding the whole concatenation at once *)
Theorem C11_segments : forall o segs, feed_all o segs = drain_all o (concat segs).
Proof. exact segments. Qed.
Print Assumptions C11_segments.

(* hence any two segmentations of the same stream give the same result *)
Theorem C11_resegment : forall o s1 s2, concat s1 = concat s2 -> feed_all o s1 = feed_all o s2.
Proof. exact resegment. Qed.
Print Assumptions C11_resegment.

(* in particular none of the 2^(n-1) ways of cutting a stream into non-empty reads gives a result
   different from the whole stream's (the form the exhaustive correspondence cases use) *)
Theorem C11_all_segmentations_agree : forall o stream,
  filter (fun r => negb (list_eqb r (render (drain_all o stream))))
         (map (fun sg => render (feed_all o sg)) (segmentations stream)) = [] /\
  (forall sg, In sg (segmentations stream) -> concat sg = stream).
Proof. intros; split; [apply all_segmentations_agree | apply segmentations_concat]. Qed.
Print Assumptions C11_all_segmentations_agree.

(* frames already delivered are never changed by later bytes *)
Theorem C11_frames_prefix : forall o b x,
  exists more, fst (drain_all o (b ++ x)) = fst (drain_all o b) ++ more.
Proof. exact frames_prefix. Qed.
Print Assumptions C11_frames_prefix.

(* the codec refuses a declared size above the maximum as soon as the header is in, whatever
   follows; the code before the fix waited for the bytes *)
Theorem C11_oversize_refused : forall o b, 8 < len b -> 0 < max_message_size o ->
  max_message_size o < u32le (firstn 4 (skipn 4 b)) -> decode o b = Fail E_TOO_LARGE.
Proof. exact oversize_refused. Qed.
Print Assumptions C11_oversize_refused.

Theorem C11_legacy_waited :
  let o := mk_cfg 100 16 in let b := [72; 69; 76; 70; 255; 255; 255; 255; 1; 1; 1] in
  Legacy.decode o b = More /\ decode o b = Fail E_TOO_LARGE.
Proof. exact legacy_waits. Qed.
Print Assumptions C11_legacy_waited.

(* SendBuffer: for every chunk limit, every list of messages (each a list of secured chunks) and
   every sequence of partial-write sizes (zeros included), a run ends in exactly one of three
   ways, and the bytes emitted are
   - exactly the concatenation, in order, of the chunks of all messages when it goes idle,
   - exactly that of the messages before the first one write() refuses (chunk limit),
   - a prefix of it when the writer calls run out;
   nothing is lost, repeated or reordered, and no other ending (panic, invalid state) exists *)
Theorem C11_send : forall mc msgs ks,
  let out := sb_run (sb_fuel msgs ks) (sb_init mc) msgs ks in
  let '(acc, refused) := accepted mc msgs in
  (exists body, out = body ++ [END_IDLE] /\ refused = false /\ body = all_chunks acc) \/
  (exists body, out = body ++ [E_TOO_MANY_CHUNKS] /\ refused = true /\ body = all_chunks acc) \/
  (exists body, out = body ++ [END_WRITES] /\ is_prefix body (all_chunks acc) = true).
Proof. intros mc msgs ks. exact (send_ends mc msgs ks). Qed.
Print Assumptions C11_send.

(* the slice `&buffer[pos..end]` never panics (a panic marker in the output could only be a
   "byte" of an input chunk) *)
Theorem C11_send_no_panic : forall mc msgs ks,
  ~ In END_PANIC (sb_run (sb_fuel msgs ks) (sb_init mc) msgs ks) \/
  exists m c, In m msgs /\ In c m /\ In END_PANIC c.
Proof. exact send_no_panic. Qed.
Print Assumptions C11_send_no_panic.

Theorem C11_oracle : forall c, valid c -> known c = 0 -> oracle c (run c) = true.
Proof. exact oracle_holds. Qed.
Print Assumptions C11_oracle.
