(* C35 — Every client request completes exactly once.  Statements only.

   Schedules: any list of Submit (Request::send / send_no_response, any timeout), Pump (one turn of
   wait_for_outgoing_message + SendBuffer::write), Chunk (a response chunk: any request id known,
   unknown or already completed, any sequence number, intermediate / final / abort, any body),
   AckMsg / ErrMsg (other messages from the server), Advance (time passes), Close.
   [exec dec mi mp init ops]: the state after the schedule, for ANY decoder [dec] of merged chunks and
   any limits max_inflight [mi], max_pending_incoming [mp].  [submitted]: labels of the requests that
   have a callback; [done]: the log of all completions (label, 0, response marker | label, 1, status);
   [open]: labels still queued or pending. *)
From Coq Require Import List ZArith Permutation.
Import ListNotations.
From OV Require Import C35.Model C35.Proofs.
Open Scope Z_scope.

(* The ledger: at any point of any schedule every submitted request is in exactly one place -
   completed, pending or queued (as multisets, and no label is submitted twice). *)
Theorem C35_ledger : forall dec mi mp ops,
  let s := exec dec mi mp init ops in
  (forall k, count_occ Z.eq_dec (submitted s) k =
             (count_occ Z.eq_dec (done_ks s) k + count_occ Z.eq_dec (open s) k)%nat) /\
  NoDup (submitted s).
Proof. intros dec mi mp ops s. destruct (reach_inv dec mi mp ops) as [A _ B _]. split; assumption. Qed.
Print Assumptions C35_ledger.

(* No request ever completes twice, and only submitted requests complete. *)
Theorem C35_at_most_once : forall dec mi mp ops k,
  (count_occ Z.eq_dec (done_ks (exec dec mi mp init ops)) k <= 1)%nat /\
  (In k (done_ks (exec dec mi mp init ops)) -> In k (submitted (exec dec mi mp init ops))).
Proof. intros. split; [apply at_most_once|apply only_submitted]. Qed.
Print Assumptions C35_at_most_once.

(* Once the transport has closed (Close, a socket error, a protocol error, an undecodable response,
   a failed write), every submitted request has completed exactly once ... *)
Theorem C35_exactly_once : forall dec mi mp ops,
  closed (exec dec mi mp init ops) = true ->
  Permutation (submitted (exec dec mi mp init ops)) (done_ks (exec dec mi mp init ops)) /\
  forall k, In k (submitted (exec dec mi mp init ops)) ->
            count_occ Z.eq_dec (done_ks (exec dec mi mp init ops)) k = 1%nat.
Proof.
  intros dec mi mp ops Hc. split; [apply permutation_after_close; exact Hc|].
  intros k. apply exactly_once_after_close. exact Hc.
Qed.
Print Assumptions C35_exactly_once.

(* ... and a request submitted after that completes at once, with BadConnectionClosed. *)
Theorem C35_submit_after_close : forall dec mi mp s t kind,
  closed s = true -> kind <> 1 -> snd (step dec mi mp s (Submit t kind)) = [(next_k s, 1, 1)].
Proof. exact submit_after_close. Qed.
Print Assumptions C35_submit_after_close.

(* A response is delivered only by a chunk operation, to the request pending under the request id
   of that chunk, and it is decoded from chunks that all carry that request id. *)
Theorem C35_no_cross_delivery : forall dec mi mp ops o k m,
  let s := exec dec mi mp init ops in
  In (k, 0, m) (snd (step dec mi mp s o)) ->
  exists rid sq kind mid part n e,
    o = Chunk rid sq kind mid part n /\ find rid (pending s) = Some e /\ e_k e = k /\
    let cs := merge (e_chunks e ++ [mk_chunk rid sq kind mid part n]) in
    dec cs = inl m /\ Forall (fun c => k_rid c = rid) cs.
Proof.
  intros dec mi mp ops o k m s. apply response_provenance. apply exec_inv2. apply inv2_init.
Qed.
Print Assumptions C35_no_cross_delivery.

(* Chunks for a request id that is not pending are ignored: nothing changes, nothing completes. *)
Theorem C35_unknown_ignored : forall dec mi mp s rid sq kind mid part n,
  find rid (pending s) = None -> step dec mi mp s (Chunk rid sq kind mid part n) = (s, -1, []).
Proof. exact unknown_ignored. Qed.
Print Assumptions C35_unknown_ignored.

(* Once the request filed under an id has completed - by its response, BadTimeout, an abort, a
   close - every later chunk carrying that id is ignored, for ever (request ids are never reused). *)
Theorem C35_completed_ids_ignored : forall dec mi mp ops1 o ops2 rid e t v,
  let s := exec dec mi mp init ops1 in
  In (rid, e) (pending s) -> In (e_k e, t, v) (snd (step dec mi mp s o)) ->
  let s2 := exec dec mi mp (fst (fst (step dec mi mp s o))) ops2 in
  forall sq kind mid part n, step dec mi mp s2 (Chunk rid sq kind mid part n) = (s2, -1, []).
Proof. exact completed_ids_ignored. Qed.
Print Assumptions C35_completed_ids_ignored.

(* The reaper (next_timeout, at every turn of wait_for_outgoing_message) completes with BadTimeout
   exactly the pending requests whose deadline has passed, never one whose deadline has not. *)
Theorem C35_timeout_iff_deadline : forall dec mi mp s k,
  closed s = false ->
  (In (k, 1, 2) (snd (step dec mi mp s Pump)) <-> In (k, 1, 2) (timeouts (now s) (pending s))) /\
  (In (k, 1, 2) (timeouts (now s) (pending s)) <->
   exists rid e, In (rid, e) (pending s) /\ e_k e = k /\ e_deadline e <= now s).
Proof. intros dec mi mp s k Hc. split; [apply pump_timeouts; exact Hc|apply timeout_iff_deadline]. Qed.
Print Assumptions C35_timeout_iff_deadline.

(* The executable oracle applied to the implementation's observations holds on the model for every
   schedule (no validity hypothesis: every operation list is a schedule). *)
Theorem C35_oracle : forall c, valid c -> known c = 0 -> oracle c (run c) = true.
Proof. exact oracle_holds. Qed.
Print Assumptions C35_oracle.

(* The code before the fix: merging a response whose last chunk is numbered u32::MAX panicked. *)
Theorem C35_legacy_refuted :
  Legacy.merge [mk_chunk 1001 4294967294 0 70 0 2; mk_chunk 1001 4294967295 1 70 1 2] = None /\
  merge [mk_chunk 1001 4294967294 0 70 0 2; mk_chunk 1001 4294967295 1 70 1 2]
  = [mk_chunk 1001 4294967294 0 70 0 2; mk_chunk 1001 4294967295 1 70 1 2].
Proof. exact legacy_merge_panics. Qed.
Print Assumptions C35_legacy_refuted.

(* --- the hypotheses are satisfiable by a non-trivial schedule --------------------------------- *)
Definition ex_ops : list op :=
  [Submit 1 0; Submit 9 0; Submit 9 0; Pump; Pump; Pump; Chunk 1002 1 0 71 0 2; Advance 1; Pump;
   Chunk 1001 3 1 70 0 1; Chunk 1002 2 1 71 1 2; Submit 9 0; Close 0].

Example ex_run : run (mk_case 8 5 ex_ops) =
  [0; 0;  0; 0;  0; 0;  1001; 0; 0;  1002; 0; 0;  1003; 0; 0;  0; 0;  0; 0;  -1; 1; 0; 1; 2; 0;
   0; 0;  1; 1; 0; 71; 0;  0; 0;  2; 2; 1; 1; 3; 1; 1; 1].
Proof. vm_compute. reflexivity. Qed.

Example ex_closed :
  let s := exec decode_parts 8 5 init ex_ops in
  closed s = true /\ submitted s = [0; 1; 2; 3] /\ done s = [(0, 1, 2); (1, 0, 71); (2, 1, 1); (3, 1, 1)].
Proof. vm_compute. repeat split. Qed.

Example ex_pending_and_completing :
  let s := exec decode_parts 8 5 init (firstn 8 ex_ops) in
  exists e, In (1001, e) (pending s) /\ In (e_k e, 1, 2) (snd (step decode_parts 8 5 s Pump)).
Proof. eexists. split; [vm_compute; left; reflexivity|vm_compute; left; reflexivity]. Qed.
