//! C34: node management (AddNodes / AddReferences / DeleteNodes / DeleteReferences) through the
//! real `NodeManagementService` (hooks `server::services::verif_asvc::*`) against a real
//! `AddressSpace` built from the case: a small set of nodes and references, the global
//! `NodeId::next_numeric` counter set by the hook `NodeId::verif_set_next_numeric`.
//!
//! Node ids are numeric only and written as `ns * 2^32 + value` (0 = null).  Browse names are
//! `(namespace, code)`: code 0 = null string, 1 = "", 20.. = names with reserved relative path
//! characters (`SPECIAL`), other k >= 2 = "n<k>".
//! Output per request: `-10` (BadNothingToDo fault), `-11` (BadTooManyOperations fault), or per
//! item `status, returned id, changed flag [, digest]` where the digest (only when the address
//! space differs from the previous observation) is `#nodes, (id, class, bns, bname)*, #refs,
//! (src, type, tgt)*`, both sorted.  A panic inside a request is `-2, changed [, digest]`.
#[path = "../util.rs"]
mod util;
use util::*;

use opcua::core::supported_message::SupportedMessage;
use opcua::server::address_space::types::*;
use opcua::server::address_space::{AddressSpace, EventNotifier};
use opcua::server::prelude::{ReferenceDirection, ServerBuilder};
use opcua::server::services::verif_asvc;
use opcua::server::session::Session;
use opcua::server::state::ServerState;
use opcua::sync::RwLock;
use opcua::types::*;
use std::collections::BTreeSet;
use std::sync::{Arc, OnceLock};

const NS: i128 = 1 << 32;

#[derive(Clone, Debug)]
pub struct Node { id: i128, class: i128, bns: i128, bname: i128 }
#[derive(Clone, Debug)]
pub struct AN { parent: i128, parent_srv: i128, reftype: i128, req: i128, req_srv: i128, bns: i128, bname: i128, class: i128, attr: i128, attr_ok: bool, dims_null: bool, typedef: i128 }
#[derive(Clone, Debug)]
pub struct AR { src: i128, reftype: i128, fwd: bool, uri_null: bool, tgt: i128, tgt_srv: i128, tclass: i128 }
#[derive(Clone, Debug)]
pub struct DN { id: i128, dtr: bool }
#[derive(Clone, Debug)]
pub struct DR { src: i128, reftype: i128, fwd: bool, tgt: i128, tgt_srv: i128, bidir: bool }
#[derive(Clone, Debug)]
pub enum Req { AddNodes(Vec<AN>), AddRefs(Vec<AR>), DelNodes(Vec<DN>), DelRefs(Vec<DR>) }
#[derive(Clone, Debug)]
pub struct Case { nslen: i128, can_modify: bool, ctr0: u64, nodes: Vec<Node>, refs: Vec<(i128, i128, i128)>, reqs: Vec<Req> }
pub struct P;

fn nid(z: i128) -> NodeId { NodeId::new((z >> 32) as u16, (z & 0xffff_ffff) as u32) }
fn zid(n: &NodeId) -> i128 {
    match n.identifier { Identifier::Numeric(v) => (n.namespace as i128) * NS + v as i128, _ => -1 }
}
fn xid(z: i128, srv: i128) -> ExpandedNodeId {
    ExpandedNodeId { node_id: nid(z), namespace_uri: UAString::null(), server_index: srv as u32 }
}
/// names with the reserved characters of the relative path text syntax: codes 20..
const SPECIAL: &[&str] = &["a/b", "x.y", "<t", "a&b", "#!", "3:z", "&", "/", "<0:HasChild>q", "a>b"];
fn name_of(code: i128) -> UAString {
    match code {
        0 => UAString::null(), 1 => UAString::from(""),
        k if k >= 20 && ((k - 20) as usize) < SPECIAL.len() => UAString::from(SPECIAL[(k - 20) as usize]),
        k => UAString::from(format!("n{}", k)) }
}
fn code_of(s: &UAString) -> i128 {
    if s.is_null() { return 0; }
    let v = s.as_ref();
    if v.is_empty() { return 1; }
    if let Some(k) = SPECIAL.iter().position(|x| *x == v) { return 20 + k as i128; }
    v.strip_prefix('n').and_then(|d| d.parse::<i128>().ok()).unwrap_or(-1)
}
fn qn(bns: i128, code: i128) -> QualifiedName { QualifiedName { namespace_index: bns as u16, name: name_of(code) } }
fn class_of(c: i128) -> NodeClass {
    match c { 1 => NodeClass::Object, 2 => NodeClass::Variable, 4 => NodeClass::Method, 8 => NodeClass::ObjectType,
        16 => NodeClass::VariableType, 32 => NodeClass::ReferenceType, 64 => NodeClass::DataType, 128 => NodeClass::View,
        _ => NodeClass::Unspecified }
}

fn make_node(n: &Node) -> NodeType {
    let id = nid(n.id);
    let bn = qn(n.bns, n.bname);
    let dn = LocalizedText::from("d");
    match n.class {
        1 => Object::new(&id, bn, dn, EventNotifier::empty()).into(),
        2 => Variable::new(&id, bn, dn, 0i32).into(),
        4 => Method::new(&id, bn, dn, true, true).into(),
        8 => ObjectType::new(&id, bn, dn, false).into(),
        16 => VariableType::new(&id, bn, dn, DataTypeId::BaseDataType.into(), false, -1).into(),
        32 => ReferenceType::new(&id, bn, dn, None, false, false).into(),
        64 => DataType::new(&id, bn, dn, false).into(),
        _ => View::new(&id, bn, dn, EventNotifier::empty(), true).into(),
    }
}

/// node attributes of the given class; `ok` = every mandatory attribute is specified
fn attributes(class: i128, ok: bool, dims_null: bool) -> ExtensionObject {
    // array dimensions are a null array everywhere; the ArrayDimensions bit is specified only if `dims_null`
    let all = if !ok { 0 } else if dims_null { AttributesMask::all().bits() } else { (AttributesMask::all() - AttributesMask::ARRAY_DIMENSIONS).bits() };
    let dn = LocalizedText::from("a");
    let de = LocalizedText::null();
    match class {
        1 => ExtensionObject::from_encodable(ObjectId::ObjectAttributes_Encoding_DefaultBinary, &ObjectAttributes {
            specified_attributes: all, display_name: dn, description: de, write_mask: 0, user_write_mask: 0, event_notifier: 0 }),
        2 => ExtensionObject::from_encodable(ObjectId::VariableAttributes_Encoding_DefaultBinary, &VariableAttributes {
            specified_attributes: all, display_name: dn, description: de, write_mask: 0, user_write_mask: 0,
            value: Variant::from(true), data_type: DataTypeId::Boolean.into(), value_rank: -1, array_dimensions: None,
            access_level: 1, user_access_level: 1, minimum_sampling_interval: 0.0, historizing: false }),
        4 => ExtensionObject::from_encodable(ObjectId::MethodAttributes_Encoding_DefaultBinary, &MethodAttributes {
            specified_attributes: all, display_name: dn, description: de, write_mask: 0, user_write_mask: 0, executable: true, user_executable: true }),
        8 => ExtensionObject::from_encodable(ObjectId::ObjectTypeAttributes_Encoding_DefaultBinary, &ObjectTypeAttributes {
            specified_attributes: all, display_name: dn, description: de, write_mask: 0, user_write_mask: 0, is_abstract: false }),
        16 => ExtensionObject::from_encodable(ObjectId::VariableTypeAttributes_Encoding_DefaultBinary, &VariableTypeAttributes {
            specified_attributes: all, display_name: dn, description: de, write_mask: 0, user_write_mask: 0,
            value: Variant::Empty, data_type: DataTypeId::Boolean.into(), value_rank: -1, array_dimensions: None, is_abstract: false }),
        32 => ExtensionObject::from_encodable(ObjectId::ReferenceTypeAttributes_Encoding_DefaultBinary, &ReferenceTypeAttributes {
            specified_attributes: all, display_name: dn, description: de, write_mask: 0, user_write_mask: 0,
            is_abstract: false, symmetric: false, inverse_name: LocalizedText::from("i") }),
        64 => ExtensionObject::from_encodable(ObjectId::DataTypeAttributes_Encoding_DefaultBinary, &DataTypeAttributes {
            specified_attributes: all, display_name: dn, description: de, write_mask: 0, user_write_mask: 0, is_abstract: false }),
        128 => ExtensionObject::from_encodable(ObjectId::ViewAttributes_Encoding_DefaultBinary, &ViewAttributes {
            specified_attributes: all, display_name: dn, description: de, write_mask: 0, user_write_mask: 0, contains_no_loops: true, event_notifier: 0 }),
        // an object id that is not a node attributes encoding
        3 => ExtensionObject::from_encodable(ObjectId::Argument_Encoding_DefaultBinary, &Argument {
            name: UAString::null(), data_type: NodeId::null(), value_rank: -1, array_dimensions: None, description: de }),
        _ => ExtensionObject::null(),
    }
}

fn status(s: StatusCode) -> i128 {
    let t: &[StatusCode] = &[StatusCode::Good, StatusCode::BadUserAccessDenied, StatusCode::BadNodeIdRejected, StatusCode::BadNodeClassInvalid,
        StatusCode::BadNodeIdExists, StatusCode::BadBrowseNameInvalid, StatusCode::BadBrowseNameDuplicated, StatusCode::BadReferenceTypeIdInvalid,
        StatusCode::BadTypeDefinitionInvalid, StatusCode::BadParentNodeIdInvalid, StatusCode::BadNodeAttributesInvalid, StatusCode::BadServerUriInvalid,
        StatusCode::BadReferenceLocalOnly, StatusCode::BadSourceNodeIdInvalid, StatusCode::BadTargetNodeIdInvalid,
        StatusCode::BadDuplicateReferenceNotAllowed, StatusCode::BadNodeIdUnknown, StatusCode::BadInvalidSelfReference];
    for (i, c) in t.iter().enumerate() { if s == *c { return i as i128; } }
    if s.is_good() { 98 } else { 99 }
}

/// two server states: [0] clients may not modify the address space, [1] they may
fn states() -> &'static [Arc<RwLock<ServerState>>; 2] {
    static S: OnceLock<[Arc<RwLock<ServerState>>; 2]> = OnceLock::new();
    S.get_or_init(|| {
        let a = ServerBuilder::new_sample().pki_dir("/tmp/verif-asvc-pki").server().unwrap();
        let b = ServerBuilder::new_sample().pki_dir("/tmp/verif-asvc-pki").clients_can_modify_address_space().server().unwrap();
        let r = [a.server_state(), b.server_state()];
        std::mem::forget(a);
        std::mem::forget(b);
        r
    })
}

fn digest(a: &AddressSpace, universe: &BTreeSet<i128>) -> Vec<i128> {
    let mut nodes = Vec::new();
    let mut refs = BTreeSet::new();
    for u in universe {
        let id = nid(*u);
        if let Some(n) = a.find_node(&id) {
            let bn = n.as_node().browse_name();
            nodes.push((*u, n.node_class() as i128, bn.namespace_index as i128, code_of(&bn.name)));
        }
        if let Some(rs) = a.find_references(&id, None::<(NodeId, bool)>) {
            for r in rs { refs.insert((*u, zid(&r.reference_type), zid(&r.target_node))); }
        }
    }
    // every node of the address space must be one of the ids the case speaks about
    if a.verif_node_count() != nodes.len() { return vec![-5, a.verif_node_count() as i128]; }
    let mut d = vec![nodes.len() as i128];
    for n in nodes { d.extend([n.0, n.1, n.2, n.3]); }
    d.push(refs.len() as i128);
    for r in refs { d.extend([r.0, r.1, r.2]); }
    d
}

fn hdr() -> RequestHeader { RequestHeader::dummy() }

impl Case {
    fn universe(&self) -> BTreeSet<i128> {
        let mut u = BTreeSet::new();
        for n in &self.nodes { u.insert(n.id); }
        for r in &self.refs { u.insert(r.0); u.insert(r.1); u.insert(r.2); }
        for q in &self.reqs {
            match q {
                Req::AddNodes(v) => for i in v { u.extend([i.parent, i.reftype, i.req, i.typedef]); },
                Req::AddRefs(v) => for i in v { u.extend([i.src, i.reftype, i.tgt]); },
                Req::DelNodes(v) => for i in v { u.insert(i.id); },
                Req::DelRefs(v) => for i in v { u.extend([i.src, i.reftype, i.tgt]); },
            }
        }
        u
    }
}

fn b(x: bool) -> &'static str { coq_bool(x) }

impl Property for P {
    type Case = Case;
    fn fixed(tier: &str) -> Vec<Case> { fixed_cases(tier) }
    fn gen(r: &mut Rng) -> Case { gen_case(r) }

    fn exec(c: &Case) -> Out {
        let server_state = states()[c.can_modify as usize].clone();
        let session = Arc::new(RwLock::new(Session::new(server_state.clone())));
        let mut space = AddressSpace::default();
        for k in 1..c.nslen { let _ = space.register_namespace(&format!("urn:verif:{}", k)); }
        for n in &c.nodes {
            let _ = space.insert(make_node(n), None::<&[(&NodeId, &NodeId, ReferenceDirection)]>);
        }
        for (s, t, d) in &c.refs { space.insert_reference(&nid(*s), &nid(*d), nid(*t)); }
        let space = Arc::new(RwLock::new(space));
        let mut universe = c.universe();
        let mut last = digest(&space.read(), &universe);
        NodeId::verif_set_next_numeric(c.ctr0 as usize);

        let mut out: Vec<i128> = Vec::new();
        let mut n_good = 0;
        let mut n_items = 0;
        for q in &c.reqs {
            // each request is run under catch_unwind; the result is a list of (status, id) or a fault code
            let res: Result<Result<Vec<(i128, i128)>, i128>, String> = guarded(|| {
                let resp = match q {
                    Req::AddNodes(v) => verif_asvc::add_nodes(server_state.clone(), session.clone(), space.clone(), &AddNodesRequest {
                        request_header: hdr(),
                        nodes_to_add: Some(v.iter().map(|i| AddNodesItem {
                            parent_node_id: xid(i.parent, i.parent_srv), reference_type_id: nid(i.reftype),
                            requested_new_node_id: xid(i.req, i.req_srv), browse_name: qn(i.bns, i.bname), node_class: class_of(i.class),
                            node_attributes: attributes(i.attr, i.attr_ok, i.dims_null), type_definition: xid(i.typedef, 0) }).collect()) }),
                    Req::AddRefs(v) => verif_asvc::add_references(server_state.clone(), session.clone(), space.clone(), &AddReferencesRequest {
                        request_header: hdr(),
                        references_to_add: Some(v.iter().map(|i| AddReferencesItem {
                            source_node_id: nid(i.src), reference_type_id: nid(i.reftype), is_forward: i.fwd,
                            target_server_uri: if i.uri_null { UAString::null() } else { UAString::from("urn:other") },
                            target_node_id: xid(i.tgt, i.tgt_srv), target_node_class: class_of(i.tclass) }).collect()) }),
                    Req::DelNodes(v) => verif_asvc::delete_nodes(server_state.clone(), session.clone(), space.clone(), &DeleteNodesRequest {
                        request_header: hdr(),
                        nodes_to_delete: Some(v.iter().map(|i| DeleteNodesItem { node_id: nid(i.id), delete_target_references: i.dtr }).collect()) }),
                    Req::DelRefs(v) => verif_asvc::delete_references(server_state.clone(), session.clone(), space.clone(), &DeleteReferencesRequest {
                        request_header: hdr(),
                        references_to_delete: Some(v.iter().map(|i| DeleteReferencesItem {
                            source_node_id: nid(i.src), reference_type_id: nid(i.reftype), is_forward: i.fwd,
                            target_node_id: xid(i.tgt, i.tgt_srv), delete_bidirectional: i.bidir }).collect()) }),
                };
                match resp {
                    SupportedMessage::AddNodesResponse(r) => Ok(r.results.unwrap_or_default().iter().map(|x| (status(x.status_code), zid(&x.added_node_id))).collect()),
                    SupportedMessage::AddReferencesResponse(r) => Ok(r.results.unwrap_or_default().iter().map(|x| (status(*x), 0)).collect()),
                    SupportedMessage::DeleteNodesResponse(r) => Ok(r.results.unwrap_or_default().iter().map(|x| (status(*x), 0)).collect()),
                    SupportedMessage::DeleteReferencesResponse(r) => Ok(r.results.unwrap_or_default().iter().map(|x| (status(*x), 0)).collect()),
                    SupportedMessage::ServiceFault(f) => Err(
                        if f.response_header.service_result == StatusCode::BadNothingToDo { -10 }
                        else if f.response_header.service_result == StatusCode::BadTooManyOperations { -11 } else { -12 }),
                    _ => Err(-13),
                }
            });
            // A multi-item request is observed as a whole: the state is digested after the request, so
            // requests in the cases carry one item each, except for the request-level checks.
            match res {
                Ok(Ok(items)) => {
                    let k = items.len();
                    for (j, (st, id)) in items.into_iter().enumerate() {
                        n_items += 1;
                        if st == 0 { n_good += 1; }
                        out.push(st);
                        out.push(id);
                        if id > 0 { universe.insert(id); }
                        if j + 1 == k {
                            let d = digest(&space.read(), &universe);
                            if d == last { out.push(0); } else { out.push(1); out.extend(d.iter().cloned()); last = d; }
                        } else {
                            out.push(2); // not observed between the items of one request
                        }
                    }
                }
                Ok(Err(code)) => out.push(code),
                Err(msg) => {
                    if std::env::var("VERIF_DEBUG").is_ok() { eprintln!("panic: {}", msg); }
                    out.push(-2);
                    let d = digest(&space.read(), &universe);
                    if d == last { out.push(0); } else { out.push(1); out.extend(d.iter().cloned()); last = d; }
                }
            }
        }

        let tag = format!("{}{}{}", if !c.can_modify { "denied" } else if n_items == 0 { "trivial-noitems" } else if n_good == 0 { "allbad" } else if n_good == n_items { "allgood" } else { "mixed" },
            if c.reqs.iter().any(|q| matches!(q, Req::AddNodes(v) if v.iter().any(|i| i.req == 0))) { "-autoid" } else { "" },
            if out.contains(&-2) { "-panic" } else { "" });
        let term = format!("(mk_case {} {} {} {} {} {})", z(c.nslen), b(c.can_modify), z(c.ctr0 as i128),
            coq_list(&c.nodes, |n| format!("(mk_node {} {} {} {})", z(n.id), z(n.class), z(n.bns), z(n.bname))),
            coq_list(&c.refs, |r| format!("({}, {}, {})", z(r.0), z(r.1), z(r.2))),
            coq_list(&c.reqs, |q| match q {
                Req::AddNodes(v) => format!("(RAddNodes {})", coq_list(v, |i| format!("(AN {} {} {} {} {} {} {} {} {} {} {} {})",
                    z(i.parent), z(i.parent_srv), z(i.reftype), z(i.req), z(i.req_srv), z(i.bns), z(i.bname), z(i.class), z(i.attr), b(i.attr_ok), b(i.dims_null), z(i.typedef)))),
                Req::AddRefs(v) => format!("(RAddRefs {})", coq_list(v, |i| format!("(AR {} {} {} {} {} {} {})",
                    z(i.src), z(i.reftype), b(i.fwd), b(i.uri_null), z(i.tgt), z(i.tgt_srv), z(i.tclass)))),
                Req::DelNodes(v) => format!("(RDelNodes {})", coq_list(v, |i| format!("(DN {} {})", z(i.id), b(i.dtr)))),
                Req::DelRefs(v) => format!("(RDelRefs {})", coq_list(v, |i| format!("(DR {} {} {} {} {} {})",
                    z(i.src), z(i.reftype), b(i.fwd), z(i.tgt), z(i.tgt_srv), b(i.bidir)))),
            }));
        Out { tag, term, out }
    }
}

// ---- cases ---------------------------------------------------------------------------------

const OBJECTS: i128 = 85;
const OTYPE: i128 = 58;
const VTYPE: i128 = 62;
fn n1(v: i128) -> i128 { NS + v }

/// the standard HasSubtype edges between the hierarchical reference types (all from a smaller to a larger id)
const SUBTYPES: &[(i128, i128)] = &[(33, 34), (33, 35), (33, 36), (34, 44), (34, 45), (44, 46), (44, 47), (47, 49), (36, 48)];

fn base_nodes() -> Vec<Node> {
    vec![Node { id: OBJECTS, class: 1, bns: 0, bname: 2 }, Node { id: OTYPE, class: 8, bns: 0, bname: 3 }, Node { id: VTYPE, class: 16, bns: 0, bname: 4 }]
}
fn base_refs() -> Vec<(i128, i128, i128)> { SUBTYPES.iter().map(|(a, c)| (*a, 45, *c)).collect() }
fn an(parent: i128, reftype: i128, req: i128, bname: i128, class: i128, typedef: i128) -> AN {
    AN { parent, parent_srv: 0, reftype, req, req_srv: 0, bns: 0, bname, class, attr: class, attr_ok: true, dims_null: false, typedef }
}
fn case(ctr0: u64, nodes: Vec<Node>, refs: Vec<(i128, i128, i128)>, reqs: Vec<Req>) -> Case {
    Case { nslen: 2, can_modify: true, ctr0, nodes, refs, reqs }
}

fn fixed_cases(_tier: &str) -> Vec<Case> {
    let obj = |req, bname| Req::AddNodes(vec![an(OBJECTS, 35, req, bname, 1, OTYPE)]);
    let mut v = vec![
        // plain add, server-assigned id
        case(1000, base_nodes(), base_refs(), vec![obj(0, 10)]),
        // the same browse name twice under one parent: the second one is a duplicate (before the
        // direction fix both were Good because the parent did not reference the first node)
        case(1000, base_nodes(), base_refs(), vec![obj(0, 10), obj(0, 10)]),
        // server-assigned id collides with existing nodes 1:5 and 1:6 (before the fix: Good, nothing inserted)
        case(5, { let mut n = base_nodes(); n.push(Node { id: n1(5), class: 1, bns: 0, bname: 7 }); n.push(Node { id: n1(6), class: 2, bns: 0, bname: 8 }); n },
             base_refs(), vec![obj(0, 10), obj(0, 11)]),
        // counter wraps around u32 and usize
        case(u32::MAX as u64, base_nodes(), base_refs(), vec![obj(0, 10), obj(0, 11)]),
        case(u64::MAX, base_nodes(), base_refs(), vec![obj(0, 10), obj(0, 11)]),
        // browse name in namespace 2 (panicked before the fix)
        case(0, base_nodes(), base_refs(), vec![Req::AddNodes(vec![AN { bns: 2, ..an(OBJECTS, 35, 0, 10, 1, OTYPE) }])]),
        // requested id; again (exists); variable; wrong type definition; missing parent; bad reference type; attributes of another class
        case(0, base_nodes(), base_refs(), vec![obj(n1(100), 10), obj(n1(100), 11),
            Req::AddNodes(vec![an(n1(100), 47, n1(101), 12, 2, VTYPE)]),
            Req::AddNodes(vec![an(n1(100), 47, n1(102), 13, 2, OTYPE)]),
            Req::AddNodes(vec![an(n1(77), 47, n1(102), 13, 1, OTYPE)]),
            Req::AddNodes(vec![an(OBJECTS, 1000, n1(102), 13, 1, OTYPE)]),
            Req::AddNodes(vec![AN { attr: 2, ..an(OBJECTS, 35, n1(102), 13, 1, OTYPE) }]),
            Req::AddNodes(vec![AN { attr_ok: false, ..an(OBJECTS, 35, n1(102), 13, 1, OTYPE) }]),
            Req::AddNodes(vec![an(OBJECTS, 35, n1(103), 14, 4, 0)]),
            Req::AddNodes(vec![an(OBJECTS, 35, n1(104), 15, 4, OTYPE)])]),
        // parent on another server
        case(0, base_nodes(), base_refs(), vec![Req::AddNodes(vec![AN { parent_srv: 5, ..an(OBJECTS, 35, 0, 10, 1, OTYPE) }]),
            Req::AddNodes(vec![AN { parent_srv: u32::MAX as i128, ..an(OBJECTS, 35, 0, 11, 1, OTYPE) }])]),
        // requested id in a namespace that is not registered
        case(0, base_nodes(), base_refs(), vec![obj(3 * NS + 7, 10)]),
        // request-level checks
        case(0, base_nodes(), base_refs(), vec![Req::AddNodes(vec![]), Req::AddRefs(vec![]), Req::DelNodes(vec![]), Req::DelRefs(vec![]),
            Req::DelNodes((0..101).map(|k| DN { id: n1(k), dtr: true }).collect())]),
        // references: add, duplicate, inverse, delete, bidirectional
        case(0, base_nodes(), base_refs(), vec![obj(n1(100), 10), obj(n1(101), 11),
            Req::AddRefs(vec![AR { src: n1(100), reftype: 47, fwd: true, uri_null: true, tgt: n1(101), tgt_srv: 0, tclass: 1 }]),
            Req::AddRefs(vec![AR { src: n1(100), reftype: 47, fwd: true, uri_null: true, tgt: n1(101), tgt_srv: 0, tclass: 1 }]),
            Req::AddRefs(vec![AR { src: n1(101), reftype: 47, fwd: false, uri_null: true, tgt: n1(100), tgt_srv: 0, tclass: 1 }]),
            Req::AddRefs(vec![AR { src: n1(100), reftype: 47, fwd: true, uri_null: true, tgt: n1(101), tgt_srv: 0, tclass: 2 }]),
            Req::AddRefs(vec![AR { src: n1(100), reftype: 47, fwd: true, uri_null: false, tgt: n1(101), tgt_srv: 0, tclass: 1 }]),
            Req::DelRefs(vec![DR { src: n1(101), reftype: 47, fwd: false, tgt: n1(100), tgt_srv: 0, bidir: false }]),
            Req::DelRefs(vec![DR { src: OBJECTS, reftype: 35, fwd: true, tgt: n1(100), tgt_srv: 0, bidir: true }]),
            Req::DelRefs(vec![DR { src: OBJECTS, reftype: 35, fwd: true, tgt: n1(100), tgt_srv: 1, bidir: true }])]),
        // self reference
        case(0, base_nodes(), base_refs(), vec![Req::AddRefs(vec![AR { src: OBJECTS, reftype: 47, fwd: true, uri_null: true, tgt: OBJECTS, tgt_srv: 0, tclass: 1 }])]),
        // delete with children, with and without target references
        case(0, base_nodes(), base_refs(), vec![obj(n1(100), 10), Req::AddNodes(vec![an(n1(100), 47, n1(101), 11, 1, OTYPE)]),
            Req::AddNodes(vec![an(n1(101), 46, n1(102), 12, 2, VTYPE)]), Req::DelNodes(vec![DN { id: n1(100), dtr: true }]), Req::DelNodes(vec![DN { id: n1(100), dtr: true }])]),
        // a deleted node whose references were kept is deleted again after one of its children was re-created
        case(0, base_nodes(), base_refs(), vec![obj(n1(100), 10), Req::AddNodes(vec![an(n1(100), 47, n1(101), 11, 1, OTYPE)]),
            Req::DelNodes(vec![DN { id: n1(100), dtr: false }]), obj(n1(101), 12), Req::DelNodes(vec![DN { id: n1(100), dtr: false }])]),
        // no rights
        Case { can_modify: false, ..case(0, base_nodes(), base_refs(), vec![obj(0, 10), Req::DelNodes(vec![DN { id: OBJECTS, dtr: true }]),
            Req::AddRefs(vec![AR { src: OBJECTS, reftype: 47, fwd: true, uri_null: true, tgt: OTYPE, tgt_srv: 0, tclass: 8 }]),
            Req::DelRefs(vec![DR { src: 33, reftype: 45, fwd: true, tgt: 34, tgt_srv: 0, bidir: false }])]) },
    ];
    // variable / variable type attributes that specify ArrayDimensions with a null array (panicked before the fix)
    v.push(case(0, base_nodes(), base_refs(), vec![
        Req::AddNodes(vec![AN { dims_null: true, ..an(OBJECTS, 47, 0, 10, 2, VTYPE) }]),
        Req::AddNodes(vec![AN { dims_null: true, ..an(VTYPE, 45, n1(200), 11, 16, 0) }]),
        Req::AddNodes(vec![AN { dims_null: true, ..an(OBJECTS, 35, 0, 12, 1, OTYPE) }])]));
    // several items in one request, the second one failing
    v.push(case(7, base_nodes(), base_refs(), vec![
        Req::AddNodes(vec![an(OBJECTS, 35, 0, 10, 1, OTYPE), an(OBJECTS, 35, 0, 10, 1, OTYPE), an(OBJECTS, 47, n1(7), 11, 2, VTYPE)]),
        Req::DelNodes(vec![DN { id: n1(7), dtr: true }, DN { id: n1(7), dtr: true }])]));
    // browse names in namespace 2 (all rejected with BadBrowseNameInvalid before the fix): Good, the same
    // name again is a duplicate, the same name in namespace 0 is another name
    v.push(Case { nslen: 3, ..case(0, base_nodes(), base_refs(), vec![
        Req::AddNodes(vec![AN { bns: 2, ..an(OBJECTS, 35, 0, 10, 1, OTYPE) }]),
        Req::AddNodes(vec![AN { bns: 2, ..an(OBJECTS, 35, 0, 10, 1, OTYPE) }]),
        Req::AddNodes(vec![an(OBJECTS, 35, 0, 10, 1, OTYPE)])]) });
    // names with reserved characters of the relative path text syntax are names like any other
    v.push(case(0, base_nodes(), base_refs(), (20..30).flat_map(|k| vec![
        Req::AddNodes(vec![an(OBJECTS, 47, 0, k, 1, OTYPE)]), Req::AddNodes(vec![an(OBJECTS, 35, 0, k, 1, OTYPE)])]).collect()));
    v.push(case(0, base_nodes(), base_refs(), vec![
        Req::AddNodes(vec![an(OBJECTS, 35, n1(300), 2, 1, OTYPE)]),       // "n2"
        Req::AddNodes(vec![an(n1(300), 47, n1(301), 3, 1, OTYPE)]),       // "n3" under it
        Req::AddNodes(vec![an(OBJECTS, 35, 0, 20, 1, OTYPE)]),            // "a/b"
        Req::AddNodes(vec![AN { bns: 3, ..an(OBJECTS, 35, 0, 29, 1, OTYPE) }]),
        Req::AddNodes(vec![AN { bns: 3, ..an(OBJECTS, 35, 0, 29, 1, OTYPE) }])]));
    // empty name / null name
    v.push(case(0, base_nodes(), base_refs(), vec![obj(0, 0), obj(0, 1)]));
    v
}

const CLASSES: &[i128] = &[1, 2, 4, 8, 16, 32, 64, 128];
const REFTYPES: &[i128] = &[35, 47, 46, 44, 33, 40, 45, 31, 36, 23469, 0, 42, NS + 47];

fn gen_case(r: &mut Rng) -> Case {
    let nslen = *r.pick(&[1i128, 2, 2, 2, 3]);
    let can_modify = !r.chance(1, 12);
    // id pool: allocator range in ns 1, some ns 0 ids (also reference type ids), other namespaces
    let mut pool: Vec<i128> = vec![n1(0), n1(1), n1(2), n1(3), n1(100), n1(101), n1(u32::MAX as i128), OBJECTS, OTYPE, VTYPE, 44, 47, 2 * NS + 7];
    if r.chance(1, 6) { pool.push(3 * NS + 7); }
    let ctr0: u64 = match r.below(8) { 0 => 0, 1 => 1, 2 => u32::MAX as u64 - 1, 3 => (1u64 << 32) + 99, 4 => 100, 5 => u64::MAX - 1, 6 => r.below(4), _ => 1000 + r.below(5) };
    let mut nodes = Vec::new();
    if r.chance(5, 6) { nodes.extend(base_nodes()); }
    for id in pool.clone() {
        if nodes.iter().any(|n: &Node| n.id == id) { continue; }
        if (id >> 32) >= nslen + 1 { continue; } // AddressSpace::insert asserts the namespace
        if r.chance(1, 3) {
            nodes.push(Node { id, class: *r.pick(CLASSES), bns: if r.chance(1, 6) { 2 } else { 0 }, bname: if r.chance(1, 8) { 20 + r.below(3) as i128 } else { 2 + r.below(4) as i128 } });
        }
    }
    let mut refs: Vec<(i128, i128, i128)> = Vec::new();
    for e in SUBTYPES { if r.chance(5, 6) { refs.push((e.0, 45, e.1)); } }
    for _ in 0..r.below(7) {
        let s = *r.pick(&pool); let d = *r.pick(&pool);
        let t = *r.pick(&[35i128, 47, 46, 44, 40, 33, 36]);
        if s != d && !refs.contains(&(s, t, d)) { refs.push((s, t, d)); }
    }
    let pick_id = |r: &mut Rng| -> i128 { if r.chance(1, 12) { 0 } else { *r.pick(&pool) } };
    let srv = |r: &mut Rng| -> i128 { if r.chance(1, 10) { *r.pick(&[1i128, 5, u32::MAX as i128]) } else { 0 } };
    let mut reqs = Vec::new();
    for _ in 0..1 + r.below(8) {
        let one = match r.below(10) {
            0..=3 => {
                let class = if r.chance(1, 12) { 0 } else { *r.pick(CLASSES) };
                let typedef = match class { 1 => if r.chance(5, 6) { OTYPE } else { pick_id(r) }, 2 => if r.chance(5, 6) { VTYPE } else { pick_id(r) },
                    _ => if r.chance(5, 6) { 0 } else { pick_id(r) } };
                let mut i = AN { parent: if r.chance(1, 2) { OBJECTS } else { pick_id(r) }, parent_srv: srv(r), reftype: *r.pick(REFTYPES),
                    req: if r.chance(1, 2) { 0 } else { pick_id(r) }, req_srv: srv(r), bns: if r.chance(1, 5) { 2 } else { 0 },
                    bname: if r.chance(1, 10) { r.below(2) as i128 } else if r.chance(1, 8) { 20 + r.below(3) as i128 } else { 2 + r.below(4) as i128 }, class,
                    attr: if r.chance(1, 10) { *r.pick(&[0i128, 3, 1, 2, 128]) } else { class }, attr_ok: !r.chance(1, 10), dims_null: r.chance(1, 4), typedef };
                // never build a HasSubtype edge against the id order (the subtype search of the real code
                // does not terminate on a cycle)
                if i.reftype == 45 && !(i.req != 0 && i.parent < i.req) { i.reftype = 47; }
                Req::AddNodes(vec![i])
            }
            4..=5 => {
                let tgt = pick_id(r);
                let tclass = if r.chance(1, 5) { *r.pick(&[0i128, 1, 2, 8]) } else { nodes.iter().find(|n| n.id == tgt).map(|n| n.class).unwrap_or(1) };
                let mut i = AR { src: pick_id(r), reftype: *r.pick(REFTYPES), fwd: r.chance(2, 3), uri_null: !r.chance(1, 12), tgt, tgt_srv: srv(r), tclass };
                let (a, c) = if i.fwd { (i.src, i.tgt) } else { (i.tgt, i.src) };
                if i.reftype == 45 && a >= c { i.reftype = 47; }
                Req::AddRefs(vec![i])
            }
            6..=7 => Req::DelNodes(vec![DN { id: pick_id(r), dtr: r.chance(1, 2) }]),
            _ => {
                let known = if !refs.is_empty() && r.chance(1, 2) { Some(*r.pick(&refs)) } else { None };
                let (src, reftype, tgt) = known.unwrap_or((pick_id(r), *r.pick(REFTYPES), pick_id(r)));
                let fwd = r.chance(2, 3);
                let (src, tgt) = if fwd { (src, tgt) } else { (tgt, src) };
                Req::DelRefs(vec![DR { src, reftype, fwd, tgt, tgt_srv: srv(r), bidir: r.chance(1, 4) }])
            }
        };
        // now and then merge with the previous request of the same kind
        let merged = if r.chance(1, 6) {
            match (reqs.last_mut(), &one) {
                (Some(Req::AddNodes(a)), Req::AddNodes(b2)) => { a.extend(b2.iter().cloned()); true }
                (Some(Req::AddRefs(a)), Req::AddRefs(b2)) => { a.extend(b2.iter().cloned()); true }
                (Some(Req::DelNodes(a)), Req::DelNodes(b2)) => { a.extend(b2.iter().cloned()); true }
                (Some(Req::DelRefs(a)), Req::DelRefs(b2)) => { a.extend(b2.iter().cloned()); true }
                _ => false,
            }
        } else { false };
        if !merged { reqs.push(one); }
    }
    Case { nslen, can_modify, ctr0, nodes, refs, reqs }
}

fn main() { run_main::<P>() }
