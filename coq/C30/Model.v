(* C30 — browsing in pages returns the full result exactly once
   (lib/src/server/services/view.rs, server/session.rs, server/continuation_point.rs).

   Model of ViewService::browse / browse_next as the code has them:
     browse_node            : the filtered reference list of a node (direction, reference-type
                              filter with subtypes, node-class mask, targets that do not exist are
                              skipped), then reference_description_to_browse_result from index 0
     reference_description_to_browse_result (refs, start, max):
                              more than max remaining -> refs[start .. start+max] and a NEW
                              continuation point holding (all refs, start+max, max, last_modified);
                              otherwise refs[start ..] and no continuation point
     Session.browse_continuation_points : a FIFO bounded by 20 (add evicts from the front),
                              find REMOVES, release removes by id,
                              BrowseNext first drops the points whose last_modified is older than
                              the address space's
   The address space's last_modified time stamp is a logical counter here; continuation point
   ids (random 6-byte strings in the code) are numbered in the order they are issued.
   The address-space fragment: hub nodes, each with forward references in insertion order and
   inverse references in the order the implementation enumerates them (a HashSet order the
   harness reads from the address space once).  A reference is (reference type, class of the
   node at the other end; 0 = no such node); its identity is 1000*hub + position + 1 (forward)
   or 1000*hub + 500 + position + 1 (inverse). *)
From Coq Require Import List ZArith Bool Arith.
Import ListNotations.
Open Scope Z_scope.

Definition ref := (Z * Z)%type.
Definition hub := (list ref * list ref)%type.
Record desc := mk_desc { d_hub : Z; d_dir : Z; d_filter : Z; d_sub : bool; d_mask : Z }.

Inductive op :=
| Browse (k : Z) (ds : list desc)      (* requested max references per node, nodes to browse *)
| Next (release : bool) (ids : list Z) (* BrowseNext *)
| NextForeign (id : Z)                 (* BrowseNext on another session of the connection *)
| AddNode                              (* an unrelated node is inserted *)
| AddRef (h ty cls : Z)                (* a new forward reference of hub h to a new node *)
| DelRef (h k : Z)                     (* the (k mod n)-th forward reference of hub h is deleted *)
| DelNode (h k : Z).                   (* the target node of that reference is deleted *)

Record case := mk_case { c_hubs : list hub; c_ops : list op }.

(* ---- the address-space fragment ----------------------------------------------------- *)
Definition gref := (Z * Z * Z)%type.            (* type, class, identity *)
Record ghub := mk_ghub { g_fwd : list gref; g_inv : list gref; g_made : Z }.

Fixpoint number (base : Z) (l : list ref) : list gref :=
  match l with [] => [] | (ty, cls) :: l' => (ty, cls, base) :: number (base + 1) l' end.
Fixpoint init_hubs (h : Z) (l : list hub) : list ghub :=
  match l with
  | [] => []
  | (f, i) :: l' =>
      mk_ghub (number (1000 * h + 1) f) (number (1000 * h + 501) i) (Z.of_nat (length f))
      :: init_hubs (h + 1) l'
  end.

(* the HasSubtype tree of the reference types used (standard nodeset): child -> parent *)
Definition parent (t : Z) : option Z :=
  if t =? 32 then Some 31 else if t =? 33 then Some 31
  else if t =? 34 then Some 33 else if t =? 35 then Some 33 else if t =? 36 then Some 33
  else if t =? 44 then Some 34 else if t =? 45 then Some 34
  else if t =? 46 then Some 44 else if t =? 47 then Some 44
  else if t =? 49 then Some 47 else if t =? 48 then Some 36 else if t =? 41 then Some 32
  else None.
Fixpoint is_desc (fuel : nat) (t anc : Z) : bool :=
  match fuel with
  | O => false
  | S f => match parent t with
           | Some p => (p =? anc) || is_desc f p anc
           | None => false
           end
  end.
Definition known_types : list Z := [31; 32; 33; 34; 35; 36; 41; 44; 45; 46; 47; 48; 49].
Definition memZ (x : Z) (l : list Z) : bool := existsb (Z.eqb x) l.

(* browse_node's three filters *)
Definition type_ok (d : desc) (ty : Z) : bool :=
  if d_filter d =? 0 then true
  else (ty =? d_filter d) || (d_sub d && is_desc 8 ty (d_filter d)).
Definition class_ok (d : desc) (cls : Z) : bool :=
  negb (cls =? 0) &&
  (let m := Z.land (d_mask d) 255 in (m =? 0) || negb (Z.land m cls =? 0)).
Definition keep (d : desc) (r : gref) : bool :=
  let '(ty, cls, _) := r in type_ok d ty && class_ok d cls.
Definition dir_refs (g : ghub) (dir : Z) : list gref :=
  if dir =? 0 then g_fwd g else if dir =? 1 then g_inv g else g_fwd g ++ g_inv g.
Definition gid (r : gref) : Z := let '(_, _, i) := r in i.

(* the unpaged result: what an unlimited Browse of the node returns *)
Definition full_of (g : ghub) (d : desc) : list Z := map gid (filter (keep d) (dir_refs g (d_dir d))).

Definition nth_hub (gs : list ghub) (h : Z) : option ghub :=
  if h <? 0 then None else nth_error gs (Z.to_nat h).

(* ---- continuation points ------------------------------------------------------------- *)
Record cp := mk_cp { cp_id : Z; cp_lm : Z; cp_k : nat; cp_start : nat; cp_refs : list Z }.

Definition MAX_CPS : nat := 20.             (* constants::MAX_BROWSE_CONTINUATION_POINTS *)
Definition MAX_REFS : Z := 255.             (* DEFAULT_MAX_REFERENCES_PER_NODE *)
Definition MAX_NODES : nat := 50.           (* constants::MAX_NODES_PER_BROWSE *)

Definition lastn {A} (n : nat) (l : list A) : list A := skipn (length l - n) l.

(* Session::add_browse_continuation_point: pop_front while len >= max, then push_back *)
Definition add_cp (s : list cp) (c : cp) : list cp := lastn (MAX_CPS - 1) s ++ [c].

(* Session::find_browse_continuation_point: the first with that id, REMOVED *)
Fixpoint take_cp (id : Z) (s : list cp) : option (cp * list cp) :=
  match s with
  | [] => None
  | c :: s' => if cp_id c =? id then Some (c, s')
               else match take_cp id s' with
                    | Some (x, r) => Some (x, c :: r)
                    | None => None
                    end
  end.

Record st := mk_st {
  hubs : list ghub;
  lm : Z;                  (* AddressSpace.last_modified *)
  store : list cp;         (* Session.browse_continuation_points, oldest first *)
  next_id : Z;             (* continuation points issued so far + 1 *)
  legacy_del : bool }.     (* Legacy: delete / delete_reference do not touch last_modified *)

Definition with_store (s : st) (l : list cp) (n : Z) : st :=
  mk_st (hubs s) (lm s) l n (legacy_del s).

(* one BrowseResult: status (0 Good, 1 BadNodeIdUnknown, 2 BadContinuationPointInvalid),
   continuation point (0 = none), the references (None = no list); Panic = the code would panic
   (usize underflow / slice out of range in reference_description_to_browse_result) *)
Inductive bres := Res (status cpid : Z) (refs : option (list Z)) | Panic.

(* canonical output: status, continuation point, number of references (-1 = none), references;
   -2 = panic *)
Definition enc_bres (r : bres) : list Z :=
  match r with
  | Res status cpid (Some l) => status :: cpid :: Z.of_nat (length l) :: l
  | Res status cpid None => [status; cpid; -1]
  | Panic => [-2]
  end.

(* reference_description_to_browse_result *)
Definition page_r (s : st) (refs : list Z) (start k : nat) : st * bres :=
  if (length refs <? start)%nat then (s, Panic)
  else
    let remaining := (length refs - start)%nat in
    if (0 <? k)%nat && (k <? remaining)%nat then
      let c := mk_cp (next_id s) (lm s) k (start + k) refs in
      (with_store s (add_cp (store s) c) (next_id s + 1),
       Res 0 (next_id s) (Some (firstn k (skipn start refs))))
    else (s, Res 0 0 (Some (skipn start refs))).

Definition eff_k (k : Z) : nat :=
  Z.to_nat (if k =? 0 then MAX_REFS else if MAX_REFS <? k then MAX_REFS else k).

(* browse_node *)
Definition browse_one_r (k : nat) (s : st) (d : desc) : st * bres :=
  match nth_hub (hubs s) (d_hub d) with
  | None => (s, Res 1 0 None)
  | Some g => page_r s (full_of g d) 0 k
  end.

(* browse_from_continuation_point *)
Definition next_one_r (s : st) (id : Z) : st * bres :=
  match take_cp id (store s) with
  | None => (s, Res 2 0 None)
  | Some (c, rest) => page_r (with_store s rest (next_id s)) (cp_refs c) (cp_start c) (cp_k c)
  end.

Fixpoint thread_r {A} (f : st -> A -> st * bres) (s : st) (l : list A) : st * list bres :=
  match l with
  | [] => (s, [])
  | x :: l' => let '(s1, r1) := f s x in
               let '(s2, rs) := thread_r f s1 l' in (s2, r1 :: rs)
  end.

Fixpoint remove_nth {A} (n : nat) (l : list A) : list A :=
  match n, l with
  | _, [] => []
  | O, _ :: l' => l'
  | S n', x :: l' => x :: remove_nth n' l'
  end.
Fixpoint update_nth {A} (n : nat) (f : A -> A) (l : list A) : list A :=
  match n, l with
  | _, [] => []
  | O, x :: l' => f x :: l'
  | S n', x :: l' => x :: update_nth n' f l'
  end.

Definition del_fwd (k : Z) (g : ghub) : ghub :=
  mk_ghub (remove_nth (Z.to_nat (k mod Z.of_nat (length (g_fwd g)))) (g_fwd g)) (g_inv g) (g_made g).

Definition len_store (s : st) : Z := Z.of_nat (length (store s)).

(* a request can only name continuation points that were issued before it was sent: a number not
   yet issued stands for an arbitrary byte string (0 is never issued) *)
Definition known_ids (next : Z) (ids : list Z) : list Z :=
  map (fun i => if i <? next then i else 0) ids.

(* remove_expired_browse_continuation_points *)
Definition expire (s : st) : st :=
  with_store s (filter (fun c => lm s <=? cp_lm c) (store s)) (next_id s).

(* the results of a Browse / BrowseNext (not release) / release request that is not refused *)
Definition browse_r (k : Z) (s : st) (ds : list desc) : st * list bres :=
  thread_r (browse_one_r (eff_k k)) s ds.
Definition next_r (s : st) (ids : list Z) : st * list bres :=
  thread_r next_one_r (expire s) (known_ids (next_id s) ids).
Definition release_r (s : st) (ids : list Z) : st :=
  with_store s (filter (fun c => negb (memZ (cp_id c) ids)) (store s)) (next_id s).

Definition enc_results (rs : list bres) : list Z := concat (map enc_bres rs).

(* output of one operation; the last number is the size of the session's store afterwards *)
Definition step (s : st) (o : op) : st * list Z :=
  match o with
  | Browse k ds =>
      match ds with
      | [] => (s, [-1; len_store s])                        (* BadNothingToDo *)
      | _ => if (MAX_NODES <? length ds)%nat then (s, [-1; len_store s])  (* BadTooManyOperations *)
             else let '(s', rs) := browse_r k s ds in
                  (s', Z.of_nat (length ds) :: enc_results rs ++ [len_store s'])
      end
  | Next release ids =>
      match ids with
      | [] => (s, [-1; len_store s])
      | _ =>
          if release then
            let s' := release_r s ids in (s', [0; len_store s'])
          else
            let '(s', rs) := next_r s ids in
            (s', Z.of_nat (length ids) :: enc_results rs ++ [len_store s'])
      end
  | NextForeign id => (s, [1; 2; 0; -1; 0; len_store s])
  | AddNode => (mk_st (hubs s) (lm s + 1) (store s) (next_id s) (legacy_del s), [1; len_store s])
  | AddRef h ty cls =>
      match nth_hub (hubs s) h with
      | None => (s, [0; len_store s])
      | Some g =>
          let g' := mk_ghub (g_fwd g ++ [(ty, cls, 1000 * h + g_made g + 1)]) (g_inv g) (g_made g + 1) in
          (mk_st (update_nth (Z.to_nat h) (fun _ => g') (hubs s)) (lm s + 1) (store s) (next_id s) (legacy_del s),
           [1; len_store s])
      end
  | DelRef h k | DelNode h k =>
      match nth_hub (hubs s) h with
      | None => (s, [0; len_store s])
      | Some g =>
          match g_fwd g with
          | [] => (s, [0; len_store s])
          | _ =>
              let bump := if legacy_del s then 0 else 1 in
              (mk_st (update_nth (Z.to_nat h) (del_fwd k) (hubs s)) (lm s + bump) (store s) (next_id s) (legacy_del s),
               [bump; len_store s])
          end
      end
  end.

(* ---- vocabulary of the theorems ------------------------------------------------------------ *)
Definition exec (s : st) (ops : list op) : st := fold_left (fun s o => fst (step s o)) ops s.

(* Browse one node and then BrowseNext with the continuation point of the previous answer until
   none remains: the list of pages.  [fuel] bounds the number of BrowseNext calls (the theorem
   shows that the length of the unpaged result is enough). *)
Fixpoint follow (fuel : nat) (s : st) (r : bres) : st * list (list Z) :=
  match r with
  | Res status cp (Some pg) =>
      if negb (status =? 0) then (s, [])
      else if cp =? 0 then (s, [pg])
      else match fuel with
           | O => (s, [pg])
           | S f => match next_r s [cp] with
                    | (s', [r']) => let '(s'', pgs) := follow f s' r' in (s'', pg :: pgs)
                    | (s', _) => (s', [pg])
                    end
           end
  | _ => (s, [])
  end.
Definition browse_pages (fuel : nat) (s : st) (d : desc) (k : Z) : st * list (list Z) :=
  match browse_r k s [d] with
  | (s', [r]) => follow fuel s' r
  | (s', _) => (s', [])
  end.

(* a continuation point that can no longer be used: it was issued, and whatever the session still
   stores under that id is older than the address space *)
Definition unusable (id : Z) (s : st) : Prop :=
  id < next_id s /\ forall c, In c (store s) -> cp_id c = id -> cp_lm c < lm s.

Fixpoint run_from (s : st) (ops : list op) : list Z :=
  match ops with
  | [] => []
  | o :: ops' => let '(s', out) := step s o in out ++ run_from s' ops'
  end.

Definition init_st (legacy : bool) (c : case) : st := mk_st (init_hubs 0 (c_hubs c)) 0 [] 1 legacy.

(* the code as it is now (delete and delete_reference touch last_modified) *)
Definition run (c : case) : list Z := run_from (init_st false c) (c_ops c).

Module Legacy.
  (* before the fix: AddressSpace::delete / delete_reference left last_modified alone *)
  Definition run (c : case) : list Z := run_from (init_st true c) (c_ops c).
End Legacy.

(* ---- the property as a predicate on an observed output ------------------------------ *)
(* The oracle keeps its own ledger of the continuation points that must still work: for each, the
   references that remain to be delivered and the page size.  It never looks at time stamps,
   start indices or snapshots. *)
Definition lcp := (Z * (list Z * nat))%type.       (* id, remaining references, page size *)

Record ost := mk_ost { o_hubs : list ghub; o_led : list lcp; o_next : Z }.

Fixpoint list_eqb (a b : list Z) : bool :=
  match a, b with
  | [], [] => true
  | x :: a', y :: b' => (x =? y) && list_eqb a' b'
  | _, _ => false
  end.

Fixpoint take_led (id : Z) (l : list lcp) : option (list Z * nat * list lcp) :=
  match l with
  | [] => None
  | (i, (r, k)) :: l' =>
      if i =? id then Some (r, k, l')
      else match take_led id l' with
           | Some (r', k', rest) => Some (r', k', (i, (r, k)) :: rest)
           | None => None
           end
  end.

(* split n numbers off the output *)
Fixpoint take_n (n : nat) (l : list Z) : option (list Z * list Z) :=
  match n with
  | O => Some ([], l)
  | S n' => match l with
            | x :: l' => match take_n n' l' with
                         | Some (a, b) => Some (x :: a, b)
                         | None => None
                         end
            | [] => None
            end
  end.

(* check one result against: the references that must come (None = the point must be refused /
   the node is unknown with that status), the page size *)
Definition check_result (o : ost) (expect : option (list Z)) (bad_status : Z) (k : nat) (out : list Z)
  : option (ost * list Z) :=
  match out with
  | status :: cpid :: n :: out' =>
      match expect with
      | None => if (status =? bad_status) && (cpid =? 0) && (n =? -1) then Some (o, out') else None
      | Some rest =>
          if (status =? 0) && (0 <=? n) then
            match take_n (Z.to_nat n) out' with
            | Some (pg, out'') =>
                if (k <? length rest)%nat then
                  (* more to come: exactly the next k, and a continuation point never seen before *)
                  if list_eqb pg (firstn k rest) && (cpid =? o_next o)
                  then Some (mk_ost (o_hubs o)
                                    (lastn (MAX_CPS - 1) (o_led o) ++ [(cpid, (skipn k rest, k))])
                                    (o_next o + 1), out'')
                  else None
                else
                  (* the rest, and no continuation point *)
                  if list_eqb pg rest && (cpid =? 0) then Some (o, out'') else None
            | None => None
            end
          else None
      end
  | _ => None
  end.

Fixpoint check_browse (k : nat) (o : ost) (ds : list desc) (out : list Z) : option (ost * list Z) :=
  match ds with
  | [] => Some (o, out)
  | d :: ds' =>
      let expect := match nth_hub (o_hubs o) (d_hub d) with
                    | Some g => Some (full_of g d)
                    | None => None
                    end in
      match check_result o expect 1 k out with
      | Some (o', out') => check_browse k o' ds' out'
      | None => None
      end
  end.

Fixpoint check_next (o : ost) (ids : list Z) (out : list Z) : option (ost * list Z) :=
  match ids with
  | [] => Some (o, out)
  | id :: ids' =>
      let r := match take_led id (o_led o) with
               | Some (rest, k, led') =>
                   (* used once: the point is gone whatever comes back *)
                   check_result (mk_ost (o_hubs o) led' (o_next o)) (Some rest) 2 k out
               | None => check_result o None 2 0%nat out
               end in
      match r with
      | Some (o', out') => check_next o' ids' out'
      | None => None
      end
  end.

Definition store_ok (n : Z) : bool := (0 <=? n) && (n <=? Z.of_nat MAX_CPS).

(* what an address-space modification means for the property: every outstanding point dies *)
Definition kill (o : ost) (hs : list ghub) : ost := mk_ost hs [] (o_next o).

Definition ostep (o : ost) (op0 : op) (out : list Z) : option (ost * list Z) :=
  match op0 with
  | Browse k ds =>
      match out with
      | n :: out1 =>
          if n =? -1 then
            (* a service fault is acceptable only for an empty or oversized request *)
            match ds, out1 with
            | [], sl :: out2 => if store_ok sl then Some (o, out2) else None
            | _, sl :: out2 => if (MAX_NODES <? length ds)%nat && store_ok sl then Some (o, out2) else None
            | _, _ => None
            end
          else if (n =? Z.of_nat (length ds)) && negb (n =? 0) && (length ds <=? MAX_NODES)%nat then
            match check_browse (eff_k k) o ds out1 with
            | Some (o', sl :: out2) => if store_ok sl then Some (o', out2) else None
            | _ => None
            end
          else None
      | [] => None
      end
  | Next release ids =>
      match out with
      | n :: out1 =>
          match ids with
          | [] => match out1 with
                  | sl :: out2 => if (n =? -1) && store_ok sl then Some (o, out2) else None
                  | [] => None
                  end
          | _ =>
              if release then
                match out1 with
                | sl :: out2 =>
                    if (n =? 0) && store_ok sl
                    then Some (mk_ost (o_hubs o) (filter (fun e => negb (memZ (fst e) ids)) (o_led o)) (o_next o), out2)
                    else None
                | [] => None
                end
              else if n =? Z.of_nat (length ids) then
                match check_next o (known_ids (o_next o) ids) out1 with
                | Some (o', sl :: out2) => if store_ok sl then Some (o', out2) else None
                | _ => None
                end
              else None
          end
      | [] => None
      end
  | NextForeign id =>
      (* a point of another session is never accepted *)
      match out with
      | a :: b :: c :: d :: sl2 :: sl :: out' =>
          if (a =? 1) && (b =? 2) && (c =? 0) && (d =? -1) && store_ok sl2 && store_ok sl then Some (o, out') else None
      | _ => None
      end
  | AddNode =>
      match out with _ :: sl :: out' => if store_ok sl then Some (kill o (o_hubs o), out') else None | _ => None end
  | AddRef h ty cls =>
      match out with
      | _ :: sl :: out' =>
          if store_ok sl then
            match nth_hub (o_hubs o) h with
            | None => Some (o, out')
            | Some g =>
                let g' := mk_ghub (g_fwd g ++ [(ty, cls, 1000 * h + g_made g + 1)]) (g_inv g) (g_made g + 1) in
                Some (kill o (update_nth (Z.to_nat h) (fun _ => g') (o_hubs o)), out')
            end
          else None
      | _ => None
      end
  | DelRef h k | DelNode h k =>
      match out with
      | _ :: sl :: out' =>
          if store_ok sl then
            match nth_hub (o_hubs o) h with
            | None => Some (o, out')
            | Some g =>
                match g_fwd g with
                | [] => Some (o, out')
                | _ => Some (kill o (update_nth (Z.to_nat h) (del_fwd k) (o_hubs o)), out')
                end
            end
          else None
      | _ => None
      end
  end.

Fixpoint oracle_from (o : ost) (ops : list op) (out : list Z) : bool :=
  match ops with
  | [] => match out with [] => true | _ => false end
  | op0 :: ops' =>
      match ostep o op0 out with
      | Some (o', out') => oracle_from o' ops' out'
      | None => false
      end
  end.

Definition oracle (c : case) (out : list Z) : bool :=
  oracle_from (mk_ost (init_hubs 0 (c_hubs c)) [] 1) (c_ops c) out.

Definition known (c : case) : Z := 0.

(* reference-type filters are standard reference types of the modelled fragment of the type tree
   (any other standard type would need its place in [parent]); page sizes are u32 *)
Definition valid_desc (d : desc) : Prop := d_filter d = 0 \/ In (d_filter d) known_types.
Definition valid_op (o : op) : Prop :=
  match o with Browse k ds => 0 <= k /\ Forall valid_desc ds | _ => True end.
Definition valid (c : case) : Prop := Forall valid_op (c_ops c).
