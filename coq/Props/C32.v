(* C32 — attribute reads and writes obey access rights and never crash.  Statements only. *)
From Coq Require Import List ZArith.
From OV Require Import C32.Model C32.Proofs.
Open Scope Z_scope.

Theorem C32_placeholder : run = run_with false.
Proof. reflexivity. Qed.
Print Assumptions C32_placeholder.
