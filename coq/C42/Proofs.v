(* C42 — proofs (first stage: refutations of the legacy behaviour and of the known classes) *)
From Coq Require Import List ZArith Bool Lia.
From OV Require Import C42.Text C42.Flt C42.Model.
Import ListNotations.
Open Scope Z_scope.

Definition w_xuri : case := CVal (AXNodeId (XNodeId (NodeId 0 (INum 5)) (Some [117; 114; 110; 58; 120]) 0)).
Lemma legacy_refuted_xuri : valid w_xuri /\ known w_xuri = 0 /\ oracle w_xuri (Legacy.run w_xuri) = false /\ oracle w_xuri (run w_xuri) = true.
Proof. repeat split; vm_compute; reflexivity. Qed.
