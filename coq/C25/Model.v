(* C25 — data change filters (lib/src/types/service_types/impls.rs `DataChangeFilter::compare`,
   `compare_value_option`, `compare_value`, `abs_compare`; lib/src/server/subscriptions/
   monitored_item.rs `validate_filter`, `check_for_data_change`).

   Model of the code as committed (after "fix: data change filters that can never report were
   accepted", "fix: an infinite absolute deadband was accepted ..." and "fix: a deadband filter on
   a non-numeric value reported every sample").  f64 are Flocq binary64; `a - b`, `abs`, `<=` are Flocq's IEEE operations
   (round to nearest even).  A sampled DataValue is (value, status, server timestamp), each
   optional as in the Rust struct; the comparison of the code looks at nothing else. *)
From Coq Require Import List ZArith Bool Lia.
From Flocq Require Import Core.Core IEEE754.Binary IEEE754.Bits.
Import ListNotations.
Open Scope Z_scope.

Definition f64 := binary64.
Definition of_bits (z : Z) : f64 := b64_of_bits z.
Definition fnan (f : f64) : bool := is_nan 53 1024 f.
Definition fcmp (a b : f64) : option comparison := Bcompare 53 1024 a b.
Definition flt (a b : f64) : bool := match fcmp a b with Some Lt => true | _ => false end.
Definition fle (a b : f64) : bool := match fcmp a b with Some Lt | Some Eq => true | _ => false end.
Definition fge (a b : f64) : bool := match fcmp a b with Some Gt | Some Eq => true | _ => false end.
Definition feq (a b : f64) : bool := match fcmp a b with Some Eq => true | _ => false end.
Definition fzero : f64 := B754_zero 53 1024 false.
Definition ffinite (f : f64) : bool := is_finite 53 1024 f.
(* `i as f64`: round to nearest even *)
Definition of_Z (v : Z) : f64 := binary_normalize 53 1024 eq_refl eq_refl BinarySingleNaN.mode_NE v 0 false.
Definition fsub (a b : f64) : f64 := b64_minus BinarySingleNaN.mode_NE a b.
Definition fabs (a : f64) : f64 := b64_abs a.

(* Variant: a Double (bit pattern), an integer of some integer type (0 Int32, 1 UInt32, 2 Int64,
   3 UInt64), or a non-numeric value (a string, identified by a number) *)
Inductive variant := VDouble (bits : Z) | VInt (ty : Z) (v : Z) | VText (id : Z).

(* derived PartialEq of Variant: same constructor and equal payload; f64 == for doubles *)
Definition variant_eq (a b : variant) : bool :=
  match a, b with
  | VDouble x, VDouble y => feq (of_bits x) (of_bits y)
  | VInt t1 v1, VInt t2 v2 => (t1 =? t2) && (v1 =? v2)
  | VText x, VText y => x =? y
  | _, _ => false
  end.

(* Variant::as_f64 *)
Definition as_f64 (a : variant) : option f64 :=
  match a with
  | VDouble x => Some (of_bits x)
  | VInt _ v => Some (of_Z v)
  | VText _ => None
  end.

Record sample := mk_sample { s_val : option variant; s_status : option Z; s_ts : option Z }.

(* trigger 0 Status, 1 StatusValue, 2 StatusValueTimestamp; deadband type as sent (0 None,
   1 Absolute, 2 Percent, anything else unknown); deadband value as bit pattern *)
Record filter := mk_filter { f_trigger : Z; f_dtype : Z; f_dval : Z }.

Definition opt_eqb {X} (eqb : X -> X -> bool) (a b : option X) : bool :=
  match a, b with
  | None, None => true
  | Some x, Some y => eqb x y
  | _, _ => false
  end.

(* abs_compare: true = "the same" *)
Definition abs_compare (v1 v2 d : f64) : bool := fle (fabs (fsub v1 v2)) d.

(* compare_value: Some true = same, Some false = differs, None = Err(BadDeadbandFilterInvalid).
   After "fix: a deadband filter on a non-numeric value reported every sample": values without a
   numeric form are compared for equality. *)
Definition compare_value (f : filter) (a b : variant) : option bool :=
  if f_dtype f =? 0 then Some (variant_eq a b)
  else match as_f64 a, as_f64 b with
       | Some x, Some y =>
           if flt (of_bits (f_dval f)) fzero then None
           else if f_dtype f =? 1 then Some (abs_compare x y (of_bits (f_dval f)))
           else None                      (* percent without an EU range, unknown type *)
       | _, _ => Some (variant_eq a b)
       end.

(* validate_filter for a data change filter: no deadband, or absolute with a finite value >= 0
   (after "fix: data change filters that can never report were accepted" and
   "fix: an infinite absolute deadband was accepted ...") *)
Definition validate (f : filter) : bool :=
  (f_dtype f =? 0) ||
  ((f_dtype f =? 1) && fge (of_bits (f_dval f)) fzero && ffinite (of_bits (f_dval f))).

Module Legacy.
  (* before the first fix every data change filter was accepted *)
  Definition validate_all (f : filter) : bool := true.
  (* after the first fix: an infinite deadband still passed `deadband_value >= 0.0` *)
  Definition validate_inf (f : filter) : bool :=
    (f_dtype f =? 0) || ((f_dtype f =? 1) && fge (of_bits (f_dval f)) fzero).
  (* before the non-numeric fix: "different" whenever a value has no numeric form *)
  Definition compare_value (f : filter) (a b : variant) : option bool :=
    if f_dtype f =? 0 then Some (variant_eq a b)
    else match as_f64 a, as_f64 b with
         | Some x, Some y =>
             if flt (of_bits (f_dval f)) fzero then None
             else if f_dtype f =? 1 then Some (abs_compare x y (of_bits (f_dval f)))
             else None
         | _, _ => Some false
         end.
End Legacy.

Section Code.
  (* the value comparison in use *)
  Variable cv : filter -> variant -> variant -> option bool.

  Definition compare_value_option (f : filter) (a b : option variant) : bool :=
    match a, b with
    | Some _, None | None, Some _ => false
    | None, None => true
    | Some x, Some y => match cv f x y with Some r => r | None => true end   (* unwrap_or(true) *)
    end.

  (* DataChangeFilter::compare: true = "the same" *)
  Definition compare (f : filter) (v1 v2 : sample) : bool :=
    let st := opt_eqb Z.eqb (s_status v1) (s_status v2) in
    if f_trigger f =? 0 then st
    else if f_trigger f =? 1 then st && compare_value_option f (s_val v1) (s_val v2)
    else st && compare_value_option f (s_val v1) (s_val v2) && opt_eqb Z.eqb (s_ts v1) (s_ts v2).

  (* check_for_data_change on one sample: report?, new last reported value *)
  Definition check (f : filter) (last : option sample) (s : sample) : bool * option sample :=
    let change := match last with None => true | Some l => negb (compare f s l) end in
    (change, if change then Some s else last).

  Fixpoint feed (f : filter) (last : option sample) (ss : list sample) : list Z :=
    match ss with
    | [] => []
    | s :: ss' => let '(r, last') := check f last s in (if r then 1 else 0) :: feed f last' ss'
    end.
End Code.

(* ---- correspondence interface -------------------------------------------------------------- *)
Record case := mk_case { c_filter : filter; c_samples : list sample }.

(* output: [-1] when the filter is refused at creation; otherwise 1 / 0 per sample (reported or
   not).  The harness prints 2 instead of 1 if the notification is not the sample itself. *)
Definition run_with (validate : filter -> bool) cv (c : case) : list Z :=
  if validate (c_filter c) then feed cv (c_filter c) None (c_samples c) else [-1].
Definition run (c : case) : list Z := run_with validate compare_value c.
Definition legacy_run_all (c : case) : list Z := run_with Legacy.validate_all Legacy.compare_value c.
Definition legacy_run_inf (c : case) : list Z := run_with Legacy.validate_inf compare_value c.
Definition legacy_run_text (c : case) : list Z := run_with validate Legacy.compare_value c.

(* ---- the property ---------------------------------------------------------------------------- *)
(* two variants are the same value: as [variant_eq], except that a NaN is the same as a NaN *)
Definition variant_same (a b : variant) : bool :=
  match a, b with
  | VDouble x, VDouble y =>
      if fnan (of_bits x) then fnan (of_bits y) else feq (of_bits x) (of_bits y)
  | _, _ => variant_eq a b
  end.

(* the value moved, as the filter describes it: without a deadband the values are not equal;
   with an absolute deadband d the numeric values satisfy |a - b| > d, i.e. not (|a - b| <= d)
   (a value that is not numeric cannot move numerically: it differs when it is not equal) *)
Definition is_nan_value (a : variant) : bool :=
  match a with VDouble x => fnan (of_bits x) | _ => false end.
Definition value_moved (f : filter) (a b : variant) : bool :=
  if f_dtype f =? 0 then negb (variant_same a b)
  else match as_f64 a, as_f64 b with
       | Some x, Some y =>
           if is_nan_value a || is_nan_value b then negb (is_nan_value a && is_nan_value b)
           else negb (fle (fabs (fsub x y)) (of_bits (f_dval f)))
       | _, _ => negb (variant_same a b)
       end.

Definition value_differs (f : filter) (a b : option variant) : bool :=
  match a, b with
  | None, None => false
  | Some x, Some y => value_moved f x y
  | _, _ => true
  end.

Definition differs (f : filter) (s last : sample) : bool :=
  negb (opt_eqb Z.eqb (s_status s) (s_status last))
  || ((1 <=? f_trigger f) && value_differs f (s_val s) (s_val last))
  || ((2 <=? f_trigger f) && negb (opt_eqb Z.eqb (s_ts s) (s_ts last))).

(* an accepted filter is one whose description is defined here (no deadband, or an absolute one:
   a percent deadband needs an EU range the server never supplies) and that can report a change
   of a finite numeric value, whatever its size: the largest possible move (from -MAX to +MAX) is
   one that the description above reports *)
Definition BITS_MAX : Z := 0x7FEFFFFFFFFFFFFF.
Definition BITS_NEG_MAX : Z := 0xFFEFFFFFFFFFFFFF.
Definition can_report (f : filter) : bool :=
  ((f_dtype f =? 0) || (f_dtype f =? 1)) && value_moved f (VDouble BITS_MAX) (VDouble BITS_NEG_MAX).

(* check an observed report sequence against the specification; the last reported value is
   tracked from the OBSERVED reports *)
Fixpoint reports_ok (f : filter) (last : option sample) (ss : list sample) (out : list Z) : bool :=
  match ss, out with
  | [], [] => true
  | s :: ss', o :: out' =>
      let expected := match last with None => true | Some l => differs f s l end in
      (o =? (if expected then 1 else 0)) &&
      reports_ok f (if o =? 0 then last else Some s) ss' out'
  | _, _ => false
  end.

Definition oracle (c : case) (out : list Z) : bool :=
  match out with
  | [-1] => true                                       (* refusing a filter is always allowed *)
  | _ => can_report (c_filter c) && reports_ok (c_filter c) None (c_samples c) out
  end.

(* known finding 1: a Double NaN value.  NaN != NaN in f64 arithmetic, so a value that stays NaN
   is reported at every sample (and under a deadband a move from or to NaN compares as changed
   even when the value did not move) *)
Definition variant_nan (a : option variant) : bool :=
  match a with Some v => is_nan_value v | None => false end.
Definition has_nan (c : case) : bool := existsb (fun s => variant_nan (s_val s)) (c_samples c).
Definition known (c : case) : Z := if has_nan c then 1 else 0.

Definition int_ok (ty v : Z) : bool :=
  if ty =? 0 then (-(2^31) <=? v) && (v <? 2^31)
  else if ty =? 1 then (0 <=? v) && (v <? 2^32)
  else if ty =? 2 then (-(2^63) <=? v) && (v <? 2^63)
  else (ty =? 3) && (0 <=? v) && (v <? 2^64).
Definition sample_ok (s : sample) : bool :=
  match s_val s with Some (VInt ty v) => int_ok ty v | _ => true end.
Definition validb (c : case) : bool :=
  (0 <=? f_trigger (c_filter c)) && (f_trigger (c_filter c) <=? 2) &&
  (0 <=? f_dtype (c_filter c)) && forallb sample_ok (c_samples c).
Definition valid (c : case) : Prop := validb c = true.
