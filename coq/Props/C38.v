(* C38 — Server locks are always taken in one global order.  Statements only. *)
From Coq Require Import List ZArith Bool.
Import ListNotations.
From OV Require Import Gen.C38Edges C38.Model C38.Proofs.
Open Scope Z_scope.

(* General (proved once): if every task waits only for locks that rank above all locks it holds,
   there is no wait-for cycle among any number of tasks. *)
Theorem C38_general : forall (lock task : Type) (rk : lock -> Z)
  (holds waits : task -> lock -> Prop),
  (forall t l w, holds t l -> waits t w -> rk l < rk w) ->
  forall t lo hi, ~ wpath lock task rk holds waits t t lo hi.
Proof. exact no_wait_cycle. Qed.
Print Assumptions C38_general.

(* This tree: the acquisition graph extracted from the current source admits a strict rank on all
   edges except the audited exceptions (coq/C38/excused.json). *)
Theorem C38_this_tree_partial :
  exists rk : Z -> Z, forall e, In e edges -> is_excused e = false -> let '(a, b, _) := e in rk a < rk b.
Proof. exact rank_exists. Qed.
Print Assumptions C38_this_tree_partial.

(* The exception that is a recorded finding: both directions of the inversion are in the graph,
   so the full property is refuted at the level of lock classes. *)
Theorem C38_known_1_refuted : known (Demo 1) = 1 /\ oracle (Demo 1) (run (Demo 1)) = false.
Proof. exact known_1_refuted. Qed.
Print Assumptions C38_known_1_refuted.

Theorem C38_oracle : forall c, known c = 0 ->
  oracle c (run c) = true \/ (exists a b, c = Edge a b /\ class_edge a b = false).
Proof. exact oracle_holds. Qed.
Print Assumptions C38_oracle.
