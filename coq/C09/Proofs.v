(* C09 proofs (in progress) *)
From Coq Require Import List ZArith Bool Lia.
Import ListNotations.
From OV Require Import C07.Chan C07.Lemmas C09.Total C09.Model.
Open Scope Z_scope.
