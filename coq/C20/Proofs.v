From Coq Require Import List ZArith Bool Lia.
Import ListNotations.
From OV Require Import C20.Model.
Open Scope Z_scope.
