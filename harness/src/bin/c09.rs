//! C09: arbitrary / structure-aware mutated OPN, MSG and CLO chunks are fed to the real
//! `SecureChannel::verify_and_remove_security` (and the accepted ones to `Chunker::validate_chunks`)
//! under `guarded` (see recv_util.rs for the builders, the oracle pass and the transcript).
#[path = "../util.rs"]
mod util;
#[path = "../chan_util.rs"]
mod chan;
#[path = "../recv_util.rs"]
mod recv;
use chan::*;
use recv::*;
use util::*;
use opcua::crypto::pkey::KeySize;

pub struct P;

impl Property for P {
    type Case = Case;
    fn fixed(_tier: &str) -> Vec<Case> {
        let mut r = Rng::new(42);
        let mut v = Vec::new();
        // --- the panic sites found by reading (each was confirmed on the unrepaired code) ---
        // 1. null sender certificate with a policy other than None
        v.push(mk_case(3, 2, vec![opn_chunk(3, uri_bytes(0, 3, &mut r), &Cert::Null, &Thumb::Of(1), &Enc::Garbage(256), 5, 1, 1, &mut r)], "opn-nullcert"));
        v.push(mk_case(0, 0, vec![opn_chunk(3, uri_bytes(0, 3, &mut r), &Cert::Null, &Thumb::Null, &Enc::Garbage(0), 0, 1, 1, &mut r)], "opn-nullcert"));
        // 2. the channel has no certificate / no private key
        let mut c = mk_case(3, 2, vec![opn_chunk(3, uri_bytes(0, 3, &mut r), &Cert::Of(0), &Thumb::Of(1), &Enc::Garbage(256), 5, 1, 1, &mut r)], "opn-noowncert");
        c.has_cert = false; c.has_pkey = false; v.push(c);
        let mut c = mk_case(3, 2, vec![opn_chunk(3, uri_bytes(0, 3, &mut r), &Cert::Of(0), &Thumb::Of(1), &Enc::Garbage(256), 5, 1, 1, &mut r)], "opn-nopkey");
        c.has_pkey = false; v.push(c);
        // 3. MSG chunk on a secured channel whose keys are not derived yet
        for mode in [1, 2] {
            let mut c = mk_case(3, mode, vec![sym_chunk(3, mode == 2, b"MSG", 5, 9, 1, 1, &[1, 2, 3], &good_sym_padding(3, 32), true)], "msg-nokeys");
            c.has_keys = false; v.push(c);
        }
        // 4. cipher text that is not a multiple of the AES block
        let mut ch = sym_chunk(3, true, b"MSG", 5, 9, 1, 1, &[1, 2, 3], &good_sym_padding(3, 32), true);
        ch.pop(); set_size(&mut ch);
        v.push(mk_case(3, 2, vec![ch], "msg-aesblock"));
        v.push(mk_case(1, 2, vec![plain_chunk(b"MSG", b'F', 5, 9, 1, 1, &[7; 37])], "msg-aesblock"));
        // 5. chunk shorter than its signature
        for mode in [1, 2] {
            v.push(mk_case(3, mode, vec![plain_chunk(b"MSG", b'F', 5, 9, 1, 1, &[])], "msg-shorter-than-sig"));
            v.push(mk_case(4, mode, vec![plain_chunk(b"CLO", b'F', 5, 9, 1, 1, &[0; 3])], "msg-shorter-than-sig"));
        }
        v.push(mk_case(3, 1, vec![hdr(b"MSG", b'F', 16, 5).into_iter().chain([9, 0, 0, 0]).collect()], "msg-shorter-than-sig"));
        // 6. correctly signed OPN whose padding bytes claim more padding than there is data
        for (rid, pad) in [(1usize, vec![255u8; 4]), (1, vec![200; 201]), (5, vec![255, 255]), (5, vec![0, 9]), (5, vec![255; 300])] {
            let pol = if rid == 5 { 3 } else { 1 };
            let mut c = mk_case(pol, 2, vec![opn_chunk(pol, uri_bytes(0, pol, &mut r), &Cert::Of(0), &Thumb::Of(rid),
                &Enc::Plain { body: 40, padding: pad, signer: 0, good_sig: true, to: rid }, 5, 1, 1, &mut r)], "opn-bogus-padding");
            c.rid = rid; v.push(c);
        }
        // bogus padding in a correctly signed symmetric chunk
        for pad in [vec![255u8; 16], vec![15; 3], vec![3, 3, 3, 7], vec![40; 9]] {
            let body = [5u8; 20];
            // keep the encrypted part a multiple of 16
            let mut pad = pad; while (8 + body.len() + pad.len() + 32) % 16 != 0 { pad.insert(0, pad[0]); }
            v.push(mk_case(3, 2, vec![sym_chunk(3, true, b"MSG", 5, 9, 1, 1, &body, &pad, true)], "msg-bogus-padding"));
        }
        // 7. sequence numbers at the top of the u32 range (validate_chunks), policy None
        for (s0, n) in [(u32::MAX, 1usize), (u32::MAX - 1, 2), (u32::MAX - 1, 3), (u32::MAX - 5, 2)] {
            let chunks: Vec<Vec<u8>> = (0..n).map(|i| plain_chunk(b"MSG", if i + 1 == n { b'F' } else { b'C' }, 5, 0, s0.wrapping_add(i as u32), 7, &[1, 2, 3])).collect();
            let mut c = mk_case(0, 0, chunks, "seq-top"); c.start = s0.min(u32::MAX - 3); c.validate = true; v.push(c);
        }
        // --- valid traffic, each policy / mode ---
        for policy in 1..6 {
            for mode in [1, 2] {
                let ss = POLICIES[policy].symmetric_signature_size();
                let pad = if mode == 2 { good_sym_padding(10, ss) } else { vec![] };
                let mut c = mk_case(policy, mode, vec![sym_chunk(policy, mode == 2, b"MSG", 5, 9, 4, 1, &[9; 10], &pad, true),
                                                        sym_chunk(policy, mode == 2, b"CLO", 5, 9, 5, 2, &[9; 10], &pad, true)], "valid-sym");
                c.start = 4; c.validate = true; v.push(c);
                let c = mk_case(policy, mode, vec![opn_chunk(policy, uri_bytes(0, policy, &mut r), &Cert::Of(0), &Thumb::Of(1),
                    &Enc::Plain { body: 60, padding: good_asym_padding(policy, 60, 0, 1), signer: 0, good_sig: true, to: 1 }, 5, 1, 1, &mut r)], "valid-opn");
                v.push(c);
            }
        }
        v.push(mk_case(0, 0, vec![opn_chunk(0, uri_bytes(0, 0, &mut r), &Cert::Null, &Thumb::Null, &Enc::Garbage(40), 0, 1, 1, &mut r)], "valid-opn-none"));
        // short / empty inputs
        for n in [0usize, 1, 3, 4, 11, 12, 15, 16, 23, 24] {
            let full = plain_chunk(b"MSG", b'F', 5, 9, 1, 1, &[1, 2, 3, 4, 5, 6, 7, 8, 9]);
            v.push(mk_case(3, 2, vec![full[..n].to_vec()], "short-input"));
            let full = opn_chunk(3, uri_bytes(0, 3, &mut r), &Cert::Of(0), &Thumb::Of(1), &Enc::Garbage(0), 5, 1, 1, &mut r);
            v.push(mk_case(3, 2, vec![full[..n + 60].to_vec()], "short-input"));
        }
        v
    }
    fn gen(r: &mut Rng) -> Case {
        let scenario = r.below(10);
        match scenario {
            0..=3 => {
                // symmetric chunk on a secured channel, mutated
                let policy = 1 + r.below(5) as usize;
                let mode = 1 + r.below(2) as usize;
                let ss = POLICIES[policy].symmetric_signature_size();
                let body = rb(r, 50, 0);
                let pad = match r.below(6) {
                    0 => rb(r, 20, 0),
                    1 => vec![255; 1 + r.below(17) as usize],
                    2 => { let mut p = good_sym_padding(body.len(), ss); let k = p.len() - 1; p[k] = p[k].wrapping_add(1 + r.below(20) as u8); p }
                    3 => { let mut p = good_sym_padding(body.len(), ss); p[0] ^= 0x10; p }
                    _ => if mode == 2 { good_sym_padding(body.len(), ss) } else { vec![] },
                };
                let t = if r.chance(1, 4) { b"CLO" } else { b"MSG" };
                let seq = if r.chance(1, 8) { u32::MAX - r.below(3) as u32 } else { 1 + r.below(1000) as u32 };
                let mut ch = sym_chunk(policy, mode == 2, t, if r.chance(1, 10) { 6 } else { 5 }, 9, seq, r.next() as u32, &body, &pad, r.chance(5, 6));
                let m = if r.chance(1, 3) { "asis" } else { mutate(&mut ch, r) };
                let mut c = mk_case(policy, mode, vec![ch], &format!("sym-{}", m));
                c.has_keys = r.chance(9, 10);
                c.start = if r.chance(1, 2) { seq } else { r.below(1200) as u32 };
                c.validate = r.chance(1, 2);
                c
            }
            4..=7 => {
                // OPN chunk, structure-aware
                let chan_policy = r.below(6) as usize;
                let mode = if chan_policy == 0 { 0 } else { 1 + r.below(2) as usize };
                let hdr_policy = if r.chance(3, 4) { 1 + r.below(5) as usize } else { r.below(6) as usize };
                let rid = 1usize; // receiver identity (RSA 2048); 5 (RSA 4096) in a few cases below
                let rid = if r.chance(1, 12) { 5 } else { rid };
                let sid = if r.chance(1, 10) { 4 } else { 0 };
                let uri = uri_bytes(if r.chance(3, 4) { 0 } else { r.below(6) as usize }, hdr_policy, r);
                let cert = match r.below(10) { 0 => Cert::Null, 1 => Cert::Garbage(1 + r.below(300) as usize), 2 => Cert::Of(1), _ => Cert::Of(sid) };
                let thumb = match r.below(10) { 0 => Thumb::Null, 1 => Thumb::Wrong, 2 => Thumb::Len(r.below(30) as usize), 3 => Thumb::Of(0), _ => Thumb::Of(rid) };
                let ks = ident(rid).cert.public_key().unwrap().size();
                let body = r.below(120) as usize;
                let enc = match r.below(10) {
                    0 => Enc::Garbage(r.below(600) as usize),
                    1 => Enc::Garbage(ks * (1 + r.below(2) as usize)),
                    2 => Enc::Garbage(0),
                    3 | 4 => {
                        let pad = match r.below(5) { 0 => vec![255; 1 + r.below(5) as usize], 1 => vec![r.next() as u8, r.next() as u8], 2 => rb(r, 8, 0),
                                                     3 => vec![250; 251], _ => vec![0] };
                        Enc::Plain { body, padding: pad, signer: sid, good_sig: true, to: rid }
                    }
                    5 => Enc::Plain { body, padding: good_asym_padding(hdr_policy, body, sid, rid), signer: sid, good_sig: false, to: rid },
                    6 => Enc::Plain { body, padding: good_asym_padding(hdr_policy, body, sid, rid), signer: 1, good_sig: true, to: rid },
                    7 => Enc::Plain { body, padding: good_asym_padding(hdr_policy, body, sid, 0), signer: sid, good_sig: true, to: 0 },
                    _ => Enc::Plain { body, padding: good_asym_padding(hdr_policy, body, sid, rid), signer: sid, good_sig: true, to: rid },
                };
                let mut ch = opn_chunk(hdr_policy, uri, &cert, &thumb, &enc, 5, 1 + r.below(100) as u32, 1, r);
                let m = if r.chance(2, 3) { "asis" } else { mutate(&mut ch, r) };
                let mut c = mk_case(chan_policy, mode, vec![ch], &format!("opn-{}", m));
                c.rid = rid; c.sid = sid;
                c.has_cert = r.chance(9, 10); c.has_pkey = c.has_cert && r.chance(9, 10);
                c.has_keys = chan_policy != 0 && r.chance(3, 4);
                if r.chance(1, 4) {
                    // followed by a symmetric chunk (the OPN may have changed the channel's policy)
                    let p2 = if hdr_policy == 0 { 3 } else { hdr_policy };
                    let ss = POLICIES[p2].symmetric_signature_size();
                    let b2 = rb(r, 30, 0);
                    let pad = if mode == 2 { good_sym_padding(b2.len(), ss) } else { vec![] };
                    let mut ch2 = sym_chunk(p2, mode == 2, b"MSG", 5, 9, 2, 2, &b2, &pad, true);
                    if r.chance(1, 2) { mutate(&mut ch2, r); }
                    c.chunks.push(ch2);
                }
                c
            }
            8 => {
                // raw garbage, possibly behind a plausible header
                let n = r.below(80) as usize;
                let mut ch = r.bytes(n);
                if r.chance(2, 3) && n >= 4 { ch[..3].copy_from_slice(*r.pick(&[b"MSG", b"OPN", b"CLO"])); ch[3] = *r.pick(&[b'F', b'C', b'A', b'X']); }
                if r.chance(1, 2) { set_size(&mut ch); }
                let policy = r.below(6) as usize;
                let mode = if policy == 0 { r.below(2) as usize * 0 } else { 1 + r.below(2) as usize };
                let mut c = mk_case(policy, mode, vec![ch], "garbage");
                c.has_keys = policy != 0 && r.chance(1, 2);
                c
            }
            _ => {
                // unsecured channel: sequences of plain chunks with chosen sequence numbers / request ids / channel ids
                let n = 1 + r.below(3) as usize;
                let s0 = match r.below(4) { 0 => u32::MAX - r.below(4) as u32, 1 => r.below(10) as u32, _ => 100 + r.below(100) as u32 };
                let mut chunks = Vec::new();
                for i in 0..n {
                    let seq = if r.chance(1, 8) { r.next() as u32 } else { s0.wrapping_add(i as u32) };
                    let f = if i + 1 == n { b'F' } else if r.chance(1, 10) { b'A' } else { b'C' };
                    chunks.push(plain_chunk(if r.chance(1, 6) { b"CLO" } else { b"MSG" }, f, if r.chance(1, 8) { 77 } else { 5 }, 9, seq,
                                            if r.chance(1, 8) { 8 } else { 7 }, &rb(r, 20, 0)));
                }
                if r.chance(1, 6) { let k = r.below(n as u64) as usize; mutate(&mut chunks[k], r); }
                let mut c = mk_case(0, 0, chunks, "plain-seq");
                c.start = match r.below(3) { 0 => s0, 1 => s0.wrapping_add(1), _ => s0.saturating_sub(3) };
                c.validate = true;
                c
            }
        }
    }
    fn exec(c: &Case) -> Out {
        let (term, out) = exec_case(c);
        Out { tag: c.tag.clone(), term, out }
    }
}
fn main() { run_main::<P>() }
