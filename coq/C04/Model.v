(* C04 — textual identifiers: executable model of the printers (Display / as_string / to_rfc3339)
   and parsers (FromStr) of NodeId, Identifier, ExpandedNodeId, Guid, NumericRange, ByteString
   base64 and DateTime, as committed in the repository checkout (after the `fix:` commits).
   The regex literals the recognisers below were written for are pinned in Props/C04.v against
   coq/Gen/C04Patterns.v (extracted from the source).  No proofs in this file. *)
From Coq Require Import String List ZArith Bool.
From OV Require Import C04.Text C04.Date.
Import ListNotations.
Open Scope Z_scope.

(* ---- values ------------------------------------------------------------------------------- *)
(* UAString / ByteString are Option<..>: None is the null value *)
Inductive ident :=
| INum (v : Z)
| IStr (s : option str)
| IGuid (b : list Z)            (* 16 bytes *)
| IBytes (b : option (list Z)).
Record node := mk_node { n_ns : Z; n_id : ident }.
Record enode := mk_enode { e_svr : Z; e_uri : option str; e_node : node }.
Inductive nr1 := Idx (i : Z) | Rng (a b : Z).
(* MultipleRanges nested in MultipleRanges is not representable: is_valid() rejects it and the
   parser never produces it *)
Inductive nrange := NRNone | NROne (r : nr1) | NRMulti (l : list nr1).

(* ---- Guid (uuid 1.10: Display/Debug = lower-case hyphenated; parser on utf-8 bytes) --------- *)
Definition print_guid (b : list Z) : str :=
  hex_of_bytes (firstn 4 b) ++ 45 :: hex_of_bytes (firstn 2 (skipn 4 b)) ++ 45 ::
  hex_of_bytes (firstn 2 (skipn 6 b)) ++ 45 :: hex_of_bytes (firstn 2 (skipn 8 b)) ++ 45 ::
  hex_of_bytes (skipn 10 b).

(* parse_hyphenated: 36 bytes, '-' at 8, 13, 18, 23, hex elsewhere *)
Definition parse_hyph (s : str) : option (list Z) :=
  match skipn 8 s, skipn 13 s, skipn 18 s, skipn 23 s with
  | 45 :: _, 45 :: _, 45 :: _, 45 :: _ =>
      bytes_of_hex (firstn 8 s ++ firstn 4 (skipn 9 s) ++ firstn 4 (skipn 14 s)
                    ++ firstn 4 (skipn 19 s) ++ skipn 24 s)
  | _, _, _, _ => None
  end.

(* Uuid::from_str.  The crate dispatches on the BYTE length and looks at bytes; a non-ASCII
   character always leads to an error (each of its bytes is >= 0x80, and every byte position of
   every accepted shape must hold an ASCII hex digit, '-', '{', '}' or a letter of "urn:uuid:"),
   so for the remaining strings bytes and characters coincide. *)
Definition parse_guid (s : str) : option (list Z) :=
  if negb (forallb is_ascii s) then None else
  let n := utf8len s in
  if n =? 32 then bytes_of_hex s
  else if n =? 36 then parse_hyph s
  else if n =? 38 then
    match s with
    | 123 :: t => if str_eqb (skipn 36 t) [125] then parse_hyph (firstn 36 t) else None
    | _ => None
    end
  else if n =? 45 then
    match strip (lit "urn:uuid:") s with Some t => parse_hyph t | None => None end
  else None.

(* ---- Identifier --------------------------------------------------------------------------- *)
Definition print_ident (i : ident) : str :=
  match i with
  | INum v => lit "i=" ++ dec v
  | IStr None => lit "s=[null]"
  | IStr (Some s) => lit "s=" ++ s
  | IGuid b => lit "g=" ++ print_guid b
  | IBytes None => lit "b="
  | IBytes (Some b) => lit "b=" ++ b64_encode b
  end.

(* the part of Identifier::from_str after the two-byte prefix has been split off *)
Definition ident_body (c0 c1 : Z) (v : str) : res ident :=
  if c1 =? 61 then
    if c0 =? 105 then match parse_uint U32MAX v with Some n => Ok (INum n) | None => Err end
    else if c0 =? 115 then Ok (IStr (Some v))
    else if c0 =? 103 then match parse_guid v with Some b => Ok (IGuid b) | None => Err end
    else if c0 =? 98 then match b64_decode v with Some b => Ok (IBytes (Some b)) | None => Err end
    else Err
  else Err.

(* Identifier::from_str: `s.len() < 2` is a BYTE length; `&s[..2]` needs byte index 2 to be a
   character boundary.  [strict] = the repaired code (checks is_char_boundary(2) first);
   [negb strict] = the code before the fix, which panicked there. *)
Definition ident_from_str_gen (strict : bool) (s : str) : res ident :=
  if utf8len s <? 2 then Err else
  match s with
  | [] => Err
  | c0 :: t =>
      if u8len1 c0 =? 2 then Err                         (* k is one two-byte character *)
      else if 2 <? u8len1 c0 then (if strict then Err else Panic)
      else match t with
           | [] => Err
           | c1 :: v => if 1 <? u8len1 c1 then (if strict then Err else Panic)
                        else ident_body c0 c1 v
           end
  end.
Definition ident_from_str := ident_from_str_gen true.

(* ---- NodeId ------------------------------------------------------------------------------- *)
Definition print_node (n : node) : str :=
  if n_ns n =? 0 then print_ident (n_id n)
  else lit "ns=" ++ dec (n_ns n) ++ 59 :: print_ident (n_id n).

Definition is_isgb (c : Z) : bool := (c =? 105) || (c =? 115) || (c =? 103) || (c =? 98).
(* `[isgb]=.+$` anchored at the start of [s]; [dotall] = the (?s) flag: without it `.` does not
   match a newline, so the tail must be newline-free *)
Definition no_nl (s : str) : bool := forallb (fun c => negb (c =? 10)) s.
Definition match_t (dotall : bool) (s : str) : bool :=
  match s with
  | k :: e :: x :: r => is_isgb k && (e =? 61) && (dotall || no_nl (x :: r))
  | _ => false
  end.

(* (?s)^(ns=(?P<ns>[0-9]+);)?(?P<t>[isgb]=.+)$  — captures (ns, t).  The optional group is tried
   first; without it the string would have to start with one of i s g b. *)
Definition re_node (dotall : bool) (s : str) : option (option str * str) :=
  let with_ns :=
    match strip (lit "ns=") s with
    | Some r => let (d, r') := span_digits r in
                match d, r' with
                | _ :: _, c :: t => if (c =? 59) && match_t dotall t then Some (Some d, t) else None
                | _, _ => None
                end
    | None => None
    end in
  match with_ns with
  | Some x => Some x
  | None => if match_t dotall s then Some (None, s) else None
  end.

Definition node_from_str_gen (dotall strict : bool) (s : str) : res node :=
  match re_node dotall s with
  | None => Err
  | Some (ons, t) =>
      match (match ons with Some d => parse_uint U16MAX d | None => Some 0 end) with
      | None => Err
      | Some ns => match ident_from_str_gen strict t with
                   | Ok i => Ok (mk_node ns i)
                   | Err => Err
                   | Panic => Panic
                   end
      end
  end.
Definition node_from_str := node_from_str_gen true true.

(* ---- ExpandedNodeId ----------------------------------------------------------------------- *)
Definition uri_escape (u : str) : str := replace1 59 (lit "%3b") (replace1 37 (lit "%25") u).
Definition uri_unescape (u : str) : str := replace3 37 50 53 [37] (replace3 37 51 98 [59] u).

Definition is_empty_o (s : option str) : bool := match s with None => true | Some [] => true | _ => false end.

Definition print_enode (e : enode) : str :=
  if is_empty_o (e_uri e) then lit "svr=" ++ dec (e_svr e) ++ 59 :: print_node (e_node e)
  else lit "svr=" ++ dec (e_svr e) ++ lit ";nsu="
       ++ uri_escape (match e_uri e with Some u => u | None => [] end)
       ++ 59 :: print_ident (n_id (e_node e)).

(* (?s)^svr=(?P<svr>[0-9]+);((ns=(?P<ns>[0-9]+)|nsu=(?P<nsu>[^;]+));)?(?P<t>[isgb]=.+)$
   captures (svr, ns, nsu, t).  [optgroup] = the namespace group is optional (repaired code);
   the code before the fix required it. *)
Definition re_enode (dotall optgroup : bool) (s : str) : option (str * option str * option str * str) :=
  match strip (lit "svr=") s with
  | None => None
  | Some r0 =>
      let (svr, r1) := span_digits r0 in
      match svr, r1 with
      | _ :: _, c :: r =>
          if negb (c =? 59) then None else
          let grp :=
            match strip (lit "ns=") r with
            | Some r2 => let (d, r3) := span_digits r2 in
                         match d, r3 with
                         | _ :: _, c' :: t => if (c' =? 59) && match_t dotall t
                                              then Some (svr, Some d, None, t) else None
                         | _, _ => None
                         end
            | None =>
                match strip (lit "nsu=") r with
                | Some r2 => let (u, r3) := span_not 59 r2 in
                             match u, r3 with
                             | _ :: _, _ :: t => if match_t dotall t
                                                 then Some (svr, None, Some u, t) else None
                             | _, _ => None
                             end
                | None => None
                end
            end in
          match grp with
          | Some x => Some x
          | None => if optgroup && match_t dotall r then Some (svr, None, None, r) else None
          end
      | _, _ => None
      end
  end.

Definition enode_from_str_gen (dotall optgroup strict : bool) (s : str) : res enode :=
  match re_enode dotall optgroup s with
  | None => Err
  | Some (svr, ons, onsu, t) =>
      match parse_uint U32MAX svr with
      | None => Err
      | Some server =>
          let uri := match onsu with Some u => Some (uri_unescape u) | None => None end in
          match (match ons with Some d => parse_uint U16MAX d | None => Some 0 end) with
          | None => Err
          | Some ns => match ident_from_str_gen strict t with
                       | Ok i => Ok (mk_enode server uri (mk_node ns i))
                       | Err => Err
                       | Panic => Panic
                       end
          end
      end
  end.
Definition enode_from_str := enode_from_str_gen true true true.

(* ---- NumericRange ------------------------------------------------------------------------- *)
Definition print_nr1 (r : nr1) : str :=
  match r with Idx i => dec i | Rng a b => dec a ++ 58 :: dec b end.
Definition print_nrange (r : nrange) : str :=
  match r with
  | NRNone => []
  | NROne x => print_nr1 x
  | NRMulti l => join 44 (map print_nr1 l)
  end.

(* parse_range: ^(?P<min>[0-9]{1,10})(:(?P<max>[0-9]{1,10}))?$ *)
Definition parse_nr1 (s : str) : option nr1 :=
  match s with
  | [] => None
  | _ =>
      let (d, r) := span_digits s in
      if (Nat.leb 1 (length d)) && (Nat.leb (length d) 10) then
        match r with
        | [] => match parse_uint U32MAX d with Some v => Some (Idx v) | None => None end
        | c :: r' =>
            if negb (c =? 58) then None else
            let (d2, r2) := span_digits r' in
            match r2 with
            | [] =>
                if (Nat.leb 1 (length d2)) && (Nat.leb (length d2) 10) then
                  match parse_uint U64MAX d, parse_uint U64MAX d2 with
                  | Some a, Some b => if (b <=? a) || (U32MAX <? b) then None else Some (Rng a b)
                  | _, _ => None
                  end
                else None
            | _ :: _ => None
            end
        end
      else None
  end.

Fixpoint parse_all (ps : list str) : option (list nr1) :=
  match ps with
  | [] => Some []
  | p :: t => match parse_nr1 p with
              | None => None
              | Some r => match parse_all t with Some l => Some (r :: l) | None => None end
              end
  end.

Definition MAX_INDICES : nat := 10.
Definition nrange_from_str (s : str) : option nrange :=
  match s with
  | [] => Some NRNone
  | _ =>
      let parts := split_on 44 s in
      match parts with
      | [p] => match parse_nr1 p with Some r => Some (NROne r) | None => None end
      | _ => if Nat.leb 2 (length parts) && Nat.leb (length parts) MAX_INDICES
             then match parse_all parts with Some l => Some (NRMulti l) | None => None end
             else None
      end
  end.

(* NumericRange::is_valid *)
Definition nr1_valid (r : nr1) : bool := match r with Idx _ => true | Rng a b => a <? b end.
Definition nrange_is_valid (r : nrange) : bool :=
  match r with NRNone => true | NROne x => nr1_valid x | NRMulti l => forallb nr1_valid l end.

(* ---- the code before the `fix:` commits -------------------------------------------------------- *)
Module Legacy.
  (* Identifier::from_str sliced `&s[..2]` without checking the character boundary *)
  Definition ident_from_str := ident_from_str_gen false.
  (* NodeId::from_str: regex without (?s) *)
  Definition node_from_str := node_from_str_gen false false.
  (* ExpandedNodeId::from_str: regex without (?s) and with a mandatory namespace group *)
  Definition enode_from_str := enode_from_str_gen false false false.
End Legacy.

(* ---- encodings of parse results ------------------------------------------------------------ *)
Definition enc_ident (i : ident) : list Z :=
  match i with
  | INum v => [0; v]
  | IStr s => 1 :: enc_ostr s
  | IGuid b => 2 :: b
  | IBytes b => 3 :: enc_ostr b
  end.
Definition enc_node (n : node) : list Z := n_ns n :: enc_ident (n_id n).
Definition enc_enode (e : enode) : list Z := e_svr e :: enc_ostr (e_uri e) ++ enc_node (e_node e).
Definition enc_nr1 (r : nr1) : list Z := match r with Idx i => [1; i] | Rng a b => [2; a; b] end.
Definition enc_nrange (r : nrange) : list Z :=
  match r with
  | NRNone => [0]
  | NROne x => enc_nr1 x
  | NRMulti l => 3 :: Z.of_nat (length l) :: flat_map enc_nr1 l
  end.
Definition enc_bytes (b : list Z) : list Z := enc_str b.

(* ---- correspondence interface --------------------------------------------------------------- *)
Inductive case :=
| CNode (ns : Z) (id : ident)
| CExp (svr : Z) (uri : option str) (ns : Z) (id : ident)
| CGuid (b : list Z)
| CRange (r : nrange)
| CDate (ticks : Z)
(* which: 0 NodeId 1 ExpandedNodeId 2 Identifier 3 Guid 4 NumericRange 5 base64
          6 DateTime::from_str 7 DateTime::parse_from_rfc3339.
   [aux]: for 6 and 7 the verdict of the chrono parser on the string (timestamp, nanosecond), an
   oracle transcript supplied by the harness; None elsewhere / for a chrono error *)
| CParse (which : Z) (s : str) (aux : option (Z * Z)).

Definition enc_dt (d : Z * Z) : list Z := [fst d; snd d].

Definition run (c : case) : list Z :=
  match c with
  | CNode ns id =>
      let s := print_node (mk_node ns id) in
      enc_str s ++ enc_res enc_node (node_from_str s)
  | CExp svr uri ns id =>
      let s := print_enode (mk_enode svr uri (mk_node ns id)) in
      enc_str s ++ enc_res enc_enode (enode_from_str s)
  | CGuid b =>
      let s := print_guid b in
      enc_str s ++ enc_res (fun x => x) (of_opt (parse_guid s))
  | CRange r =>
      let s := print_nrange r in
      enc_str s ++ enc_res enc_nrange (of_opt (nrange_from_str s))
      ++ [if nrange_is_valid r then 1 else 0]
  | CDate t =>
      let d := dt_from_ticks t in
      let s := dt_display d in
      let s2 := dt_to_rfc3339 d in
      enc_str s ++ enc_res enc_dt (of_opt (dt_from_str_strict s))
      ++ enc_str s2 ++ enc_res enc_dt (of_opt (dt_parse_rfc3339_strict s2))
  | CParse w s aux =>
      if w =? 0 then enc_res enc_node (node_from_str s)
      else if w =? 1 then enc_res enc_enode (enode_from_str s)
      else if w =? 2 then enc_res enc_ident (ident_from_str s)
      else if w =? 3 then enc_res (fun x => x) (of_opt (parse_guid s))
      else if w =? 4 then enc_res enc_nrange (of_opt (nrange_from_str s))
      else if w =? 5 then enc_res enc_bytes (of_opt (b64_decode s))
      else if w =? 6 then enc_res enc_dt (of_opt (option_map dt_from_chrono aux))
      else enc_res enc_dt (of_opt (option_map dt_clamp aux))
  end.

(* ---- the property ---------------------------------------------------------------------------- *)
Definition byteb (b : Z) : bool := (0 <=? b) && (b <=? 255).
Definition ident_validb (i : ident) : bool :=
  match i with
  | INum v => (0 <=? v) && (v <=? U32MAX)
  | IStr (Some (_ :: _)) => true
  | IStr _ => false
  | IGuid b => Nat.eqb (length b) 16 && forallb byteb b
  | IBytes (Some (x :: b)) => forallb byteb (x :: b)
  | IBytes _ => false
  end.
Definition u16b (v : Z) : bool := (0 <=? v) && (v <=? U16MAX).
Definition u32b (v : Z) : bool := (0 <=? v) && (v <=? U32MAX).
Definition nr1_wf (r : nr1) : bool :=
  match r with Idx i => u32b i | Rng a b => u32b a && u32b b && (a <? b) end.

Definition validb (c : case) : bool :=
  match c with
  | CNode ns id => u16b ns && ident_validb id
  | CExp svr uri ns id =>
      u32b svr && u16b ns && ident_validb id &&
      match uri with None => true | Some [] => false | Some _ => ns =? 0 end
  | CGuid b => Nat.eqb (length b) 16 && forallb byteb b
  | CRange NRNone => true
  | CRange (NROne r) => nr1_wf r
  | CRange (NRMulti l) => forallb nr1_wf l
  | CDate t => (0 <=? t) && (t <=? END_TICKS)
  | CParse _ _ _ => true
  end.
Definition valid (c : case) : Prop := validb c = true.

(* known class 1: NumericRange::is_valid() accepts a MultipleRanges value with fewer than 2 or more
   than 10 parts, but its text form is the text of a different value (0 parts: "", 1 part: the
   single range) or is rejected by the parser (more than MAX_INDICES parts) *)
Definition known (c : case) : Z :=
  match c with
  | CRange (NRMulti l) => if (Nat.ltb (length l) 2) || (Nat.ltb 10 (length l)) then 1 else 0
  | _ => 0
  end.

(* skip the printed string in an output *)
Definition after_str (out : list Z) : list Z :=
  match out with n :: r => skipn (Z.to_nat n) r | [] => [] end.
Definition no_panic (r : list Z) : bool := match r with x :: _ => negb (x =? -2) | [] => false end.

(* The property, on an output of print-then-parse: for a value in the quantifier's domain the
   parse result is Ok of the ORIGINAL value; otherwise (and for arbitrary strings) only "no
   panic".  Written on the original value, independently of the printers and parsers above. *)
Definition oracle (c : case) (out : list Z) : bool :=
  match c with
  | CNode ns id =>
      if validb c then str_eqb (after_str out) (1 :: enc_node (mk_node ns id))
      else no_panic (after_str out)
  | CExp svr uri ns id =>
      if validb c then str_eqb (after_str out) (1 :: enc_enode (mk_enode svr uri (mk_node ns id)))
      else no_panic (after_str out)
  | CGuid b =>
      if validb c then str_eqb (after_str out) (1 :: b) else no_panic (after_str out)
  | CRange r =>
      if validb c then str_eqb (after_str out) (1 :: enc_nrange r ++ [1])
      else no_panic (after_str out)
  | CDate t =>
      if validb c then
        (* full precision from Display/from_str, milliseconds from to_rfc3339/parse_from_rfc3339 *)
        let r1 := after_str out in
        let exp1 := [1; t / 10000000 - UNIX_OPC_SECS; (t mod 10000000) * 100] in
        let exp2 := [1; t / 10000000 - UNIX_OPC_SECS; ((t mod 10000000) / 10000) * 1000000] in
        str_eqb (firstn 3 r1) exp1 && str_eqb (after_str (skipn 3 r1)) exp2
      else no_panic out
  | CParse _ _ _ => no_panic out
  end.
