(* C27 — higher-priority subscriptions are served first.

   The implementation model is the shared system model C21/Sys.v (Subscriptions::tick with its
   priority sort `sort_by(|s1, s2| s2.1.cmp(&s1.1))`, as repaired by "fix: subscriptions were
   served in ascending priority order").  A case is an operation list; the observation after
   every operation is the publish responses taken from the session (in order) and, per live
   subscription, the number of notifications still waiting for a publish request.

   The property, on one scheduling round (one call of Subscriptions::tick):
     (a) the publish responses of the round are in non-increasing priority of their
         subscription, and
     (b) if the round answered a subscription of priority p, then no live subscription of
         priority > p is left with a notification ready.
   Priorities are the ones the client asked for in the case (the k-th OCreateSub gets id k).
   An OPublish on a full request queue runs two rounds (enqueue_publish_request ticks before and
   after queueing); the observation does not separate them, so for such an operation the oracle
   only asks that the responses split into two non-increasing runs. *)
From Coq Require Import List ZArith Bool Lia.
Import ListNotations.
From OV Require Export C21.Sys.
Open Scope Z_scope.

(* priority requested for subscription id (ids are handed out 1, 2, ... in creation order) *)
Fixpoint create_prios (ops : list op) : list Z :=
  match ops with
  | [] => []
  | OCreateSub prio _ _ _ _ :: r => prio :: create_prios r
  | _ :: r => create_prios r
  end.
Definition prio_of (c : case) (id : Z) : Z := nth (Z.to_nat (id - 1)) (create_prios (c_ops c)) 0.

Definition resp_subs (rs : list resp) : list Z :=
  flat_map (fun r => match r with RPub _ sub _ _ _ _ => [sub] | RFault _ _ => [] end) rs.

Fixpoint non_increasing (l : list Z) : bool :=
  match l with
  | a :: (b :: _) as r => (b <=? a) && non_increasing r
  | _ => true
  end.

(* a list splits into at most two non-increasing runs *)
Fixpoint two_runs (l : list Z) : bool :=
  match l with
  | a :: (b :: _) as r => if b <=? a then two_runs r else non_increasing r
  | _ => true
  end.

(* (b): no live subscription with a higher priority than an answered one keeps a notification *)
Definition none_starved (c : case) (answered : list Z) (subs : list (Z * Z * Z)) : bool :=
  forallb (fun i =>
    forallb (fun t => let '(j, _, pending) := t in
                      negb (prio_of c i <? prio_of c j) || (pending =? 0)) subs) answered.

(* was the request queue full before the operation (then an OPublish runs two rounds) *)
Definition queue_full (sn : snap) : bool := 2 * len (sn_subs sn) <=? len (sn_reqs sn).

Definition check_op (c : case) (o : op) (before : snap) (r : opres) : bool :=
  let answered := resp_subs (o_resps r) in
  let prios := map (prio_of c) answered in
  match o with
  | OPublish _ _ _ =>
      if queue_full before then two_runs prios
      else non_increasing prios && none_starved c answered (sn_subs (o_snap r))
  | _ => non_increasing prios && none_starved c answered (sn_subs (o_snap r))
  end.

Definition empty_snap : snap := mk_snap [] [] [] [].

Fixpoint check_trace (c : case) (ops : list op) (before : snap) (tr : list opres) : bool :=
  match tr, ops with
  | [], _ => true
  | r :: tr', o :: ops' => check_op c o before r && check_trace c ops' (o_snap r) tr'
  | _ :: _, [] => false
  end.

Definition oracle (c : case) (out : list Z) : bool :=
  match decode out with
  | Some (tr, _) => check_trace c (c_ops c) empty_snap tr
  | None => false
  end.

Definition known (c : case) : Z := 0.

(* every case: the priority order does not depend on any well-formedness of the history *)
Definition valid (c : case) : Prop := True.

(* the code before the fix: ascending priority *)
Module Legacy.
  Fixpoint ins_prio (x : Z * Z) (l : list (Z * Z)) : list (Z * Z) :=
    match l with
    | [] => [x]
    | y :: r => if snd y <? snd x then y :: ins_prio x r else x :: y :: r
    end.
  Definition prio_order (subs : list sub) : list Z :=
    map fst (fold_right ins_prio [] (map (fun s => (s_id s, s_prio s)) subs)).
  Definition sys_tick := sys_tick_g prio_order sub_tick.
  Definition run_ev (c : case) : list opres * bool := run_ops_g sys_tick (init c) 0 (c_ops c).
  Definition run (c : case) : list Z := enc_trace (run_ev c).
End Legacy.
