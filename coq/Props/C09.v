(* C09 — Secure-channel receive path is total on arbitrary peer bytes.  Statements only.

   The receive path is the model of SecureChannel::verify_and_remove_security ([recv], with
   asymmetric_decrypt_and_verify = [recv_asym], symmetric_decrypt_and_verify and the stripping of
   signature and padding = [recv_sym], verify_padding, the RSA block loop of private_decrypt, the
   header decoders) and of Chunker::validate_chunks in C07/Chan.v.  [total r] says that [r] is a
   chunk or an error, not one of the explicit panic sites of the model.  The theorems hold for
   every byte string, every channel state (any policy, any mode including Invalid, with or
   without certificate / private key / derived keys) and every behaviour of the external
   primitives that respects three length laws. *)
From Coq Require Import List ZArith Bool.
Import ListNotations.
From OV Require Import C07.Chan C07.Prims C09.Total C09.Model C09.Proofs.
Open Scope Z_scope.

(* verify_and_remove_security never panics.  Laws: a certificate is longer than the RSA key it
   carries (this is what makes `start + decrypted_size - signature_size` safe), an RSA block
   decrypts to at most the block's length, AES-CBC without padding preserves the length. *)
Theorem C09_recv_total : forall (P : prims) (fx : fixes), guarded_fixes fx ->
  (forall c k ks, p_cert_key P c = Some (k, ks) -> 0 < ks < len c) ->
  (forall k p blk pt, p_rsa_dec P k p blk = Some pt -> len pt <= len blk) ->
  (forall k c, len (p_aes_dec P k c) = len c) ->
  forall (r : receiver) (src : bytes), total (fst (recv P fx r src)).
Proof. intros P fx G H1 H2 H3. exact (recv_total P fx G H2 H1 H3). Qed.
Print Assumptions C09_recv_total.

(* the repaired code has all the guards *)
Theorem C09_current_guarded : guarded_fixes current.
Proof. exact current_guarded. Qed.
Print Assumptions C09_current_guarded.

(* validate_chunks never panics on a non-empty list of received chunks (its callers push the
   chunk just received before calling it), whatever the chunks contain *)
Theorem C09_validate_total : forall (P : prims) (fx : fixes), guarded_fixes fx ->
  forall (r : receiver) (start : Z) (cs : list bytes), cs <> [] -> total (validate_chunks P fx r start cs).
Proof. exact validate_chunks_total. Qed.
Print Assumptions C09_validate_total.

(* the reassembly part of Chunker::decode (header parsing, final-flag checks, concatenation of the
   bodies) never panics on a non-empty list; decoding the reassembled message is C02's subject *)
Theorem C09_decode_total : forall (P : prims) (r : receiver) (cs : list bytes), cs <> [] -> total (decode P r cs).
Proof. exact decode_total. Qed.
Print Assumptions C09_decode_total.

(* ChunkInfo::new and the header decoders never panic *)
Theorem C09_chunk_info_total : forall (P : prims) (lm : limits) (d : bytes), total (chunk_info P lm d).
Proof. exact chunk_info_total. Qed.
Print Assumptions C09_chunk_info_total.

(* PrivateKey::private_decrypt never slices out of range and returns no more bytes than it was given *)
Theorem C09_rsa_decrypt_total : forall (P : prims) (fx : fixes), guarded_fixes fx ->
  (forall k p blk pt, p_rsa_dec P k p blk = Some pt -> len pt <= len blk) ->
  forall key ks pol src,
  total (rsa_decrypt P fx key ks pol src) /\ forall pt, rsa_decrypt P fx key ks pol src = Ok pt -> len pt <= len src.
Proof. intros P fx G H. apply rsa_decrypt_total; assumption. Qed.
Print Assumptions C09_rsa_decrypt_total.

(* The malformed shapes named in the statement are reported as security errors [E_SEC]:
   null / malformed sender certificate, missing own certificate or private key, RSA and AES cipher
   text of the wrong length, chunk shorter than its signature, keys not yet derived, padding size
   bytes that claim more padding than there is data. *)
Theorem C09_security_errors : forall (P : prims) (fx : fixes), guarded_fixes fx ->
  (forall r src b1 off pol thumb, recv_asym P fx r src b1 off pol None thumb = Err E_SEC) /\
  (forall r src b1 off pol c thumb, p_cert_key P c = None -> recv_asym P fx r src b1 off pol (Some c) thumb = Err E_SEC) /\
  (forall r src b1 off pol c thumb k ks, p_cert_key P c = Some (k, ks) -> r_thumb r = None ->
     recv_asym P fx r src b1 off pol (Some c) thumb = Err E_SEC) /\
  (forall r src b1 off pol c thumb k ks th, p_cert_key P c = Some (k, ks) -> r_thumb r = Some th ->
     bytes_eqb th (match thumb with Some t => t | None => [] end) = true -> r_pkey r = None ->
     recv_asym P fx r src b1 off pol (Some c) thumb = Err E_SEC) /\
  (forall key ks pol src, len src mod ks <> 0 -> rsa_decrypt P fx key ks pol src = Err E_SEC) /\
  (forall r src b1 off msize, secured (r_policy r) (r_mode r) = true -> msize < src_sym_sig (r_policy r) ->
     recv_sym P fx r src b1 off msize = Err E_SEC) /\
  (forall r src b1 off msize, secured (r_policy r) (r_mode r) = true -> src_sym_sig (r_policy r) <= msize ->
     r_verkey r = None -> recv_sym P fx r src b1 off msize = Err E_SEC) /\
  (forall r src b1 off msize vk dk, secured (r_policy r) (r_mode r) = true -> r_mode r = MSignEnc ->
     src_sym_sig (r_policy r) <= msize -> r_verkey r = Some (vk, dk) -> (msize - off) mod 16 <> 0 ->
     recv_sym P fx r src b1 off msize = Err E_SEC) /\
  (forall d ks pe, ks <= 256 -> 1 <= pe <= len d -> pe < nth (Z.to_nat (pe - 1)) d 0 + 1 ->
     verify_padding fx d ks pe = Err E_SEC) /\
  (forall d ks pe, 256 < ks -> 2 <= pe <= len d ->
     pe < nth (Z.to_nat (pe - 1)) d 0 * 256 + nth (Z.to_nat (pe - 2)) d 0 + 2 -> verify_padding fx d ks pe = Err E_SEC).
Proof.
  intros P fx (G1 & G2 & G3 & G4 & G5 & G6 & G7 & G8). repeat split; intros.
  - apply null_certificate; assumption.
  - apply malformed_certificate; assumption.
  - eapply missing_own_certificate; eassumption.
  - eapply missing_private_key; eassumption.
  - apply rsa_cipher_text_wrong_length; assumption.
  - apply shorter_than_signature; assumption.
  - apply keys_not_derived; assumption.
  - eapply aes_cipher_text_wrong_length; eassumption.
  - apply (proj1 (bogus_padding_length fx d ks pe G7)); assumption.
  - apply (proj2 (bogus_padding_length fx d ks pe G7)); assumption.
Qed.
Print Assumptions C09_security_errors.

(* the primitives of the correspondence run (answers looked up in the harness's transcript)
   satisfy the three laws whenever the transcript passes [tr_ok] *)
Theorem C09_transcript_laws : forall T, tr_ok T = true ->
  (forall c k ks, p_cert_key (tr_prims T) c = Some (k, ks) -> 0 < ks < len c) /\
  (forall k p blk pt, p_rsa_dec (tr_prims T) k p blk = Some pt -> len pt <= len blk) /\
  (forall k c, len (p_aes_dec (tr_prims T) k c) = len c).
Proof. intros T H. repeat split; intros; [eapply tr_cert|eapply tr_cert|eapply tr_rsa|eapply tr_aes]; eassumption. Qed.
Print Assumptions C09_transcript_laws.

(* The correspondence oracle: every status in a run is a chunk or an error, never the panic
   marker. *)
Theorem C09_oracle : forall c, valid c -> known c = 0 -> oracle c (run c) = true.
Proof. exact oracle_holds. Qed.
Print Assumptions C09_oracle.

(* The code before each of the seven fix: commits panics on a concrete input (1 null sender
   certificate, 2 no own certificate, 3 keys not derived, 4 AES block size, 5 chunk shorter than
   its signature, 6 padding size, 7 sequence number 4294967295), and the repaired code does not. *)
Theorem C09_legacy_refuted : forall w, In w [1; 2; 3; 4; 5; 6; 7] ->
  exists c, valid c /\ oracle c (Legacy.run w c) = false /\ oracle c (run c) = true.
Proof. intros w Hw. exists (witness w). apply legacy_refuted. exact Hw. Qed.
Print Assumptions C09_legacy_refuted.

Example C09_valid_example : valid w6 /\ valid w3.
Proof. split; vm_compute; reflexivity. Qed.
