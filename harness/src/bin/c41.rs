//! C41: saved configurations load back unchanged.
//! Real `Config::save` -> file -> `Config::load` on generated client and server configurations
//! (YAML-special strings, endpoint / user-token maps, limit values), compared with the original by
//! `PartialEq`, `is_valid` and the serde_yaml::Value tree.  Every configuration is built through the
//! public API (ClientBuilder setters, ServerConfig's public fields) together with its Coq term.
#[path = "../util.rs"]
mod util;
use opcua::client::{ClientBuilder, ClientConfig, ClientEndpoint, ClientUserToken};
use opcua::core::config::Config;
use opcua::crypto::Thumbprint;
use opcua::server::config::{CertificateValidation, Limits, Performance, ServerConfig, ServerEndpoint, ServerUserToken, TcpConfig};
use serde_yaml::Value as Y;
use std::collections::{BTreeMap, BTreeSet};
use std::path::PathBuf;
use std::time::Duration;
use util::*;

pub enum Cfg { Client(ClientConfig), Server(ServerConfig) }
pub struct Case { cfg: Cfg, term: String, tag: String }
pub struct P;

// ---- Coq terms -------------------------------------------------------------------------------------
/// a string as one number: 1 followed by its scalar values as base-2^21 digits (decimal text of a
/// big integer kept in base 10^9 limbs); the model unpacks it with `u`
fn pack(s: &str) -> String {
    let mut limbs: Vec<u64> = vec![1];
    for c in s.chars() {
        let mut carry = c as u64;
        for l in limbs.iter_mut() { let v = *l * 2_097_152 + carry; *l = v % 1_000_000_000; carry = v / 1_000_000_000; }
        while carry > 0 { limbs.push(carry % 1_000_000_000); carry /= 1_000_000_000; }
    }
    let mut out = format!("{}", limbs[limbs.len() - 1]);
    for l in limbs.iter().rev().skip(1) { out.push_str(&format!("{:09}", l)); }
    out
}
fn t_str(s: &str) -> String { format!("(VS (u {}))", pack(s)) }
fn t_key(s: &str) -> String { format!("(u {})", pack(s)) }
fn cksum(l: &[i128]) -> i128 { l.iter().fold(0i128, |acc, x| (acc * 1_000_003 + x + 7).rem_euclid(2_305_843_009_213_693_951)) }
fn t_bool(b: bool) -> String { format!("(VB {})", coq_bool(b)) }
fn t_int(v: i128) -> String { format!("(VZ {})", z(v)) }
fn t_f64(f: f64) -> String { format!("(VF {})", f.to_bits()) }
fn t_opt(o: Option<String>) -> String { match o { Some(t) => format!("(VO (Some {}))", t), None => "(VO None)".into() } }
fn t_list(l: Vec<String>) -> String { format!("(VL [{}])", l.join("; ")) }
fn t_rec(l: Vec<String>) -> String { format!("(VR [{}])", l.join("; ")) }
fn t_map(l: Vec<(String, String)>) -> String { format!("(VM [{}])", l.iter().map(|(k, v)| format!("({}, {})", t_key(k), v)).collect::<Vec<_>>().join("; ")) }
fn t_dur(d: Duration) -> String { format!("(VDur {} {})", d.as_secs(), d.subsec_nanos()) }

/// a path: valid UTF-8, or (on unix) bytes that are not
#[derive(Clone)]
pub enum PathV { Good(String), Bad }
impl PathV {
    fn buf(&self) -> PathBuf {
        match self {
            PathV::Good(s) => PathBuf::from(s),
            PathV::Bad => { use std::os::unix::ffi::OsStringExt; PathBuf::from(std::ffi::OsString::from_vec(vec![b'p', b'k', 0xff, 0xfe, b'i'])) }
        }
    }
    fn term(&self) -> String { match self { PathV::Good(s) => t_str(s), PathV::Bad => "VBadPath".into() } }
}

// ---- canonical tree of a serde_yaml::Value ------------------------------------------------------------
fn e_chars(s: &str, o: &mut Vec<i128>) { o.push(s.chars().count() as i128); o.extend(s.chars().map(|c| c as i128)); }
fn e_yaml(y: &Y, o: &mut Vec<i128>) {
    match y {
        Y::Null => o.push(0),
        Y::Bool(b) => { o.push(1); o.push(*b as i128) }
        Y::Number(n) => {
            if let Some(u) = n.as_u64() { o.push(2); o.push(u as i128) }
            else if let Some(i) = n.as_i64() { o.push(2); o.push(i as i128) }
            else { o.push(3); o.push(n.as_f64().map(|f| f.to_bits() as i128).unwrap_or(-1)) }
        }
        Y::String(s) => { o.push(4); e_chars(s, o) }
        Y::Sequence(l) => { o.push(5); o.push(l.len() as i128); for x in l { e_yaml(x, o) } }
        Y::Mapping(m) => {
            o.push(6); o.push(m.len() as i128);
            for (k, x) in m { match k { Y::String(s) => e_chars(s, o), _ => o.push(-9) } e_yaml(x, o) }
        }
        Y::Tagged(_) => o.push(-8),
    }
}

// ---- execution -------------------------------------------------------------------------------------------
fn tmp_path() -> PathBuf {
    let d = std::env::temp_dir().join(format!("c41-{}", std::process::id()));
    let _ = std::fs::create_dir_all(&d);
    d.join("config.yaml")
}
/// What is in the file before a configuration is saved: something longer than the configuration that does
/// not parse (a save that does not replace the whole file leaves a tail of it behind).
const JUNK: &str = "\n:::{{{[\n- ? [\n";
fn prefill(path: &std::path::Path, at_least: usize) {
    let _ = std::fs::write(path, JUNK.repeat(at_least / JUNK.len() + 1));
}
/// an older version of a client configuration: the same, but for the last bit of session_timeout
/// (same length in the file); built through the public Serialize / Deserialize because the fields are private
fn client_sibling(c: &ClientConfig) -> Option<ClientConfig> {
    let mut y = serde_yaml::to_value(c).ok()?;
    let m = y.as_mapping_mut()?;
    let k = Y::String("session_timeout".into());
    let v = m.get(&k)?.as_u64()?;
    m.insert(k, Y::Number((v ^ 1).into()));
    serde_yaml::from_value(y).ok()
}
fn server_sibling(c: &ServerConfig) -> Option<ServerConfig> { let mut s = c.clone(); s.tcp_config.port ^= 1; Some(s) }

/// The history on ONE path: the file holds junk; an older version of the configuration (the sibling) is
/// saved and loaded; the configuration is saved over it and loaded twice.
macro_rules! save_load {
    ($cfg:expr, $t:ty, $sib:expr) => {{
        let cfg: &$t = $cfg;
        let path = tmp_path();
        let size = guarded(|| serde_yaml::to_string(cfg).map(|s| s.len()).unwrap_or(0)).unwrap_or(0);
        prefill(&path, 2 * size + 4096);
        let valid = cfg.is_valid();
        let sib: Option<$t> = guarded(|| $sib(cfg)).ok().flatten();
        let sib_eq = match &sib {
            Some(s) => match guarded(|| s.save(&path)) {
                Ok(Ok(())) => matches!(guarded(|| <$t as Config>::load::<$t>(&path)), Ok(Ok(ref l)) if *l == *s),
                _ => false,
            },
            None => false,
        };
        match guarded(|| cfg.save(&path)) {
            Err(_) => vec![-2],
            Ok(Err(_)) => vec![if valid { -1 } else { 0 }],
            Ok(Ok(())) => {
                let tree = guarded(|| serde_yaml::to_value(cfg)).ok().and_then(|r| r.ok());
                let mut e = Vec::new();
                match &tree { Some(t) => e_yaml(t, &mut e), None => e.push(-7) }
                let mut out = vec![1, e.len() as i128, cksum(&e)];
                let loaded: Result<Result<$t, ()>, String> = guarded(|| <$t as Config>::load(&path));
                match loaded {
                    Err(_) => out.push(-2),
                    Ok(Err(_)) => out.push(0),
                    Ok(Ok(l)) => {
                        out.push(1);
                        out.push((l == *cfg) as i128);
                        out.push(l.is_valid() as i128);
                        let t2 = guarded(|| serde_yaml::to_value(&l)).ok().and_then(|r| r.ok());
                        out.push((t2.is_some() && t2 == tree) as i128);
                        out.push(sib_eq as i128);
                        // the same file read a second time
                        out.push(matches!(guarded(|| <$t as Config>::load::<$t>(&path)), Ok(Ok(ref l2)) if *l2 == *cfg) as i128);
                    }
                }
                out
            }
        }
    }};
}

impl Property for P {
    type Case = Case;
    fn fixed(tier: &str) -> Vec<Case> { fixed_cases(tier) }
    fn gen(r: &mut Rng) -> Case {
        match guarded(|| if r.chance(1, 2) { gen_client(r, None, 0) } else { gen_server(r, None, false, 0) }) {
            Ok(c) => c,
            Err(m) => { eprintln!("c41: generator panicked: {}", m); gen_client(&mut Rng::new(1), Some("plain"), 0) }
        }
    }
    fn exec(c: &Case) -> Out {
        let (kind, valid, out) = match &c.cfg {
            Cfg::Client(cfg) => match guarded(|| cfg.is_valid()) { Ok(v) => (0, v, save_load!(cfg, ClientConfig, client_sibling)), Err(m) => { eprintln!("c41: is_valid panicked: {}", m); (0, false, vec![-3]) } },
            Cfg::Server(cfg) => match guarded(|| cfg.is_valid()) { Ok(v) => (1, v, save_load!(cfg, ServerConfig, server_sibling)), Err(m) => { eprintln!("c41: is_valid panicked: {}", m); (1, false, vec![-3]) } },
        };
        Out { tag: c.tag.clone(), term: format!("(mk_case {} {} {})", kind, c.term, coq_bool(valid)), out }
    }
}

// ---- generators ---------------------------------------------------------------------------------------------
const SPECIAL: &[&str] = &[
    ": ", "a: b", "key: value", "#", " #comment", "a #b", "- item", "- ", "~", "null", "Null", "NULL", "yes", "no", "Yes", "on", "off", "true", "false",
    "True", "y", "n", "1", "-1", "1.0", "1e3", "0x1f", "0o17", "012", ".inf", "-.inf", ".nan", ".NaN", "+1", "1_000", "", " ", "  lead", "trail  ", " both ",
    "\ttab", "tab\t", "multi\nline", "multi\n\nline\n", "trailing newline\n", "\n", "\n\n", "line one\n  indented\nback", "a\rb", "\r\n", "{a: b}", "[1, 2]", "{", "}", "[", "]", ",",
    "&anchor", "*alias", "!tag", "!!str x", "|", ">", "|-", ">+", "%", "@", "`", "'single'", "\"double\"", "it's", "say \"hi\"", "back\\slash", "\\n", "\u{0}", "\u{7}", "\u{1b}",
    "\u{7f}", "\u{85}", "\u{a0}", "\u{2028}", "\u{2029}", "\u{feff}", "\u{feff}bom", "\u{fffd}", "\u{e9}", "\u{65e5}\u{672c}\u{8a9e}", "\u{1F600}", "\u{10ffff}", "---", "--- x", "...", "? ", "? key", "=", "<<",
    "2001-01-01", "2001-12-14t21:59:43.10-05:00", "12:30:45", "a very long value with spaces in it that goes well past the eighty column width at which an emitter might want to fold the line for readability",
    "averylongvaluewithoutanyspacesinitthatgoeswellpasttheeightycolumnwidthatwhichanemittermightwanttofoldtheline", "trailing space at eol \nnext", "# not a comment", "key:", ":value", "a:b", "- - nested",
    "opc.tcp://localhost:4855/", "urn:my app", "C:\\path\\to\\file", "/usr/local/pki", "./relative path/with spaces", "ANONYMOUS", "anonymous",
];
fn gen_str(r: &mut Rng) -> String {
    match r.below(6) {
        0 | 1 | 2 => r.pick(SPECIAL).to_string(),
        3 => { let n = 1 + r.below(10); (0..n).map(|_| (32 + r.below(95)) as u8 as char).collect() }
        4 => { let a = r.pick(SPECIAL).to_string(); let b = r.pick(SPECIAL); a + b }
        _ => {
            let n = 1 + r.below(6);
            (0..n).map(|_| loop {
                let c = match r.below(5) { 0 => r.below(0x20) as u32, 1 => r.below(0x100) as u32, 2 => r.below(0x800) as u32, 3 => r.below(0x10000) as u32, _ => r.below(0x110000) as u32 };
                if let Some(ch) = char::from_u32(c) { break ch; }
            }).collect()
        }
    }
}
fn gen_nonempty(r: &mut Rng) -> String { loop { let s = gen_str(r); if !s.is_empty() { return s; } } }
fn gen_key(r: &mut Rng, reserved: bool) -> String { loop { let s = gen_str(r); if !s.is_empty() && (!reserved || s != "ANONYMOUS") { return s; } } }
fn gen_path(r: &mut Rng) -> PathV { if r.chance(1, 40) { PathV::Bad } else { PathV::Good(gen_str(r)) } }
fn gen_usize(r: &mut Rng) -> usize { (match r.below(7) { 0 => 0, 1 => 1, 2 => u32::MAX as u64, 3 => u64::MAX, 4 => i64::MAX as u64 + r.below(2), 5 => r.below(100000), _ => r.next() >> r.below(64) }) as usize }
fn gen_u32(r: &mut Rng) -> u32 { match r.below(4) { 0 => 0, 1 => u32::MAX, _ => r.next() as u32 } }
fn gen_pos(r: &mut Rng) -> usize { loop { let v = gen_usize(r); if v != 0 { return v; } } }
fn gen_dur(r: &mut Rng) -> Duration {
    match r.below(6) { 0 => Duration::ZERO, 1 => Duration::MAX, 2 => Duration::new(r.below(100), 999_999_999), 3 => Duration::from_millis(r.below(100000)), 4 => Duration::new(u64::MAX, 0), _ => Duration::new(r.next() >> r.below(64), r.below(1_000_000_000) as u32) }
}
fn gen_f64(r: &mut Rng) -> f64 {
    match r.below(12) {
        0 => 0.0, 1 => -0.0, 2 => f64::INFINITY, 3 => f64::NEG_INFINITY, 4 => f64::MAX, 5 => f64::MIN_POSITIVE, 6 => f64::from_bits(1), 7 => 0.1, 8 => 1e300,
        9 => (r.range(-100000, 100000) as f64) / 1000.0, 10 => f64::from_bits(r.next()), _ => r.below(10000) as f64,
    }
}
const POLICIES: &[&str] = ALL_POLICIES;
const MODES: &[&str] = &["None", "Sign", "SignAndEncrypt"];
const BAD_POLICIES: &[&str] = &["Bogus", "", "none", "Basic256 ", "http://opcfoundation.org/UA/SecurityPolicy#Bogus", "Aes128_Sha256_RsaOaep", "Unknown"];
const BAD_MODES: &[&str] = &["SingAndEncrypt", "", "none", "Sign ", "Invalid", "SignAndEncrypt\n"];
const ALL_POLICIES: &[&str] = &["None", "Basic128Rsa15", "Basic256", "Basic256Sha256", "Aes128-Sha256-RsaOaep", "Aes256-Sha256-RsaPss",
    "http://opcfoundation.org/UA/SecurityPolicy#None", "http://opcfoundation.org/UA/SecurityPolicy#Basic128Rsa15", "http://opcfoundation.org/UA/SecurityPolicy#Basic256",
    "http://opcfoundation.org/UA/SecurityPolicy#Basic256Sha256", "http://opcfoundation.org/UA/SecurityPolicy#Aes128_Sha256_RsaOaep", "http://opcfoundation.org/UA/SecurityPolicy#Aes256_Sha256_RsaPss"];

/// `special`: put this string in every free-text position (fixed corpus)
fn pick_str(r: &mut Rng, special: Option<&str>) -> String { match special { Some(s) => s.to_string(), None => gen_str(r) } }
fn pick_ne(r: &mut Rng, special: Option<&str>) -> String { match special { Some(s) if !s.is_empty() => s.to_string(), _ => gen_nonempty(r) } }

/// a long string that fills every free-text position is written once (coqc reads about 4000 digits a second)
fn share(term: String, special: Option<&str>) -> String {
    match special { Some(s) if s.chars().count() > 40 => { let k = t_key(s); format!("(let lg := {} in {})", k, term.replace(&k, "lg")) } _ => term }
}
fn gen_client(r: &mut Rng, special: Option<&str>, extra: u64) -> Case {
    let invalid = special.is_none() && r.chance(1, 8);
    let mut tag = String::from("client");
    let app_name = if invalid && r.chance(1, 3) { String::new() } else { pick_ne(r, special) };
    let app_uri = if invalid && r.chance(1, 6) { String::new() } else { pick_ne(r, special) };
    let product_uri = pick_str(r, special);
    let create_sample_keypair = r.chance(1, 2);
    let cert = if r.chance(1, 2) { None } else { Some(match special { Some(s) => PathV::Good(s.into()), None => gen_path(r) }) };
    let pkey = if r.chance(1, 2) { None } else { Some(match special { Some(s) => PathV::Good(s.into()), None => gen_path(r) }) };
    let trust = r.chance(1, 2);
    let verify = r.chance(1, 2);
    let pki = match special { Some(s) => PathV::Good(s.into()), None => gen_path(r) };
    let locales: Vec<String> = (0..r.below(4)).map(|_| pick_str(r, special)).collect();
    // user tokens
    let mut tokens: BTreeMap<String, ClientUserToken> = BTreeMap::new();
    for _ in 0..(r.below(4) + extra) {
        let id = if invalid && r.chance(1, 6) { String::new() } else { match special { Some(s) if !s.is_empty() && s != "ANONYMOUS" && tokens.is_empty() => s.to_string(), _ => gen_key(r, true) } };
        let user = if invalid && r.chance(1, 4) { String::new() } else { pick_ne(r, special) };
        let tok = if invalid && r.chance(1, 5) {
                      // neither kind of token, or both at once
                      if r.chance(1, 2) { ClientUserToken { user, password: None, cert_path: None, private_key_path: None } }
                      else { ClientUserToken { user, password: Some(pick_str(r, special)), cert_path: if r.chance(1, 2) { Some(pick_str(r, special)) } else { None }, private_key_path: Some(pick_str(r, special)) } }
                  } else if r.chance(1, 2) { ClientUserToken { user, password: Some(pick_str(r, special)), cert_path: None, private_key_path: None } }
                  else { ClientUserToken { user, password: None, cert_path: Some(pick_str(r, special)), private_key_path: if invalid && r.chance(1, 3) { None } else { Some(pick_str(r, special)) } } };
        tokens.insert(id, tok);
    }
    // endpoints
    let mut endpoints: BTreeMap<String, ClientEndpoint> = BTreeMap::new();
    for _ in 0..(r.below(4) + extra) {
        let id = if invalid && r.chance(1, 6) { String::new() } else { match special { Some(s) if !s.is_empty() && endpoints.is_empty() => s.to_string(), _ => gen_key(r, false) } };
        let policy = if invalid && r.chance(1, 4) { r.pick(BAD_POLICIES).to_string() } else { r.pick(POLICIES).to_string() };
        let mode = if invalid && r.chance(1, 4) { r.pick(BAD_MODES).to_string() } else { r.pick(MODES).to_string() };
        let user_token_id = if r.chance(1, 3) { "ANONYMOUS".to_string() } else if !tokens.is_empty() && r.chance(1, 2) { tokens.keys().next().unwrap().clone() } else { pick_str(r, special) };
        endpoints.insert(id, ClientEndpoint { url: pick_str(r, special), security_policy: policy, security_mode: mode, user_token_id });
    }
    let default_endpoint = if endpoints.is_empty() || r.chance(1, 3) { if invalid && !endpoints.is_empty() && r.chance(1, 3) { "no such endpoint".to_string() } else { String::new() } }
                           else { let k: Vec<&String> = endpoints.keys().collect(); k[r.below(k.len() as u64) as usize].clone() };
    let dec: Vec<usize> = (0..7).map(|_| gen_usize(r)).collect();
    // (ClientBuilder::session_retry_limit panics below -1, so that invalid class cannot be built)
    let retry_limit: i32 = match r.below(5) { 0 => -1, 1 => 0, 2 => i32::MAX, _ => r.below(1000) as i32 };
    let durs: Vec<Duration> = (0..6).map(|_| gen_dur(r)).collect();
    let max_inflight_publish = gen_usize(r);
    let session_timeout = gen_u32(r);
    let ignore_clock_skew = r.chance(1, 2);
    let perf = (gen_usize(r), gen_usize(r));
    let session_name = pick_str(r, special);

    let mut b = ClientBuilder::new().application_name(app_name.clone()).application_uri(app_uri.clone()).product_uri(product_uri.clone())
        .create_sample_keypair(create_sample_keypair).trust_server_certs(trust).verify_server_certs(verify).pki_dir(pki.buf())
        .preferred_locales(locales.clone()).default_endpoint(default_endpoint.clone())
        .max_message_size(dec[0]).max_chunk_count(dec[1]).max_chunk_size(dec[2]).max_incoming_chunk_size(dec[3]).max_string_length(dec[4])
        .max_byte_string_length(dec[5]).max_array_length(dec[6])
        .session_retry_limit(retry_limit).session_retry_initial(durs[0]).session_retry_max(durs[1]).keep_alive_interval(durs[2])
        .request_timeout(durs[3]).publish_timeout(durs[4]).min_publish_interval(durs[5]).max_inflight_publish(max_inflight_publish)
        .session_timeout(session_timeout).recreate_monitored_items_chunk(perf.0).max_inflight_messages(perf.1).session_name(session_name.clone());
    if let Some(p) = &cert { b = b.certificate_path(p.buf()); }
    if let Some(p) = &pkey { b = b.private_key_path(p.buf()); }
    if ignore_clock_skew { b = b.ignore_clock_skew(); }
    for (id, t) in &tokens { b = b.user_token(id.clone(), t.clone()); }
    for (id, e) in &endpoints { b = b.endpoint(id.clone(), e.clone()); }
    let cfg = b.config();
    if matches!(pki, PathV::Bad) || matches!(cert, Some(PathV::Bad)) || matches!(pkey, Some(PathV::Bad)) { tag.push_str("-badpath"); }
    if !cfg.is_valid() { tag.push_str("-invalid"); }
    tag.push_str(&format!("-{}tok-{}ep", tokens.len(), endpoints.len()));
    if special.is_some() { tag.push_str("-special"); }
    if extra > 0 { tag.push_str("-large"); }

    let t_tok = |t: &ClientUserToken| t_rec(vec![t_str(&t.user), t_opt(t.password.as_ref().map(|s| t_str(s))), t_opt(t.cert_path.as_ref().map(|s| t_str(s))), t_opt(t.private_key_path.as_ref().map(|s| t_str(s)))]);
    let t_ep = |e: &ClientEndpoint| t_rec(vec![t_str(&e.url), t_str(&e.security_policy), t_str(&e.security_mode), t_str(&e.user_token_id)]);
    let term = t_rec(vec![
        t_str(&app_name), t_str(&app_uri), t_str(&product_uri), t_bool(create_sample_keypair),
        t_opt(cert.as_ref().map(|p| p.term())), t_opt(pkey.as_ref().map(|p| p.term())), t_bool(trust), t_bool(verify), pki.term(),
        t_list(locales.iter().map(|s| t_str(s)).collect()), t_str(&default_endpoint),
        t_map(tokens.iter().map(|(k, v)| (k.clone(), t_tok(v))).collect()), t_map(endpoints.iter().map(|(k, v)| (k.clone(), t_ep(v))).collect()),
        t_rec(dec.iter().map(|v| t_int(*v as i128)).collect()), t_int(retry_limit as i128),
        t_dur(durs[0]), t_dur(durs[1]), t_dur(durs[2]), t_dur(durs[3]), t_dur(durs[4]), t_dur(durs[5]),
        t_int(max_inflight_publish as i128), t_int(session_timeout as i128),
        t_rec(vec![t_bool(ignore_clock_skew), t_int(perf.0 as i128), t_int(perf.1 as i128)]), t_str(&session_name),
    ]);
    Case { cfg: Cfg::Client(cfg), term: share(term, special), tag }
}

fn gen_server(r: &mut Rng, special: Option<&str>, force_thumb: bool, extra: u64) -> Case {
    let invalid = special.is_none() && r.chance(1, 8);
    let mut tag = String::from("server");
    let cert = if r.chance(1, 2) { None } else { Some(match special { Some(s) => PathV::Good(s.into()), None => gen_path(r) }) };
    let pkey = if r.chance(1, 2) { None } else { Some(match special { Some(s) => PathV::Good(s.into()), None => gen_path(r) }) };
    let pki = match special { Some(s) => PathV::Good(s.into()), None => gen_path(r) };
    let with_thumb = force_thumb || (special.is_none() && r.chance(1, 15));
    let mut tokens: BTreeMap<String, ServerUserToken> = BTreeMap::new();
    for _ in 0..(r.below(4) + force_thumb as u64 + extra) {
        let id = if invalid && r.chance(1, 6) { "ANONYMOUS".to_string() } else { match special { Some(s) if !s.is_empty() && s != "ANONYMOUS" && tokens.is_empty() => s.to_string(), _ => gen_key(r, true) } };
        let user = if invalid && r.chance(1, 4) { String::new() } else { pick_ne(r, special) };
        let x509 = force_thumb || r.chance(1, 2);
        // invalid: a password and a certificate at once, or neither
        let (both, neither) = if invalid && r.chance(1, 5) { let b = r.chance(1, 2); (b, !b) } else { (false, false) };
        tokens.insert(id, ServerUserToken {
            user, pass: if (x509 && !both) || neither { None } else { Some(pick_str(r, special)) }, x509: if (x509 || both) && !neither { Some(pick_str(r, special)) } else { None },
            thumbprint: if x509 && with_thumb { Some(Thumbprint::new(&r.bytes(20))) } else { None },
        });
    }
    let mut endpoints: BTreeMap<String, ServerEndpoint> = BTreeMap::new();
    let n_ep = if invalid && r.chance(1, 4) { 0 } else { 1 + r.below(3) + extra };
    for _ in 0..n_ep {
        let id = match special { Some(s) if endpoints.is_empty() => s.to_string(), _ => gen_str(r) };
        let secure = r.chance(1, 2);
        let uri = if r.chance(1, 3) { 6 } else { 0 };     // the uri form of a policy is accepted too
        let policy = if invalid && r.chance(1, 4) { r.pick(BAD_POLICIES).to_string() } else if secure { r.pick(&ALL_POLICIES[1 + uri..6 + uri]).to_string() } else { ALL_POLICIES[uri].to_string() };
        // invalid: an unknown mode, or None on one side only
        let mode = if invalid && r.chance(1, 4) { if r.chance(1, 2) { r.pick(BAD_MODES).to_string() } else if secure { "None".to_string() } else { "Sign".to_string() } }
                   else if secure { r.pick(&MODES[1..]).to_string() } else { "None".to_string() };
        let mut ids: BTreeSet<String> = BTreeSet::new();
        if r.chance(1, 2) { ids.insert("ANONYMOUS".into()); }
        for k in tokens.keys() { if r.chance(1, if extra > 0 { 16 } else { 2 }) { ids.insert(k.clone()); } }
        if invalid && r.chance(1, 4) { ids.insert("no such token".into()); }
        endpoints.insert(id, ServerEndpoint {
            path: pick_str(r, special), security_policy: policy, security_mode: mode, security_level: r.next() as u8,
            password_security_policy: if r.chance(1, 2) { None } else if invalid && r.chance(1, 4) { Some(r.pick(BAD_POLICIES).to_string()) } else { Some(r.pick(ALL_POLICIES).to_string()) }, user_token_ids: ids,
        });
    }
    let default_endpoint = if invalid && r.chance(1, 6) { Some("no such endpoint".to_string()) } else if endpoints.is_empty() || r.chance(1, 2) { None } else { let k: Vec<&String> = endpoints.keys().collect(); Some(k[r.below(k.len() as u64) as usize].clone()) };
    let limits = Limits {
        clients_can_modify_address_space: r.chance(1, 2), max_subscriptions: gen_usize(r), max_monitored_items_per_sub: gen_usize(r), max_monitored_item_queue_size: gen_usize(r),
        max_array_length: if invalid && r.chance(1, 4) { 0 } else { gen_pos(r) }, max_string_length: if invalid && r.chance(1, 6) { 0 } else { gen_pos(r) }, max_byte_string_length: if invalid && r.chance(1, 6) { 0 } else { gen_pos(r) },
        min_sampling_interval: gen_f64(r), min_publishing_interval: gen_f64(r), max_message_size: gen_usize(r), max_chunk_count: gen_usize(r),
        send_buffer_size: gen_usize(r), receive_buffer_size: gen_usize(r),
    };
    let cfg = ServerConfig {
        application_name: pick_str(r, special), application_uri: pick_str(r, special), product_uri: pick_str(r, special),
        create_sample_keypair: r.chance(1, 2), certificate_path: cert.as_ref().map(|p| p.buf()), private_key_path: pkey.as_ref().map(|p| p.buf()),
        certificate_validation: CertificateValidation { trust_client_certs: r.chance(1, 2), check_time: r.chance(1, 2) }, pki_dir: pki.buf(),
        discovery_server_url: if r.chance(1, 2) { None } else { Some(pick_str(r, special)) },
        tcp_config: TcpConfig { hello_timeout: gen_u32(r), host: pick_str(r, special), port: match r.below(4) { 0 => 0, 1 => u16::MAX, _ => r.next() as u16 } },
        limits, performance: Performance { single_threaded_executor: r.chance(1, 2) },
        locale_ids: (0..r.below(4)).map(|_| pick_str(r, special)).collect(), user_tokens: tokens,
        discovery_urls: (0..(if invalid && r.chance(1, 4) { 0 } else { 1 + r.below(3) })).map(|_| pick_str(r, special)).collect(),
        default_endpoint, endpoints,
    };
    if matches!(pki, PathV::Bad) || matches!(cert, Some(PathV::Bad)) || matches!(pkey, Some(PathV::Bad)) { tag.push_str("-badpath"); }
    if !cfg.is_valid() { tag.push_str("-invalid"); }
    if cfg.user_tokens.values().any(|t| t.thumbprint.is_some()) { tag.push_str("-thumbprint"); }
    if cfg.limits.min_sampling_interval.is_nan() || cfg.limits.min_publishing_interval.is_nan() { tag.push_str("-nan"); }
    tag.push_str(&format!("-{}tok-{}ep", cfg.user_tokens.len(), cfg.endpoints.len()));
    if special.is_some() { tag.push_str("-special"); }
    if extra > 0 { tag.push_str("-large"); }

    let l = &cfg.limits;
    let t_tok = |t: &ServerUserToken| t_rec(vec![t_str(&t.user), t_opt(t.pass.as_ref().map(|s| t_str(s))), t_opt(t.x509.as_ref().map(|s| t_str(s))),
        t_opt(t.thumbprint.as_ref().map(|tp| t_list(tp.value().iter().map(|b| t_int(*b as i128)).collect())))]);
    let t_ep = |e: &ServerEndpoint| t_rec(vec![t_str(&e.path), t_str(&e.security_policy), t_str(&e.security_mode), t_int(e.security_level as i128),
        t_opt(e.password_security_policy.as_ref().map(|s| t_str(s))), t_list(e.user_token_ids.iter().map(|s| t_str(s)).collect())]);
    let term = t_rec(vec![
        t_str(&cfg.application_name), t_str(&cfg.application_uri), t_str(&cfg.product_uri), t_bool(cfg.create_sample_keypair),
        t_opt(cert.as_ref().map(|p| p.term())), t_opt(pkey.as_ref().map(|p| p.term())),
        t_rec(vec![t_bool(cfg.certificate_validation.trust_client_certs), t_bool(cfg.certificate_validation.check_time)]), pki.term(),
        t_opt(cfg.discovery_server_url.as_ref().map(|s| t_str(s))),
        t_rec(vec![t_int(cfg.tcp_config.hello_timeout as i128), t_str(&cfg.tcp_config.host), t_int(cfg.tcp_config.port as i128)]),
        t_rec(vec![t_bool(l.clients_can_modify_address_space), t_int(l.max_subscriptions as i128), t_int(l.max_monitored_items_per_sub as i128), t_int(l.max_monitored_item_queue_size as i128),
            t_int(l.max_array_length as i128), t_int(l.max_string_length as i128), t_int(l.max_byte_string_length as i128), t_f64(l.min_sampling_interval), t_f64(l.min_publishing_interval),
            t_int(l.max_message_size as i128), t_int(l.max_chunk_count as i128), t_int(l.send_buffer_size as i128), t_int(l.receive_buffer_size as i128)]),
        t_rec(vec![t_bool(cfg.performance.single_threaded_executor)]),
        t_list(cfg.locale_ids.iter().map(|s| t_str(s)).collect()),
        t_map(cfg.user_tokens.iter().map(|(k, v)| (k.clone(), t_tok(v))).collect()),
        t_list(cfg.discovery_urls.iter().map(|s| t_str(s)).collect()),
        t_opt(cfg.default_endpoint.as_ref().map(|s| t_str(s))),
        t_map(cfg.endpoints.iter().map(|(k, v)| (k.clone(), t_ep(v))).collect()),
    ]);
    Case { cfg: Cfg::Server(cfg), term: share(term, special), tag }
}

fn fixed_cases(tier: &str) -> Vec<Case> {
    let mut c = Vec::new();
    // every YAML-special string in every free-text position, client and server
    for (i, s) in SPECIAL.iter().enumerate() {
        let mut r = Rng::new(1000 + i as u64);
        c.push(gen_client(&mut r, Some(s), 0));
        c.push(gen_server(&mut r, Some(s), false, 0));
    }
    // the sample-like defaults
    let mut r = Rng::new(1);
    c.push(gen_client(&mut r, Some("plain"), 0));
    c.push(gen_server(&mut r, Some("plain"), false, 0));
    // large files: past any fixed-size read buffer (8 KiB, 64 KiB)
    let long: String = "opc.tcp://host:4855/a path, with: #yaml [chars] ".repeat(8);
    c.push(gen_client(&mut Rng::new(2), Some("plain"), 12));
    c.push(gen_server(&mut Rng::new(3), Some("plain"), false, 12));
    c.push(gen_client(&mut Rng::new(4), Some(&long), 60));
    c.push(gen_server(&mut Rng::new(5), Some(&long), false, 60));
    // known finding 1: a server user token whose thumbprint cache is filled
    c.push(gen_server(&mut Rng::new(77), Some("plain"), true, 0));
    c.push(gen_server(&mut Rng::new(78), None, true, 0));
    // a path that is not valid UTF-8 (save panicked before the fix)
    for seed in 0..40u64 { let mut r = Rng::new(5000 + seed); let k = gen_client(&mut r, None, 0); if k.tag.contains("badpath") && !k.tag.contains("invalid") { c.push(k); break; } }
    for seed in 0..40u64 { let mut r = Rng::new(6000 + seed); let k = gen_server(&mut r, None, false, 0); if k.tag.contains("badpath") && !k.tag.contains("invalid") { c.push(k); break; } }
    // configurations that are not valid (every branch of the is_valid functions): save must refuse them
    { let mut n = 0; let mut seed = 7000u64; while n < 24 && seed < 7400 { let mut r = Rng::new(seed); let k = if seed % 2 == 0 { gen_client(&mut r, None, 0) } else { gen_server(&mut r, None, false, 0) }; if k.tag.contains("invalid") { c.push(k); n += 1; } seed += 1; } }
    if tier == "thorough" {
        for (i, s) in SPECIAL.iter().enumerate() { for j in 0..3u64 { let mut r = Rng::new(9000 + 10 * i as u64 + j); c.push(gen_client(&mut r, Some(s), 0)); c.push(gen_server(&mut r, Some(s), false, 0)); } }
    }
    c
}
fn main() { run_main::<P>() }
