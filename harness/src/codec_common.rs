//! Shared by c01 / c02 / c03: options, Coq term printers and the canonical list-Z print of the
//! built-in types, dispatch to the real encoders / decoders by type, value generators.
#![allow(dead_code)]
use crate::util::*;
use chrono::{TimeZone, Utc};
use opcua::types::*;
use std::io::{Cursor, Read};
use std::sync::Arc;

// ---------------------------------------------------------------------------------------------
// decoding options

#[derive(Clone, Debug)]
pub struct HOpts { pub max_str: i64, pub max_bstr: i64, pub max_arr: i64, pub max_msg: i64, pub max_depth: i64, pub offset_ns: i64 }

impl HOpts {
    pub fn default() -> HOpts { HOpts { max_str: 65535, max_bstr: 65535, max_arr: 1000, max_msg: 327675, max_depth: 10, offset_ns: 0 } }
    pub fn minimal() -> HOpts { HOpts { max_str: 8192, max_bstr: 8192, max_arr: 8192, max_msg: 327675, max_depth: 1, offset_ns: 0 } }
    pub fn real(&self) -> DecodingOptions {
        DecodingOptions {
            client_offset: chrono::Duration::nanoseconds(self.offset_ns),
            max_message_size: self.max_msg as usize,
            max_chunk_count: 0,
            max_string_length: self.max_str as usize,
            max_byte_string_length: self.max_bstr as usize,
            max_array_length: self.max_arr as usize,
            decoding_depth_gauge: Arc::new(DepthGauge::new(self.max_depth as u64)),
        }
    }
    pub fn term(&self) -> String {
        format!("(mk_opts {} {} {} {} {} {})", z(self.max_str as i128), z(self.max_bstr as i128), z(self.max_arr as i128),
                z(self.max_msg as i128), z(self.max_depth as i128), z(self.offset_ns as i128))
    }
}

// ---------------------------------------------------------------------------------------------
// types and values

#[derive(Clone, Debug, PartialEq)]
pub enum Ty { S(u8), Var, DV, Arr(Box<Ty>) }

/// S: a Variant holding a scalar of the type (never Variant/DataValue/Array/Empty)
#[derive(Clone, Debug)]
pub enum UVal { S(Variant), V(Variant), D(DataValue), A(Option<Vec<UVal>>) }

impl Ty {
    pub fn term(&self) -> String {
        match self {
            Ty::S(k) => format!("(TS {})", k),
            Ty::Var => "TVar".into(),
            Ty::DV => "TDV".into(),
            Ty::Arr(t) => format!("(TArr {})", t.term()),
        }
    }
    pub fn tag(&self) -> String {
        match self {
            Ty::S(k) => SCALAR_NAMES[*k as usize].to_string(),
            Ty::Var => "Variant".into(),
            Ty::DV => "DataValue".into(),
            Ty::Arr(t) => format!("[{}]", t.tag()),
        }
    }
}
pub const SCALAR_NAMES: [&str; 26] = ["Empty", "Boolean", "SByte", "Byte", "Int16", "UInt16", "Int32", "UInt32", "Int64", "UInt64",
    "Float", "Double", "String", "DateTime", "Guid", "ByteString", "XmlElement", "NodeId", "ExpandedNodeId", "StatusCode",
    "QualifiedName", "LocalizedText", "ExtensionObject", "DataValue", "Variant", "DiagnosticInfo"];

/// ticks (100 ns) since 1601-01-01 computed from the chrono value, independently of DateTime::ticks
pub fn ticks_of(dt: &DateTime) -> i128 {
    let c = dt.as_chrono();
    (c.timestamp() as i128 + 11_644_473_600) * 10_000_000 + (c.timestamp_subsec_nanos() as i128) / 100
}
pub fn date_from_ticks(t: i128) -> DateTime {
    let secs = t.div_euclid(10_000_000) - 11_644_473_600;
    let nanos = (t.rem_euclid(10_000_000) * 100) as u32;
    DateTime::from(Utc.timestamp_opt(secs as i64, nanos).unwrap())
}

pub fn scalar_kind(v: &Variant) -> u8 {
    match v {
        Variant::Empty => 0, Variant::Boolean(_) => 1, Variant::SByte(_) => 2, Variant::Byte(_) => 3, Variant::Int16(_) => 4,
        Variant::UInt16(_) => 5, Variant::Int32(_) => 6, Variant::UInt32(_) => 7, Variant::Int64(_) => 8, Variant::UInt64(_) => 9,
        Variant::Float(_) => 10, Variant::Double(_) => 11, Variant::String(_) => 12, Variant::DateTime(_) => 13, Variant::Guid(_) => 14,
        Variant::ByteString(_) => 15, Variant::XmlElement(_) => 16, Variant::NodeId(_) => 17, Variant::ExpandedNodeId(_) => 18,
        Variant::StatusCode(_) => 19, Variant::QualifiedName(_) => 20, Variant::LocalizedText(_) => 21, Variant::ExtensionObject(_) => 22,
        Variant::DataValue(_) => 23, Variant::Variant(_) => 24, Variant::DiagnosticInfo(_) => 25, Variant::Array(_) => 26,
    }
}
pub fn type_mask(t: VariantTypeId) -> u8 {
    match t {
        VariantTypeId::Empty => 0, VariantTypeId::Boolean => 1, VariantTypeId::SByte => 2, VariantTypeId::Byte => 3, VariantTypeId::Int16 => 4,
        VariantTypeId::UInt16 => 5, VariantTypeId::Int32 => 6, VariantTypeId::UInt32 => 7, VariantTypeId::Int64 => 8, VariantTypeId::UInt64 => 9,
        VariantTypeId::Float => 10, VariantTypeId::Double => 11, VariantTypeId::String => 12, VariantTypeId::DateTime => 13, VariantTypeId::Guid => 14,
        VariantTypeId::ByteString => 15, VariantTypeId::XmlElement => 16, VariantTypeId::NodeId => 17, VariantTypeId::ExpandedNodeId => 18,
        VariantTypeId::StatusCode => 19, VariantTypeId::QualifiedName => 20, VariantTypeId::LocalizedText => 21, VariantTypeId::ExtensionObject => 22,
        VariantTypeId::DataValue => 23, VariantTypeId::Variant => 24, VariantTypeId::DiagnosticInfo => 25, VariantTypeId::Array => 26,
    }
}
pub fn mask_type(k: u8) -> VariantTypeId {
    [VariantTypeId::Empty, VariantTypeId::Boolean, VariantTypeId::SByte, VariantTypeId::Byte, VariantTypeId::Int16, VariantTypeId::UInt16,
     VariantTypeId::Int32, VariantTypeId::UInt32, VariantTypeId::Int64, VariantTypeId::UInt64, VariantTypeId::Float, VariantTypeId::Double,
     VariantTypeId::String, VariantTypeId::DateTime, VariantTypeId::Guid, VariantTypeId::ByteString, VariantTypeId::XmlElement,
     VariantTypeId::NodeId, VariantTypeId::ExpandedNodeId, VariantTypeId::StatusCode, VariantTypeId::QualifiedName, VariantTypeId::LocalizedText,
     VariantTypeId::ExtensionObject, VariantTypeId::DataValue, VariantTypeId::Variant, VariantTypeId::DiagnosticInfo, VariantTypeId::Array][k as usize]
}

// ---------------------------------------------------------------------------------------------
// Coq terms

pub fn t_ustr(s: &UAString) -> String { match s.value() { None => "None".into(), Some(v) => format!("(Some {})", zbytes(v.as_bytes())) } }
pub fn t_bstr(s: &ByteString) -> String { match &s.value { None => "None".into(), Some(v) => format!("(Some {})", zbytes(v)) } }
pub fn t_oz<T: Copy + Into<i128>>(x: &Option<T>) -> String { match x { None => "None".into(), Some(v) => format!("(Some {})", z((*v).into())) } }
pub fn t_nodeid(n: &NodeId) -> String {
    let id = match &n.identifier {
        Identifier::Numeric(v) => format!("(INum {})", v),
        Identifier::String(s) => format!("(IStr {})", t_ustr(s)),
        Identifier::Guid(g) => format!("(IGuid {})", zbytes(g.as_bytes())),
        Identifier::ByteString(b) => format!("(IBStr {})", t_bstr(b)),
    };
    format!("(NId {} {})", n.namespace, id)
}
pub fn t_diag(d: &DiagnosticInfo) -> String {
    format!("(Diag {} {} {} {} {} {} {})", t_oz(&d.symbolic_id), t_oz(&d.namespace_uri), t_oz(&d.locale), t_oz(&d.localized_text),
        match &d.additional_info { None => "None".into(), Some(s) => format!("(Some {})", t_ustr(s)) },
        match &d.inner_status_code { None => "None".into(), Some(s) => format!("(Some {})", s.bits()) },
        match &d.inner_diagnostic_info { None => "None".into(), Some(i) => format!("(Some {})", t_diag(i)) })
}
pub fn t_scalar(v: &Variant) -> String {
    match v {
        Variant::Boolean(b) => format!("(SBool {})", coq_bool(*b)),
        Variant::SByte(x) => format!("(SSByte {})", z(*x as i128)),
        Variant::Byte(x) => format!("(SByte {})", x),
        Variant::Int16(x) => format!("(SI16 {})", z(*x as i128)),
        Variant::UInt16(x) => format!("(SU16 {})", x),
        Variant::Int32(x) => format!("(SI32 {})", z(*x as i128)),
        Variant::UInt32(x) => format!("(SU32 {})", x),
        Variant::Int64(x) => format!("(SI64 {})", z(*x as i128)),
        Variant::UInt64(x) => format!("(SU64 {})", x),
        Variant::Float(x) => format!("(SF32 {})", x.to_bits()),
        Variant::Double(x) => format!("(SF64 {})", x.to_bits()),
        Variant::String(s) => format!("(SStr {})", t_ustr(s)),
        Variant::DateTime(d) => format!("(SDate {})", z(ticks_of(d))),
        Variant::Guid(g) => format!("(SGuid {})", zbytes(g.as_bytes())),
        Variant::ByteString(b) => format!("(SBStr {})", t_bstr(b)),
        Variant::XmlElement(s) => format!("(SXml {})", t_ustr(s)),
        Variant::NodeId(n) => format!("(SNode {})", t_nodeid(n)),
        Variant::ExpandedNodeId(e) => format!("(SENode (ENId {} {} {}))", t_nodeid(&e.node_id), t_ustr(&e.namespace_uri), e.server_index),
        Variant::StatusCode(s) => format!("(SStatus {})", s.bits()),
        Variant::QualifiedName(q) => format!("(SQName {} {})", q.namespace_index, t_ustr(&q.name)),
        Variant::LocalizedText(l) => format!("(SLText {} {})", t_ustr(&l.locale), t_ustr(&l.text)),
        Variant::ExtensionObject(e) => format!("(SExt {} {})", t_nodeid(&e.node_id), match &e.body {
            ExtensionObjectEncoding::None => "EONone".to_string(),
            ExtensionObjectEncoding::ByteString(b) => format!("(EOBytes {})", t_bstr(b)),
            ExtensionObjectEncoding::XmlElement(s) => format!("(EOXml {})", t_ustr(s)),
        }),
        Variant::DiagnosticInfo(d) => format!("(SDiag {})", t_diag(d)),
        _ => "(SBool false)".into(), // not a scalar: never generated
    }
}
pub fn t_dvrest(d: &DataValue) -> String {
    format!("(mk_dvrest {} {} {} {} {})",
        match &d.status { None => "None".into(), Some(s) => format!("(Some {})", s.bits()) },
        match &d.source_timestamp { None => "None".into(), Some(t) => format!("(Some {})", z(ticks_of(t))) },
        t_oz(&d.source_picoseconds),
        match &d.server_timestamp { None => "None".into(), Some(t) => format!("(Some {})", z(ticks_of(t))) },
        t_oz(&d.server_picoseconds))
}
pub fn t_ovariant(v: &Option<Variant>) -> String { match v { None => "None".into(), Some(w) => format!("(Some {})", t_variant(w)) } }
pub fn t_variant(v: &Variant) -> String {
    match v {
        Variant::Empty => "VEmpty".into(),
        Variant::Variant(w) => format!("(VVar {})", t_variant(w)),
        Variant::DataValue(d) => format!("(VDV {} {})", t_ovariant(&d.value), t_dvrest(d)),
        Variant::Array(a) => format!("(VArray {} {} {})", type_mask(a.value_type), coq_list(&a.values, t_variant),
            match &a.dimensions { None => "None".into(), Some(ds) => format!("(Some {})", zlist(ds.iter().map(|d| *d as i128))) }),
        s => format!("(VS {})", t_scalar(s)),
    }
}
pub fn t_uval(v: &UVal) -> String {
    match v {
        UVal::S(s) => format!("(US {})", t_scalar(s)),
        UVal::V(x) => format!("(UV {})", t_variant(x)),
        UVal::D(d) => format!("(UD {} {})", t_ovariant(&d.value), t_dvrest(d)),
        UVal::A(None) => "(UA None)".into(),
        UVal::A(Some(xs)) => format!("(UA (Some {}))", coq_list(xs, t_uval)),
    }
}

// ---------------------------------------------------------------------------------------------
// canonical print (mirrors ser_* in coq/C01/Types.v)

fn s_bytes(out: &mut Vec<i128>, b: &[u8]) { out.push(b.len() as i128); out.extend(b.iter().map(|x| *x as i128)); }
fn s_ustr(out: &mut Vec<i128>, s: &UAString) { match s.value() { None => out.push(0), Some(v) => { out.push(1); s_bytes(out, v.as_bytes()) } } }
fn s_bstr(out: &mut Vec<i128>, s: &ByteString) { match &s.value { None => out.push(0), Some(v) => { out.push(1); s_bytes(out, v) } } }
fn s_oz<T: Copy + Into<i128>>(out: &mut Vec<i128>, x: &Option<T>) { match x { None => out.push(0), Some(v) => { out.push(1); out.push((*v).into()) } } }
fn s_nodeid(out: &mut Vec<i128>, n: &NodeId) {
    out.push(n.namespace as i128);
    match &n.identifier {
        Identifier::Numeric(v) => { out.push(0); out.push(*v as i128) }
        Identifier::String(s) => { out.push(1); s_ustr(out, s) }
        Identifier::Guid(g) => { out.push(2); s_bytes(out, g.as_bytes()) }
        Identifier::ByteString(b) => { out.push(3); s_bstr(out, b) }
    }
}
fn s_diag(out: &mut Vec<i128>, d: &DiagnosticInfo) {
    s_oz(out, &d.symbolic_id); s_oz(out, &d.namespace_uri); s_oz(out, &d.locale); s_oz(out, &d.localized_text);
    match &d.additional_info { None => out.push(0), Some(s) => { out.push(1); s_ustr(out, s) } }
    match &d.inner_status_code { None => out.push(0), Some(s) => { out.push(1); out.push(s.bits() as i128) } }
    match &d.inner_diagnostic_info { None => out.push(0), Some(i) => { out.push(1); s_diag(out, i) } }
}
fn s_dvrest(out: &mut Vec<i128>, d: &DataValue) {
    match &d.status { None => out.push(0), Some(s) => { out.push(1); out.push(s.bits() as i128) } }
    match &d.source_timestamp { None => out.push(0), Some(t) => { out.push(1); out.push(ticks_of(t)) } }
    s_oz(out, &d.source_picoseconds);
    match &d.server_timestamp { None => out.push(0), Some(t) => { out.push(1); out.push(ticks_of(t)) } }
    s_oz(out, &d.server_picoseconds);
}
pub fn s_datavalue(out: &mut Vec<i128>, d: &DataValue) {
    out.push(23);
    match &d.value { None => out.push(0), Some(w) => { out.push(1); s_variant(out, w) } }
    s_dvrest(out, d);
}
pub fn s_variant(out: &mut Vec<i128>, v: &Variant) {
    match v {
        Variant::Empty => out.push(0),
        Variant::Variant(w) => { out.push(24); s_variant(out, w) }
        Variant::DataValue(d) => s_datavalue(out, d),
        Variant::Array(a) => {
            out.push(26); out.push(type_mask(a.value_type) as i128); out.push(a.values.len() as i128);
            for x in &a.values { s_variant(out, x) }
            match &a.dimensions { None => out.push(0), Some(ds) => { out.push(1); out.push(ds.len() as i128); out.extend(ds.iter().map(|d| *d as i128)) } }
        }
        s => {
            out.push(scalar_kind(s) as i128);
            match s {
                Variant::Boolean(b) => out.push(*b as i128),
                Variant::SByte(x) => out.push(*x as i128), Variant::Byte(x) => out.push(*x as i128),
                Variant::Int16(x) => out.push(*x as i128), Variant::UInt16(x) => out.push(*x as i128),
                Variant::Int32(x) => out.push(*x as i128), Variant::UInt32(x) => out.push(*x as i128),
                Variant::Int64(x) => out.push(*x as i128), Variant::UInt64(x) => out.push(*x as i128),
                Variant::Float(x) => out.push(x.to_bits() as i128), Variant::Double(x) => out.push(x.to_bits() as i128),
                Variant::String(x) | Variant::XmlElement(x) => s_ustr(out, x),
                Variant::DateTime(d) => out.push(ticks_of(d)),
                Variant::Guid(g) => s_bytes(out, g.as_bytes()),
                Variant::ByteString(b) => s_bstr(out, b),
                Variant::NodeId(n) => s_nodeid(out, n),
                Variant::ExpandedNodeId(e) => { s_nodeid(out, &e.node_id); s_ustr(out, &e.namespace_uri); out.push(e.server_index as i128) }
                Variant::StatusCode(c) => out.push(c.bits() as i128),
                Variant::QualifiedName(q) => { out.push(q.namespace_index as i128); s_ustr(out, &q.name) }
                Variant::LocalizedText(l) => { s_ustr(out, &l.locale); s_ustr(out, &l.text) }
                Variant::ExtensionObject(e) => {
                    s_nodeid(out, &e.node_id);
                    match &e.body {
                        ExtensionObjectEncoding::None => out.push(0),
                        ExtensionObjectEncoding::ByteString(b) => { out.push(1); s_bstr(out, b) }
                        ExtensionObjectEncoding::XmlElement(x) => { out.push(2); s_ustr(out, x) }
                    }
                }
                Variant::DiagnosticInfo(d) => s_diag(out, d),
                _ => {}
            }
        }
    }
}
pub fn s_uval(out: &mut Vec<i128>, v: &UVal) {
    match v {
        UVal::S(s) | UVal::V(s) => s_variant(out, s),
        UVal::D(d) => s_datavalue(out, d),
        UVal::A(None) => out.push(0),
        UVal::A(Some(xs)) => { out.push(1); out.push(xs.len() as i128); for x in xs { s_uval(out, x) } }
    }
}

// ---------------------------------------------------------------------------------------------
// the real encoders / decoders by type

/// byte_len() and encode(); a panic of the encoder (e.g. its size assertion) is an Err like an encoding error,
/// so that generators that use the real encoders survive a broken encoder
fn enc_to<T: BinaryEncoder<T>>(v: &T, out: &mut Vec<u8>) -> Result<usize, ()> {
    let r = guarded(|| {
        let bl = v.byte_len();
        let mut c = Cursor::new(Vec::new());
        v.encode(&mut c).map(|_| (bl, c.into_inner())).map_err(|_| ())
    });
    match r {
        Ok(Ok((bl, b))) => { out.extend(b); Ok(bl) }
        _ => Err(()),
    }
}
/// byte_len() and the encoded bytes of a scalar held in a Variant
pub fn enc_scalar(v: &Variant, out: &mut Vec<u8>) -> Result<usize, ()> {
    match v {
        Variant::Boolean(x) => enc_to(x, out), Variant::SByte(x) => enc_to(x, out), Variant::Byte(x) => enc_to(x, out),
        Variant::Int16(x) => enc_to(x, out), Variant::UInt16(x) => enc_to(x, out), Variant::Int32(x) => enc_to(x, out),
        Variant::UInt32(x) => enc_to(x, out), Variant::Int64(x) => enc_to(x, out), Variant::UInt64(x) => enc_to(x, out),
        Variant::Float(x) => enc_to(x, out), Variant::Double(x) => enc_to(x, out), Variant::String(x) => enc_to(x, out),
        Variant::DateTime(x) => enc_to(x.as_ref(), out), Variant::Guid(x) => enc_to(x.as_ref(), out), Variant::ByteString(x) => enc_to(x, out),
        Variant::XmlElement(x) => enc_to(x, out), Variant::NodeId(x) => enc_to(x.as_ref(), out), Variant::ExpandedNodeId(x) => enc_to(x.as_ref(), out),
        Variant::StatusCode(x) => enc_to(x, out), Variant::QualifiedName(x) => enc_to(x.as_ref(), out), Variant::LocalizedText(x) => enc_to(x.as_ref(), out),
        Variant::ExtensionObject(x) => enc_to(x.as_ref(), out), Variant::DiagnosticInfo(x) => enc_to(x.as_ref(), out),
        _ => Err(()),
    }
}
pub fn enc_uval(v: &UVal, out: &mut Vec<u8>) -> Result<usize, ()> {
    match v {
        UVal::S(s) => enc_scalar(s, out),
        UVal::V(x) => enc_to(x, out),
        UVal::D(d) => enc_to(d, out),
        UVal::A(None) => { out.extend([255u8, 255, 255, 255]); Ok(4) }   // write_array of None (see enc_array below)
        UVal::A(Some(xs)) => {
            let mut n = 4;
            out.extend((xs.len() as i32).to_le_bytes());
            for x in xs { n += enc_uval(x, out)?; }
            Ok(n)
        }
    }
}
/// typed arrays go through the real write_array / byte_len_array
macro_rules! arr_enc { ($xs:expr, $pat:path, $conv:expr, $out:expr) => {{
    let vals: Option<Vec<_>> = $xs.as_ref().map(|l| l.iter().map(|u| match u { UVal::S($pat(x)) => $conv(x), _ => unreachable!() }).collect());
    match guarded(|| { let bl = byte_len_array(&vals); let mut c = Cursor::new(Vec::new()); write_array(&mut c, &vals).map(|_| (bl, c.into_inner())).map_err(|_| ()) }) {
        Ok(Ok((bl, b))) => { $out.extend(b); Ok(bl) }
        _ => Err(()),
    }
}}}
pub fn enc_typed(t: &Ty, v: &UVal, out: &mut Vec<u8>) -> Result<usize, ()> {
    match (t, v) {
        (Ty::Arr(e), UVal::A(xs)) => match **e {
            Ty::S(1) => arr_enc!(xs, Variant::Boolean, |x: &bool| *x, out),
            Ty::S(3) => arr_enc!(xs, Variant::Byte, |x: &u8| *x, out),
            Ty::S(6) => arr_enc!(xs, Variant::Int32, |x: &i32| *x, out),
            Ty::S(7) => arr_enc!(xs, Variant::UInt32, |x: &u32| *x, out),
            Ty::S(11) => arr_enc!(xs, Variant::Double, |x: &f64| *x, out),
            Ty::S(12) => arr_enc!(xs, Variant::String, |x: &UAString| x.clone(), out),
            Ty::S(13) => arr_enc!(xs, Variant::DateTime, |x: &Box<DateTime>| **x, out),
            Ty::S(15) => arr_enc!(xs, Variant::ByteString, |x: &ByteString| x.clone(), out),
            Ty::S(17) => arr_enc!(xs, Variant::NodeId, |x: &Box<NodeId>| (**x).clone(), out),
            Ty::S(18) => arr_enc!(xs, Variant::ExpandedNodeId, |x: &Box<ExpandedNodeId>| (**x).clone(), out),
            Ty::S(19) => arr_enc!(xs, Variant::StatusCode, |x: &StatusCode| *x, out),
            Ty::S(20) => arr_enc!(xs, Variant::QualifiedName, |x: &Box<QualifiedName>| (**x).clone(), out),
            Ty::S(21) => arr_enc!(xs, Variant::LocalizedText, |x: &Box<LocalizedText>| (**x).clone(), out),
            Ty::S(22) => arr_enc!(xs, Variant::ExtensionObject, |x: &Box<ExtensionObject>| (**x).clone(), out),
            Ty::S(25) => arr_enc!(xs, Variant::DiagnosticInfo, |x: &Box<DiagnosticInfo>| (**x).clone(), out),
            Ty::Var => {
                let vals: Option<Vec<Variant>> = xs.as_ref().map(|l| l.iter().map(|u| match u { UVal::V(x) => x.clone(), _ => unreachable!() }).collect());
                match guarded(|| { let bl = byte_len_array(&vals); let mut c = Cursor::new(Vec::new()); write_array(&mut c, &vals).map(|_| (bl, c.into_inner())).map_err(|_| ()) }) {
                    Ok(Ok((bl, b))) => { out.extend(b); Ok(bl) }
                    _ => Err(()),
                }
            }
            Ty::DV => {
                let vals: Option<Vec<DataValue>> = xs.as_ref().map(|l| l.iter().map(|u| match u { UVal::D(x) => x.clone(), _ => unreachable!() }).collect());
                match guarded(|| { let bl = byte_len_array(&vals); let mut c = Cursor::new(Vec::new()); write_array(&mut c, &vals).map(|_| (bl, c.into_inner())).map_err(|_| ()) }) {
                    Ok(Ok((bl, b))) => { out.extend(b); Ok(bl) }
                    _ => Err(()),
                }
            }
            _ => enc_uval(v, out),
        },
        _ => enc_uval(v, out),
    }
}

fn dec_as<S: Read, T: BinaryEncoder<T>, F: Fn(T) -> Variant>(s: &mut S, o: &DecodingOptions, f: F) -> Result<Variant, StatusCode> { T::decode(s, o).map(f) }
/// T::decode for the built-in with encoding mask k, wrapped in a Variant
pub fn dec_scalar<S: Read>(k: u8, s: &mut S, o: &DecodingOptions) -> Result<Variant, StatusCode> {
    match k {
        1 => dec_as::<S, bool, _>(s, o, Variant::Boolean), 2 => dec_as::<S, i8, _>(s, o, Variant::SByte), 3 => dec_as::<S, u8, _>(s, o, Variant::Byte),
        4 => dec_as::<S, i16, _>(s, o, Variant::Int16), 5 => dec_as::<S, u16, _>(s, o, Variant::UInt16), 6 => dec_as::<S, i32, _>(s, o, Variant::Int32),
        7 => dec_as::<S, u32, _>(s, o, Variant::UInt32), 8 => dec_as::<S, i64, _>(s, o, Variant::Int64), 9 => dec_as::<S, u64, _>(s, o, Variant::UInt64),
        10 => dec_as::<S, f32, _>(s, o, Variant::Float), 11 => dec_as::<S, f64, _>(s, o, Variant::Double), 12 => dec_as::<S, UAString, _>(s, o, Variant::String),
        13 => dec_as::<S, DateTime, _>(s, o, |x| Variant::DateTime(Box::new(x))), 14 => dec_as::<S, Guid, _>(s, o, |x| Variant::Guid(Box::new(x))),
        15 => dec_as::<S, ByteString, _>(s, o, Variant::ByteString), 16 => dec_as::<S, UAString, _>(s, o, Variant::XmlElement),
        17 => dec_as::<S, NodeId, _>(s, o, |x| Variant::NodeId(Box::new(x))), 18 => dec_as::<S, ExpandedNodeId, _>(s, o, |x| Variant::ExpandedNodeId(Box::new(x))),
        19 => dec_as::<S, StatusCode, _>(s, o, Variant::StatusCode), 20 => dec_as::<S, QualifiedName, _>(s, o, |x| Variant::QualifiedName(Box::new(x))),
        21 => dec_as::<S, LocalizedText, _>(s, o, |x| Variant::LocalizedText(Box::new(x))), 22 => dec_as::<S, ExtensionObject, _>(s, o, |x| Variant::ExtensionObject(Box::new(x))),
        25 => dec_as::<S, DiagnosticInfo, _>(s, o, |x| Variant::DiagnosticInfo(Box::new(x))),
        _ => Err(StatusCode::BadDecodingError),
    }
}
macro_rules! arr_dec { ($t:ty, $s:expr, $o:expr, $wrap:expr) => {{
    let r: Option<Vec<$t>> = read_array($s, $o)?;
    Ok(UVal::A(r.map(|l| l.into_iter().map(|x| UVal::S($wrap(x))).collect())))
}}}
pub fn dec_typed<S: Read>(t: &Ty, s: &mut S, o: &DecodingOptions) -> Result<UVal, StatusCode> {
    match t {
        Ty::S(k) => dec_scalar(*k, s, o).map(UVal::S),
        Ty::Var => Variant::decode(s, o).map(UVal::V),
        Ty::DV => DataValue::decode(s, o).map(UVal::D),
        Ty::Arr(e) => match **e {
            Ty::S(1) => arr_dec!(bool, s, o, Variant::Boolean),
            Ty::S(3) => arr_dec!(u8, s, o, Variant::Byte),
            Ty::S(6) => arr_dec!(i32, s, o, Variant::Int32),
            Ty::S(7) => arr_dec!(u32, s, o, Variant::UInt32),
            Ty::S(11) => arr_dec!(f64, s, o, Variant::Double),
            Ty::S(12) => arr_dec!(UAString, s, o, Variant::String),
            Ty::S(13) => arr_dec!(DateTime, s, o, |x| Variant::DateTime(Box::new(x))),
            Ty::S(15) => arr_dec!(ByteString, s, o, Variant::ByteString),
            Ty::S(17) => arr_dec!(NodeId, s, o, |x| Variant::NodeId(Box::new(x))),
            Ty::S(18) => arr_dec!(ExpandedNodeId, s, o, |x| Variant::ExpandedNodeId(Box::new(x))),
            Ty::S(19) => arr_dec!(StatusCode, s, o, Variant::StatusCode),
            Ty::S(20) => arr_dec!(QualifiedName, s, o, |x| Variant::QualifiedName(Box::new(x))),
            Ty::S(21) => arr_dec!(LocalizedText, s, o, |x| Variant::LocalizedText(Box::new(x))),
            Ty::S(22) => arr_dec!(ExtensionObject, s, o, |x| Variant::ExtensionObject(Box::new(x))),
            Ty::S(25) => arr_dec!(DiagnosticInfo, s, o, |x| Variant::DiagnosticInfo(Box::new(x))),
            Ty::Var => { let r: Option<Vec<Variant>> = read_array(s, o)?; Ok(UVal::A(r.map(|l| l.into_iter().map(UVal::V).collect()))) }
            Ty::DV => { let r: Option<Vec<DataValue>> = read_array(s, o)?; Ok(UVal::A(r.map(|l| l.into_iter().map(UVal::D).collect()))) }
            _ => Err(StatusCode::BadNotSupported),
        },
    }
}
/// element types for which dec_typed/enc_typed have a typed array
pub const ARRAY_ELEMS: [u8; 15] = [1, 3, 6, 7, 11, 12, 13, 15, 17, 18, 19, 20, 21, 22, 25];

// ---------------------------------------------------------------------------------------------
// generators

pub fn g_bytes(r: &mut Rng, max: usize) -> Vec<u8> { let n = r.below(max as u64 + 1) as usize; r.bytes(n) }
pub fn g_string(r: &mut Rng, max: usize) -> String {
    let n = r.below(max as u64 + 1) as usize;
    let mut s = String::new();
    while s.len() < n {
        let c = match r.below(8) {
            0 => char::from_u32(0x80 + r.below(0x780) as u32),                 // 2-byte
            1 => char::from_u32(*r.pick(&[0x800u32, 0xFFFF, 0xD7FF, 0xE000, 0x20AC])),  // 3-byte incl. the surrogate borders
            2 => char::from_u32(*r.pick(&[0x10000u32, 0x10FFFF, 0x1F600])),     // 4-byte
            3 => Some('\0'),
            _ => char::from_u32(0x20 + r.below(0x5f) as u32),
        };
        if let Some(c) = c { s.push(c) }
    }
    s
}
pub fn g_ustr(r: &mut Rng, max: usize) -> UAString {
    match r.below(6) { 0 => UAString::null(), 1 => UAString::from(""), _ => UAString::from(g_string(r, max)) }
}
pub fn g_bstr(r: &mut Rng, max: usize) -> ByteString {
    match r.below(6) { 0 => ByteString::null(), 1 => ByteString::from(Vec::<u8>::new()), _ => ByteString::from(g_bytes(r, max)) }
}
pub fn g_guid(r: &mut Rng) -> Guid { let b = r.bytes(16); let mut a = [0u8; 16]; a.copy_from_slice(&b); Guid::from_bytes(a) }
pub const END_TICKS: i128 = 2_650_467_743_990_000_000;
pub fn g_date(r: &mut Rng) -> DateTime {
    let t: i128 = match r.below(10) {
        0 => 0,
        1 => END_TICKS + r.range(-2, 2) as i128,
        2 => r.range(-3, 3) as i128,
        3 => -(r.below(1u64 << 62) as i128),                       // before 1601
        4 => END_TICKS + r.below(1u64 << 62) as i128,              // after 9999
        5 => (i64::MAX as i128) - r.below(3) as i128,              // the largest tick counts an i64 holds
        6 => (i64::MIN as i128) + r.below(3) as i128,
        _ => 116_444_736_000_000_000 + r.below(40_000_000_000_000_000) as i128,  // 1970 .. ~2096
    };
    date_from_ticks(t)
}
pub fn g_u32(r: &mut Rng) -> u32 { match r.below(6) { 0 => 0, 1 => u32::MAX, 2 => 255 + r.below(3) as u32, 3 => 65534 + r.below(3) as u32, 4 => r.below(300) as u32, _ => r.next() as u32 } }
pub fn g_u16(r: &mut Rng) -> u16 { match r.below(5) { 0 => 0, 1 => u16::MAX, 2 => 254 + r.below(3) as u16, _ => r.next() as u16 } }
pub fn g_i32(r: &mut Rng) -> i32 { match r.below(6) { 0 => 0, 1 => -1, 2 => i32::MIN, 3 => i32::MAX, _ => r.next() as i32 } }
pub fn g_status(r: &mut Rng) -> StatusCode { StatusCode::from_bits_truncate(match r.below(4) { 0 => 0, 1 => 0x8000_0000 | ((r.below(300) as u32) << 16), 2 => u32::MAX, _ => r.next() as u32 }) }
pub fn g_nodeid(r: &mut Rng, smax: usize) -> NodeId {
    let ns = match r.below(4) { 0 => 0, 1 => r.below(256) as u16, 2 => 256, _ => g_u16(r) };
    match r.below(8) {
        0 => NodeId::new(ns, g_ustr(r, smax)),
        1 => NodeId::new(ns, g_guid(r)),
        2 => NodeId::new(ns, g_bstr(r, smax)),
        _ => NodeId::new(ns, g_u32(r)),
    }
}
pub fn g_diag(r: &mut Rng, depth: u32, smax: usize) -> DiagnosticInfo {
    let mut d = DiagnosticInfo::null();
    if r.chance(1, 2) { d.symbolic_id = Some(g_i32(r)) }
    if r.chance(1, 3) { d.namespace_uri = Some(g_i32(r)) }
    if r.chance(1, 3) { d.locale = Some(g_i32(r)) }
    if r.chance(1, 3) { d.localized_text = Some(g_i32(r)) }
    if r.chance(1, 3) { d.additional_info = Some(g_ustr(r, smax)) }
    if r.chance(1, 3) { d.inner_status_code = Some(g_status(r)) }
    if depth > 0 && r.chance(2, 3) { d.inner_diagnostic_info = Some(Box::new(g_diag(r, depth - 1, smax))) }
    d
}
/// a scalar of the built-in type with encoding mask k; `depth` bounds the DiagnosticInfo nesting
pub fn g_scalar(r: &mut Rng, k: u8, depth: u32, smax: usize) -> Variant {
    match k {
        1 => Variant::Boolean(r.chance(1, 2)),
        2 => Variant::SByte(*r.pick(&[0i8, -1, i8::MIN, i8::MAX, 5])),
        3 => Variant::Byte(r.next() as u8),
        4 => Variant::Int16(*r.pick(&[0i16, -1, i16::MIN, i16::MAX, 300])),
        5 => Variant::UInt16(g_u16(r)),
        6 => Variant::Int32(g_i32(r)),
        7 => Variant::UInt32(g_u32(r)),
        8 => Variant::Int64(match r.below(5) { 0 => i64::MIN, 1 => i64::MAX, 2 => -1, _ => r.next() as i64 }),
        9 => Variant::UInt64(match r.below(4) { 0 => 0, 1 => u64::MAX, _ => r.next() }),
        10 => Variant::Float(f32::from_bits(match r.below(6) { 0 => 0x7fc0_0001, 1 => 0x7f80_0001, 2 => 0xffc0_0000, 3 => 0x8000_0000, _ => r.next() as u32 })),
        11 => Variant::Double(f64::from_bits(match r.below(6) { 0 => 0x7ff8_0000_0000_0001, 1 => 0x7ff0_0000_0000_0001, 2 => 0xfff8_0000_0000_0000, 3 => 1u64 << 63, _ => r.next() })),
        12 => Variant::String(g_ustr(r, smax)),
        13 => Variant::DateTime(Box::new(g_date(r))),
        14 => Variant::Guid(Box::new(g_guid(r))),
        15 => Variant::ByteString(g_bstr(r, smax)),
        16 => Variant::XmlElement(g_ustr(r, smax)),
        17 => Variant::NodeId(Box::new(g_nodeid(r, smax))),
        18 => Variant::ExpandedNodeId(Box::new(ExpandedNodeId {
            node_id: g_nodeid(r, smax),
            namespace_uri: if r.chance(1, 2) { UAString::null() } else { g_ustr(r, smax) },
            server_index: if r.chance(1, 2) { 0 } else { g_u32(r) } })),
        19 => Variant::StatusCode(g_status(r)),
        20 => Variant::QualifiedName(Box::new(QualifiedName { namespace_index: g_u16(r), name: g_ustr(r, smax) })),
        21 => Variant::LocalizedText(Box::new(LocalizedText { locale: g_ustr(r, 4), text: g_ustr(r, smax) })),
        22 => Variant::ExtensionObject(Box::new(ExtensionObject { node_id: g_nodeid(r, smax), body: match r.below(3) {
            0 => ExtensionObjectEncoding::None, 1 => ExtensionObjectEncoding::ByteString(g_bstr(r, smax)), _ => ExtensionObjectEncoding::XmlElement(g_ustr(r, smax)) } })),
        _ => Variant::DiagnosticInfo(Box::new(g_diag(r, depth, smax))),
    }
}
pub const SCALAR_KINDS: [u8; 23] = [1, 2, 3, 4, 5, 6, 7, 8, 9, 10, 11, 12, 13, 14, 15, 16, 17, 18, 19, 20, 21, 22, 25];
pub fn g_datavalue(r: &mut Rng, depth: u32, smax: usize) -> DataValue {
    let src = if r.chance(1, 2) { Some(g_date(r)) } else { None };
    let srv = if r.chance(1, 2) { Some(g_date(r)) } else { None };
    DataValue {
        value: if r.chance(3, 4) { Some(g_variant(r, depth, smax)) } else { None },
        status: if r.chance(1, 2) { Some(g_status(r)) } else { None },
        source_picoseconds: if src.is_some() && r.chance(1, 2) { Some(g_u16(r)) } else { None },
        source_timestamp: src,
        server_picoseconds: if srv.is_some() && r.chance(1, 2) { Some(g_u16(r)) } else { None },
        server_timestamp: srv,
    }
}
/// `depth` = number of depth locks the value may need
pub fn g_variant(r: &mut Rng, depth: u32, smax: usize) -> Variant {
    match r.below(12) {
        0 => Variant::Empty,
        1 | 2 if depth > 0 => Variant::Variant(Box::new(g_variant(r, depth - 1, smax))),
        3 | 4 if depth > 0 => Variant::DataValue(Box::new(g_datavalue(r, depth - 1, smax))),
        5 | 6 | 7 => g_array(r, depth, smax),
        _ => { let k = if depth == 0 { *r.pick(&SCALAR_KINDS[..21]) } else { *r.pick(&SCALAR_KINDS) }; g_scalar(r, k, depth.saturating_sub(1), smax) }
    }
}
pub fn g_elem(r: &mut Rng, k: u8, depth: u32, smax: usize) -> Variant {
    match k {
        24 => Variant::Variant(Box::new(g_variant(r, depth.saturating_sub(1), smax))),
        23 => Variant::DataValue(Box::new(g_datavalue(r, depth.saturating_sub(1), smax))),
        _ => g_scalar(r, k, depth.saturating_sub(1), smax),
    }
}
pub fn g_array(r: &mut Rng, depth: u32, smax: usize) -> Variant {
    let k: u8 = if depth == 0 { *r.pick(&SCALAR_KINDS[..21]) } else { match r.below(6) { 0 => 24, 1 => 23, _ => *r.pick(&SCALAR_KINDS) } };
    let (n, dims): (usize, Option<Vec<u32>>) = match r.below(8) {
        0 => (0, None),
        1 => (0, Some(vec![])),
        2 => (0, Some(vec![0, 2])),
        3 => { let a = 1 + r.below(3) as u32; let b = 1 + r.below(3) as u32; ((a * b) as usize, Some(vec![a, b])) }
        4 => { let a = 1 + r.below(2) as u32; let b = 1 + r.below(2) as u32; let c = 1 + r.below(2) as u32; ((a * b * c) as usize, Some(vec![a, b, c])) }
        5 => (1, Some(vec![])),
        _ => (1 + r.below(4) as usize, None),
    };
    let values: Vec<Variant> = (0..n).map(|_| g_elem(r, k, depth, smax)).collect();
    Variant::Array(Box::new(Array { value_type: mask_type(k), values, dimensions: dims }))
}
