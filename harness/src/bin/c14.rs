//! C14: token renewal.  The schedule is replayed on a REAL client/server pair: the client side is a
//! `SecureChannelState` over its `SecureChannel` and issues/renews through the real
//! `begin_issue_or_renew_secure_channel` / `end_issue_or_renew_secure_channel` (hooks
//! `verif_begin_issue_or_renew` / `verif_end_issue_or_renew`); the server side is a `SecureChannel`
//! driven by the real `SecureChannelService::open_secure_channel` (Issue, then Renew).  Messages are
//! chunked and secured with `apply_security` at the moments the transports do it and verified with
//! `verify_and_remove_security`.  Forged frames are secured by a third party whose keys neither
//! side ever derived (a token the receiver never issued).
#[path = "../util.rs"]
mod util;
use util::*;
use opcua::client::transport::state::SecureChannelState;
use opcua::core::comms::{chunker::Chunker, secure_channel::{Role, SecureChannel}, security_header::{AsymmetricSecurityHeader, SecurityHeader}};
use opcua::core::supported_message::SupportedMessage;
use opcua::crypto::{CertificateStore, SecurityPolicy};
use opcua::server::comms::secure_channel_service::SecureChannelService;
use opcua::sync::RwLock;
use opcua::types::*;
use std::collections::VecDeque;
use std::sync::Arc;

#[derive(Clone, Copy, Debug, PartialEq)]
pub enum Op { CSend, CRenew, SRecv, SWrite, CRecv, CForge, SForge }
pub struct Case { ops: Vec<Op>, mode: u8, policy: u8 }
pub struct P;

enum Frame { Msg(Vec<u8>), Opn(SupportedMessage), Bad(Vec<u8>) }
enum Resp { Msg, Opn(SupportedMessage) }

fn channel(role: Role, policy: SecurityPolicy, mode: MessageSecurityMode) -> SecureChannel {
    let store = Arc::new(RwLock::new(CertificateStore::new(std::path::Path::new("/tmp/verif-c14-pki"))));
    let mut c = SecureChannel::new(store, role, DecodingOptions::default());
    c.set_security_policy(policy);
    c.set_security_mode(mode);
    c
}
fn secure(ch: &SecureChannel, seq: u32, msg: &SupportedMessage) -> Vec<u8> {
    let chunks = Chunker::encode(seq, seq, 0, 0, ch, msg).unwrap();
    let mut dst = vec![0u8; chunks[0].data.len() + 4096];
    let n = ch.apply_security(&chunks[0], &mut dst).unwrap();
    dst.truncate(n);
    dst
}
/// a third party: same policy, mode, channel and token ids, but keys from nonces of its own
fn rogue(role: Role, policy: SecurityPolicy, mode: MessageSecurityMode, like: &SecureChannel) -> SecureChannel {
    let mut r = channel(role, policy, mode);
    r.set_secure_channel_id(like.secure_channel_id());
    r.set_token_id(like.token_id());
    r.create_random_nonce();
    let other = policy.random_nonce();
    r.set_remote_nonce_from_byte_string(&other).unwrap();
    r.derive_keys();
    r
}

fn exec_ops(c: &Case) -> Vec<i128> {
    let policy = [SecurityPolicy::Basic256Sha256, SecurityPolicy::Basic128Rsa15, SecurityPolicy::Aes256Sha256RsaPss][c.policy as usize % 3];
    let mode = if c.mode == 0 { MessageSecurityMode::Sign } else { MessageSecurityMode::SignAndEncrypt };
    let client = Arc::new(RwLock::new(channel(Role::Client, policy, mode)));
    let cstate = SecureChannelState::verif_new(client.clone());
    let mut server = channel(Role::Server, policy, mode);
    let mut svc = SecureChannelService::new();
    let hdr = SecurityHeader::Asymmetric(AsymmetricSecurityHeader::none());
    // initial issue through the real code on both sides
    let req = cstate.verif_begin_issue_or_renew(SecurityTokenRequestType::Issue);
    let resp = svc.open_secure_channel(&mut server, &hdr, 0, &req).unwrap();
    cstate.verif_end_issue_or_renew(resp).unwrap();
    let request: SupportedMessage = ReadRequest { request_header: RequestHeader::dummy(), max_age: 0.0, timestamps_to_return: TimestampsToReturn::Both, nodes_to_read: None }.into();
    let response: SupportedMessage = ReadResponse { response_header: ResponseHeader::null(), results: None, diagnostic_infos: None }.into();
    let (mut c2s, mut s2c, mut sq): (VecDeque<Frame>, VecDeque<Frame>, VecDeque<Resp>) = Default::default();
    let (mut renewing, mut seq) = (false, 1u32);
    let mut out = Vec::new();
    for op in &c.ops {
        seq += 1;
        match op {
            Op::CSend => { c2s.push_back(Frame::Msg(secure(&client.read(), seq, &request))); out.push(4); }
            Op::CForge => { let r = rogue(Role::Client, policy, mode, &client.read()); c2s.push_back(Frame::Bad(secure(&r, seq, &request))); out.push(4); }
            Op::SForge => { let r = rogue(Role::Server, policy, mode, &server); s2c.push_back(Frame::Bad(secure(&r, seq, &response))); out.push(4); }
            Op::CRenew => {
                if renewing { out.push(3); } else {
                    c2s.push_back(Frame::Opn(cstate.verif_begin_issue_or_renew(SecurityTokenRequestType::Renew)));
                    renewing = true; out.push(4);
                }
            }
            Op::SRecv => match c2s.pop_front() {
                None => out.push(3),
                Some(Frame::Msg(b)) => match server.verify_and_remove_security(&b) { Ok(_) => { sq.push_back(Resp::Msg); out.push(1) } Err(_) => out.push(0) },
                Some(Frame::Bad(b)) => match server.verify_and_remove_security(&b) { Ok(_) => out.push(6), Err(_) => out.push(5) },
                Some(Frame::Opn(req)) => match svc.open_secure_channel(&mut server, &hdr, 0, &req) {
                    Ok(r @ SupportedMessage::OpenSecureChannelResponse(_)) => { sq.push_back(Resp::Opn(r)); out.push(2); }
                    Ok(r) => { sq.push_back(Resp::Opn(r)); out.push(7); }       // renewal refused (service fault)
                    Err(_) => out.push(8),
                },
            },
            Op::SWrite => match sq.pop_front() {
                None => out.push(3),
                Some(Resp::Msg) => { s2c.push_back(Frame::Msg(secure(&server, seq, &response))); out.push(4); }
                Some(Resp::Opn(r)) => { s2c.push_back(Frame::Opn(r)); out.push(4); }
            },
            Op::CRecv => match s2c.pop_front() {
                None => out.push(3),
                Some(Frame::Msg(b)) => match client.write().verify_and_remove_security(&b) { Ok(_) => out.push(1), Err(_) => out.push(0) },
                Some(Frame::Bad(b)) => match client.write().verify_and_remove_security(&b) { Ok(_) => out.push(6), Err(_) => out.push(5) },
                Some(Frame::Opn(r)) => { renewing = false; match cstate.verif_end_issue_or_renew(r) { Ok(()) => out.push(2), Err(_) => out.push(7) } }
            },
        }
    }
    out
}

impl Property for P {
    type Case = Case;
    fn fixed(tier: &str) -> Vec<Case> {
        use Op::*;
        let mut v = Vec::new();
        if tier == "thorough" {
            // the quantifier of the property taken literally: EVERY schedule of up to 6 steps over the five
            // protocol operations (contains both known schedules and every shorter prefix), on real channels
            let base = [CSend, CRenew, SRecv, SWrite, CRecv];
            for len in 1..=6u32 {
                for mut code in 0..5u32.pow(len) {
                    let mut ops = Vec::new();
                    for _ in 0..len { ops.push(base[(code % 5) as usize]); code /= 5; }
                    v.push(Case { ops, mode: (len % 2) as u8, policy: 0 });
                }
            }
        }
        for (mode, policy) in [(0u8, 0u8), (1, 0), (0, 1), (1, 2)] {
            // quiescent renewal
            v.push(Case { ops: vec![CSend, SRecv, SWrite, CRecv, CRenew, SRecv, SWrite, CRecv, CSend, SRecv, SWrite, CRecv], mode, policy });
            // known class 1: a request secured between the renew request and its response
            v.push(Case { ops: vec![CRenew, CSend, SRecv, SRecv], mode, policy });
            // known class 2: a response queued before the switch and written after it
            v.push(Case { ops: vec![CSend, SRecv, CRenew, SRecv, SWrite, CRecv], mode, policy });
            // three renewals, traffic only when quiet
            v.push(Case { ops: vec![CRenew, SRecv, SWrite, CRecv, CSend, SRecv, SWrite, CRecv, CRenew, SRecv, SWrite, CRecv, CSend, SRecv, SWrite, CRecv, CRenew, SRecv, SWrite, CRecv, CSend, SRecv, SWrite, CRecv], mode, policy });
            // not quiescent and not racy: requests and responses in flight on both links around a renewal
            v.push(Case { ops: vec![CSend, CSend, SRecv, SWrite, CSend, CRenew, SRecv, SRecv, SWrite, SWrite, SRecv, SWrite, CRecv, CRecv, CRecv, CRecv, CSend, SRecv, SWrite, CRecv], mode, policy });
            // forged frames (keys of a token that was never issued) before, during and after a renewal, both directions
            v.push(Case { ops: vec![CForge, SForge, SRecv, CRecv, CRenew, CForge, SRecv, SRecv, SForge, SWrite, CRecv, CRecv, CForge, SForge, SRecv, CRecv, CSend, SRecv, SWrite, CRecv], mode, policy });
        }
        v
    }
    fn gen(r: &mut Rng) -> Case {
        use Op::*;
        let n = 3 + r.below(34);
        // three generators: quiescent (renewals only when idle), safe (any interleaving that avoids the
        // two racy steps, simulated on the protocol state: deep pipelines around renewals), free
        let kind = r.below(5);
        let mut ops = Vec::new();
        if kind < 2 {
            let mut infl = 0i32;
            for _ in 0..n {
                let o = *r.pick(&[CSend, CSend, SRecv, SRecv, SWrite, SWrite, CRecv, CRecv, CRenew, CForge, SForge]);
                match o {
                    CRenew => { if infl == 0 { ops.extend([CRenew, SRecv, SWrite, CRecv]); } }
                    CSend => { ops.push(CSend); infl += 1; }
                    _ => ops.push(o),
                }
                if infl > 0 && r.chance(1, 2) { ops.extend([SRecv, SWrite, CRecv]); infl -= 1; }
            }
        } else if kind < 4 {
            // sq: true = renew response queued
            let (mut renewing, mut c2s, mut sq, mut s2c): (bool, VecDeque<u8>, VecDeque<bool>, VecDeque<u8>) = Default::default();
            for _ in 0..n {
                loop {
                    let o = *r.pick(&[CSend, CSend, CSend, SRecv, SRecv, SWrite, SWrite, CRecv, CRecv, CRenew, CRenew, CForge, SForge]);
                    match o {
                        CSend => { if renewing { continue; } c2s.push_back(0); }
                        CForge => c2s.push_back(2),
                        SForge => s2c.push_back(2),
                        CRenew => { if renewing { continue; } renewing = true; c2s.push_back(1); }
                        SRecv => match c2s.pop_front() { Some(0) => sq.push_back(false), Some(1) => sq.push_back(true), _ => {} },
                        SWrite => {
                            if sq.front() == Some(&false) && sq.iter().any(|x| *x) { continue; }
                            match sq.pop_front() { Some(false) => s2c.push_back(0), Some(true) => s2c.push_back(1), None => {} }
                        }
                        CRecv => { if s2c.pop_front() == Some(1) { renewing = false; } }
                    }
                    ops.push(o);
                    break;
                }
            }
        } else {
            for _ in 0..n { ops.push(*r.pick(&[CSend, CSend, SRecv, SRecv, SWrite, SWrite, CRecv, CRecv, CRenew, CForge, SForge])); }
        }
        Case { ops, mode: r.below(2) as u8, policy: r.below(3) as u8 }
    }
    fn exec(c: &Case) -> Out {
        let out = match guarded(|| exec_ops(c)) { Ok(o) => o, Err(_) => vec![-2] };
        let renewals = c.ops.iter().filter(|o| **o == Op::CRenew).count();
        let forged = c.ops.iter().any(|o| matches!(o, Op::CForge | Op::SForge));
        let tag = format!("{}-{}renew{}{}", if c.mode == 0 { "sign" } else { "encrypt" }, renewals.min(3), if forged { "-forged" } else { "" }, if out.contains(&0) { "-reject" } else { "" });
        let term = coq_list(&c.ops, |o| format!("{:?}", o));
        Out { tag, term, out }
    }
}
fn main() { run_main::<P>() }
