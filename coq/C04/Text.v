(* C04 — string primitives shared by the textual-identifier models.  No proofs here.

   A Rust `String`/`&str` is a [list Z] of Unicode scalar values (code points).  Where the code
   works on utf-8 BYTES (lengths, `&s[..2]`, the uuid and base64 crates) the byte view is derived
   with [u8len1]/[utf8len]; every such place is commented. *)
From Coq Require Import String Ascii List ZArith Bool.
Import ListNotations.
Open Scope Z_scope.

Definition str := list Z.

(* string literals: [lit "ns="] = [110;115;61] *)
Fixpoint lit (s : string) : str :=
  match s with
  | EmptyString => []
  | String c t => Z.of_N (N_of_ascii c) :: lit t
  end.

Fixpoint str_eqb (a b : str) : bool :=
  match a, b with
  | [], [] => true
  | x :: a', y :: b' => (x =? y) && str_eqb a' b'
  | _, _ => false
  end.

(* [strip p s] = Some r  iff  s = p ++ r *)
Fixpoint strip (p s : str) : option str :=
  match p with
  | [] => Some s
  | x :: p' => match s with
               | y :: s' => if x =? y then strip p' s' else None
               | [] => None
               end
  end.

(* utf-8 length of one scalar value / of a string *)
Definition u8len1 (c : Z) : Z :=
  if c <? 128 then 1 else if c <? 2048 then 2 else if c <? 65536 then 3 else 4.
Fixpoint utf8len (s : str) : Z :=
  match s with [] => 0 | c :: t => u8len1 c + utf8len t end.
Definition is_ascii (c : Z) : bool := (0 <=? c) && (c <? 128).

Definition len (s : str) : Z := Z.of_nat (length s).

(* ---- decimal ------------------------------------------------------------------------------ *)
Definition is_digit (c : Z) : bool := (48 <=? c) && (c <=? 57).

(* `{}` of an unsigned integer: no sign, no leading zeros *)
Fixpoint dec_aux (fuel : nat) (n : Z) (acc : str) : str :=
  match fuel with
  | O => acc
  | S f => let acc' := (48 + n mod 10) :: acc in
           if n <? 10 then acc' else dec_aux f (n / 10) acc'
  end.
Definition dec (n : Z) : str := dec_aux 20 n [].

(* fixed width, zero padded (chrono's %02d etc.) *)
Fixpoint decw (w : nat) (n : Z) (acc : str) : str :=
  match w with O => acc | S w' => decw w' (n / 10) ((48 + n mod 10) :: acc) end.

Fixpoint val_digits (acc : Z) (s : str) : option Z :=
  match s with
  | [] => Some acc
  | c :: t => if is_digit c then val_digits (acc * 10 + (c - 48)) t else None
  end.
Definition parse_digits (s : str) : option Z :=
  match s with [] => None | _ => val_digits 0 s end.

(* Rust `<uN as FromStr>::from_str`: an optional single '+', then one or more ASCII digits; a value
   above [max] is the overflow error (checked_mul/checked_add fail at some prefix iff the exact
   value exceeds max, because the prefix values are non-decreasing). *)
Definition strip_plus (s : str) : str := match s with 43 :: t => t | _ => s end.
Definition parse_uint (max : Z) (s : str) : option Z :=
  match parse_digits (strip_plus s) with
  | Some v => if v <=? max then Some v else None
  | None => None
  end.
Definition U16MAX : Z := 65535.
Definition U32MAX : Z := 4294967295.
Definition U64MAX : Z := 18446744073709551615.

(* longest prefix of ASCII digits: the regex `[0-9]+` / `[0-9]*` followed by a non-digit *)
Fixpoint span_digits (s : str) : str * str :=
  match s with
  | c :: t => if is_digit c then let (a, b) := span_digits t in (c :: a, b) else ([], s)
  | [] => ([], [])
  end.

(* longest prefix without [x]: the regex `[^x]*` followed by x or the end *)
Fixpoint span_not (x : Z) (s : str) : str * str :=
  match s with
  | c :: t => if c =? x then ([], s) else let (a, b) := span_not x t in (c :: a, b)
  | [] => ([], [])
  end.

(* `str::split(sep)` for a one-character separator: always at least one part *)
Fixpoint split_on (sep : Z) (s : str) : list str :=
  match s with
  | [] => [[]]
  | c :: t => match split_on sep t with
              | p :: ps => if c =? sep then [] :: p :: ps else (c :: p) :: ps
              | [] => [[c]]   (* unreachable *)
              end
  end.

Fixpoint join (sep : Z) (ps : list str) : str :=
  match ps with
  | [] => []
  | [p] => p
  | p :: ps' => p ++ sep :: join sep ps'
  end.

(* `str::replace` for a one-character pattern *)
Definition replace1 (c : Z) (rep : str) (s : str) : str :=
  flat_map (fun x => if x =? c then rep else [x]) s.

(* `str::replace` for a three-character pattern: left to right, non-overlapping *)
Fixpoint replace3 (a b c : Z) (rep : str) (s : str) : str :=
  match s with
  | [] => []
  | x :: t =>
      match t with
      | y :: t1 =>
          match t1 with
          | z :: t2 => if (x =? a) && (y =? b) && (z =? c) then rep ++ replace3 a b c rep t2
                       else x :: replace3 a b c rep t
          | [] => x :: replace3 a b c rep t
          end
      | [] => x :: replace3 a b c rep t
      end
  end.

(* ---- hexadecimal (uuid crate) ------------------------------------------------------------- *)
Definition hexc (n : Z) : Z := if n <? 10 then 48 + n else 87 + n.   (* lower case *)
Definition hexval (c : Z) : option Z :=
  if is_digit c then Some (c - 48)
  else if (97 <=? c) && (c <=? 102) then Some (c - 87)
  else if (65 <=? c) && (c <=? 70) then Some (c - 55)
  else None.
Fixpoint hex_of_bytes (bs : list Z) : str :=
  match bs with [] => [] | b :: t => hexc (b / 16) :: hexc (b mod 16) :: hex_of_bytes t end.
Fixpoint bytes_of_hex (s : str) : option (list Z) :=
  match s with
  | [] => Some []
  | a :: t => match t with
              | b :: t' => match hexval a, hexval b, bytes_of_hex t' with
                           | Some x, Some y, Some r => Some (x * 16 + y :: r)
                           | _, _, _ => None
                           end
              | [] => None
              end
  end.

(* ---- base64, standard alphabet, padded (base64 0.21 `STANDARD`) --------------------------- *)
Definition b64c (n : Z) : Z :=
  if n <? 26 then 65 + n else if n <? 52 then 71 + n else if n <? 62 then n - 4
  else if n =? 62 then 43 else 47.
Definition b64val (c : Z) : option Z :=
  if (65 <=? c) && (c <=? 90) then Some (c - 65)
  else if (97 <=? c) && (c <=? 122) then Some (c - 71)
  else if is_digit c then Some (c + 4)
  else if c =? 43 then Some 62
  else if c =? 47 then Some 63
  else None.

Fixpoint b64_encode (bs : list Z) : str :=
  match bs with
  | [] => []
  | [a] => [b64c (a / 4); b64c ((a mod 4) * 16); 61; 61]
  | [a; b] => [b64c (a / 4); b64c ((a mod 4) * 16 + b / 16); b64c ((b mod 16) * 4); 61]
  | a :: b :: c :: t =>
      b64c (a / 4) :: b64c ((a mod 4) * 16 + b / 16) :: b64c ((b mod 16) * 4 + c / 64)
      :: b64c (c mod 64) :: b64_encode t
  end.

(* Decoding as the `STANDARD` engine does it (decode_allow_trailing_bits = false,
   DecodePaddingMode::RequireCanonical): quads of alphabet symbols; only the last quad may end in
   `=` or `==`, and then the unused low bits of its last symbol must be zero.  Any other shape
   (length not a multiple of 4, `=` elsewhere, a byte outside the alphabet - which includes every
   byte of a non-ASCII character) is an error. *)
Fixpoint b64_decode (s : str) : option (list Z) :=
  match s with
  | [] => Some []
  | c0 :: t0 =>
    match t0 with
    | c1 :: t1 =>
      match t1 with
      | c2 :: t2 =>
        match t2 with
        | c3 :: t3 =>
          match b64val c0, b64val c1 with
          | Some v0, Some v1 =>
              let b0 := v0 * 4 + v1 / 16 in
              match t3 with
              | [] =>
                  if (c2 =? 61) && (c3 =? 61) then
                    if v1 mod 16 =? 0 then Some [b0] else None
                  else match b64val c2 with
                       | Some v2 =>
                           let b1 := (v1 mod 16) * 16 + v2 / 4 in
                           if c3 =? 61 then
                             if v2 mod 4 =? 0 then Some [b0; b1] else None
                           else match b64val c3 with
                                | Some v3 => Some [b0; b1; (v2 mod 4) * 64 + v3]
                                | None => None
                                end
                       | None => None
                       end
              | _ :: _ =>
                  match b64val c2, b64val c3, b64_decode t3 with
                  | Some v2, Some v3, Some r =>
                      Some (b0 :: (v1 mod 16) * 16 + v2 / 4 :: (v2 mod 4) * 64 + v3 :: r)
                  | _, _, _ => None
                  end
              end
          | _, _ => None
          end
        | [] => None
        end
      | [] => None
      end
    | [] => None
    end
  end.

(* ---- canonical output encodings ------------------------------------------------------------ *)
Definition enc_str (s : str) : list Z := len s :: s.
Definition enc_ostr (s : option str) : list Z :=
  match s with None => [-1] | Some v => enc_str v end.

Inductive res (A : Type) := Ok (a : A) | Err | Panic.
Arguments Ok {A} a.
Arguments Err {A}.
Arguments Panic {A}.

Definition enc_res {A} (enc : A -> list Z) (r : res A) : list Z :=
  match r with Ok v => 1 :: enc v | Err => [-1] | Panic => [-2] end.
Definition of_opt {A} (o : option A) : res A := match o with Some v => Ok v | None => Err end.
