(* C35 — every client request completes exactly once.

   Model of the client transport's request bookkeeping as the code has it
   (lib/src/client/transport/core.rs, state.rs, the glue of tcp.rs):

     Request::send                    puts (request, callback, deadline = now + timeout) on the queue
                                      and awaits the callback; a dropped callback reads as
                                      BadConnectionClosed, a closed queue too
     TransportState::wait_for_outgoing_message   one turn: next_timeout() completes every pending
                                      request whose deadline has passed with BadTimeout; if fewer than
                                      max_inflight are pending, the oldest queued request gets the
                                      next request id and (if it has a callback) becomes pending
     TcpTransport::poll_inner         SendBuffer::write of that request; an error closes the transport
     TransportState::process_chunk    chunks of unknown request ids are ignored; intermediate chunks
                                      are stored (limit max_pending_incoming, checked after the push);
                                      an abort chunk completes the request with BadCommunicationError;
                                      a final chunk removes the request, merge_chunks (stable sort by
                                      sequence number, keep the consecutive run from the smallest),
                                      validate_chunks (model of C12), Chunker::decode, callback(Ok);
                                      an error after the removal drops the callback and is returned
     TcpTransport::poll               an error from handle_incoming_message closes the transport
     TransportState::close            every pending and every queued callback gets the status
                                      (BadConnectionClosed for Good)

     TransportState::next_timeout     also returns the instant wait_for_outgoing_message sleeps until:
                                      the smallest deadline among the requests that stay pending, None
                                      when nothing stays pending ([next_wake]; operations Scan and Sleep
                                      observe it, Sleep lets the transport sleep until it)

   Time is the explicit counter [now]; the harness moves the stored deadlines back instead of the
   clock forward (what sits in the tokio queue cannot be back-dated, so a queued request's timeout
   starts to run when it is taken from the queue: [deadline := now + t] at the pump).
   Status codes are small class numbers:
     1 BadConnectionClosed  2 BadTimeout  3 BadCommunicationError  4 BadEncodingLimitsExceeded
     5 BadSequenceNumberInvalid  6 BadSecureChannelIdInvalid  7 BadSecurityChecksFailed
     8 BadDecodingError  9 BadServiceUnsupported  10 BadUnexpectedError  11 BadRequestTooLarge
     0 Good  98 a number that is no status code *)
From Coq Require Import List ZArith Bool Lia.
Import ListNotations.
From OV Require C12.Model.
Open Scope Z_scope.

Definition U32 : Z := 4294967296.

(* a response chunk as the harness builds it: sequence header (request id, sequence number), chunk
   kind (0 intermediate, 1 final, otherwise abort), and its body: part [k_part] of the encoding of
   response message [k_mid], which has [k_n] parts of equal size *)
Record chunk := mk_chunk { k_rid : Z; k_seq : Z; k_kind : Z; k_mid : Z; k_part : Z; k_n : Z }.

Record entry := mk_entry { e_k : Z; e_deadline : Z; e_chunks : list chunk }.

(* a completion event: (request label k, 0, marker of the response message) or (k, 1, status class) *)
Definition event := (Z * Z * Z)%type.

Inductive op :=
| Submit (t kind : Z)      (* Request::send with timeout t; kind 1: send_no_response (no callback),
                              kind 2: a request larger than max_message_size, otherwise ordinary *)
| Pump                     (* one turn of wait_for_outgoing_message + SendBuffer::write *)
| Chunk (rid sq kind mid part n : Z)   (* handle_incoming_message(Message::Chunk) *)
| AckMsg                   (* handle_incoming_message(Message::Acknowledge) *)
| ErrMsg (cls : Z)         (* handle_incoming_message(Message::Error) carrying that status *)
| Advance (t : Z)          (* time passes *)
| Close (status : Z)       (* the transport is closed with that status (socket error, end of stream, ...) *)
| Scan                     (* one call of next_timeout (a turn of the loop of wait_for_outgoing_message with
                              nothing to send): the expired requests complete, the wake-up instant is returned *)
| Sleep (lim : Z).         (* next_timeout, then the transport sleeps (select! on sleep_until(wake-up)): until
                              the wake-up instant that was returned if lim < 0; if 0 <= lim something else
                              (a response, a submission) ends the sleep after lim units if that is earlier.
                              With nothing pending (no wake-up) lim units pass (none if lim < 0). *)

Record st := {
  queue : list (Z * Z * Z);          (* (k, timeout, kind), oldest first: outgoing_recv *)
  pending : list (Z * entry);        (* message_states, in the order of insertion *)
  last_id : Z;                       (* SendBuffer::last_request_id *)
  last_recv : Z;                     (* last_received_sequence_number *)
  now : Z;
  next_k : Z;                        (* label of the next submitted request: its index among the Submits *)
  closed : bool;
  (* ghost *)
  submitted : list Z;                (* labels of the requests that have a callback *)
  done : list event }.

Section Step.
  (* Chunker::decode on the merged chunks: Ok(marker) or a status; the theorems hold for any decoder *)
  Variable dec : list chunk -> Z + Z.
  Variable max_inflight max_pending : Z.

  Definition chan : Z := 7.          (* both sides use channel id 7 *)

  Fixpoint find (rid : Z) (p : list (Z * entry)) : option entry :=
    match p with
    | [] => None
    | (r, e) :: p' => if r =? rid then Some e else find rid p'
    end.

  Fixpoint remove (rid : Z) (p : list (Z * entry)) : list (Z * entry) :=
    match p with
    | [] => []
    | (r, e) :: p' => if r =? rid then p' else (r, e) :: remove rid p'
    end.

  Fixpoint update (rid : Z) (e' : entry) (p : list (Z * entry)) : list (Z * entry) :=
    match p with
    | [] => []
    | (r, e) :: p' => if r =? rid then (r, e') :: p' else (r, e) :: update rid e' p'
    end.

  (* ---- merge_chunks ---- *)
  Fixpoint insert (c : chunk) (l : list chunk) : list chunk :=
    match l with
    | [] => [c]
    | d :: l' => if k_seq c <? k_seq d then c :: l else d :: insert c l'
    end.
  (* stable: an element goes behind the earlier ones with the same number *)
  Definition sort (l : list chunk) : list chunk := fold_left (fun acc c => insert c acc) l [].

  Fixpoint keep_run (expect : Z) (l : list chunk) : list chunk :=
    match l with
    | [] => []
    | c :: l' => if k_seq c =? expect then c :: keep_run ((expect + 1) mod U32) l' else keep_run expect l'
    end.

  Definition merge (l : list chunk) : list chunk :=
    match l with
    | [_] => l
    | _ => match sort l with
           | [] => []
           | (c0 :: _) as s => keep_run (k_seq c0) s
           end
    end.

  Definition to12 (c : chunk) : C12.Model.chunk := C12.Model.mk_chunk (k_seq c) (k_rid c) chan.

  (* ---- next_timeout ---- *)
  Definition expired (nw : Z) (x : Z * entry) : bool := e_deadline (snd x) <=? nw.
  Definition timeouts (nw : Z) (p : list (Z * entry)) : list event :=
    map (fun x => (e_k (snd x), 1, 2)) (filter (expired nw) p).
  Definition alive (nw : Z) (p : list (Z * entry)) : list (Z * entry) :=
    filter (fun x => negb (expired nw x)) p.

  (* the wake-up instant: the loop of next_timeout over the requests that stay pending
       match &next_timeout { Some(t) if *t > state.deadline => next_timeout = Some(state.deadline),
                             None => next_timeout = Some(state.deadline), _ => {} }
     (the HashMap is visited in some order; here: the order of insertion) *)
  Definition wake1 (acc : option Z) (x : Z * entry) : option Z :=
    match acc with
    | Some t => if t >? e_deadline (snd x) then Some (e_deadline (snd x)) else Some t
    | None => Some (e_deadline (snd x))
    end.
  Definition next_wake (p : list (Z * entry)) : option Z := fold_left wake1 p None.

  (* where the clock stands when a sleep that began at [nw] with wake-up [w] ends *)
  Definition sleep_to (nw lim : Z) (w : option Z) : Z :=
    match w with
    | Some w => if lim <? 0 then w else Z.min w (nw + lim)
    | None => if lim <? 0 then nw else nw + lim
    end.

  (* ---- close ---- *)
  Definition req_status (status : Z) : Z := if status =? 0 then 1 else status.
  Definition has_cb (q : Z * Z * Z) : bool := negb (snd q =? 1).
  Definition qk (q : Z * Z * Z) : Z := fst (fst q).

  (* the callbacks [drop] belongs to was dropped, not called: its requester reads BadConnectionClosed *)
  Definition close_events (status : Z) (drop : option Z) (p : list (Z * entry)) (q : list (Z * Z * Z)) : list event :=
    map (fun x => (e_k (snd x), 1,
                   match drop with
                   | Some r => if fst x =? r then 1 else req_status status
                   | None => req_status status
                   end)) p
    ++ map (fun x => (qk x, 1, req_status status)) (filter has_cb q).

  (* a pump turn that ends in a close: the reaper has run first, so the pending requests whose
     deadline had passed read BadTimeout and the others the status of the close; then the request
     just taken from the queue and the queued ones.  (Listed in the order of the labels.) *)
  Definition pump_close_events (status nw : Z) (p newl : list (Z * entry)) (q : list (Z * Z * Z)) : list event :=
    map (fun x => (e_k (snd x), 1, if expired nw x then 2 else req_status status)) p
    ++ close_events status None newl q.

  Definition set_closed (s : st) (lr : Z) (id : Z) (evs : list event) : st :=
    {| queue := []; pending := []; last_id := id; last_recv := lr; now := now s; next_k := next_k s;
       closed := true; submitted := submitted s; done := done s ++ evs |}.

  Definition with_pending (s : st) (p : list (Z * entry)) (lr : Z) (evs : list event) : st :=
    {| queue := queue s; pending := p; last_id := last_id s; last_recv := lr; now := now s; next_k := next_k s;
       closed := closed s; submitted := submitted s; done := done s ++ evs |}.

  (* after a call of next_timeout that was not followed by taking a request from the queue *)
  Definition scanned (s : st) (p : list (Z * entry)) (nw : Z) (evs : list event) : st :=
    {| queue := queue s; pending := p; last_id := last_id s; last_recv := last_recv s; now := nw; next_k := next_k s;
       closed := closed s; submitted := submitted s; done := done s ++ evs |}.

  Definition status_of_validate (code : Z) : Z :=
    if code =? 1 then 5 else if code =? 2 then 6 else 7.

  (* one operation: new state, request id handed out (Pump only, -1: none), completion events *)
  Definition step (s : st) (o : op) : st * Z * list event :=
    match o with
    | Submit t kind =>
        let k := next_k s in
        let cb := negb (kind =? 1) in
        if closed s then
          (* send_timeout on the closed queue: BadConnectionClosed at once *)
          let evs := if cb then [(k, 1, 1)] else [] in
          ({| queue := queue s; pending := pending s; last_id := last_id s; last_recv := last_recv s; now := now s;
              next_k := k + 1; closed := true;
              submitted := if cb then submitted s ++ [k] else submitted s; done := done s ++ evs |}, -1, evs)
        else
          ({| queue := queue s ++ [(k, t, kind)]; pending := pending s; last_id := last_id s;
              last_recv := last_recv s; now := now s; next_k := k + 1; closed := false;
              submitted := if cb then submitted s ++ [k] else submitted s; done := done s |}, -1, [])
    | Advance t =>
        ({| queue := queue s; pending := pending s; last_id := last_id s; last_recv := last_recv s;
            now := now s + Z.max 0 t; next_k := next_k s; closed := closed s;
            submitted := submitted s; done := done s |}, -1, [])
    | Pump =>
        if closed s then (s, -1, []) else
        let tev := timeouts (now s) (pending s) in
        let p1 := alive (now s) (pending s) in
        if max_inflight >? Z.of_nat (length p1) then
          match queue s with
          | [] => (with_pending s p1 (last_recv s) tev, -1, tev)
          | (k, t, kind) :: q' =>
              let id := last_id s + 1 in
              let newl := if kind =? 1 then [] else [(id, mk_entry k (now s + Z.max 0 t) [])] in
              let p2 := p1 ++ newl in
              if kind =? 2 then
                (* SendBuffer::write fails with BadRequestTooLarge: poll closes the transport *)
                let evs := pump_close_events 11 (now s) (pending s) newl q' in
                (set_closed s (last_recv s) id evs, id, evs)
              else
                ({| queue := q'; pending := p2; last_id := id; last_recv := last_recv s; now := now s;
                    next_k := next_k s; closed := false; submitted := submitted s; done := done s ++ tev |}, id, tev)
          end
        else (with_pending s p1 (last_recv s) tev, -1, tev)
    | Chunk rid sq kind mid part n =>
        if closed s then (s, -1, []) else
        let c := mk_chunk rid sq kind mid part n in
        match find rid (pending s) with
        | None => (s, -1, [])
        | Some e =>
            if kind =? 0 then
              let cs := e_chunks e ++ [c] in
              if (0 <? max_pending) && (max_pending <? Z.of_nat (length cs)) then
                let evs := [(e_k e, 1, 4)] in
                (with_pending s (remove rid (pending s)) (last_recv s) evs, -1, evs)
              else (with_pending s (update rid (mk_entry (e_k e) (e_deadline e) cs) (pending s)) (last_recv s) [], -1, [])
            else if kind =? 1 then
              let cs := merge (e_chunks e ++ [c]) in
              let fail (lr status : Z) :=
                let evs := close_events status (Some rid) (pending s) (queue s) in
                (set_closed s lr (last_id s) evs, -1, evs) in
              match C12.Model.receive (last_recv s) chan (map to12 cs) with
              | C12.Model.VOk x =>
                  match dec cs with
                  | inl m => let evs := [(e_k e, 0, m)] in
                             (with_pending s (remove rid (pending s)) x evs, -1, evs)
                  | inr status => fail x status
                  end
              | C12.Model.VErr code => fail (last_recv s) (status_of_validate code)
              | C12.Model.VPanic => fail (last_recv s) 99
              end
            else
              let evs := [(e_k e, 1, 3)] in
              (with_pending s (remove rid (pending s)) (last_recv s) evs, -1, evs)
        end
    | AckMsg =>
        if closed s then (s, -1, []) else
        let evs := close_events 10 None (pending s) (queue s) in (set_closed s (last_recv s) (last_id s) evs, -1, evs)
    | ErrMsg cls =>
        if closed s then (s, -1, []) else
        if cls =? 0 then (s, -1, []) else
        let evs := close_events (if cls =? 98 then 10 else cls) None (pending s) (queue s) in
        (set_closed s (last_recv s) (last_id s) evs, -1, evs)
    | Close status =>
        if closed s then (s, -1, []) else
        let evs := close_events status None (pending s) (queue s) in (set_closed s (last_recv s) (last_id s) evs, -1, evs)
    | Scan =>
        if closed s then (s, -1, []) else
        let tev := timeouts (now s) (pending s) in
        (scanned s (alive (now s) (pending s)) (now s) tev, -1, tev)
    | Sleep lim =>
        if closed s then (s, -1, []) else
        let tev := timeouts (now s) (pending s) in
        let p1 := alive (now s) (pending s) in
        (scanned s p1 (sleep_to (now s) lim (next_wake p1)) tev, -1, tev)
    end.

  (* what next_timeout returned in that operation (Scan and Sleep show it), as the distance from
     [now]; -1: None *)
  Definition wake (s : st) (o : op) : Z :=
    match o with
    | Scan | Sleep _ =>
        if closed s then -1 else
        match next_wake (alive (now s) (pending s)) with Some w => w - now s | None => -1 end
    | _ => -1
    end.

  (* the full step: new state, request id, completion events, wake-up *)
  Definition stepw (s : st) (o : op) : st * Z * list event * Z := (step s o, wake s o).

  Definition exec (s : st) (ops : list op) : st := fold_left (fun s o => fst (fst (step s o))) ops s.
End Step.

(* the pinned code before the fix: merge_chunks incremented the expected number with `+= 1`, which
   overflows (panic with overflow checks) after a kept chunk numbered u32::MAX *)
Module Legacy.
  Fixpoint keep_run (expect : Z) (l : list chunk) : option (list chunk) :=
    match l with
    | [] => Some []
    | c :: l' =>
        if k_seq c =? expect then
          if U32 <=? expect + 1 then None
          else match keep_run (expect + 1) l' with Some r => Some (c :: r) | None => None end
        else keep_run expect l'
    end.
  Definition merge (l : list chunk) : option (list chunk) :=
    match l with
    | [_] => Some l
    | _ => match sort l with
           | [] => Some []
           | (c0 :: _) as s => keep_run (k_seq c0) s
           end
    end.
End Legacy.

(* ---- the decoder on the harness's payloads ------------------------------------------------ *)
(* Chunker::decode: all chunks but the last must be intermediate and the last final
   (BadDecodingError); the bodies are concatenated; part 0 of a message starts with its node id,
   header (the marker) and the length of a byte string that fills the rest of the n equal parts,
   every other part is filler (0xFF): the concatenation decodes iff it starts with a part 0 and
   holds at least n parts (anything behind the message is not looked at). *)
Fixpoint kinds_ok (l : list chunk) : bool :=
  match l with
  | [] => false
  | [c] => k_kind c =? 1
  | c :: l' => (k_kind c =? 0) && kinds_ok l'
  end.

Definition decode_parts (l : list chunk) : Z + Z :=
  if negb (kinds_ok l) then inr 8
  else match l with
       | [] => inr 8
       | c0 :: _ =>
           if negb (k_part c0 =? 0) then inr 8          (* NodeId::decode on 0xFF *)
           else if Z.of_nat (length l) <? k_n c0 then inr 9 (* the byte string runs past the end *)
           else inl (k_mid c0)
       end.

(* ---- correspondence interface -------------------------------------------------------------- *)
Record case := mk_case { c_maxinfl : Z; c_maxpend : Z; c_ops : list op }.

Definition init : st :=
  {| queue := []; pending := []; last_id := 1000; last_recv := 0; now := 0; next_k := 0; closed := false;
     submitted := []; done := [] |}.

Fixpoint flat (l : list event) : list Z :=
  match l with [] => [] | (k, t, v) :: l' => k :: t :: v :: flat l' end.

Definition b2z (b : bool) : Z := if b then 1 else 0.

(* per operation: [request id (Pump only)] ++ [number of events] ++ events
   ++ [wake-up as the distance from now, -1 for None (Scan and Sleep only)] ++ [closed afterwards] *)
Definition enc1 (o : op) (id w : Z) (evs : list event) (cl : bool) : list Z :=
  (match o with Pump => [id] | _ => [] end) ++ Z.of_nat (length evs) :: flat evs
  ++ (match o with Scan | Sleep _ => [w] | _ => [] end) ++ [b2z cl].

Fixpoint run_from (c : case) (s : st) (ops : list op) : list Z :=
  match ops with
  | [] => []
  | o :: ops' =>
      let '(s', id, evs, w) := stepw decode_parts (c_maxinfl c) (c_maxpend c) s o in
      enc1 o id w evs (closed s') ++ run_from c s' ops'
  end.

Definition run (c : case) : list Z := run_from c init (c_ops c).

(* ---- the property as a predicate on an observed output -------------------------------------- *)
(* ledger of the specification: who has been submitted and not completed, and where *)
Record led := {
  g_q : list (Z * Z * Z);                     (* queued: (k, timeout, kind) *)
  g_in : list (Z * (Z * Z * list Z));         (* in flight: request id -> (k, deadline, markers of the chunks received for it) *)
  g_closed : bool; g_now : Z; g_k : Z; g_maxid : Z }.

Definition led0 : led := {| g_q := []; g_in := []; g_closed := false; g_now := 0; g_k := 0; g_maxid := 1000 |}.

Fixpoint gfind (rid : Z) (p : list (Z * (Z * Z * list Z))) : option (Z * Z * list Z) :=
  match p with [] => None | (r, x) :: p' => if r =? rid then Some x else gfind rid p' end.
Fixpoint gremove (rid : Z) (p : list (Z * (Z * Z * list Z))) : list (Z * (Z * Z * list Z)) :=
  match p with [] => [] | (r, x) :: p' => if r =? rid then p' else (r, x) :: gremove rid p' end.
Fixpoint gupdate (rid : Z) (y : Z * Z * list Z) (p : list (Z * (Z * Z * list Z))) : list (Z * (Z * Z * list Z)) :=
  match p with [] => [] | (r, x) :: p' => if r =? rid then (r, y) :: p' else (r, x) :: gupdate rid y p' end.

Definition gk (x : Z * (Z * Z * list Z)) : Z := fst (fst (snd x)).
Definition gdl (x : Z * (Z * Z * list Z)) : Z := snd (fst (snd x)).

Fixpoint ev_eqb (a b : list event) : bool :=
  match a, b with
  | [], [] => true
  | (k, t, v) :: a', (k', t', v') :: b' => (k =? k') && (t =? t') && (v =? v') && ev_eqb a' b'
  | _, _ => false
  end.

(* at a close every open request completes, in this operation, with an error status: the common
   one, or BadConnectionClosed (its callback was dropped) for the request [drop] whose response was
   being processed.  [st]: the status if the specification knows it, else any one bad status. *)
Fixpoint close_ok (open : list (Z * Z)) (evs : list event) (st : option Z) (common : option Z) : bool :=
  match open, evs with
  | [], [] => true
  | (k, mode) :: open', (k', t, v) :: evs' =>
      (k =? k') && (t =? 1) && negb (v =? 0) &&
      (if mode =? 1 then (v =? 1) && close_ok open' evs' st common            (* its callback was dropped *)
       else if mode =? 2 then (v =? 2) && close_ok open' evs' st common       (* its deadline had passed *)
       else match st with
            | Some s => (v =? s) && close_ok open' evs' st common
            | None => match common with
                      | Some w => (v =? w) && close_ok open' evs' st common
                      | None => close_ok open' evs' st (Some v)
                      end
            end)
  | _, _ => false
  end.

Definition open_q (q : list (Z * Z * Z)) : list (Z * Z) := map (fun q => (qk q, 0)) (filter has_cb q).

Definition open_of (g : led) (drop : option Z) : list (Z * Z) :=
  map (fun x => (gk x, match drop with Some r => if fst x =? r then 1 else 0 | None => 0 end)) (g_in g)
  ++ open_q (g_q g).

Definition closed_led (g : led) (id : Z) : led :=
  {| g_q := []; g_in := []; g_closed := true; g_now := g_now g; g_k := g_k g; g_maxid := id |}.

Definition gexpired (nw : Z) (x : Z * (Z * Z * list Z)) : bool := gdl x <=? nw.

(* observation of one operation *)
Record ob := { o_id : Z; o_evs : list event; o_wake : Z; o_closed : bool }.

(* the wake-up instant next_timeout may return when the requests [in1] stay pending at [nw]:
   none (-1) iff nothing stays pending; otherwise an instant after [nw], not after any of their
   deadlines - no deadline passes while the transport sleeps - and the deadline of one of them -
   the transport does not wake up for nothing *)
Definition wake_ok (nw : Z) (in1 : list (Z * (Z * Z * list Z))) (w : Z) : bool :=
  match in1 with
  | [] => w =? -1
  | _ => (0 <? w) && forallb (fun x => nw + w <=? gdl x) in1 && existsb (fun x => gdl x =? nw + w) in1
  end.

(* the clock after a sleep of the specification: until the wake-up observed (checked by wake_ok),
   or lim units if that is less; lim units (none for lim < 0) when there is no wake-up *)
Definition slept (nw lim w : Z) : Z :=
  if w <? 0 then (if lim <? 0 then nw else nw + lim)
  else if lim <? 0 then nw + w else Z.min (nw + w) (nw + lim).

Definition check1 (g : led) (o : op) (b : ob) : option led :=
  let ok (cond : bool) (g' : led) := if cond then Some g' else None in
  match o with
  | Submit t kind =>
      let k := g_k g in
      let g1 (q : list (Z * Z * Z)) :=
        {| g_q := q; g_in := g_in g; g_closed := g_closed g; g_now := g_now g; g_k := k + 1; g_maxid := g_maxid g |} in
      if g_closed g
      then ok (ev_eqb (o_evs b) (if kind =? 1 then [] else [(k, 1, 1)]) && o_closed b) (g1 (g_q g))
      else ok (ev_eqb (o_evs b) [] && negb (o_closed b)) (g1 (g_q g ++ [(k, t, kind)]))
  | Advance t =>
      ok (ev_eqb (o_evs b) [] && Bool.eqb (o_closed b) (g_closed g))
         {| g_q := g_q g; g_in := g_in g; g_closed := g_closed g; g_now := g_now g + Z.max 0 t; g_k := g_k g; g_maxid := g_maxid g |}
  | Pump =>
      if g_closed g then ok (ev_eqb (o_evs b) [] && o_closed b && (o_id b =? -1)) g else
      (* BadTimeout exactly for the in-flight requests whose deadline has passed *)
      let tev := map (fun x => (gk x, 1, 2)) (filter (gexpired (g_now g)) (g_in g)) in
      let in1 := filter (fun x => negb (gexpired (g_now g) x)) (g_in g) in
      let g1 := {| g_q := g_q g; g_in := in1; g_closed := false; g_now := g_now g; g_k := g_k g; g_maxid := g_maxid g |} in
      if o_id b =? -1 then ok (ev_eqb (o_evs b) tev && negb (o_closed b)) g1
      else match g_q g with
           | [] => None
           | (k, t, kind) :: q' =>
               (* the oldest queued request is taken and gets a fresh, greater request id *)
               let in2 := if kind =? 1 then in1 else in1 ++ [(o_id b, (k, g_now g + Z.max 0 t, []))] in
               let g2 := {| g_q := q'; g_in := in2; g_closed := false; g_now := g_now g; g_k := g_k g; g_maxid := o_id b |} in
               if o_closed b
               then (* the write failed: BadTimeout for those whose deadline had passed, one common
                       bad status for every other open request, the one just taken included *)
                    ok ((g_maxid g <? o_id b)
                        && close_ok (map (fun x => (gk x, if gexpired (g_now g) x then 2 else 0)) (g_in g)
                                     ++ (if kind =? 1 then [] else [(k, 0)]) ++ open_q q')
                                    (o_evs b) None None)
                       (closed_led g (o_id b))
               else ok ((g_maxid g <? o_id b) && ev_eqb (o_evs b) tev) g2
           end
  | Chunk rid sq kind mid part n =>
      if g_closed g then ok (ev_eqb (o_evs b) [] && o_closed b) g else
      match gfind rid (g_in g) with
      | None => ok (ev_eqb (o_evs b) [] && negb (o_closed b)) g     (* unknown or expired id: ignored *)
      | Some (k, dl, mids) =>
          let without := {| g_q := g_q g; g_in := gremove rid (g_in g); g_closed := false; g_now := g_now g; g_k := g_k g; g_maxid := g_maxid g |} in
          if o_closed b then
            (* only a final chunk can make the response undecodable; then everything completes *)
            ok ((kind =? 1) && close_ok (open_of g (Some rid)) (o_evs b) None None) (closed_led g (g_maxid g))
          else match o_evs b with
               | [] => ok (kind =? 0)
                          {| g_q := g_q g; g_in := gupdate rid (k, dl, mids ++ [mid]) (g_in g); g_closed := false;
                             g_now := g_now g; g_k := g_k g; g_maxid := g_maxid g |}
               | [(k', 0, m)] =>
                   (* a response: to the request with this id, from chunks that carried this id *)
                   ok ((k' =? k) && (kind =? 1) && existsb (Z.eqb m) (mids ++ [mid])) without
               | [(k', 1, v)] =>
                   ok ((k' =? k) && (((kind =? 0) && (v =? 4)) || (negb (kind =? 0) && negb (kind =? 1) && (v =? 3)))) without
               | _ => None
               end
      end
  | AckMsg =>
      if g_closed g then ok (ev_eqb (o_evs b) [] && o_closed b) g else
      ok (o_closed b && close_ok (open_of g None) (o_evs b) (Some 10) None) (closed_led g (g_maxid g))
  | ErrMsg cls =>
      if g_closed g then ok (ev_eqb (o_evs b) [] && o_closed b) g else
      if cls =? 0 then ok (ev_eqb (o_evs b) [] && negb (o_closed b)) g else
      ok (o_closed b && close_ok (open_of g None) (o_evs b) (Some (if cls =? 98 then 10 else cls)) None) (closed_led g (g_maxid g))
  | Close status =>
      if g_closed g then ok (ev_eqb (o_evs b) [] && o_closed b) g else
      ok (o_closed b && close_ok (open_of g None) (o_evs b) (Some (req_status status)) None) (closed_led g (g_maxid g))
  | Scan | Sleep _ =>
      if g_closed g then ok (ev_eqb (o_evs b) [] && o_closed b && (o_wake b =? -1)) g else
      (* BadTimeout exactly for the in-flight requests whose deadline has passed; the wake-up is the
         earliest deadline of the others; a sleep ends no later than that *)
      let tev := map (fun x => (gk x, 1, 2)) (filter (gexpired (g_now g)) (g_in g)) in
      let in1 := filter (fun x => negb (gexpired (g_now g) x)) (g_in g) in
      let nw' := match o with Sleep lim => slept (g_now g) lim (o_wake b) | _ => g_now g end in
      ok (ev_eqb (o_evs b) tev && negb (o_closed b) && wake_ok (g_now g) in1 (o_wake b))
         {| g_q := g_q g; g_in := in1; g_closed := false; g_now := nw'; g_k := g_k g; g_maxid := g_maxid g |}
  end.

(* decoding one operation's observation from the flat output *)
Fixpoint take_events (n : nat) (l : list Z) : option (list event * list Z) :=
  match n with
  | O => Some ([], l)
  | S n' => match l with
            | k :: t :: v :: l' => match take_events n' l' with
                                   | Some (es, r) => Some ((k, t, v) :: es, r)
                                   | None => None
                                   end
            | _ => None
            end
  end.

Definition dec1 (o : op) (l : list Z) : option (ob * list Z) :=
  let body (id : Z) (l : list Z) :=
    match l with
    | n :: r => if n <? 0 then None else
                match take_events (Z.to_nat n) r with
                | Some (es, r1) =>
                    match o, r1 with
                    | (Scan | Sleep _), w :: cl :: r' =>
                        Some ({| o_id := id; o_evs := es; o_wake := w; o_closed := negb (cl =? 0) |}, r')
                    | (Scan | Sleep _), _ => None
                    | _, cl :: r' => Some ({| o_id := id; o_evs := es; o_wake := -1; o_closed := negb (cl =? 0) |}, r')
                    | _, [] => None
                    end
                | None => None
                end
    | [] => None
    end in
  match o with
  | Pump => match l with id :: r => body id r | [] => None end
  | _ => body (-1) l
  end.

Fixpoint oracle_from (g : led) (ops : list op) (out : list Z) : bool :=
  match ops with
  | [] => match out with [] => true | _ => false end
  | o :: ops' =>
      match dec1 o out with
      | Some (b, r) => match check1 g o b with Some g' => oracle_from g' ops' r | None => false end
      | None => false
      end
  end.

Definition oracle (c : case) (out : list Z) : bool := oracle_from led0 (c_ops c) out.

Definition known (c : case) : Z := 0.

Definition valid (c : case) : Prop := True.
