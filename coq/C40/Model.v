(* C40 — republish and acknowledgement see the same retained notifications.

   Implementation model: the shared system model C21/Sys.v (retransmission queue as the sorted
   association list [y_retrans]: insert in the transmission loop of Subscriptions::tick, removal
   by process_subscription_acknowledgements, lookup by find_notification_message, purge by
   remove_old_unacknowledged_notifications: entries of vanished subscriptions, then the smallest
   keys above the bound 2 * max_publish_requests = 4 * #subscriptions).

   The oracle is a trace checker.  It keeps
     - [k_sent]: every notification message seen in a publish response, keyed by
       (subscription, sequence number) — "the original";
     - [k_exp]: for every queued publish request the acknowledgement results it must carry;
     - the previous observation (live subscriptions, retained keys K0, queued requests).
   and checks, per operation (K1 = retained keys afterwards, L = live subscriptions):
     Republish(s,q):  Good  <->  s live and (s,q) in K0;  then the message equals the original;
                      otherwise BadSubscriptionIdInvalid (s not live) / BadMessageNotAvailable;
                      K1 = K0.
     Publish(acks):   result i = Good  <->  subscription live and key retained (after the
                      earlier acknowledgements of the same request), BadSequenceNumberUnknown if
                      live but not retained, BadSubscriptionIdInvalid otherwise; a Good
                      acknowledgement removes exactly its key, the others remove nothing;
                      the results arrive in the response that answers that request.
     retention:       after an operation every retained key was retained before (minus Good
                      acknowledgements) or was sent by this operation, and a key disappears
                      without acknowledgement only if its subscription is gone or the queue is
                      at its bound 4 * #live ("evicted").
   A Publish on a full request queue runs a scheduling round before the acknowledgements are
   processed; the observation cannot see the key set in between, so for such an operation only
   the message identity and result bookkeeping are checked. *)
From Coq Require Import List ZArith Bool Lia.
Import ListNotations.
From OV Require Export C21.Sys.
Open Scope Z_scope.

Definition key := (Z * Z)%type.
Definition mem_key (k : key) (l : list key) : bool := existsb (key_eq k) l.
Definition memz (x : Z) (l : list Z) : bool := existsb (Z.eqb x) l.
Definition remove_key (k : key) (l : list key) : list key := filter (fun k' => negb (key_eq k k')) l.
Definition subset_keys (a b : list key) : bool := forallb (fun k => mem_key k b) a.

Fixpoint zlist_eqb (a b : list Z) : bool :=
  match a, b with
  | [], [] => true
  | x :: a', y :: b' => (x =? y) && zlist_eqb a' b'
  | _, _ => false
  end.
Fixpoint keys_eqb (a b : list key) : bool :=
  match a, b with
  | [], [] => true
  | x :: a', y :: b' => key_eq x y && keys_eqb a' b'
  | _, _ => false
  end.
Definition datum_eqb (a b : datum) : bool :=
  (fst (fst a) =? fst (fst b)) && (snd (fst a) =? snd (fst b)) && (snd a =? snd b).
Fixpoint data_eqb (a b : list datum) : bool :=
  match a, b with
  | [], [] => true
  | x :: a', y :: b' => datum_eqb x y && data_eqb a' b'
  | _, _ => false
  end.
Definition msg_eqb (a b : msg) : bool :=
  (m_seq a =? m_seq b) && (m_time a =? m_time b) && (m_kind a =? m_kind b) && data_eqb (m_data a) (m_data b).

Definition live (sn : snap) : list Z := map (fun t => fst (fst t)) (sn_subs sn).

(* the acknowledgement rule, on key sets *)
Fixpoint ack_spec (lv : list Z) (acks : list key) (K : list key) : list Z * list key :=
  match acks with
  | [] => ([], K)
  | k :: r =>
      let '(st, K1) := if memz (fst k) lv
                       then if mem_key k K then (ST_GOOD, remove_key k K) else (ST_SEQ_UNKNOWN, K)
                       else (ST_SUB_INVALID, K) in
      let '(sts, K2) := ack_spec lv r K1 in
      (st :: sts, K2)
  end.

Fixpoint lookup_sent (k : key) (l : list (key * msg)) : option msg :=
  match l with
  | [] => None
  | (k', m) :: r => if key_eq k k' then Some m else lookup_sent k r
  end.
Fixpoint lookup_exp (rid : Z) (l : list (Z * option (list Z))) : option (option (list Z)) :=
  match l with
  | [] => None
  | (r, e) :: t => if rid =? r then Some e else lookup_exp rid t
  end.

Record kst := mk_kst {
  k_sent : list (key * msg);
  k_exp : list (Z * option (list Z));
  k_before : snap;
  k_rid : Z }.

(* responses: results carried as expected, originals recorded; returns the keys sent *)
Fixpoint check_resps (rs : list resp) (sent : list (key * msg)) (ex : list (Z * option (list Z)))
  : bool * list (key * msg) * list key :=
  match rs with
  | [] => (true, sent, [])
  | RFault _ _ :: r => check_resps r sent ex
  | RPub rid sub _ _ results m :: r =>
      let ok := match lookup_exp rid ex with
                | Some (Some e) => zlist_eqb results e
                | Some None => true
                | None => false
                end in
      let '(ok', sent', ks) := check_resps r (((sub, m_seq m), m) :: sent) ex in
      (ok && ok', sent', (sub, m_seq m) :: ks)
  end.

(* retention between two observations *)
Definition evolve_ok (Kmid sent_k K1 : list key) (L1 : list Z) : bool :=
  let U := Kmid ++ sent_k in
  subset_keys K1 U &&
  forallb (fun k => mem_key k K1 || negb (memz (fst k) L1) || (4 * len L1 <=? len K1)) U.

Definition queue_full (sn : snap) : bool := 2 * len (sn_subs sn) <=? len (sn_reqs sn).

Definition check_op (st : kst) (o : op) (r : opres) : bool * kst :=
  let before := k_before st in
  let K0 := sn_keys before in
  let L0 := live before in
  let K1 := sn_keys (o_snap r) in
  let L1 := live (o_snap r) in
  match o with
  | ORepublish sub seq =>
      let retained := memz sub L0 && mem_key (sub, seq) K0 in
      let ok :=
        (if retained
         then (o_status r =? ST_GOOD) &&
              match o_msg r, lookup_sent (sub, seq) (k_sent st) with
              | Some m, Some m0 => msg_eqb m m0
              | _, _ => false
              end
         else (o_status r =? (if memz sub L0 then ST_MSG_NOT_AVAILABLE else ST_SUB_INVALID)) &&
              negb (is_some (o_msg r))) &&
        keys_eqb K1 K0 && is_nil (o_resps r) in
      (ok, mk_kst (k_sent st) (k_exp st) (o_snap r) (k_rid st))
  | OPublish _ _ acks =>
      let rid := k_rid st in
      if (o_status r =? ST_NO_SUB)
      then (keys_eqb K1 K0 && is_nil (o_resps r), mk_kst (k_sent st) (k_exp st) (o_snap r) (rid + 1))
      else if queue_full before
      then
        let ex := if o_status r =? ST_GOOD then (rid, None) :: k_exp st else k_exp st in
        let '(ok, sent', _) := check_resps (o_resps r) (k_sent st) ex in
        (ok, mk_kst sent' ex (o_snap r) (rid + 1))
      else
        let '(results, Kmid) := ack_spec L0 acks K0 in
        let ex := (rid, Some results) :: k_exp st in
        let '(ok, sent', ks) := check_resps (o_resps r) (k_sent st) ex in
        (ok && (o_status r =? ST_GOOD) && evolve_ok Kmid ks K1 L1, mk_kst sent' ex (o_snap r) (rid + 1))
  | OTick _ =>
      let '(ok, sent', ks) := check_resps (o_resps r) (k_sent st) (k_exp st) in
      (ok && evolve_ok K0 ks K1 L1, mk_kst sent' (k_exp st) (o_snap r) (k_rid st))
  | _ =>
      (keys_eqb K1 K0 && is_nil (o_resps r), mk_kst (k_sent st) (k_exp st) (o_snap r) (k_rid st))
  end.

Fixpoint check_trace (st : kst) (ops : list op) (tr : list opres) : bool :=
  match tr, ops with
  | [], _ => true
  | r :: tr', o :: ops' => let '(ok, st') := check_op st o r in ok && check_trace st' ops' tr'
  | _ :: _, [] => false
  end.

Definition init_kst : kst := mk_kst [] [] (mk_snap [] [] [] []) 1.

Definition oracle (c : case) (out : list Z) : bool :=
  match decode out with
  | Some (tr, _) => check_trace init_kst (c_ops c) tr
  | None => false
  end.

Definition known (c : case) : Z := 0.

Definition valid (c : case) : Prop := True.
