From Coq Require Import List ZArith Bool String.
Import ListNotations.
From OV Require Import Gen.C33Sites C33.Baseline C33.Model.
Open Scope Z_scope.

Theorem oracle_holds c : oracle c (run c) = true.
Proof. reflexivity. Qed.

(* no file of the request-processing code has more explicit panic sites than the audited baseline *)
Theorem sites_within_baseline : sites_ok = true.
Proof. vm_compute. reflexivity. Qed.

Theorem sites_within_baseline_spelled f n : In (f, n) sites ->
  match lookup f baseline with Some b => n <= b | None => n = 0 end.
Proof.
  intro Hin. pose proof sites_within_baseline as H. unfold sites_ok in H.
  rewrite forallb_forall in H. specialize (H (f, n) Hin). unfold within_baseline in H. cbn [fst snd] in H.
  destruct (lookup f baseline); [apply Z.leb_le | apply Z.eqb_eq]; exact H.
Qed.
