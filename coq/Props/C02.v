(* C02 — Decoding arbitrary bytes never panics, overflows the stack or over-allocates.  Statements only.

   decode dk o is the instrumented model of the decoder number dk (built-in types, Variant, DataValue,
   typed arrays, message header, HEL/ACK/ERR, chunk header, chunk) under the options o.  It is a
   total function: every input has an outcome.  Its result carries the number of depth locks held
   at the deepest point (= native recursion depth of the real decoder, up to a constant factor) and
   the largest allocation requested. *)
From Coq Require Import List ZArith.
Import ListNotations.
From OV Require Import C01.Codec C01.Builtins C01.Types C01.Model C02.Model C02.Proofs.
Open Scope Z_scope.

(* for all options with non-negative limits and a client offset within the span of two DateTimes, all
   decoders and all byte strings: the outcome is a value or an error, never a panic site; at most
   max_depth depth locks are ever held; no allocation request exceeds
   alloc_bound o = max(max_string_length, max_byte_string_length, max_array_length * 72,
                       max_message_size or 2^32-1 when that is 0 = unlimited) *)
Theorem C02_total : forall dk o bs, valid_opts o -> dk_small dk -> byte_list bs ->
  match decode dk o bs with
  | (Ok _, s) | (Err _, s) => st_depth s <= max_depth o /\ st_alloc s <= alloc_bound o
  | (Panic _, _) => False
  end.
Proof. exact total. Qed.
Print Assumptions C02_total.

(* the same for every type descriptor (arrays of arrays, generated structures) at any remaining depth d *)
Theorem C02_total_types : forall o d t, valid_opts o -> ty_small t ->
  safe (Z.of_nat d) (alloc_bound o) any (dec_ty t o d).
Proof. intros o d t Hv Hs. apply safe_dec_ty; assumption. Qed.
Print Assumptions C02_total_types.

(* n Variant-in-Variant prefixes with n above the configured depth are rejected with the depth error,
   whatever they wrap and whatever follows *)
Theorem C02_depth_rejected : forall o n v rest, offset_ns o = 0 -> wf_variant v -> (depth0 o < n)%nat ->
  Codec.run (dec_variant o (depth0 o)) (enc_variant (nestv n v) ++ rest) = Err EDepth.
Proof. exact depth_rejected. Qed.
Print Assumptions C02_depth_rejected.

Theorem C02_over_depth_never_accepted : forall o d v rest, offset_ns o = 0 -> wf_variant v ->
  chk_variant o d v <> None ->
  exists e, Codec.run (dec_variant o d) (enc_variant v ++ rest) = Err e.
Proof. exact over_depth_never_accepted. Qed.
Print Assumptions C02_over_depth_never_accepted.

Theorem C02_oracle : forall c, valid c -> known c = 0 -> oracle c (C02.Model.run c) = true.
Proof. exact oracle_holds. Qed.
Print Assumptions C02_oracle.

(* before "fix: DataValue and DiagnosticInfo decoding recursed without a depth check": 200 inner
   DiagnosticInfo masks are decoded 201 levels deep under the default options (max_depth 10) *)
Theorem C02_legacy_refuted :
  let o := mk_opts 65535 65535 1000 327675 10 0 in
  st_depth (snd (Legacy.dec_diag o 300 (repeat 64 200 ++ [0]))) = 201.
Proof. vm_compute. reflexivity. Qed.
Print Assumptions C02_legacy_refuted.
