(* Laws of the codec library: monad, little-endian integers, strings, arrays, combinators. *)
From Coq Require Import List ZArith Bool Lia.
Import ListNotations.
From OV Require Import C01.Codec.
Open Scope Z_scope.

(* ---- the monad under [run] --------------------------------------------------------------- *)
Lemma run_ret {A} (a : A) bs : run (ret a) bs = Ok (a, bs).
Proof. reflexivity. Qed.
Lemma run_fail {A} e bs : run (@fail A e) bs = Err e.
Proof. reflexivity. Qed.
Lemma run_panic {A} p bs : run (@panic A p) bs = Panic p.
Proof. reflexivity. Qed.
Lemma run_bind {A B} (m : M A) (f : A -> M B) bs :
  run (bind m f) bs =
  match run m bs with
  | Ok (a, bs') => run (f a) bs'
  | Err e => Err e
  | Panic p => Panic p
  end.
Proof.
  unfold run, bind. destruct (m bs) as [[[a bs']|e|p] s]; cbn; try reflexivity.
  destruct (f a bs') as [r s']. reflexivity.
Qed.
Lemma run_alloc n bs : run (alloc n) bs = Ok (tt, bs).
Proof. reflexivity. Qed.
Lemma run_bump {A} (m : M A) bs : run (bump m) bs = run m bs.
Proof. unfold run, bump. destruct (m bs). reflexivity. Qed.
Lemma run_lock {A} d (body : nat -> M A) bs :
  run (lock d body) bs = match d with O => Err EDepth | S d' => run (body d') bs end.
Proof. destruct d; [reflexivity|]. apply run_bump. Qed.

Lemma run_bind_ok {A B} (m : M A) (f : A -> M B) bs a bs' :
  run m bs = Ok (a, bs') -> run (bind m f) bs = run (f a) bs'.
Proof. intros H. rewrite run_bind, H. reflexivity. Qed.
Lemma run_bind_err {A B} (m : M A) (f : A -> M B) bs e :
  run m bs = Err e -> run (bind m f) bs = Err e.
Proof. intros H. rewrite run_bind, H. reflexivity. Qed.

(* ---- take ----------------------------------------------------------------------------------- *)
Lemma run_take_app a rest : run (take (length a)) (a ++ rest) = Ok (a, rest).
Proof.
  unfold run, take. rewrite app_length.
  destruct (Nat.ltb_spec (length a + length rest) (length a)); [lia|]. cbn.
  rewrite firstn_app, Nat.sub_diag, firstn_all, skipn_app, Nat.sub_diag, skipn_all. cbn.
  rewrite app_nil_r. reflexivity.
Qed.
Lemma run_take_n n a rest : length a = n -> run (take n) (a ++ rest) = Ok (a, rest).
Proof. intros <-. apply run_take_app. Qed.

(* ---- little endian ------------------------------------------------------------------------- *)
Lemma le_enc_length n v : length (le_enc n v) = n.
Proof. revert v. induction n; intros; cbn; [reflexivity|]. rewrite IHn. reflexivity. Qed.
Lemma le_enc_bytes n v : Forall is_byte (le_enc n v).
Proof.
  revert v. induction n; intros; cbn; constructor; [|apply IHn].
  unfold is_byte. apply Z.mod_pos_bound. lia.
Qed.
Lemma pow256 n : 2 ^ (8 * Z.of_nat (S n)) = 256 * 2 ^ (8 * Z.of_nat n).
Proof.
  rewrite Nat2Z.inj_succ. replace (8 * Z.succ (Z.of_nat n)) with (8 + 8 * Z.of_nat n) by lia.
  rewrite Z.pow_add_r by lia. reflexivity.
Qed.
Lemma le_dec_enc n v : in_u n v -> le_dec (le_enc n v) = v.
Proof.
  revert v. induction n; intros v Hv; unfold in_u in *.
  - cbn in *. lia.
  - cbn [le_enc le_dec]. rewrite pow256 in Hv. rewrite IHn.
    + pose proof (Z.div_mod v 256). lia.
    + unfold in_u. split; [apply Z.div_pos; lia|]. apply Z.div_lt_upper_bound; lia.
Qed.
Lemma pow_pos8 n : 0 < 2 ^ (8 * Z.of_nat n).
Proof. apply Z.pow_pos_nonneg; lia. Qed.

Lemma wrap_in_u n v : in_u n (wrap n v).
Proof. unfold in_u, wrap. apply Z.mod_pos_bound. apply pow_pos8. Qed.
Lemma half_pow n : (0 < n)%nat -> 2 ^ (8 * Z.of_nat n) = 2 * 2 ^ (8 * Z.of_nat n - 1).
Proof.
  intros Hn. replace (8 * Z.of_nat n) with (1 + (8 * Z.of_nat n - 1)) at 1 by lia.
  rewrite Z.pow_add_r by lia. reflexivity.
Qed.
Lemma signed_wrap n v : (0 < n)%nat -> in_i n v -> signed n (wrap n v) = v.
Proof.
  intros Hn Hv. unfold signed, wrap, in_i in *.
  pose proof (half_pow n Hn) as Hp.
  assert (0 < 2 ^ (8 * Z.of_nat n - 1)) by (apply Z.pow_pos_nonneg; lia).
  destruct (Z_lt_le_dec v 0).
  - replace (v mod 2 ^ (8 * Z.of_nat n)) with (v + 2 ^ (8 * Z.of_nat n)).
    + destruct (Z.ltb_spec (v + 2 ^ (8 * Z.of_nat n)) (2 ^ (8 * Z.of_nat n - 1))); lia.
    + apply Z.mod_unique with (q := -1); [left; lia | lia].
  - rewrite Z.mod_small by lia.
    destruct (Z.ltb_spec v (2 ^ (8 * Z.of_nat n - 1))); lia.
Qed.

Lemma run_read_u n v rest : in_u n v -> run (read_u n) (enc_u n v ++ rest) = Ok (v, rest).
Proof.
  intros Hv. unfold read_u, enc_u. rewrite run_bind, (run_take_n n) by apply le_enc_length.
  rewrite run_ret, le_dec_enc by exact Hv. reflexivity.
Qed.
Lemma run_read_i n v rest : (0 < n)%nat -> in_i n v ->
  run (read_i n) (enc_i n v ++ rest) = Ok (v, rest).
Proof.
  intros Hn Hv. unfold read_i, enc_i. rewrite run_bind, (run_take_n n) by apply le_enc_length.
  rewrite run_ret, le_dec_enc by apply wrap_in_u. rewrite signed_wrap by assumption. reflexivity.
Qed.
Lemma enc_u_length n v : length (enc_u n v) = n. Proof. apply le_enc_length. Qed.
Lemma enc_i_length n v : length (enc_i n v) = n. Proof. apply le_enc_length. Qed.
Lemma enc_u_bytes n v : Forall is_byte (enc_u n v). Proof. apply le_enc_bytes. Qed.
Lemma enc_i_bytes n v : Forall is_byte (enc_i n v). Proof. apply le_enc_bytes. Qed.

(* a single byte *)
Lemma run_read_byte b rest : is_byte b -> run (read_u 1) (b :: rest) = Ok (b, rest).
Proof.
  intros Hb. unfold read_u. rewrite run_bind.
  change (b :: rest) with ([b] ++ rest). rewrite (run_take_n 1) by reflexivity.
  rewrite run_ret. cbn. f_equal. f_equal. unfold is_byte in Hb. lia.
Qed.

Lemma run_read_bool b rest : run read_bool (enc_bool b ++ rest) = Ok (b, rest).
Proof.
  unfold read_bool, enc_bool. rewrite run_bind. cbn [app].
  rewrite run_read_byte by (unfold is_byte; destruct b; lia).
  rewrite run_ret. destruct b; reflexivity.
Qed.

(* ---- strings -------------------------------------------------------------------------------- *)
Lemma in_i4_len {X} (bs : list X) : Z.of_nat (length bs) < 2 ^ 31 -> in_i 4 (Z.of_nat (length bs)).
Proof. unfold in_i. cbn. lia. Qed.
Lemma in_i4_m1 : in_i 4 (-1). Proof. unfold in_i. cbn. lia. Qed.

Lemma run_dec_ustr limit utf8 s rest :
  (match s with None => True | Some bs => Z.of_nat (length bs) < 2 ^ 31 /\
                                          (utf8 = true -> utf8_valid bs = true) end) ->
  run (dec_ustr limit utf8) (enc_ustr s ++ rest) =
  match chk_ustr limit s with None => Ok (s, rest) | Some e => Err e end.
Proof.
  intros Hs. unfold dec_ustr, enc_ustr, chk_ustr. destruct s as [bs|].
  - destruct Hs as [Hlen Hutf]. rewrite <- app_assoc, run_bind.
    rewrite run_read_i by (try lia; apply in_i4_len; exact Hlen).
    destruct (Z.eqb_spec (Z.of_nat (length bs)) (-1)); [lia|].
    destruct (Z.ltb_spec (Z.of_nat (length bs)) (-1)); [lia|].
    destruct (Z.ltb_spec limit (Z.of_nat (length bs))); [reflexivity|].
    rewrite run_bind, run_alloc, run_bind, Nat2Z.id, run_take_app.
    destruct utf8; cbn [andb].
    + rewrite Hutf by reflexivity. reflexivity.
    + reflexivity.
  - rewrite run_bind, run_read_i by (try lia; apply in_i4_m1). reflexivity.
Qed.

Lemma enc_ustr_length s : len_ustr s = Z.of_nat (length (enc_ustr s)).
Proof.
  unfold len_ustr, enc_ustr. destruct s; [rewrite app_length|]; rewrite enc_i_length; lia.
Qed.
Lemma enc_ustr_bytes s : (match s with None => True | Some bs => Forall is_byte bs end) ->
  Forall is_byte (enc_ustr s).
Proof.
  intros H. unfold enc_ustr. destruct s; [apply Forall_app; split; [apply enc_i_bytes|exact H]|].
  apply enc_i_bytes.
Qed.

Lemma run_dec_str o s rest : wf_str s ->
  run (dec_str o) (enc_ustr s ++ rest) =
  match chk_ustr (max_str o) s with None => Ok (s, rest) | Some e => Err e end.
Proof.
  intros H. apply run_dec_ustr. destruct s; [|exact I]. destruct H as [[_ H1] H2]. auto.
Qed.
Lemma run_dec_bstr o s rest : wf_bstr s ->
  run (dec_bstr o) (enc_ustr s ++ rest) =
  match chk_ustr (max_bstr o) s with None => Ok (s, rest) | Some e => Err e end.
Proof.
  intros H. apply run_dec_ustr. destruct s; [|exact I]. destruct H as [_ H1]. split; [exact H1|].
  discriminate.
Qed.
Lemma wf_str_bytes s : wf_str s -> match s with None => True | Some bs => Forall is_byte bs end.
Proof. destruct s; [|auto]. intros [[H _] _]. exact H. Qed.
Lemma wf_bstr_bytes s : wf_bstr s -> match s with None => True | Some bs => Forall is_byte bs end.
Proof. destruct s; [|auto]. intros [H _]. exact H. Qed.

(* ---- arrays ----------------------------------------------------------------------------------- *)
Section ArrayLaw.
  Context {A : Type} (f : A -> bytes) (m : M A) (P : A -> Prop) (ck : A -> option err) (nm : A -> A).
  Hypothesis elem : forall a rest, P a ->
    run m (f a ++ rest) = match ck a with None => Ok (nm a, rest) | Some e => Err e end.

  Lemma run_dec_n xs rest : Forall P xs ->
    run (dec_n (length xs) m) (concat (map f xs) ++ rest) =
    match chk_list ck xs with None => Ok (map nm xs, rest) | Some e => Err e end.
  Proof.
    induction 1 as [|x xs Hx Hxs IH]; [reflexivity|].
    cbn [length dec_n map concat chk_list]. rewrite <- app_assoc, run_bind, elem by exact Hx.
    destruct (ck x); [reflexivity|]. rewrite run_bind, IH.
    destruct (chk_list ck xs); reflexivity.
  Qed.

  Lemma run_dec_array o esize v rest :
    (match v with None => True | Some xs => Forall P xs /\ Z.of_nat (length xs) < 2 ^ 31 end) ->
    run (dec_array o esize m) (enc_array f v ++ rest) =
    match chk_array o ck v with
    | None => Ok (match v with None => None | Some xs => Some (map nm xs) end, rest)
    | Some e => Err e
    end.
  Proof.
    intros Hv. unfold dec_array, enc_array, chk_array. destruct v as [xs|].
    - destruct Hv as [Hxs Hlen]. rewrite <- app_assoc, run_bind.
      rewrite run_read_i by (try lia; apply in_i4_len; exact Hlen).
      destruct (Z.eqb_spec (Z.of_nat (length xs)) (-1)); [lia|].
      destruct (Z.ltb_spec (Z.of_nat (length xs)) (-1)); [lia|].
      destruct (Z.ltb_spec (max_arr o) (Z.of_nat (length xs))); [reflexivity|].
      rewrite run_bind, run_alloc, run_bind, Nat2Z.id, run_dec_n by exact Hxs.
      destruct (chk_list ck xs); reflexivity.
    - rewrite run_bind, run_read_i by (try lia; apply in_i4_m1). reflexivity.
  Qed.
End ArrayLaw.

Lemma concat_length_sum {A} (f : A -> bytes) (g : A -> Z) xs :
  (forall x, In x xs -> g x = Z.of_nat (length (f x))) ->
  fold_right (fun x acc => g x + acc) 0 xs = Z.of_nat (length (concat (map f xs))).
Proof.
  induction xs as [|x xs IH]; intros H; [reflexivity|].
  cbn [fold_right map concat]. rewrite app_length, Nat2Z.inj_add, <- IH, H; [reflexivity|left; reflexivity|].
  intros y Hy. apply H. right. exact Hy.
Qed.
Lemma concat_bytes {A} (f : A -> bytes) xs :
  (forall x, In x xs -> Forall is_byte (f x)) -> Forall is_byte (concat (map f xs)).
Proof.
  induction xs as [|x xs IH]; intros H; cbn; [constructor|].
  apply Forall_app. split; [apply H; left; reflexivity|]. apply IH. intros y Hy. apply H. right. exact Hy.
Qed.

(* ---- combinators preserve the law --------------------------------------------------------------- *)
Lemma c_pair_ok {A B} (ca : codec A) (cb : codec B) :
  codec_ok ca -> codec_ok cb -> codec_ok (c_pair ca cb).
Proof.
  intros Ha Hb [a b] [Hwa Hwb]. cbn in *.
  destruct (Ha a Hwa) as (La & Ba & Da). destruct (Hb b Hwb) as (Lb & Bb & Db).
  split; [|split].
  - rewrite app_length, Nat2Z.inj_add. lia.
  - apply Forall_app. auto.
  - intros o d rest Ho. rewrite <- app_assoc, run_bind, Da by exact Ho.
    destruct (chk ca o d a); [reflexivity|]. cbn [seq_chk].
    rewrite run_bind, Db by exact Ho. destruct (chk cb o d b); reflexivity.
Qed.

Lemma c_array_ok {A} esize (c : codec A) : codec_ok c -> codec_ok (c_array esize c).
Proof.
  intros Hc v Hv. cbn in *. split; [|split].
  - unfold len_array, enc_array. destruct v as [xs|]; [|rewrite enc_i_length; reflexivity].
    destruct Hv as [Hxs _]. rewrite app_length, enc_i_length, Nat2Z.inj_add.
    rewrite <- (concat_length_sum (enc c) (blen c)); [reflexivity|].
    intros x Hx. rewrite Forall_forall in Hxs. apply (Hc x (Hxs x Hx)).
  - unfold enc_array. destruct v as [xs|]; [|apply enc_i_bytes].
    apply Forall_app. split; [apply enc_i_bytes|]. apply concat_bytes.
    destruct Hv as [Hxs _]. rewrite Forall_forall in Hxs. intros x Hx. apply (Hc x (Hxs x Hx)).
  - intros o d rest Ho.
    apply (run_dec_array (enc c) (dec c o d) (wf c) (chk c o d) (norm c)); [|exact Hv].
    intros a r Ha. apply (Hc a Ha). exact Ho.
Qed.

Lemma c_struct_ok {A} (cs : list (codec A)) : Forall codec_ok cs -> codec_ok (c_struct cs).
Proof.
  induction 1 as [|c cs Hc Hcs IH]; intros vs Hvs; cbn in *.
  - destruct vs; [|contradiction]. split; [reflexivity|split; [constructor|intros; reflexivity]].
  - destruct vs as [|v vs]; [contradiction|]. destruct Hvs as [Hv Hvs].
    destruct (Hc v Hv) as (Lc & Bc & Dc). destruct (IH vs Hvs) as (Ls & Bs & Ds). cbn in *.
    split; [|split].
    + rewrite app_length, Nat2Z.inj_add. lia.
    + apply Forall_app. auto.
    + intros o d rest Ho. rewrite <- app_assoc, run_bind, Dc by exact Ho.
      destruct (chk c o d v); [reflexivity|]. cbn [seq_chk].
      rewrite run_bind, Ds by exact Ho. destruct (chk_fields cs o d vs); reflexivity.
Qed.

Lemma c_map_ok {A B} (inj : A -> B) (proj : B -> option A) dflt (c : codec A) :
  codec_ok c -> codec_ok (c_map inj proj dflt c).
Proof.
  intros Hc b (a & Hp & Hw). cbn. rewrite Hp. destruct (Hc a Hw) as (L & Bt & D).
  split; [exact L|split; [exact Bt|]].
  intros o d rest Ho. rewrite run_bind, D by exact Ho. destruct (chk c o d a); reflexivity.
Qed.

Lemma c_sum_ok {A} (tag : A -> Z) (payload : Z -> option (codec A)) :
  (forall t c, payload t = Some c -> codec_ok c) -> codec_ok (c_sum tag payload).
Proof.
  intros Hp a Hwf. unfold c_sum in *. cbn [enc dec blen wf chk norm] in *.
  destruct Hwf as (Ht & c & Hc & Hw). rewrite Hc.
  destruct (Hp _ _ Hc a Hw) as (L & Bt & D). split; [|split].
  - change (length (tag a :: enc c a)) with (S (length (enc c a))). lia.
  - constructor; assumption.
  - intros o d rest Ho. rewrite run_bind. cbn [app]. rewrite run_read_byte by exact Ht.
    rewrite Hc. apply D. exact Ho.
Qed.
