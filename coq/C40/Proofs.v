(* C40 — proofs: laws of the retransmission queue (sorted association list), and the invariant
   that ties the model state to the trace checker of C40/Model.v over arbitrary histories. *)
From Coq Require Import List ZArith Bool Lia Sorted Permutation.
Import ListNotations.
From OV Require Import C21.SysLemmas C40.Model.
Open Scope Z_scope.

(* ------------------------------------------------------------------------------ keys *)
Lemma key_eq_spec a b : reflect (a = b) (key_eq a b).
Proof.
  destruct a as [a1 a2], b as [b1 b2]. unfold key_eq. cbn [fst snd].
  destruct (Z.eqb_spec a1 b1), (Z.eqb_spec a2 b2); cbn; constructor; congruence.
Qed.
Lemma key_eq_refl a : key_eq a a = true.
Proof. destruct (key_eq_spec a a); congruence. Qed.
Lemma key_eq_sym a b : key_eq a b = key_eq b a.
Proof. destruct (key_eq_spec a b), (key_eq_spec b a); congruence. Qed.

Definition klt (a b : key) : Prop := key_lt a b = true.
Lemma klt_spec a b : klt a b <-> fst a < fst b \/ (fst a = fst b /\ snd a < snd b).
Proof.
  unfold klt, key_lt. rewrite orb_true_iff, andb_true_iff, !Z.ltb_lt, Z.eqb_eq. reflexivity.
Qed.
Lemma klt_trans a b c : klt a b -> klt b c -> klt a c.
Proof. rewrite !klt_spec. lia. Qed.
Lemma klt_irrefl a : ~ klt a a.
Proof. rewrite klt_spec. lia. Qed.
Lemma klt_total a b : a = b \/ klt a b \/ klt b a.
Proof.
  rewrite !klt_spec. destruct a as [a1 a2], b as [b1 b2]. cbn [fst snd].
  destruct (Z.lt_total a1 b1) as [H|[H|H]]; [auto | | auto].
  destruct (Z.lt_total a2 b2) as [G|[G|G]]; [auto | left; congruence | auto].
Qed.

Lemma mem_key_in k l : mem_key k l = true <-> In k l.
Proof.
  unfold mem_key. rewrite existsb_exists. split.
  - intros (x & Hx & E). destruct (key_eq_spec k x); [subst; exact Hx | discriminate].
  - intros H. exists k. split; [exact H | apply key_eq_refl].
Qed.
Lemma memz_in x l : memz x l = true <-> In x l.
Proof.
  unfold memz. rewrite existsb_exists. split.
  - intros (y & Hy & E). apply Z.eqb_eq in E. subst. exact Hy.
  - intros H. exists x. split; [exact H | apply Z.eqb_refl].
Qed.
Lemma in_remove_key k k' l : In k' (remove_key k l) <-> In k' l /\ k' <> k.
Proof.
  unfold remove_key. rewrite filter_In. split; intros [H1 H2]; split; try exact H1.
  - destruct (key_eq_spec k k'); [discriminate | congruence].
  - destruct (key_eq_spec k k'); [congruence | reflexivity].
Qed.

Lemma zlist_eqb_refl l : zlist_eqb l l = true.
Proof. induction l; cbn; [reflexivity|]. rewrite Z.eqb_refl. exact IHl. Qed.
Lemma keys_eqb_refl l : keys_eqb l l = true.
Proof. induction l; cbn [keys_eqb]; [reflexivity|]. rewrite key_eq_refl. exact IHl. Qed.
Lemma data_eqb_refl l : data_eqb l l = true.
Proof. induction l as [|d l IH]; cbn [data_eqb]; [reflexivity|]. unfold datum_eqb. rewrite !Z.eqb_refl. exact IH. Qed.
Lemma msg_eqb_refl m : msg_eqb m m = true.
Proof. unfold msg_eqb. rewrite !Z.eqb_refl, data_eqb_refl. reflexivity. Qed.

(* ------------------------------------------------------ the retransmission queue as a map *)
Definition rsorted (rt : list (Z * Z * msg)) : Prop := StronglySorted klt (rt_keys rt).

Lemma rsorted_nil : rsorted [].
Proof. constructor. Qed.

Lemma rsorted_inv k m rt : rsorted ((k, m) :: rt) -> rsorted rt /\ Forall (klt k) (rt_keys rt).
Proof. unfold rsorted, rt_keys. cbn [map fst]. intros H. inversion H; subst. split; assumption. Qed.

Lemma rt_find_in k rt m : rt_find k rt = Some m -> In k (rt_keys rt).
Proof.
  induction rt as [|[k' m'] r IH]; cbn [rt_find rt_keys map fst]; [discriminate|].
  destruct (key_eq_spec k k'); [intros _; left; congruence | intros H; right; apply IH; exact H].
Qed.
Lemma rt_in_find k rt : In k (rt_keys rt) -> exists m, rt_find k rt = Some m.
Proof.
  induction rt as [|[k' m'] r IH]; cbn [rt_find rt_keys map fst]; [intros []|].
  destruct (key_eq_spec k k'); [eauto|]. intros [H|H]; [congruence | apply IH; exact H].
Qed.
Lemma rt_find_none k rt : ~ In k (rt_keys rt) -> rt_find k rt = None.
Proof.
  intros H. destruct (rt_find k rt) eqn:E; [|reflexivity]. apply rt_find_in in E. contradiction.
Qed.

(* insert *)
Lemma rt_find_insert k m rt k' :
  rt_find k' (rt_insert k m rt) = if key_eq k' k then Some m else rt_find k' rt.
Proof.
  induction rt as [|[k0 m0] r IH]; cbn [rt_insert rt_find].
  - destruct (key_eq k' k); reflexivity.
  - destruct (key_eq_spec k k0) as [E|E].
    + subst k0. cbn [rt_find]. destruct (key_eq k' k); reflexivity.
    + destruct (key_lt k k0); cbn [rt_find].
      * destruct (key_eq k' k); reflexivity.
      * rewrite IH. destruct (key_eq_spec k' k0), (key_eq_spec k' k); try reflexivity. congruence.
Qed.
Lemma rt_keys_insert k m rt k' : In k' (rt_keys (rt_insert k m rt)) <-> k' = k \/ In k' (rt_keys rt).
Proof.
  induction rt as [|[k0 m0] r IH]; cbn [rt_insert rt_keys map fst].
  - cbn. intuition congruence.
  - destruct (key_eq_spec k k0) as [E|E]; [subst; cbn [map fst In]; intuition congruence|].
    destruct (key_lt k k0); cbn [map fst In]; [intuition congruence|].
    unfold rt_keys in IH. rewrite IH. intuition congruence.
Qed.
Lemma rsorted_insert k m rt : rsorted rt -> rsorted (rt_insert k m rt).
Proof.
  induction rt as [|[k0 m0] r IH]; intros Hs; cbn [rt_insert].
  - unfold rsorted. cbn. constructor; constructor.
  - destruct (rsorted_inv _ _ _ Hs) as [Hr Hall].
    destruct (key_eq_spec k k0) as [E|E]; [subst; exact Hs|].
    destruct (key_lt k k0) eqn:Elt.
    + unfold rsorted, rt_keys in *. cbn [map fst] in *. constructor; [exact Hs|].
      constructor; [exact Elt|]. eapply Forall_impl; [|exact Hall]. intros a Ha. eapply klt_trans; [exact Elt | exact Ha].
    + unfold rsorted, rt_keys. cbn [map fst]. constructor; [apply IH; exact Hr|].
      apply Forall_forall. intros a Ha. apply (rt_keys_insert k m r a) in Ha as [->|Ha].
      * destruct (klt_total k k0) as [H|[H|H]]; [congruence | unfold klt in H; congruence | exact H].
      * rewrite Forall_forall in Hall. apply Hall. exact Ha.
Qed.

(* remove *)
Lemma rt_find_remove k rt k' : rsorted rt ->
  rt_find k' (rt_remove k rt) = if key_eq k' k then None else rt_find k' rt.
Proof.
  induction rt as [|[k0 m0] r IH]; intros Hs; cbn [rt_remove rt_find].
  - destruct (key_eq k' k); reflexivity.
  - destruct (rsorted_inv _ _ _ Hs) as [Hr Hall].
    destruct (key_eq_spec k k0) as [E|E].
    + subst k0. destruct (key_eq_spec k' k) as [E'|E']; [|reflexivity].
      subst k'. apply rt_find_none. intros Hin. rewrite Forall_forall in Hall.
      apply (klt_irrefl k). apply Hall. exact Hin.
    + cbn [rt_find]. rewrite (IH Hr).
      destruct (key_eq_spec k' k0), (key_eq_spec k' k); try reflexivity. congruence.
Qed.
Lemma rt_keys_remove_incl k rt k' : In k' (rt_keys (rt_remove k rt)) -> In k' (rt_keys rt).
Proof.
  induction rt as [|[k0 m0] r IH]; cbn [rt_remove rt_keys map fst]; [intros []|].
  destruct (key_eq k k0); cbn [map fst In]; [auto|]. intros [H|H]; [auto | right; apply IH; exact H].
Qed.
Lemma rsorted_remove k rt : rsorted rt -> rsorted (rt_remove k rt).
Proof.
  induction rt as [|[k0 m0] r IH]; intros Hs; cbn [rt_remove]; [exact Hs|].
  destruct (rsorted_inv _ _ _ Hs) as [Hr Hall].
  destruct (key_eq k k0); [exact Hr|].
  unfold rsorted, rt_keys. cbn [map fst]. constructor; [apply IH; exact Hr|].
  apply Forall_forall. intros a Ha. rewrite Forall_forall in Hall. apply Hall.
  eapply rt_keys_remove_incl. exact Ha.
Qed.
Lemma rt_keys_remove k rt k' : rsorted rt ->
  In k' (rt_keys (rt_remove k rt)) <-> In k' (rt_keys rt) /\ k' <> k.
Proof.
  intros Hs. split.
  - intros H. split; [eapply rt_keys_remove_incl; exact H|]. intros ->.
    apply rt_in_find in H as (m & Hm). rewrite (rt_find_remove _ _ _ Hs), key_eq_refl in Hm. discriminate.
  - intros [H Hne]. apply rt_in_find in H as (m & Hm).
    apply (rt_find_in k' _ m). rewrite (rt_find_remove _ _ _ Hs).
    destruct (key_eq_spec k' k); [contradiction | exact Hm].
Qed.

(* sublists of a sorted queue (filter, skipn) keep the values *)
Inductive sublist {A} : list A -> list A -> Prop :=
| sl_nil : sublist [] []
| sl_keep a l l' : sublist l l' -> sublist (a :: l) (a :: l')
| sl_drop a l l' : sublist l l' -> sublist l (a :: l').

Lemma sublist_refl {A} (l : list A) : sublist l l.
Proof. induction l; constructor; assumption. Qed.
Lemma sublist_filter {A} (f : A -> bool) l : sublist (filter f l) l.
Proof. induction l as [|a l IH]; cbn [filter]; [constructor|]. destruct (f a); constructor; exact IH. Qed.
Lemma sublist_skipn {A} n (l : list A) : sublist (skipn n l) l.
Proof.
  revert l. induction n as [|n IH]; intros l; [apply sublist_refl|].
  destruct l as [|a l]; [constructor|]. cbn [skipn]. constructor. apply IH.
Qed.
Lemma sublist_trans {A} (a b c : list A) : sublist a b -> sublist b c -> sublist a c.
Proof.
  intros Hab Hbc. revert a Hab. induction Hbc as [|x l l' H IH|x l l' H IH]; intros a Hab.
  - exact Hab.
  - inversion Hab; subst; [constructor; apply IH; assumption | apply sl_drop; apply IH; assumption].
  - apply sl_drop. apply IH. exact Hab.
Qed.
Lemma sublist_in {A} (a b : list A) x : sublist a b -> In x a -> In x b.
Proof.
  intros H. induction H as [|y l l' H IH|y l l' H IH]; intros Hin; [exact Hin | |right; apply IH; exact Hin].
  destruct Hin as [E|Hin]; [left; exact E | right; apply IH; exact Hin].
Qed.
Lemma sublist_map {A B} (f : A -> B) a b : sublist a b -> sublist (map f a) (map f b).
Proof. intros H. induction H; cbn [map]; constructor; assumption. Qed.

Lemma rsorted_sublist a b : sublist a b -> rsorted b -> rsorted a.
Proof.
  intros H. induction H as [|[k m] l l' H IH|[k m] l l' H IH]; intros Hs.
  - exact Hs.
  - destruct (rsorted_inv _ _ _ Hs) as [Hr Hall]. unfold rsorted, rt_keys. cbn [map fst].
    constructor; [apply IH; exact Hr|]. apply Forall_forall. intros x Hx. rewrite Forall_forall in Hall.
    apply Hall. eapply sublist_in; [apply sublist_map; exact H | exact Hx].
  - destruct (rsorted_inv _ _ _ Hs) as [Hr _]. apply IH. exact Hr.
Qed.

Lemma rt_find_sublist a b k m : sublist a b -> rsorted b -> rt_find k a = Some m -> rt_find k b = Some m.
Proof.
  intros H. induction H as [|[k0 m0] l l' H IH|[k0 m0] l l' H IH]; intros Hs Hf.
  - exact Hf.
  - destruct (rsorted_inv _ _ _ Hs) as [Hr _]. cbn [rt_find] in *.
    destruct (key_eq k k0); [exact Hf | apply IH; assumption].
  - destruct (rsorted_inv _ _ _ Hs) as [Hr Hall]. cbn [rt_find].
    destruct (key_eq_spec k k0) as [E|E]; [|apply IH; assumption].
    subst k0. exfalso. apply rt_find_in in Hf. rewrite Forall_forall in Hall.
    apply (klt_irrefl k). apply Hall. eapply sublist_in; [apply sublist_map; exact H | exact Hf].
Qed.

(* purge = remove_old_unacknowledged_notifications *)
Lemma purge_sublist subs rt : sublist (purge subs rt) rt.
Proof.
  unfold purge. set (rt1 := filter _ rt). destruct (_ <? _).
  - eapply sublist_trans; [apply sublist_skipn | apply sublist_filter].
  - apply sublist_filter.
Qed.

Lemma purge_lost subs rt k :
  In k (rt_keys rt) -> ~ In k (rt_keys (purge subs rt)) ->
  has_sub (fst k) subs = false \/ 4 * len subs <= len (purge subs rt).
Proof.
  intros Hin Hout. unfold purge in *. set (rt1 := filter _ rt) in *.
  destruct (has_sub (fst k) subs) eqn:Eh; [right | left; reflexivity].
  assert (Hin1 : In k (rt_keys rt1)).
  { unfold rt_keys in *. apply in_map_iff in Hin as (e & <- & He). apply in_map_iff. exists e. split; [reflexivity|].
    subst rt1. apply filter_In. split; [exact He | exact Eh]. }
  destruct (Z.ltb_spec (2 * len subs * 2) (len rt1)) as [Hlt|Hge]; [|contradiction].
  unfold len in *. rewrite skipn_length. lia.
Qed.

(* ---------------------------------------------------------------- acknowledgements *)
Definition keq (A B : list key) : Prop := forall k, In k A <-> In k B.

Lemma has_sub_memz id subs : has_sub id subs = memz id (ids subs).
Proof.
  unfold has_sub. destruct (find_sub id subs) eqn:E; cbn [is_some]; symmetry.
  - apply memz_in. apply find_sub_some in E as [Hin <-]. unfold ids. apply in_map. exact Hin.
  - destruct (memz id (ids subs)) eqn:M; [|reflexivity]. apply memz_in in M.
    apply find_sub_none in E. contradiction.
Qed.

Lemma process_acks_spec subs : forall acks rt K res rt',
  rsorted rt -> keq K (rt_keys rt) -> process_acks subs acks rt = (res, rt') ->
  exists K', ack_spec (ids subs) acks K = (res, K') /\ keq K' (rt_keys rt') /\ rsorted rt' /\
             sublist rt' rt.
Proof.
  induction acks as [|k r IH]; intros rt K res rt' Hs Hk H.
  - cbn in H. inversion H; subst. exists K. cbn. repeat split; try apply Hk; [exact Hs | apply sublist_refl].
  - cbn [process_acks ack_spec] in *. rewrite <- has_sub_memz.
    assert (Hmem : mem_key k K = is_some (rt_find k rt)).
    { destruct (rt_find k rt) eqn:E; cbn [is_some].
      - apply mem_key_in. apply Hk. eapply rt_find_in. exact E.
      - destruct (mem_key k K) eqn:M; [|reflexivity]. apply mem_key_in in M. apply Hk in M.
        apply rt_in_find in M as (m & Hm). congruence. }
    rewrite Hmem.
    destruct (has_sub (fst k) subs).
    + destruct (is_some (rt_find k rt)).
      * destruct (process_acks subs r (rt_remove k rt)) as [sts rt2] eqn:E. inversion H; subst.
        destruct (IH (rt_remove k rt) (remove_key k K) sts rt' (rsorted_remove _ _ Hs)) as (K' & A & B & C & D).
        { intros k'. rewrite in_remove_key, (rt_keys_remove _ _ _ Hs). rewrite (Hk k'). reflexivity. }
        { exact E. }
        exists K'. rewrite A. repeat split; try apply B; [exact C|].
        eapply sublist_trans; [exact D|]. clear. induction rt as [|[k0 m0] rt IH]; cbn [rt_remove]; [constructor|].
        destruct (key_eq k k0); [apply sl_drop; apply sublist_refl | constructor; exact IH].
      * destruct (process_acks subs r rt) as [sts rt2] eqn:E. inversion H; subst.
        destruct (IH rt K sts rt' Hs Hk E) as (K' & A & B & C & D).
        exists K'. rewrite A. repeat split; try apply B; assumption.
    + destruct (process_acks subs r rt) as [sts rt2] eqn:E. inversion H; subst.
      destruct (IH rt K sts rt' Hs Hk E) as (K' & A & B & C & D).
      exists K'. rewrite A. repeat split; try apply B; assumption.
Qed.

(* ------------------------------------------------------------- responses of one round *)
Definition tx_keys (tx : list (Z * req * msg)) : list key :=
  map (fun e => (fst (fst e), m_seq (snd e))) tx.

Lemma check_resps_app : forall a b sent ex,
  check_resps (a ++ b) sent ex =
  let '(ok1, s1, k1) := check_resps a sent ex in
  let '(ok2, s2, k2) := check_resps b s1 ex in (ok1 && ok2, s2, k1 ++ k2).
Proof.
  induction a as [|r a IH]; intros b sent ex; cbn [app check_resps].
  - destruct (check_resps b sent ex) as [[ok2 s2] k2]. reflexivity.
  - destruct r as [rid sub more avail results m | rid st].
    + rewrite IH. destruct (check_resps a _ ex) as [[ok1 s1] k1].
      destruct (check_resps b s1 ex) as [[ok2 s2] k2]. rewrite andb_assoc. reflexivity.
    + apply IH.
Qed.

Lemma check_resps_faults (f : req -> resp) l sent ex :
  (forall q, exists rid st, f q = RFault rid st) -> check_resps (map f l) sent ex = (true, sent, []).
Proof.
  intros Hf. induction l as [|q l IH]; [reflexivity|]. cbn [map]. destruct (Hf q) as (rid & st & ->).
  cbn [check_resps]. exact IH.
Qed.

Definition exp_ok (ex : list (Z * option (list Z))) (q : req) : Prop :=
  lookup_exp (q_rid q) ex = Some None \/ lookup_exp (q_rid q) ex = Some (Some (q_results q)).
Definition sent_ok (rt : list (Z * Z * msg)) (sent : list (key * msg)) : Prop :=
  forall k m, rt_find k rt = Some m -> lookup_sent k sent = Some m.

Lemma transmit_spec : forall tx rt rt' rs sent ex,
  transmit tx rt = (rt', rs) -> rsorted rt -> sent_ok rt sent ->
  (forall e, In e tx -> exp_ok ex (snd (fst e))) ->
  exists sent', check_resps rs sent ex = (true, sent', tx_keys tx) /\ rsorted rt' /\
    sent_ok rt' sent' /\
    (forall k, In k (rt_keys rt') <-> In k (rt_keys rt) \/ In k (tx_keys tx)).
Proof.
  induction tx as [|[[id q] m] r IH]; intros rt rt' rs sent ex H Hs Hsent Hex.
  - cbn in H. inversion H; subst. exists sent. cbn. repeat split; auto; tauto.
  - cbn [transmit] in H. destruct (transmit r (rt_insert (id, m_seq m) m rt)) as [rt2 rs2] eqn:E.
    inversion H; subst. clear H.
    destruct (IH _ _ _ (((id, m_seq m), m) :: sent) ex E (rsorted_insert _ _ _ Hs)) as (sent' & A & B & C & D).
    { intros k m0. rewrite rt_find_insert. cbn [lookup_sent].
      destruct (key_eq k (id, m_seq m)); [auto | apply Hsent]. }
    { intros e He. apply Hex. right. exact He. }
    exists sent'. cbn [check_resps tx_keys map fst snd]. fold (tx_keys r). rewrite A.
    assert (Hq : exp_ok ex q) by (apply (Hex (id, q, m)); left; reflexivity).
    repeat split; [|exact B | exact C | |].
    + destruct Hq as [-> | ->]; [reflexivity|]. rewrite zlist_eqb_refl. reflexivity.
    + intros Hk. apply D in Hk as [Hk|Hk]; [|right; right; exact Hk].
      apply rt_keys_insert in Hk as [->|Hk]; [right; left; reflexivity | left; exact Hk].
    + intros [Hk|[Hk|Hk]]; apply D.
      * left. apply rt_keys_insert. right. exact Hk.
      * left. apply rt_keys_insert. left. symmetry. exact Hk.
      * right. exact Hk.
Qed.

Lemma pair_up_reqs id : forall reqs ns tx r m,
  pair_up id reqs ns = (tx, r, m) ->
  (forall e, In e tx -> In (snd (fst e)) reqs) /\ (forall q, In q r -> In q reqs).
Proof.
  induction reqs as [|q reqs IH]; intros ns tx r m H.
  - cbn in H. inversion H; subst. split; [intros e [] | auto].
  - destruct ns as [|n ns]; cbn [pair_up] in H.
    + inversion H; subst. split; [intros e [] | auto].
    + destruct (pair_up id reqs ns) as [[tx1 r1] m1] eqn:E. inversion H; subst.
      destruct (IH _ _ _ _ E) as [H1 H2]. split.
      * intros e [<-|He]; [left; reflexivity | right; apply H1; exact He].
      * intros q' Hq'. right. apply H2. exact Hq'.
Qed.

Lemma tick_ids_reqs stick vars now timer : forall idl subs reqs subs' reqs' tx,
  tick_ids_g stick idl subs reqs vars now timer = Some (subs', reqs', tx) ->
  (forall e, In e tx -> In (snd (fst e)) reqs) /\ (forall q, In q reqs' -> In q reqs).
Proof.
  induction idl as [|id r IH]; intros subs reqs subs' reqs' tx H.
  - cbn in H. inversion H; subst. split; [intros e [] | auto].
  - cbn [tick_ids_g] in H. unfold bind in H.
    destruct (find_sub id subs) as [s|]; [|discriminate].
    destruct (stick s vars now timer _) as [s1|]; [|discriminate].
    destruct (pair_up id reqs (s_notifs s1)) as [[tx1 reqs1] ns] eqn:Ep.
    destruct (tick_ids_g stick r _ reqs1 vars now timer) as [[[subs2 reqs2] tx2]|] eqn:Er; [|discriminate].
    inversion H; subst. destruct (IH _ _ _ _ _ Er) as [I1 I2]. destruct (pair_up_reqs _ _ _ _ _ _ Ep) as [P1 P2].
    split.
    + intros e He. apply in_app_iff in He as [He|He]; [apply P1; exact He | apply P2; apply I1; exact He].
    + intros q Hq. apply P2. apply I2. exact Hq.
Qed.

Lemma live_snapshot y : live (snapshot y) = ids (y_subs y).
Proof. unfold live, snapshot, ids. cbn [sn_subs]. rewrite map_map. reflexivity. Qed.

Lemma subset_keys_intro a b : (forall k, In k a -> In k b) -> subset_keys a b = true.
Proof. intros H. unfold subset_keys. apply forallb_forall. intros k Hk. apply mem_key_in. apply H. exact Hk. Qed.

(* one round, as the C40 checker sees it *)
Lemma sys_tick_c40 y timer y' rs sent ex K :
  sys_tick y timer = Some (y', rs) -> rsorted (y_retrans y) -> sent_ok (y_retrans y) sent ->
  (forall q, In q (y_reqs y) -> exp_ok ex q) -> keq K (rt_keys (y_retrans y)) ->
  exists sent' ks, check_resps rs sent ex = (true, sent', ks) /\
    rsorted (y_retrans y') /\ sent_ok (y_retrans y') sent' /\
    (forall q, In q (y_reqs y') -> In q (y_reqs y)) /\
    evolve_ok K ks (rt_keys (y_retrans y')) (ids (y_subs y')) = true /\
    y_nextrid y' = y_nextrid y.
Proof.
  unfold sys_tick, sys_tick_g, bind. intros H Hs Hsent Hex HK.
  destruct (tick_ids_g sub_tick _ _ _ _ _ _) as [[[subs reqs] tx]|] eqn:E; [|discriminate].
  destruct (transmit tx (y_retrans y)) as [rt rs'] eqn:Et. inversion H; subst. clear H.
  cbn [y_retrans y_reqs y_subs y_nextrid set_retrans set_reqs set_subs].
  destruct (tick_ids_reqs _ _ _ _ _ _ _ _ _ _ E) as [R1 R2].
  destruct (transmit_spec _ _ _ _ sent ex Et Hs Hsent) as (sent' & A & B & C & D).
  { intros e He. apply Hex. apply R1. exact He. }
  exists sent', (tx_keys tx). pose proof (purge_sublist subs rt) as Hsub.
  repeat split; [exact A | eapply rsorted_sublist; eassumption | | exact R2 |].
  - intros k m Hf. apply C. eapply rt_find_sublist; eassumption.
  - unfold evolve_ok. apply andb_true_iff. split.
    + apply subset_keys_intro. intros k Hk. apply in_app_iff.
      assert (Hk2 : In k (rt_keys rt)) by (eapply sublist_in; [apply sublist_map; exact Hsub | exact Hk]).
      apply D in Hk2 as [Hk2|Hk2]; [left; apply HK; exact Hk2 | right; exact Hk2].
    + apply forallb_forall. intros k Hk.
      assert (Hk2 : In k (rt_keys rt)).
      { apply D. apply in_app_iff in Hk as [Hk|Hk]; [left; apply HK; exact Hk | right; exact Hk]. }
      destruct (mem_key k (rt_keys (purge subs rt))) eqn:M; [reflexivity|]. cbn [orb].
      assert (Hout : ~ In k (rt_keys (purge subs rt))).
      { intros Hin. apply mem_key_in in Hin. congruence. }
      destruct (purge_lost subs rt k Hk2 Hout) as [Hh|Hb].
      * rewrite <- has_sub_memz, Hh. reflexivity.
      * apply orb_true_iff. right. apply Z.leb_le. unfold len, ids, rt_keys in *. rewrite !map_length. exact Hb.
Qed.

(* ------------------------------------------------------- the invariant along a history *)
Definition J (y : sys) (st : kst) : Prop :=
  k_before st = snapshot y /\ k_rid st = y_nextrid y /\
  rsorted (y_retrans y) /\ sent_ok (y_retrans y) (k_sent st) /\
  (forall q, In q (y_reqs y) -> q_rid q < y_nextrid y /\ exp_ok (k_exp st) q).

Lemma J_frame y st y1 :
  J y st -> y_retrans y1 = y_retrans y -> y_reqs y1 = y_reqs y -> y_nextrid y1 = y_nextrid y ->
  J y1 (mk_kst (k_sent st) (k_exp st) (snapshot y1) (k_rid st)).
Proof.
  intros (J1 & J2 & J3 & J4 & J5) E1 E2 E3. unfold J. cbn [k_before k_rid k_sent k_exp].
  rewrite E1, E2, E3. repeat split; auto; apply J5; assumption.
Qed.

Lemma snapshot_keys_frame y y1 : y_retrans y1 = y_retrans y -> sn_keys (snapshot y1) = sn_keys (snapshot y).
Proof. intros E. unfold snapshot. cbn [sn_keys]. rewrite E. reflexivity. Qed.

Lemma keys_eqb_frame y y1 :
  y_retrans y1 = y_retrans y -> keys_eqb (sn_keys (snapshot y1)) (sn_keys (snapshot y)) = true.
Proof. intros E. rewrite (snapshot_keys_frame _ _ E). apply keys_eqb_refl. Qed.

Ltac frame_case HJ :=
  split; [ cbn [o_snap o_resps is_nil]; erewrite keys_eqb_frame by reflexivity; reflexivity
         | apply (J_frame _ _ _ HJ); reflexivity ].

Lemma exp_ok_cons_other ex rid e q : q_rid q < rid -> exp_ok ex q -> exp_ok ((rid, e) :: ex) q.
Proof.
  intros Hlt H. unfold exp_ok in *. cbn [lookup_exp].
  destruct (Z.eqb_spec (q_rid q) rid); [lia | exact H].
Qed.

Lemma step_c40 y opix o y1 stt m rs st :
  step y opix o = Some (y1, stt, m, rs) -> J y st ->
  exists st', check_op st o (mk_opres stt m rs (snapshot y1)) = (true, st') /\ J y1 st'.
Proof.
  intros Hstep HJ. pose proof HJ as (J1 & J2 & J3 & J4 & J5).
  unfold step, step_g in Hstep. destruct o; unfold check_op; rewrite J1; cbn [o_status o_msg o_snap o_resps].
  - (* OWrite *)
    destruct (_ || _); inversion Hstep; subst; eexists; frame_case HJ.
  - (* OTick *)
    destruct (expire (set_now y (y_now y + dt))) as [ye rs1] eqn:Ee. unfold bind in Hstep.
    destruct (sys_tick ye true) as [[y2 rs2]|] eqn:Et; [|discriminate].
    cbn [fst snd] in Hstep. injection Hstep as <- <- <- <-.
    unfold expire in Ee. injection Ee as <- <-.
    set (ye := set_reqs _ _) in *.
    destruct (sys_tick_c40 ye true y2 rs2 (k_sent st) (k_exp st) (sn_keys (snapshot y)) Et) as
      (sent' & ks & A & B & C & D & E & F); try assumption.
    { intros q Hq. subst ye. cbn [y_reqs set_reqs set_now] in Hq. apply filter_In in Hq as [Hq _]. apply J5. exact Hq. }
    { intros k. reflexivity. }
    rewrite check_resps_app, check_resps_faults by (intros q; eauto). rewrite A. cbn [andb app].
    rewrite live_snapshot. unfold snapshot at 2. cbn [sn_keys]. rewrite E.
    eexists. split; [reflexivity|]. unfold J. cbn [k_before k_rid k_sent k_exp].
    assert (F' : y_nextrid y2 = y_nextrid y) by (rewrite F; reflexivity).
    repeat split; auto; [congruence | | ];
    (assert (Hq0 : In q (y_reqs y)) by (specialize (D q H); subst ye; cbn [y_reqs set_reqs set_now] in D; apply filter_In in D as [D _]; exact D));
    [rewrite F'; apply J5; exact Hq0 | apply J5; exact Hq0].
  - (* OPublish *)
    rewrite J2.
    unfold publish_g in Hstep. unfold bind in Hstep.
    cbn [y_subs y_reqs set_now set_nextrid y_nextrid] in Hstep.
    set (y0 := set_nextrid (set_now y (y_now y + dt)) (y_nextrid y + 1)) in *.
    assert (Hqf : queue_full (snapshot y) = (len (y_subs y) * 2 <=? len (y_reqs y))).
    { unfold queue_full, snapshot. cbn [sn_subs sn_reqs]. unfold len. rewrite !map_length. f_equal. lia. }
    assert (HJ0 : rsorted (y_retrans y0) /\ sent_ok (y_retrans y0) (k_sent st)) by (split; assumption).
    destruct HJ0 as [J3' J4'].
    destruct (is_nil (y_subs y)) eqn:Enil.
    { injection Hstep as <- <- <- <-. cbn [Z.eqb ST_NO_SUB]. eexists. split.
      - cbn [o_snap o_resps is_nil]. rewrite (snapshot_keys_frame y0 y eq_refl), keys_eqb_refl. reflexivity.
      - unfold J. cbn [k_before k_rid k_sent k_exp]. subst y0. cbn. repeat split; auto; try lia.
        + destruct (J5 q H). lia.
        + apply J5. exact H. }
    destruct (len (y_subs y) * 2 <=? len (y_reqs y)) eqn:Efull.
    + (* full queue: a round first *)
      rewrite Hqf.
      destruct (sys_tick y0 false) as [[ya rsa]|] eqn:Eta; [|discriminate].
      destruct (len (y_subs y) * 2 <=? len (y_reqs ya)).
      * destruct (sys_tick_c40 y0 false ya rsa (k_sent st) (k_exp st) (sn_keys (snapshot y)) Eta J3' J4') as
          (senta & ksa & A & B & C & D & _ & F).
        { intros q Hq. apply J5. exact Hq. }
        { intros k. reflexivity. }
        injection Hstep as <- <- <- <-. cbn [Z.eqb ST_TOO_MANY ST_NO_SUB ST_GOOD].
        rewrite A. eexists. split; [reflexivity|]. unfold J. cbn [k_before k_rid k_sent k_exp].
        rewrite F. subst y0. cbn [y_nextrid set_nextrid]. repeat split; auto; try lia;
        specialize (D q H); cbn [y_reqs set_nextrid set_now] in D; destruct (J5 q D); [lia | assumption].
      * set (ex := (y_nextrid y, @None (list Z)) :: k_exp st).
        destruct (sys_tick_c40 y0 false ya rsa (k_sent st) ex (sn_keys (snapshot y)) Eta J3' J4') as
          (senta & ksa & A & B & C & D & _ & F).
        { intros q Hq. destruct (J5 q Hq). apply exp_ok_cons_other; assumption. }
        { intros k. reflexivity. }
        destruct (process_acks (y_subs ya) acks (y_retrans ya)) as [results rt] eqn:Ea.
        destruct (process_acks_spec _ _ _ (rt_keys (y_retrans ya)) _ _ B (fun k => iff_refl _) Ea) as (K' & _ & HK' & Hsr & Hsl).
        set (qn := mk_req (y_nextrid y) (y_now ya) hint results) in *.
        set (yb := set_reqs (set_retrans ya rt) (y_reqs ya ++ [qn])) in *.
        destruct (sys_tick yb false) as [[yc rsc]|] eqn:Etc; [|discriminate].
        cbn [fst snd] in Hstep. injection Hstep as <- <- <- <-. cbn [Z.eqb ST_GOOD ST_NO_SUB].
        fold ex.
        assert (Hexb : forall q, In q (y_reqs yb) -> q_rid q < y_nextrid y + 1 /\ exp_ok ex q).
        { intros q Hq. subst yb. cbn [y_reqs set_reqs] in Hq. apply in_app_iff in Hq as [Hq|[<-|[]]].
          - specialize (D q Hq). cbn [y_reqs set_nextrid set_now] in D. destruct (J5 q D).
            split; [lia | apply exp_ok_cons_other; assumption].
          - split; [subst qn; cbn [q_rid]; lia|]. left. subst ex qn. cbn [lookup_exp q_rid]. rewrite Z.eqb_refl. reflexivity. }
        assert (Hsb : sent_ok (y_retrans yb) senta).
        { intros k m0 Hf. apply C. subst yb. cbn [y_retrans set_reqs set_retrans] in Hf.
          eapply rt_find_sublist; eassumption. }
        destruct (sys_tick_c40 yb false yc rsc senta ex (rt_keys (y_retrans yb)) Etc Hsr Hsb (fun q Hq => proj2 (Hexb q Hq)) (fun k => iff_refl _)) as
          (sentc & ksc & A2 & B2 & C2 & D2 & _ & F2).
        rewrite check_resps_app, A, A2. cbn [andb].
        eexists. split; [reflexivity|]. unfold J. cbn [k_before k_rid k_sent k_exp].
        assert (Hn : y_nextrid yc = y_nextrid y + 1).
        { rewrite F2. subst yb. cbn [y_nextrid set_reqs set_retrans]. rewrite F. reflexivity. }
        repeat split; auto; rewrite ?Hn; apply Hexb; apply D2; exact H.
    + (* the ordinary case: acknowledgements, enqueue, one round *)
      rewrite Hqf. change (y_reqs y0) with (y_reqs y) in Hstep. rewrite Efull in Hstep.
      destruct (process_acks (y_subs y0) acks (y_retrans y0)) as [results rt] eqn:Ea.
      destruct (process_acks_spec _ _ _ (sn_keys (snapshot y)) _ _ J3' (fun k => iff_refl _) Ea) as (K' & HA & HK' & Hsr & Hsl).
      rewrite live_snapshot. change (ids (y_subs y0)) with (ids (y_subs y)) in HA. rewrite HA.
      set (qn := mk_req (y_nextrid y) (y_now y0) hint results) in *.
      set (yb := set_reqs (set_retrans y0 rt) (y_reqs y ++ [qn])) in *.
      destruct (sys_tick yb false) as [[yc rsc]|] eqn:Etc; [|discriminate].
      cbn [fst snd app] in Hstep. injection Hstep as <- <- <- <-. cbn [Z.eqb ST_GOOD ST_NO_SUB].
      set (ex := (y_nextrid y, Some results) :: k_exp st).
      assert (Hexb : forall q, In q (y_reqs yb) -> q_rid q < y_nextrid y + 1 /\ exp_ok ex q).
      { intros q Hq. subst yb. cbn [y_reqs set_reqs] in Hq. apply in_app_iff in Hq as [Hq|[<-|[]]].
        - destruct (J5 q Hq).
          split; [lia | apply exp_ok_cons_other; assumption].
        - split; [subst qn; cbn [q_rid]; lia|]. right. subst ex qn. cbn [lookup_exp q_rid q_results]. rewrite Z.eqb_refl. reflexivity. }
      assert (Hsb : sent_ok (y_retrans yb) (k_sent st)).
      { intros k m0 Hf. apply J4. subst yb. cbn [y_retrans set_reqs set_retrans] in Hf.
        eapply rt_find_sublist; eassumption. }
      destruct (sys_tick_c40 yb false yc rsc (k_sent st) ex K' Etc Hsr Hsb (fun q Hq => proj2 (Hexb q Hq)) HK') as
        (sentc & ksc & A2 & B2 & C2 & D2 & E2 & F2).
      rewrite A2. cbn [andb]. rewrite live_snapshot. unfold snapshot at 1. cbn [sn_keys]. rewrite E2.
      eexists. split; [reflexivity|]. unfold J. cbn [k_before k_rid k_sent k_exp].
      assert (Hn : y_nextrid yc = y_nextrid y + 1) by (rewrite F2; reflexivity).
      repeat split; auto; rewrite ?Hn; apply Hexb; apply D2; exact H.
  - (* OCreateSub *)
    injection Hstep as <- <- <- <-. eexists; frame_case HJ.
  - (* ODeleteSub *)
    destruct (has_sub sub (y_subs y)); injection Hstep as <- <- <- <-; eexists; frame_case HJ.
  - (* OCreateItem *)
    destruct (find_sub sub (y_subs y)) as [s|]; [destruct (_ || _)|]; injection Hstep as <- <- <- <-; eexists; frame_case HJ.
  - (* ODeleteItem *)
    destruct (find_sub sub (y_subs y)) as [s|]; [destruct (existsb _ _)|]; injection Hstep as <- <- <- <-; eexists; frame_case HJ.
  - (* ORepublish *)
    rewrite live_snapshot, <- has_sub_memz. unfold has_sub.
    destruct (find_sub sub (y_subs y)) as [s|]; cbn [is_some andb].
    + destruct (rt_find (sub, seq) (y_retrans y)) as [m0|] eqn:Ef; injection Hstep as <- <- <- <-.
      * assert (Hm : mem_key (sub, seq) (sn_keys (snapshot y)) = true).
        { apply mem_key_in. unfold snapshot. cbn [sn_keys]. eapply rt_find_in. exact Ef. }
        rewrite Hm, (J4 _ _ Ef), msg_eqb_refl. cbn [Z.eqb ST_GOOD andb].
        eexists; frame_case HJ.
      * assert (Hm : mem_key (sub, seq) (sn_keys (snapshot y)) = false).
        { destruct (mem_key _ _) eqn:M; [|reflexivity]. apply mem_key_in in M. unfold snapshot in M. cbn [sn_keys] in M.
          apply rt_in_find in M as (m1 & Hm1). congruence. }
        rewrite Hm. cbn [Z.eqb ST_MSG_NOT_AVAILABLE is_some negb andb].
        eexists; frame_case HJ.
    + injection Hstep as <- <- <- <-. cbn [Z.eqb ST_SUB_INVALID is_some negb andb]. eexists; frame_case HJ.
  - (* OSetPublishing *)
    destruct (find_sub sub (y_subs y)) as [s|]; injection Hstep as <- <- <- <-; eexists; frame_case HJ.
Qed.

Lemma run_ops_c40 : forall ops y opix st,
  J y st -> check_trace st ops (fst (run_ops y opix ops)) = true.
Proof.
  induction ops as [|o ops IH]; intros y opix st HJ; [reflexivity|].
  unfold run_ops in *. cbn [run_ops_g].
  destruct (step_g sys_tick y opix o) as [[[[y1 stt] m] rs]|] eqn:Es; [|reflexivity].
  destruct (run_ops_g sys_tick y1 (opix + 1) ops) as [tr p] eqn:Er. cbn [fst check_trace].
  destruct (step_c40 y opix o y1 stt m rs st Es HJ) as (st' & Hck & HJ'). rewrite Hck. cbn [andb].
  specialize (IH y1 (opix + 1) st' HJ'). rewrite Er in IH. exact IH.
Qed.

Lemma init_J c : J (init c) init_kst.
Proof.
  unfold J, init, init_kst. cbn. split; [reflexivity|]. split; [reflexivity|]. split; [apply rsorted_nil|].
  split; [intros k m H; discriminate | intros q []].
Qed.

Theorem oracle_holds c : oracle c (run c) = true.
Proof.
  unfold oracle, run. rewrite decode_enc. destruct (run_ev c) as [tr p] eqn:E.
  pose proof (run_ops_c40 (c_ops c) (init c) 0 init_kst (init_J c)) as H.
  unfold run_ev in E. rewrite E in H. exact H.
Qed.

(* --------------------------------------------------- the laws, in terms of the queue alone *)
(* what was inserted is what is found, and work on other keys does not disturb it *)
Theorem law_insert_find k m rt : rt_find k (rt_insert k m rt) = Some m.
Proof. rewrite rt_find_insert, key_eq_refl. reflexivity. Qed.

Theorem law_other_keys k k' m' rt : rsorted rt -> k <> k' ->
  rt_find k (rt_insert k' m' rt) = rt_find k rt /\ rt_find k (rt_remove k' rt) = rt_find k rt.
Proof.
  intros Hs Hne. rewrite rt_find_insert, (rt_find_remove _ _ _ Hs).
  destruct (key_eq_spec k k'); [contradiction|]. split; reflexivity.
Qed.

(* the purge never changes a message; it drops an entry only for a vanished subscription or
   when the queue is above its bound *)
Theorem law_purge subs rt k m : rsorted rt ->
  (rt_find k (purge subs rt) = Some m -> rt_find k rt = Some m) /\
  (rt_find k rt = Some m -> has_sub (fst k) subs = true -> len rt <= 4 * len subs ->
   rt_find k (purge subs rt) = Some m).
Proof.
  intros Hs. split.
  - apply rt_find_sublist; [apply purge_sublist | exact Hs].
  - intros Hf Hh Hlen.
    destruct (rt_find k (purge subs rt)) as [m1|] eqn:E.
    + apply (rt_find_sublist _ _ _ _ (purge_sublist subs rt) Hs) in E. congruence.
    + exfalso. assert (Hout : ~ In k (rt_keys (purge subs rt))).
      { intros Hin. apply rt_in_find in Hin as (m1 & Hm1). congruence. }
      destruct (purge_lost subs rt k (rt_find_in _ _ _ Hf) Hout) as [H|H]; [congruence|].
      (* at the bound: then nothing was skipped, and the filter keeps k *)
      unfold purge in *. set (rt1 := filter _ rt) in *.
      assert (Hl1 : len rt1 <= len rt).
      { unfold len. apply Nat2Z.inj_le. subst rt1. clear. induction rt as [|a l IH]; cbn [filter length]; [lia|].
        destruct (has_sub _ _); cbn [length]; lia. }
      destruct (Z.ltb_spec (2 * len subs * 2) (len rt1)); [lia|].
      apply Hout. unfold rt_keys in *. pose proof (rt_find_in _ _ _ Hf) as Hin.
      unfold rt_keys in Hin. apply in_map_iff in Hin as (e & <- & He). apply in_map_iff. exists e.
      split; [reflexivity|]. subst rt1. apply filter_In. split; [exact He | exact Hh].
Qed.

(* acknowledgements: a Good result removes exactly that entry; keys without a Good result keep
   their entry, in particular after BadSequenceNumberUnknown / BadSubscriptionIdInvalid *)
Definition good_acked (acks : list key) (res : list Z) (k : key) : Prop :=
  exists i, nth_error acks i = Some k /\ nth_error res i = Some ST_GOOD.

Theorem law_acks subs : forall acks rt res rt', rsorted rt ->
  process_acks subs acks rt = (res, rt') ->
  length res = length acks /\ rsorted rt' /\ sublist rt' rt /\
  (forall k, good_acked acks res k -> rt_find k rt' = None) /\
  (forall k, ~ good_acked acks res k -> rt_find k rt' = rt_find k rt).
Proof.
  induction acks as [|k0 r IH]; intros rt res rt' Hs H.
  - cbn in H. inversion H; subst. split; [reflexivity|]. split; [exact Hs|]. split; [apply sublist_refl|].
    split; [|reflexivity]. intros k (i & Hi & _). destruct i; discriminate.
  - cbn [process_acks] in H.
    set (first := if has_sub (fst k0) subs then _ else _) in H.
    destruct first as [st0 rt1] eqn:Ef.
    destruct (process_acks subs r rt1) as [sts rt2] eqn:E. inversion H; subst. clear H.
    assert (Hcases : (st0 = ST_GOOD /\ rt1 = rt_remove k0 rt /\ exists m, rt_find k0 rt = Some m) \/
                     (st0 <> ST_GOOD /\ rt1 = rt)).
    { subst first. destruct (has_sub (fst k0) subs).
      - destruct (rt_find k0 rt) eqn:Ek; cbn [is_some] in Ef; inversion Ef; subst; [left; eauto | right; split; [discriminate|reflexivity]].
      - inversion Ef; subst. right. split; [discriminate|reflexivity]. }
    destruct Hcases as [(-> & -> & m0 & Hm0) | (Hne & ->)].
    + destruct (IH _ _ _ (rsorted_remove k0 rt Hs) E) as (L & Sr & SL & G & NG).
      assert (SLr : sublist (rt_remove k0 rt) rt).
      { clear. induction rt as [|[k1 m1] rt IH]; cbn [rt_remove]; [constructor|].
        destruct (key_eq k0 k1); [apply sl_drop; apply sublist_refl | constructor; exact IH]. }
      split; [cbn [length]; lia|]. split; [exact Sr|]. split; [eapply sublist_trans; eassumption|]. split.
      * intros k (i & Hi & Hr). destruct i as [|i]; cbn [nth_error] in Hi, Hr.
        -- inversion Hi; subst k. destruct (rt_find k0 rt') eqn:Ek; [|reflexivity].
           apply (rt_find_sublist _ _ _ _ SL (rsorted_remove k0 rt Hs)) in Ek.
           rewrite (rt_find_remove _ _ _ Hs), key_eq_refl in Ek. discriminate.
        -- apply G. exists i. auto.
      * intros k Hng. destruct (key_eq_spec k k0) as [->|Hk].
        -- exfalso. apply Hng. exists 0%nat. auto.
        -- rewrite NG; [rewrite (rt_find_remove _ _ _ Hs); destruct (key_eq_spec k k0); [contradiction | reflexivity]|].
           intros (i & Hi & Hr). apply Hng. exists (S i). auto.
    + destruct (IH _ _ _ Hs E) as (L & Sr & SL & G & NG).
      split; [cbn [length]; lia|]. split; [exact Sr|]. split; [exact SL|]. split.
      * intros k (i & Hi & Hr). destruct i as [|i]; cbn [nth_error] in Hi, Hr; [congruence|].
        apply G. exists i. auto.
      * intros k Hng. apply NG. intros (i & Hi & Hr). apply Hng. exists (S i). auto.
Qed.

(* a request whose acknowledgements are all unknown leaves the queue as it was *)
Corollary law_unknown_changes_nothing subs acks rt res rt' : rsorted rt ->
  process_acks subs acks rt = (res, rt') -> ~ In ST_GOOD res -> forall k, rt_find k rt' = rt_find k rt.
Proof.
  intros Hs H Hno k. destruct (law_acks subs acks rt res rt' Hs H) as (_ & _ & _ & _ & NG).
  apply NG. intros (i & _ & Hr). apply Hno. eapply nth_error_In. exact Hr.
Qed.

(* every state of every history has a sorted queue, so the laws apply to it *)
Fixpoint run_state (y : sys) (opix : Z) (ops : list op) : option sys :=
  match ops with
  | [] => Some y
  | o :: r => match step y opix o with
              | Some (y1, _, _, _) => run_state y1 (opix + 1) r
              | None => None
              end
  end.

Lemma run_state_J : forall ops y opix st y',
  J y st -> run_state y opix ops = Some y' -> exists st', J y' st'.
Proof.
  induction ops as [|o ops IH]; intros y opix st y' HJ H.
  - cbn in H. inversion H; subst. eauto.
  - cbn [run_state] in H. destruct (step y opix o) as [[[[y1 stt] m] rs]|] eqn:Es; [|discriminate].
    destruct (step_c40 _ _ _ _ _ _ _ _ Es HJ) as (st1 & _ & HJ1). eapply IH; eassumption.
Qed.

Theorem reachable_sorted c k y' :
  run_state (init c) 0 (firstn k (c_ops c)) = Some y' -> rsorted (y_retrans y').
Proof.
  intros H. destruct (run_state_J _ _ _ _ _ (init_J c) H) as (st' & _ & _ & Hs & _). exact Hs.
Qed.

(* ------------------------------------------------------------------ non-vacuity *)
Definition ex_msg (q v : Z) : msg := mk_msg q (1000 * q) 1 [(3, v, 0)].
Definition ex_rt : list (Z * Z * msg) :=
  rt_insert (2, 1) (ex_msg 1 7) (rt_insert (1, 2) (ex_msg 2 6) (rt_insert (1, 1) (ex_msg 1 5) [])).
Definition ex_subs : list sub :=
  [mk_sub 1 1000 30 3 0 [] 2 30 3 true true 3 2 1 0 []; mk_sub 2 1000 30 3 0 [] 2 30 3 true true 2 1 1 0 []].

Example ex_rt_sorted : rsorted ex_rt.
Proof. repeat apply rsorted_insert. apply rsorted_nil. Qed.
Example ex_acks :
  process_acks ex_subs [(1, 1); (1, 1); (1, 9); (7, 1)] ex_rt
  = ([ST_GOOD; ST_SEQ_UNKNOWN; ST_SEQ_UNKNOWN; ST_SUB_INVALID], [((1, 2), ex_msg 2 6); ((2, 1), ex_msg 1 7)]).
Proof. vm_compute. reflexivity. Qed.
Example ex_republish : rt_find (1, 2) ex_rt = Some (ex_msg 2 6) /\ rt_find (1, 3) ex_rt = None.
Proof. split; vm_compute; reflexivity. Qed.

(* a history with acknowledgements, republish and a deleted subscription *)
Definition ex_case : case :=
  mk_case 1 [OCreateSub 0 1000 2 100 true; OCreateItem 1 0 2 (-1) 2 true; OTick 0; OPublish 0 0 []; OTick 1000;
             OWrite 0 1; OPublish 0 0 []; OTick 1000; ORepublish 1 1; ORepublish 1 2; ORepublish 1 3; ORepublish 2 1;
             OPublish 0 0 [(1, 1)]; OTick 1000; ORepublish 1 1; ORepublish 1 2;
             OPublish 0 0 [(1, 1); (9, 1); (1, 2); (1, 2)]; OWrite 0 2; OTick 1000; ODeleteSub 1; ORepublish 1 3; OTick 1000].
Example ex_case_ok : oracle ex_case (run ex_case) = true.
Proof. vm_compute. reflexivity. Qed.
Example ex_case_statuses :
  map o_status (filter (fun r => negb (is_nil (o_resps r)) || is_some (o_msg r) || negb (o_status r =? 0)) (fst (run_ev ex_case)))
  <> [].
Proof. vm_compute. discriminate. Qed.
