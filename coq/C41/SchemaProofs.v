(* C41 — the generic theorem: for ANY schema that satisfies [schema_ok], the derived Deserialize
   reads back what the derived Serialize wrote, for every well-formed value whose skipped fields
   hold their default (induction over the nesting of structs, maps, vectors and options). *)
From Coq Require Import List ZArith Bool String Lia.
From OV Require Import C41.Schema.
Import ListNotations.
Open Scope Z_scope.

(* ---- strings, lists ------------------------------------------------------------------------------ *)
Lemma str_eqb_eq a : forall b, str_eqb a b = true <-> a = b.
Proof.
  induction a as [|x a IH]; intros [|y b]; cbn [str_eqb]; split; intro H; try discriminate; try reflexivity.
  - apply andb_true_iff in H as [H1 H2]. apply Z.eqb_eq in H1. apply IH in H2. congruence.
  - injection H as -> ->. rewrite Z.eqb_refl. cbn. apply IH. reflexivity.
Qed.
Lemma str_eqb_refl a : str_eqb a a = true.
Proof. apply str_eqb_eq. reflexivity. Qed.
Lemma str_eqb_neq a b : a <> b -> str_eqb a b = false.
Proof. intro H. destruct (str_eqb a b) eqn:E; [|reflexivity]. apply str_eqb_eq in E. contradiction. Qed.

Lemma all_some_rt {A B} (f : A -> option B) (g : B -> option A) : forall l ys,
  (forall x y, In x l -> f x = Some y -> g y = Some x) ->
  all_some f l = Some ys -> all_some g ys = Some l.
Proof.
  induction l as [|x l IH]; intros ys H Hs; cbn [all_some] in Hs.
  - injection Hs as <-. reflexivity.
  - destruct (f x) as [y|] eqn:Ef; [|discriminate]. destruct (all_some f l) as [ys'|] eqn:El; [|discriminate].
    injection Hs as <-. cbn [all_some]. rewrite (H x y (or_introl eq_refl) Ef).
    rewrite (IH ys' (fun x0 y0 Hin => H x0 y0 (or_intror Hin)) eq_refl). reflexivity.
Qed.
Lemma all_some_total {A B} (f : A -> option B) : forall l,
  (forall x, In x l -> exists y, f x = Some y) -> exists ys, all_some f l = Some ys.
Proof.
  induction l as [|x l IH]; intro H; cbn [all_some]; [eexists; reflexivity|].
  destruct (H x (or_introl eq_refl)) as [y ->].
  destruct (IH (fun x0 Hin => H x0 (or_intror Hin))) as [ys ->]. eexists; reflexivity.
Qed.

(* ---- lookup in the written map ------------------------------------------------------------------------ *)
Lemma yget_skip k pre r : ~ In k (map fst pre) -> yget k (pre ++ r) = yget k r.
Proof.
  induction pre as [|[k' y] pre IH]; intro H; [reflexivity|]. cbn [app yget].
  rewrite str_eqb_neq by (intro; subst; apply H; left; reflexivity).
  apply IH. intro Hin. apply H. right. exact Hin.
Qed.
Lemma yget_none k m : ~ In k (map fst m) -> yget k m = None.
Proof. intro H. rewrite <- (app_nil_r m). rewrite yget_skip by exact H. reflexivity. Qed.

Lemma keys_distinct_cons k r : keys_distinct (k :: r) = true -> ~ In k r /\ keys_distinct r = true.
Proof.
  cbn [keys_distinct]. intro H. apply andb_true_iff in H as [H1 H2]. split; [|exact H2].
  intro Hin. apply negb_true_iff in H1.
  assert (existsb (str_eqb k) r = true) by (apply existsb_exists; exists k; split; [exact Hin | apply str_eqb_refl]).
  congruence.
Qed.

Definition nonskip (f : field) : bool := negb (f_skip f).
Definition fkeys (fs : list field) : list str := map (fun f => zs (f_key f)) (filter nonskip fs).

Section Generic.
Variable sch : schema.
Hypothesis Hsch : schema_ok sch = true.

Lemma lookup_ok n fs : lookup sch n = Some fs -> struct_ok fs = true.
Proof.
  unfold schema_ok in Hsch. revert Hsch. induction sch as [|[n' fs'] r IH]; cbn [lookup forallb]; intros H Hl; [discriminate|].
  apply andb_true_iff in H as [H1 H2]. destruct (String.eqb n n'); [injection Hl as <-; exact H1 | apply IH; assumption].
Qed.

(* the keys written for a list of fields are keys of non-skipped fields *)
Lemma flat_keys (rec : ty -> val -> option ytree) : forall fs vs ys,
  all_some (ser_field rec) (combine fs vs) = Some ys ->
  forall k, In k (map fst (flat ys)) -> In k (fkeys fs).
Proof.
  induction fs as [|f fs IH]; intros [|x vs] ys Hs k Hk; cbn [combine all_some] in Hs;
    try (injection Hs as <-; contradiction).
  destruct (ser_field rec (f, x)) as [o|] eqn:Ef; [|discriminate].
  destruct (all_some (ser_field rec) (combine fs vs)) as [ys'|] eqn:El; [|discriminate].
  injection Hs as <-. unfold fkeys. cbn [filter]. unfold ser_field in Ef.
  unfold nonskip at 1. destruct (f_skip f) eqn:Esk; cbn [orb negb] in *.
  - injection Ef as <-. cbn [flat flat_map app] in Hk. apply (IH vs ys' El k Hk).
  - destruct (f_skip_none f && is_none x).
    + injection Ef as <-. cbn [flat flat_map app] in Hk. cbn [map]. right. apply (IH vs ys' El k Hk).
    + destruct (rec (f_ty f) x) as [y|]; [|discriminate]. injection Ef as <-.
      cbn [flat flat_map app map fst] in Hk. cbn [map]. destruct Hk as [<-|Hk]; [left; reflexivity|].
      right. apply (IH vs ys' El k Hk).
Qed.

Section Step.
Variable fuel : nat.
Hypothesis IH : forall t v y, ty_ok t = true -> wt sch true fuel t v = true ->
  ser sch fuel t v = Some y -> de sch fuel t y = Some v.

Lemma struct_rt : forall fs vs ys pre,
  forallb field_ok fs = true -> keys_distinct (fkeys fs) = true ->
  forallb (wt_field true (wt sch true fuel)) (combine fs vs) = true ->
  List.length fs = List.length vs ->
  all_some (ser_field (ser sch fuel)) (combine fs vs) = Some ys ->
  (forall k, In k (map fst pre) -> ~ In k (fkeys fs)) ->
  all_some (de_field (de sch fuel) (pre ++ flat ys)) fs = Some vs.
Proof.
  induction fs as [|f fs IHfs]; intros [|x vs] ys pre Hok Hkd Hwt Hlen Hs Hpre; cbn [List.length] in Hlen; try discriminate.
  { reflexivity. }
  cbn [combine all_some forallb] in *.
  apply andb_true_iff in Hok as [Hf Hok]. apply andb_true_iff in Hwt as [Hwf Hwt].
  destruct (ser_field (ser sch fuel) (f, x)) as [o|] eqn:Ef; [|discriminate].
  destruct (all_some (ser_field (ser sch fuel)) (combine fs vs)) as [ys'|] eqn:El; [|discriminate].
  injection Hs as <-.
  unfold field_ok in Hf. apply andb_true_iff in Hf as [Hf Hnop]. apply andb_true_iff in Hf as [Hf Hdef].
  apply andb_true_iff in Hf as [Hf Hskopt]. apply andb_true_iff in Hf as [Hty Hsnopt].
  unfold ser_field in Ef. unfold wt_field in Hwf. unfold de_field at 1.
  unfold fkeys in Hkd, Hpre. cbn [filter] in Hkd, Hpre. unfold nonskip at 1 in Hkd. unfold nonskip at 1 in Hpre.
  destruct (f_skip f) eqn:Esk; cbn [orb negb] in *.
  - (* skipped: rebuilt by Default::default() = None, which is what the value holds *)
    injection Ef as <-. change (flat (None :: ys')) with (flat ys').
    destruct (f_ty f) eqn:Et; try discriminate Hskopt. cbn [skipped_default].
    destruct x as [| | | | | | [?|] | | |]; try discriminate Hwf.
    rewrite (IHfs vs ys' pre Hok Hkd Hwt ltac:(lia) El Hpre). reflexivity.
  - cbn [map] in Hkd, Hpre. apply keys_distinct_cons in Hkd as [Hnin Hkd].
    destruct (f_skip_none f && is_none x) eqn:Esn.
    + (* omitted because None: a missing Option reads as None *)
      injection Ef as <-. change (flat (None :: ys')) with (flat ys').
      apply andb_true_iff in Esn as [Esn1 Esn2]. rewrite Esn1 in Hsnopt. cbn in Hsnopt.
      destruct x as [| | | | | | [?|] | | |]; try discriminate Esn2.
      rewrite yget_none.
      2:{ rewrite map_app, in_app_iff. intros [Hin|Hin].
          - apply (Hpre _ Hin). left. reflexivity.
          - apply Hnin. apply (flat_keys _ fs vs ys' El _ Hin). }
      destruct (f_ty f) eqn:Et; try discriminate Hsnopt.
      rewrite (IHfs vs ys' pre Hok Hkd Hwt ltac:(lia) El); [reflexivity|].
      intros k Hin Hk. apply (Hpre k Hin). right. exact Hk.
    + (* written *)
      destruct (ser sch fuel (f_ty f) x) as [y|] eqn:Ey; [|discriminate]. injection Ef as <-.
      change (flat (Some (zs (f_key f), y) :: ys')) with ((zs (f_key f), y) :: flat ys').
      rewrite yget_skip by (intro Hin; apply (Hpre _ Hin); left; reflexivity).
      cbn [yget]. rewrite str_eqb_refl.
      rewrite (IH _ _ _ Hty Hwf Ey).
      change (pre ++ (zs (f_key f), y) :: flat ys') with (pre ++ [(zs (f_key f), y)] ++ flat ys').
      rewrite app_assoc.
      rewrite (IHfs vs ys' (pre ++ [(zs (f_key f), y)]) Hok Hkd Hwt ltac:(lia) El); [reflexivity|].
      intros k Hin Hk. rewrite map_app, in_app_iff in Hin. destruct Hin as [Hin|[<-|[]]].
      * apply (Hpre k Hin). right. exact Hk.
      * apply Hnin. exact Hk.
Qed.
End Step.

Lemma ser_nonnull : forall fuel t v y, is_opt t = false -> ser sch fuel t v = Some y -> y <> YNull.
Proof.
  intros [|fuel] t v y Ht Hs; [discriminate|].
  destruct t; try discriminate Ht; destruct v; cbn [ser] in Hs; try discriminate Hs;
    try (injection Hs as <-; discriminate).
  - destruct (all_some (ser sch fuel t) l); [injection Hs as <-; discriminate | discriminate].
  - destruct (all_some (ser_kv (ser sch fuel t)) m); [injection Hs as <-; discriminate | discriminate].
  - destruct (all_some (ser sch fuel TString) l); [injection Hs as <-; discriminate | discriminate].
  - destruct (lookup sch n); [|discriminate]. destruct (negb _); [discriminate|].
    destruct (all_some _ _); [injection Hs as <-; discriminate | discriminate].
Qed.

Theorem roundtrip : forall fuel t v y, ty_ok t = true -> wt sch true fuel t v = true ->
  ser sch fuel t v = Some y -> de sch fuel t y = Some v.
Proof.
  induction fuel as [|fuel IH]; intros t v y Hty Hwt Hs; [discriminate|].
  destruct t; destruct v; cbn [wt] in Hwt; try discriminate Hwt; cbn [ser] in Hs; try discriminate Hs.
  - (* String *) injection Hs as <-. reflexivity.
  - (* bool *) injection Hs as <-. reflexivity.
  - (* integer *) injection Hs as <-. cbn [de]. rewrite Hwt. reflexivity.
  - (* f64 *) injection Hs as <-. reflexivity.
  - (* path *) injection Hs as <-. reflexivity.
  - (* Duration *) injection Hs as <-. cbn [de yget].
    change (str_eqb (zs "secs") (zs "secs")) with true. change (str_eqb (zs "nanos") (zs "secs")) with false.
    change (str_eqb (zs "nanos") (zs "nanos")) with true. cbv iota.
    repeat (apply andb_true_iff in Hwt as [Hwt ?]).
    repeat match goal with H : (_ <=? _) = true |- _ => apply Z.leb_le in H end.
    replace ((0 <=? secs) && (secs <=? 18446744073709551615) && (0 <=? nanos) && (nanos <=? 4294967295)) with true; [reflexivity|].
    symmetry. repeat (apply andb_true_iff; split); apply Z.leb_le; lia.
  - (* Option *) destruct o as [x|].
    + assert (Ht' : is_opt t = false /\ ty_ok t = true) by (destruct t; cbn in Hty |- *; auto; discriminate).
      destruct Ht' as [Hno Hty'].
      pose proof (ser_nonnull fuel t x y Hno Hs) as Hnn.
      cbn [de]. destruct y; try congruence; rewrite (IH t x _ Hty' Hwt Hs); reflexivity.
    + injection Hs as <-. reflexivity.
  - (* Vec *) destruct (all_some (ser sch fuel t) l) as [ys|] eqn:El; [|discriminate]. injection Hs as <-.
    cbn [de]. rewrite (all_some_rt (ser sch fuel t) (de sch fuel t) l ys); [reflexivity| |exact El].
    intros x y0 Hin Hx. apply IH; [exact Hty | | exact Hx]. rewrite forallb_forall in Hwt. apply Hwt. exact Hin.
  - (* BTreeMap *) apply andb_true_iff in Hwt as [Hwt Hsorted].
    destruct (all_some (ser_kv (ser sch fuel t)) m) as [ys|] eqn:El; [|discriminate]. injection Hs as <-.
    cbn [de]. rewrite (all_some_rt (ser_kv (ser sch fuel t)) (de_kv (de sch fuel t)) m ys); [rewrite Hsorted; reflexivity| |exact El].
    intros [k x] [k' y0] Hin Hx. unfold ser_kv in Hx. cbn [fst snd] in Hx.
    destruct (ser sch fuel t x) as [y1|] eqn:E1; [|discriminate]. injection Hx as <- <-.
    unfold de_kv. cbn [fst snd]. rewrite (IH t x y1 Hty); [reflexivity| |exact E1].
    rewrite forallb_forall in Hwt. apply (Hwt (k, x) Hin).
  - (* BTreeSet *) apply andb_true_iff in Hwt as [Hwt Hsorted].
    destruct (all_some (ser sch fuel TString) l) as [ys|] eqn:El; [|discriminate]. injection Hs as <-.
    cbn [de]. rewrite (all_some_rt (ser sch fuel TString) (de sch fuel TString) l ys); [rewrite Hsorted; reflexivity| |exact El].
    intros x y0 Hin Hx. rewrite forallb_forall in Hwt. apply IH; [reflexivity | apply Hwt; exact Hin | exact Hx].
  - (* struct *) rename fs into fs0. destruct (lookup sch n) as [fs|] eqn:Elk; [|discriminate].
    apply andb_true_iff in Hwt as [Hlen Hwt]. rewrite Hlen in Hs. cbn [negb] in Hs.
    destruct (all_some (ser_field (ser sch fuel)) (combine fs fs0)) as [ys|] eqn:El; [|discriminate].
    injection Hs as <-. cbn [de]. rewrite Elk.
    pose proof (lookup_ok n fs Elk) as Hso. unfold struct_ok in Hso. apply andb_true_iff in Hso as [Hfo Hkd].
    apply Nat.eqb_eq in Hlen.
    pose proof (struct_rt fuel IH fs fs0 ys [] Hfo Hkd Hwt Hlen El (fun k (H : In k (map fst [])) => match H with end)) as Hst.
    cbn [app] in Hst. rewrite Hst. reflexivity.
Qed.

(* a well-formed value (its paths are valid UTF-8) always serialises *)
Theorem ser_total strict : forall fuel t v, wt sch strict fuel t v = true -> no_opaque t = true ->
  exists y, ser sch fuel t v = Some y.
Proof.
  induction fuel as [|fuel IH]; intros t v Hwt Hno; [discriminate|].
  destruct t; try discriminate Hno; destruct v; cbn [wt] in Hwt; try discriminate Hwt; cbn [ser no_opaque] in *;
    try (eexists; reflexivity).
  - (* Option *) destruct o as [x|]; [apply IH; assumption | eexists; reflexivity].
  - (* Vec *)
    destruct (all_some_total (ser sch fuel t) l) as [ys ->]; [|eexists; reflexivity].
    intros x Hin. apply IH; [|exact Hno]. rewrite forallb_forall in Hwt. apply Hwt. exact Hin.
  - (* BTreeMap *) apply andb_true_iff in Hwt as [Hwt _].
    destruct (all_some_total (ser_kv (ser sch fuel t)) m) as [ys ->]; [|eexists; reflexivity].
    intros [k x] Hin. unfold ser_kv. cbn [fst snd].
    destruct (IH t x) as [y ->]; [|exact Hno|eexists; reflexivity].
    rewrite forallb_forall in Hwt. apply (Hwt (k, x) Hin).
  - (* BTreeSet *) apply andb_true_iff in Hwt as [Hwt _].
    destruct (all_some_total (ser sch fuel TString) l) as [ys ->]; [|eexists; reflexivity].
    intros x Hin. rewrite forallb_forall in Hwt. apply IH; [apply Hwt; exact Hin | reflexivity].
  - (* struct *) rename fs into fs0. destruct (lookup sch n) as [fs|] eqn:Elk; [|discriminate].
    apply andb_true_iff in Hwt as [Hlen Hwt]. rewrite Hlen. cbn [negb].
    pose proof (lookup_ok n fs Elk) as Hso. unfold struct_ok in Hso. apply andb_true_iff in Hso as [Hfo _].
    destruct (all_some_total (ser_field (ser sch fuel)) (combine fs fs0)) as [ys ->]; [|eexists; reflexivity].
    intros [f x] Hin. unfold ser_field.
    destruct (f_skip f || f_skip_none f && is_none x) eqn:E; [eexists; reflexivity|].
    apply orb_false_iff in E as [Esk _].
    rewrite forallb_forall in Hwt. specialize (Hwt (f, x) Hin). unfold wt_field in Hwt. rewrite Esk in Hwt.
    rewrite forallb_forall in Hfo. specialize (Hfo f (in_combine_l _ _ _ _ Hin)).
    unfold field_ok in Hfo. apply andb_true_iff in Hfo as [_ Hnop]. rewrite Esk in Hnop. cbn [orb] in Hnop.
    destruct (IH (f_ty f) x Hwt Hnop) as [y ->]. eexists; reflexivity.
Qed.

End Generic.
