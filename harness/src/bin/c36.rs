//! C36: client acknowledgement bookkeeping.  Runs the REAL `Session::publish` (hook
//! `verif_publish`) on a session whose transport is replaced by an in-memory queue (hook
//! `verif_install_transport`): the harness plays the server, answering each PublishRequest with a
//! PublishResponse (empty, with data, with an undecodable body), a ServiceFault, an unexpected
//! response, or a BadTimeout, in any interleaving; the transport may be down when a publish starts
//! (not connected / queue closed); and the client creates, modifies, deletes subscriptions and
//! switches their publishing mode through the real service calls in between.
#[path = "../util.rs"]
mod util;
use util::*;

use opcua::client::{ClientBuilder, Session};
use opcua::client::session::SessionInfo;
use opcua::client::session::services::subscriptions::service::VerifOutgoing;
use opcua::core::supported_message::SupportedMessage;
use opcua::types::*;
use std::sync::Arc;

#[derive(Clone, Debug)]
pub enum Op { Start, RespOk(u32, u32, u32, u8), RespOkBad(u32, u32, u32, u8), RespErr(u32, u8), // RespErr kind: 0 timeout, 1 service fault, 2 unexpected response, 3 closed
              StartDown(u8), SubAdd(u32), SubDel(u32), SubMod(u32), SubPub(u32) }
pub struct P;

fn enc(acks: &[(u32, u32)], out: &mut Vec<i128>) {
    out.push(acks.len() as i128);
    for (a, b) in acks { out.push(*a as i128); out.push(*b as i128); }
}

fn make_session() -> Arc<Session> {
    let mut client = ClientBuilder::new()
        .application_name("verif")
        .application_uri("urn:verif")
        .pki_dir("/tmp/verif-c36-pki")
        .create_sample_keypair(false)
        .trust_server_certs(true)
        .session_retry_limit(0)
        .client()
        .unwrap();
    let endpoint: EndpointDescription = ("opc.tcp://127.0.0.1:4855/", "None", MessageSecurityMode::None, UserTokenPolicy::anonymous()).into();
    let (session, _event_loop) = client.new_session_from_info(SessionInfo::from(endpoint)).unwrap();
    session
}

async fn settle() { for _ in 0..20 { tokio::task::yield_now().await; } }

struct Nop;
impl opcua::client::OnSubscriptionNotification for Nop {}

/// what the notification message of a PublishResponse carries
fn notification_data(kind: u8) -> Option<Vec<ExtensionObject>> {
    let dcn = DataChangeNotification {
        monitored_items: Some(vec![
            MonitoredItemNotification { client_handle: 1, value: DataValue::from(Variant::from(1i32)) },
            MonitoredItemNotification { client_handle: 77, value: DataValue::from(Variant::from(2i32)) }]),
        diagnostic_infos: None };
    let scn = StatusChangeNotification { status: StatusCode::GoodSubscriptionTransferred, diagnostic_info: DiagnosticInfo::null() };
    match kind % 4 {
        0 => None,
        1 => Some(vec![ExtensionObject::from_encodable(ObjectId::DataChangeNotification_Encoding_DefaultBinary, &dcn)]),
        2 => Some(vec![ExtensionObject::from_encodable(ObjectId::DataChangeNotification_Encoding_DefaultBinary, &dcn),
                       ExtensionObject::from_encodable(ObjectId::StatusChangeNotification_Encoding_DefaultBinary, &scn)]),
        // a data change id over the body of a status change: does not decode
        _ => Some(vec![{ let mut e = ExtensionObject::from_encodable(ObjectId::StatusChangeNotification_Encoding_DefaultBinary, &scn);
                         e.node_id = ObjectId::DataChangeNotification_Encoding_DefaultBinary.into(); e }]),
    }
}

/// the harness as server for one subscription-management call: answer the request if one was sent
async fn serve_one(rx: &mut tokio::sync::mpsc::UnboundedReceiver<VerifOutgoing>, sub: u32) -> bool {
    settle().await;
    let Ok(m) = rx.try_recv() else { return false };
    let h = ResponseHeader::null();
    let resp: SupportedMessage = match &m.request {
        SupportedMessage::CreateSubscriptionRequest(r) => CreateSubscriptionResponse { response_header: h, subscription_id: sub,
            revised_publishing_interval: r.requested_publishing_interval, revised_lifetime_count: r.requested_lifetime_count,
            revised_max_keep_alive_count: r.requested_max_keep_alive_count }.into(),
        SupportedMessage::ModifySubscriptionRequest(r) => ModifySubscriptionResponse { response_header: h,
            revised_publishing_interval: r.requested_publishing_interval, revised_lifetime_count: r.requested_lifetime_count,
            revised_max_keep_alive_count: r.requested_max_keep_alive_count }.into(),
        SupportedMessage::DeleteSubscriptionsRequest(_) => DeleteSubscriptionsResponse { response_header: h, results: Some(vec![StatusCode::Good]), diagnostic_infos: None }.into(),
        SupportedMessage::SetPublishingModeRequest(_) => SetPublishingModeResponse { response_header: h, results: Some(vec![StatusCode::Good]), diagnostic_infos: None }.into(),
        _ => return false,
    };
    let _ = m.callback.unwrap().send(Ok(resp));
    true
}

async fn exec_async(ops: &[Op]) -> Vec<i128> {
    let session = make_session();
    let mut rx = session.verif_install_transport();
    let mut out = Vec::new();
    // in-flight requests, oldest first: (callback, join handle of the publish task)
    let mut inflight: Vec<(tokio::sync::oneshot::Sender<Result<SupportedMessage, StatusCode>>, tokio::task::JoinHandle<Result<bool, StatusCode>>)> = Vec::new();
    for op in ops {
        match op {
            Op::Start => {
                let s = session.clone();
                let h = tokio::spawn(async move { s.verif_publish().await });
                // the request arrives at the "server"
                let m: VerifOutgoing = match tokio::time::timeout(std::time::Duration::from_secs(5), rx.recv()).await {
                    Ok(Some(m)) => m,
                    _ => { out.push(-3); return out; }
                };
                let acks: Vec<(u32, u32)> = match &m.request {
                    SupportedMessage::PublishRequest(r) => r.subscription_acknowledgements.as_ref().map(|v| v.iter().map(|a| (a.subscription_id, a.sequence_number)).collect()).unwrap_or_default(),
                    _ => { out.push(-4); return out; }
                };
                enc(&acks, &mut out);
                inflight.push((m.callback.unwrap(), h));
            }
            Op::StartDown(kind) => {
                // the transport is down when the publish call starts: the request never reaches the server
                if *kind % 2 == 0 { session.verif_disconnect_transport(); } else { drop(rx); settle().await; }
                let r = session.verif_publish().await;
                if r.is_ok() { out.push(-5); return out; }
                // a queue that was closed swallows one request before the sender notices
                if *kind % 2 == 1 { let r2 = session.verif_publish().await; if r2.is_ok() { out.push(-5); return out; } }
                rx = session.verif_install_transport();
                enc(&session.verif_pending_acks(), &mut out);
            }
            Op::SubAdd(sub) | Op::SubDel(sub) | Op::SubMod(sub) | Op::SubPub(sub) => {
                let s = session.clone();
                let (o, id) = (op.clone(), *sub);
                let h = tokio::spawn(async move {
                    match o {
                        Op::SubAdd(_) => s.create_subscription(std::time::Duration::from_millis(100), 30, 10, 0, 0, true, Nop).await.map(|_| ()),
                        Op::SubDel(_) => s.delete_subscription(id).await.map(|_| ()),
                        Op::SubMod(_) => s.modify_subscription(id, 250.0, 60, 20, 0, 1).await,
                        _ => s.set_publishing_mode(&[id], id % 2 == 0).await.map(|_| ()),
                    }
                });
                serve_one(&mut rx, *sub).await;
                let _ = h.await;
                enc(&session.verif_pending_acks(), &mut out);
            }
            Op::RespOk(k, sub, seq, _) | Op::RespOkBad(k, sub, seq, _) => {
                if !inflight.is_empty() {
                    let i = (*k as usize) % inflight.len();
                    let (cb, h) = inflight.remove(i);
                    let resp = PublishResponse {
                        response_header: match op {
                            // a typed PublishResponse whose header carries a Bad service result
                            Op::RespOkBad(_, _, _, st) => { let mut h = ResponseHeader::null(); h.service_result = [StatusCode::BadTooManyPublishRequests, StatusCode::BadNoSubscription, StatusCode::BadSequenceNumberUnknown, StatusCode::BadInternalError][*st as usize % 4]; h }
                            _ => ResponseHeader::null(),
                        },
                        subscription_id: *sub,
                        available_sequence_numbers: None,
                        more_notifications: false,
                        notification_message: NotificationMessage { sequence_number: *seq, publish_time: DateTime::null(),
                            notification_data: match op { Op::RespOk(_, _, _, d) => notification_data(*d), _ => None } },
                        results: None,
                        diagnostic_infos: None,
                    };
                    let _ = cb.send(Ok(resp.into()));
                    let _ = h.await;
                }
                settle().await;
                enc(&session.verif_pending_acks(), &mut out);
            }
            Op::RespErr(k, kind) => {
                if !inflight.is_empty() {
                    let i = (*k as usize) % inflight.len();
                    let (cb, h) = inflight.remove(i);
                    match kind {
                        0 => { let _ = cb.send(Err(StatusCode::BadTimeout)); }
                        1 => { let _ = cb.send(Ok(ServiceFault::new(&RequestHeader::dummy(), StatusCode::BadTooManyPublishRequests).into())); }
                        2 => { let _ = cb.send(Ok(ReadResponse { response_header: ResponseHeader::null(), results: None, diagnostic_infos: None }.into())); }
                        _ => { drop(cb); }
                    }
                    let _ = h.await;
                }
                settle().await;
                enc(&session.verif_pending_acks(), &mut out);
            }
        }
    }
    out
}

impl Property for P {
    type Case = Vec<Op>;
    fn fixed(_tier: &str) -> Vec<Vec<Op>> {
        use Op::*;
        vec![
            vec![Start, RespOk(0, 1, 10, 1), Start, RespOk(0, 1, 11, 2), Start, RespOk(0, 1, 12, 3)],
            vec![Start, RespOk(0, 1, 10, 0), Start, RespErr(0, 0), Start, RespOk(0, 1, 11, 1), Start],
            vec![Start, RespOk(0, 1, 10, 2), Start, Start, RespErr(0, 0), RespOk(0, 1, 11, 3), Start, RespOk(5, 2, 7, 0)],
            vec![Start, RespOk(0, 1, 10, 1), Start, RespErr(0, 1), Start, RespErr(0, 2), Start, RespErr(0, 3), Start, RespOk(0, 1, 11, 2)],
            // the same number received twice (keep-alive carries the next sequence number)
            vec![Start, RespOk(0, 1, 5, 3), Start, RespOk(0, 1, 5, 0), Start, RespOk(0, 1, 6, 1), Start],
            // PublishResponse with a Bad service result in its header, with acknowledgements in flight
            vec![Start, RespOk(0, 7, 1, 2), Start, RespOkBad(0, 7, 2, 0), Start, RespOk(0, 7, 3, 3), Start, RespOk(0, 7, 4, 0)],
            vec![Start, RespOk(0, 1, 1, 1), Start, RespOkBad(0, 1, 2, 1), Start, RespOkBad(0, 1, 3, 2), Start, RespErr(0, 0), Start],
            vec![RespOk(0, 1, 1, 2), RespErr(0, 0), Start, Start, Start, RespOk(2, 1, 1, 3), RespOk(1, 2, 1, 0), RespErr(0, 0), Start, RespOk(0, 3, 3, 1)],
            // subscriptions exist / are deleted while their acknowledgements wait or are in flight
            vec![SubAdd(1), SubAdd(2), Start, RespOk(0, 1, 1, 1), RespOk(0, 2, 1, 2), SubDel(1), Start, RespOk(0, 2, 2, 2), SubDel(2), Start, RespOk(0, 1, 9, 0), Start],
            vec![SubAdd(1), Start, RespOk(0, 1, 1, 2), Start, SubDel(1), RespErr(0, 0), SubAdd(1), SubMod(1), SubPub(1), Start, RespOk(0, 1, 2, 3), Start, RespOk(0, 3, 1, 1)],
            // the transport is down when a publish starts (not connected / queue closed), acknowledgements waiting
            vec![Start, RespOk(0, 1, 1, 0), StartDown(0), Start, RespOk(0, 1, 2, 1), StartDown(1), StartDown(0), Start, RespOk(0, 1, 3, 0), Start],
            // many acknowledgements waiting for one request (12 responses, then failures, then one request carries 17)
            { let mut v = vec![Start; 12]; for i in 0..12 { v.push(RespOk(0, 1 + i % 3, 10 + i, (i % 4) as u8)); }
              v.extend([Start, Start, Start]); for i in 0..5 { v.push(RespOk(1, 2, 30 + i, 2)); v.push(Start); }
              v.extend([RespErr(0, 0), RespErr(0, 1), RespErr(0, 3), Start, RespOk(0, 1, 50, 0), Start]); v },
        ]
    }
    fn gen(r: &mut Rng) -> Vec<Op> {
        // burst: many requests in flight, then long runs of responses, so that many acknowledgements wait at once
        let burst = r.chance(1, 4);
        let n = if burst { 24 + r.below(26) } else { 2 + r.below(30) };
        let maxin = if burst { 9 + r.below(6) as u32 } else { 5 };
        let mut ops = Vec::new();
        let mut infl = 0u32;
        let mut seq = [1u32; 3];
        let mut starting = true;
        for _ in 0..n {
            let c = r.below(10);
            if burst { if infl == 0 { starting = true; } else if infl >= maxin { starting = false; } }
            if r.chance(1, 9) {
                let sub = 1 + r.below(3) as u32;
                ops.push(match r.below(6) { 0 | 1 => Op::SubAdd(sub), 2 | 3 => Op::SubDel(sub), 4 => Op::SubMod(sub), _ => Op::SubPub(sub) });
            } else if r.chance(1, 14) {
                ops.push(Op::StartDown(r.below(2) as u8));
            } else if (burst && starting) || (!burst && (infl == 0 && c < 9 || c < 4 && infl < maxin)) {
                ops.push(Op::Start); infl += 1;
            } else if c < 8 {
                let sub = r.below(3) as u32;
                // mostly fresh increasing numbers, sometimes a repeat (keep-alive)
                if !r.chance(1, 6) { seq[sub as usize] += 1; }
                if r.chance(1, 5) { ops.push(Op::RespOkBad(r.below(4) as u32, sub + 1, seq[sub as usize], r.below(4) as u8)); }
                else { ops.push(Op::RespOk(r.below(4) as u32, sub + 1, seq[sub as usize], r.below(4) as u8)); }
                infl = infl.saturating_sub(1);
            } else {
                ops.push(Op::RespErr(r.below(4) as u32, r.below(4) as u8)); infl = infl.saturating_sub(1);
            }
        }
        ops
    }
    fn exec(c: &Vec<Op>) -> Out {
        let rt = tokio::runtime::Builder::new_current_thread().enable_all().build().unwrap();
        let ops = c.clone();
        let out = match guarded(|| rt.block_on(exec_async(&ops))) { Ok(o) => o, Err(_) => vec![-2] };
        let fails = c.iter().filter(|o| matches!(o, Op::RespErr(..))).count();
        let maxin = { let mut m = 0i32; let mut cur = 0i32; for o in c { match o { Op::Start => { cur += 1; m = m.max(cur); } Op::RespOk(..) | Op::RespOkBad(..) | Op::RespErr(..) => { cur = (cur - 1).max(0); } _ => {} } } m };
        let subs = c.iter().any(|o| matches!(o, Op::SubAdd(..) | Op::SubDel(..) | Op::SubMod(..) | Op::SubPub(..)));
        let down = c.iter().any(|o| matches!(o, Op::StartDown(..)));
        let maxacks = { let mut m = 0usize; let mut i = 0; while i < out.len() && out[i] >= 0 { let k = out[i] as usize; m = m.max(k); i += 1 + 2 * k; } m };
        let badh = c.iter().any(|o| matches!(o, Op::RespOkBad(..)));
        let tag = format!("{}-{}{}{}{}{}", if fails == 0 { "nofail" } else { "fail" }, if maxin > 1 { "concurrent" } else { "sequential" }, if badh { "-badheader" } else { "" },
            if subs { "-subs" } else { "" }, if down { "-down" } else { "" }, if maxacks > 10 { "-manyacks" } else { "" });
        let term = coq_list(c, |o| match o {
            Op::Start => "Start".to_string(),
            Op::RespOk(k, s, q, d) => format!("RespOk {} {} {} {}", k, s, q, d % 4),
            Op::StartDown(k) => format!("StartDown {}", k % 2),
            Op::SubAdd(s) => format!("SubAdd {}", s),
            Op::SubDel(s) => format!("SubDel {}", s),
            Op::SubMod(s) => format!("SubMod {}", s),
            Op::SubPub(s) => format!("SubPub {}", s),
            Op::RespOkBad(k, s, q, _) => format!("RespOkBad {} {} {}", k, s, q),
            Op::RespErr(k, _) => format!("RespErr {}", k),
        });
        Out { tag, term, out }
    }
}
fn main() { run_main::<P>() }
