(* C22 — proofs: with publish requests always available keep-alives keep flowing and the
   subscription never expires. *)
From Coq Require Import List ZArith Bool Lia.
From OV Require Import C22.Model C22.ProofsTable C22.ProofsTrace C22.ProofsExpiry.
Import ListNotations.
Open Scope Z_scope.

Notation sub_tick := (sub_tick_gen true true).
Notation subs_tick := (subs_tick_gen true true).
Notation step := (step_gen true true).
Notation trace := (trace_gen true true).

(* the invariant: [cnt] publishing intervals have elapsed since the last keep-alive, [seen]: a
   keep-alive has been sent, [lst]: the time the publishing interval last elapsed *)
Inductive InvA (l k : Z) : world -> Z -> bool -> Z -> Prop :=
| IA_fresh : forall kc lst q, 0 <= q <= 2 ->
    InvA l k (W Normal l kc false true l k [] lst q) 0 false lst
| IA_sent : forall lf kc lst q, 0 <= q <= 2 -> l - 1 <= lf ->
    InvA l k (W Normal lf kc true true l k [] lst q) 0 true lst
| IA_ka : forall lf kc lst q cnt, 0 <= q <= 2 -> 1 <= kc <= k -> 0 <= cnt -> cnt + kc <= k + 1 ->
    l - 1 - k <= lf - kc ->
    InvA l k (W KeepAlive lf kc true true l k [] lst q) cnt true lst.

Definition alive_step_ok (l k : Z) (f : bool) (cnt : Z) (seen : bool) (w' : world) (pre : list Z)
           (lst' : Z) : Prop :=
  exists s, snap_state (mk_obs pre (snapshot w')) = Some s /\ s <> 0 /\ mem 2 pre = false /\
    ((mem 1 pre = true /\ InvA l k w' 0 true lst') \/
     (mem 1 pre = false /\ f = true /\ seen = true /\ cnt + 1 <= k /\ InvA l k w' (cnt + 1) seen lst') \/
     (mem 1 pre = false /\ f = false /\ InvA l k w' cnt seen lst')).

Ltac ztests := repeat (zcase; try lia); cbn [andb orb negb].

(* a ReceivePublishRequest tick with nothing to send changes nothing *)
Lemma subs_tick_recv_noop : forall ivl now x lf kc f l k lst q,
  (x = Normal \/ x = KeepAlive) -> lf <> 1 -> 0 < q ->
  subs_tick ivl now true (W x lf kc f true l k [] lst q) = Some (W x lf kc f true l k [] lst q, []).
Proof.
  intros ivl now x lf kc f l k lst q Hx Hlf Hq.
  unfold W, subs_tick_gen. cbn [ws pq]. unfold sub_tick_gen. cbn [sb nq last is_nil negb orb].
  destruct (Z.ltb_spec 0 q); [|lia]. cbn [orb].
  unfold_us. cbn [andb].
  destruct Hx as [-> | ->]; cbn [is_active andb]; (destruct (Z.eqb_spec lf 1); [lia|]);
    cbn [andb orb negb more_than_one handle_action nq sb last drain ready_to_remove sstate_eqb state_nr st is_nil];
    reflexivity.
Qed.

Lemma step_pub_noop : forall ivl now x lf kc f l k lst q,
  (x = Normal \/ x = KeepAlive) -> lf <> 1 -> 0 <= q <= 2 ->
  exists q' pre, step ivl now Pub (W x lf kc f true l k [] lst q) = Some (W x lf kc f true l k [] lst q', pre)
    /\ 1 <= q' <= 2 /\ mem 1 pre = false /\ mem 2 pre = false.
Proof.
  intros ivl now x lf kc f l k lst q Hx Hlf Hq.
  unfold step_gen. unfold max_publish_requests at 1. unfold W at 1. cbn [ws].
  unfold W at 1. cbn [pq].
  destruct (Z.leb_spec 2 q) as [H2|H2].
  - rewrite subs_tick_recv_noop by (assumption || lia).
    unfold max_publish_requests, W. cbn [ws pq]. destruct (Z.leb_spec 2 q); [|lia].
    exists q, [5]. repeat split; try lia.
  - unfold max_publish_requests, W. cbn [ws pq]. destruct (Z.leb_spec 2 q); [lia|].
    pose proof (subs_tick_recv_noop ivl now x lf kc f l k lst (q + 1) Hx Hlf ltac:(lia)) as E.
    unfold W in E. rewrite E. exists (q + 1), []. repeat split; try lia.
Qed.

(* a publish request: queued (or refused when two are queued already); the subscription itself
   does not change *)
Lemma alive_step_pub : forall l k ivl w cnt seen lst now,
  1 <= k -> 3 * k <= l -> 1 <= ivl -> InvA l k w cnt seen lst ->
  exists w' pre, step ivl now Pub w = Some (w', pre) /\ 1 <= pq w' /\
    alive_step_ok l k false cnt seen w' pre lst.
Proof.
  intros l k ivl w cnt seen lst now Hk Hl Hivl HI.
  inversion HI as [kc lst0 q Hq | lf kc lst0 q Hq Hlf | lf kc lst0 q cnt0 Hq Hkc Hc Hck Hlf]; subst; clear HI.
  - destruct (step_pub_noop ivl now Normal l kc false l k lst q ltac:(auto) ltac:(lia) Hq)
      as (q' & pre & E & Hq' & M1 & M2).
    do 2 eexists; split; [exact E|]. split; [cbn; lia|].
    eexists; split; [reflexivity|]. split; [discriminate|]. split; [exact M2|].
    right; right. repeat split; try assumption. apply IA_fresh. lia.
  - destruct (step_pub_noop ivl now Normal lf kc true l k lst q ltac:(auto) ltac:(lia) Hq)
      as (q' & pre & E & Hq' & M1 & M2).
    do 2 eexists; split; [exact E|]. split; [cbn; lia|].
    eexists; split; [reflexivity|]. split; [discriminate|]. split; [exact M2|].
    right; right. repeat split; try assumption. apply IA_sent; lia.
  - destruct (step_pub_noop ivl now KeepAlive lf kc true l k lst q ltac:(auto) ltac:(lia) Hq)
      as (q' & pre & E & Hq' & M1 & M2).
    do 2 eexists; split; [exact E|]. split; [cbn; lia|].
    eexists; split; [reflexivity|]. split; [discriminate|]. split; [exact M2|].
    right; right. repeat split; try assumption. apply IA_ka; lia.
Qed.

Ltac tick_open q :=
  unfold W, subs_tick_gen; cbn [ws pq]; unfold sub_tick_gen, interval_test;
  cbn [sb nq last st sstate_eqb state_nr Z.eqb Pos.eqb is_nil negb orb];
  (destruct (Z.ltb_spec 0 q); [|lia]);
  match goal with |- context [?i <=? 0] => destruct (Z.leb_spec i 0); [lia|] end.

(* a timer tick before the publishing interval has elapsed changes nothing *)
Lemma subs_tick_timer_early : forall ivl now x lf kc f l k lst q,
  1 <= ivl -> (x = Normal \/ x = KeepAlive) -> lf <> 1 -> 0 < q -> Z.max 0 (now - lst) < ivl ->
  subs_tick ivl now false (W x lf kc f true l k [] lst q) = Some (W x lf kc f true l k [] lst q, []).
Proof.
  intros ivl now x lf kc f l k lst q Hivl Hx Hlf Hq He.
  destruct Hx as [-> | ->]; tick_open q;
    (destruct (Z.leb_spec ivl (Z.max 0 (now - lst))); [lia|]); cbn [orb];
    unfold_us; cbn [andb is_active]; (destruct (Z.eqb_spec lf 1); [lia|]);
    cbn [andb orb negb more_than_one handle_action nq sb last drain ready_to_remove sstate_eqb state_nr st is_nil];
    reflexivity.
Qed.

(* row 7: the first keep-alive *)
Lemma subs_tick_row7 : forall ivl now kc l k lst q,
  1 <= ivl -> 2 <= l -> 0 < q -> ivl <= Z.max 0 (now - lst) ->
  subs_tick ivl now false (W Normal l kc false true l k [] lst q) =
    Some (W Normal (l - 1) kc true true l k [] now (q - 1), [1]).
Proof.
  intros ivl now kc l k lst q Hivl Hl Hq He. tick_open q.
  (destruct (Z.leb_spec ivl (Z.max 0 (now - lst))); [|lia]); cbn [orb].
  unfold_us; cbn [andb is_active]. (destruct (Z.eqb_spec l 1); [lia|]).
  cbn [andb orb negb more_than_one]. (destruct (Z.eqb_spec l 0); [lia|]).
  cbn [handle_action app nq sb last drain]. (destruct (Z.ltb_spec 0 q); [|lia]).
  cbn [ready_to_remove sstate_eqb state_nr st sb nq is_nil Z.eqb andb]. reflexivity.
Qed.

(* row 9: nothing to send, go to KeepAlive; a request is queued so the lifetime starts afresh *)
Lemma subs_tick_row9 : forall ivl now lf kc l k lst q,
  1 <= ivl -> 2 <= l -> 2 <= lf -> 0 < q -> ivl <= Z.max 0 (now - lst) ->
  subs_tick ivl now false (W Normal lf kc true true l k [] lst q) =
    Some (W KeepAlive (l - 1) k true true l k [] now q, []).
Proof.
  intros ivl now lf kc l k lst q Hivl Hl Hlf Hq He. tick_open q.
  (destruct (Z.leb_spec ivl (Z.max 0 (now - lst))); [|lia]); cbn [orb].
  unfold_us; cbn [andb is_active]. (destruct (Z.eqb_spec lf 1); [lia|]).
  cbn [andb orb negb more_than_one life]. (destruct (Z.eqb_spec l 0); [lia|]).
  cbn [handle_action app nq sb last drain].
  cbn [ready_to_remove sstate_eqb state_nr st sb nq is_nil Z.eqb andb]. reflexivity.
Qed.

(* row 15: the keep-alive counter has run down, send a keep-alive *)
Lemma subs_tick_row15 : forall ivl now lf l k lst q,
  1 <= ivl -> 2 <= l -> 2 <= lf -> 0 < q -> ivl <= Z.max 0 (now - lst) ->
  subs_tick ivl now false (W KeepAlive lf 1 true true l k [] lst q) =
    Some (W KeepAlive (l - 1) k true true l k [] now (q - 1), [1]).
Proof.
  intros ivl now lf l k lst q Hivl Hl Hlf Hq He. tick_open q.
  (destruct (Z.leb_spec ivl (Z.max 0 (now - lst))); [|lia]); cbn [orb].
  unfold_us; cbn [andb is_active]. (destruct (Z.eqb_spec lf 1); [lia|]).
  cbn [andb orb negb more_than_one life Z.eqb Pos.eqb]. (destruct (Z.eqb_spec l 0); [lia|]).
  cbn [handle_action app nq sb last drain]. (destruct (Z.ltb_spec 0 q); [|lia]).
  cbn [ready_to_remove sstate_eqb state_nr st sb nq is_nil Z.eqb andb]. reflexivity.
Qed.

(* row 16: count down to the next keep-alive *)
Lemma subs_tick_row16 : forall ivl now lf kc l k lst q,
  1 <= ivl -> 2 <= lf -> 2 <= kc -> 0 < q -> ivl <= Z.max 0 (now - lst) ->
  subs_tick ivl now false (W KeepAlive lf kc true true l k [] lst q) =
    Some (W KeepAlive (lf - 1) (kc - 1) true true l k [] now q, []).
Proof.
  intros ivl now lf kc l k lst q Hivl Hlf Hkc Hq He. tick_open q.
  (destruct (Z.leb_spec ivl (Z.max 0 (now - lst))); [|lia]); cbn [orb].
  unfold_us; cbn [andb is_active]. (destruct (Z.eqb_spec lf 1); [lia|]).
  cbn [andb orb negb more_than_one life]. (destruct (Z.eqb_spec kc 1); [lia|]).
  (destruct (Z.ltb_spec 1 kc); [|lia]). cbn [andb]. (destruct (Z.eqb_spec lf 0); [lia|]).
  cbn [handle_action app nq sb last drain].
  cbn [ready_to_remove sstate_eqb state_nr st sb nq is_nil Z.eqb andb]. reflexivity.
Qed.

(* a timer tick with a publish request queued *)
Lemma alive_step_timer : forall l k ivl w cnt seen lst now dt,
  1 <= k -> 3 * k <= l -> 1 <= ivl -> InvA l k w cnt seen lst -> 1 <= pq w ->
  let now' := now + dt in
  let el := ivl <=? Z.max 0 (now' - lst) in
  exists w' pre, step ivl now' (Timer dt) w = Some (w', pre) /\
    alive_step_ok l k el cnt seen w' pre (if el then now' else lst).
Proof.
  intros l k ivl w cnt seen lst now dt Hk Hl Hivl HI Hq now' el. subst el.
  unfold step_gen.
  inversion HI as [kc lst0 q Hq0 | lf kc lst0 q Hq0 Hlf | lf kc lst0 q cnt0 Hq0 Hkc Hc Hck Hlf]; subst; clear HI;
    cbn [W pq] in Hq; destruct (Z.leb_spec ivl (Z.max 0 (now' - lst))) as [He|He].
  - rewrite subs_tick_row7 by lia. do 2 eexists; split; [reflexivity|].
    eexists; split; [reflexivity|]. split; [discriminate|]. split; [reflexivity|].
    left. split; [reflexivity|]. apply IA_sent; lia.
  - rewrite subs_tick_timer_early by (auto; lia). do 2 eexists; split; [reflexivity|].
    eexists; split; [reflexivity|]. split; [discriminate|]. split; [reflexivity|].
    right; right. repeat split. apply IA_fresh; lia.
  - rewrite subs_tick_row9 by lia. do 2 eexists; split; [reflexivity|].
    eexists; split; [reflexivity|]. split; [discriminate|]. split; [reflexivity|].
    right; left. repeat split; try lia. apply IA_ka; lia.
  - rewrite subs_tick_timer_early by (auto; lia). do 2 eexists; split; [reflexivity|].
    eexists; split; [reflexivity|]. split; [discriminate|]. split; [reflexivity|].
    right; right. repeat split. apply IA_sent; lia.
  - destruct (Z.eq_dec kc 1) as [->|Hk1].
    + rewrite subs_tick_row15 by lia. do 2 eexists; split; [reflexivity|].
      eexists; split; [reflexivity|]. split; [discriminate|]. split; [reflexivity|].
      left. split; [reflexivity|]. apply IA_ka; lia.
    + rewrite subs_tick_row16 by lia. do 2 eexists; split; [reflexivity|].
      eexists; split; [reflexivity|]. split; [discriminate|]. split; [reflexivity|].
      right; left. repeat split; try lia. apply IA_ka; lia.
  - rewrite subs_tick_timer_early by (auto; lia). do 2 eexists; split; [reflexivity|].
    eexists; split; [reflexivity|]. split; [discriminate|]. split; [reflexivity|].
    right; right. repeat split. apply IA_ka; lia.
Qed.

Lemma check_alive_step : forall l k f cnt seen w' pre lst' fl' t',
  alive_step_ok l k f cnt seen w' pre lst' ->
  (forall cnt' seen', InvA l k w' cnt' seen' lst' -> check_alive k cnt' seen' fl' t' = true) ->
  check_alive k cnt seen (f :: fl') (mk_obs pre (snapshot w') :: t') = true.
Proof.
  intros l k f cnt seen w' pre lst' fl' t' (s & Hs & Hs0 & M2 & Hd) Hrest.
  cbn [check_alive]. rewrite Hs. cbn [o_pre]. rewrite M2.
  destruct (Z.eqb_spec s 0); [contradiction|]. cbn [negb andb].
  destruct Hd as [(M1 & HI) | [(M1 & -> & -> & Hc & HI) | (M1 & -> & HI)]]; rewrite M1.
  - apply Hrest with (1 := HI).
  - destruct (Z.leb_spec (cnt + 1) k); [|lia]. cbn [andb]. apply Hrest with (1 := HI).
  - apply Hrest with (1 := HI).
Qed.

Lemma alive_inv : forall l k ivl, 1 <= k -> 3 * k <= l -> 1 <= ivl ->
  forall r w cnt seen lst now prev,
  InvA l k w cnt seen lst -> avail_from prev r = true -> (prev = true -> 1 <= pq w) ->
  check_alive k cnt seen (elapsed_flags ivl now lst r) (fst (trace ivl now w r)) = true.
Proof.
  intros l k ivl Hk Hl Hivl. induction r as [|o r IH]; intros w cnt seen lst now prev HI Hav Hq.
  - reflexivity.
  - destruct o as [|dt].
    + destruct (alive_step_pub l k ivl w cnt seen lst (op_time now Pub) Hk Hl Hivl HI)
        as (w' & pre & E & Hq' & Hok).
      rewrite (trace_cons _ _ _ _ _ _ _ E). cbn [fst elapsed_flags op_time].
      apply (check_alive_step l k false cnt seen w' pre lst); [assumption|].
      intros cnt' seen' HI'. apply (IH w' cnt' seen' lst now true HI'); [exact Hav | intros _; exact Hq'].
    + cbn [avail_from] in Hav. apply andb_true_iff in Hav. destruct Hav as [-> Hav].
      destruct (alive_step_timer l k ivl w cnt seen lst now dt Hk Hl Hivl HI (Hq eq_refl))
        as (w' & pre & E & Hok).
      cbn zeta in E, Hok.
      rewrite (trace_cons ivl now w (Timer dt) r w' pre E). cbn [fst elapsed_flags op_time].
      destruct (ivl <=? Z.max 0 (now + dt - lst)).
      * apply (check_alive_step l k true cnt seen w' pre (now + dt)); [assumption|].
        intros cnt' seen' HI'. apply (IH w' cnt' seen' (now + dt) (now + dt) false HI'); [exact Hav | discriminate].
      * apply (check_alive_step l k false cnt seen w' pre lst); [assumption|].
        intros cnt' seen' HI'. apply (IH w' cnt' seen' lst (now + dt) false HI'); [exact Hav | discriminate].
Qed.

Lemma step_create_pub : forall k l ivl now,
  step ivl now Pub (init_world k l true) = Some (W Normal l k false true l k [] 0 1, []).
Proof. intros. unfold init_world. step_compute. cbn. reflexivity. Qed.

Theorem alive_holds : forall k l ivl ops, 1 <= k -> 3 * k <= l -> 1 <= ivl -> avail ops = true ->
  check_alive k 0 false (flags ivl ops) (fst (trace ivl 0 (init_world k l true) ops)) = true.
Proof.
  intros k l ivl ops Hk Hl Hivl Hav. destruct ops as [|o r]; [reflexivity|].
  destruct o as [|dt]; [|discriminate Hav].
  pose proof (step_create_pub k l ivl (op_time 0 Pub)) as E.
  rewrite (trace_cons _ _ _ _ _ _ _ E). cbn [flags fst op_time].
  apply (check_alive_step l k false 0 false _ [] 0).
  - eexists; split; [reflexivity|]. split; [discriminate|]. split; [reflexivity|].
    right; right. repeat split. apply IA_fresh; lia.
  - intros cnt' seen' HI'. apply (alive_inv l k ivl Hk Hl Hivl r _ cnt' seen' 0 0 true HI');
      [exact Hav | intros _; cbn; lia].
Qed.
