(* C06 — the use of implicit conversion by the event filter operators (third anchor of the
   property): lib/src/server/events/operator.rs `convert` (the operand whose type has the lower
   precedence is implicitly converted to the type of the other) and `compare_operands` /
   `compare_values!` with the five operators eq, gt, lt, gte, lte built on it, on numeric operands.
   `Variant::convert` is the interpreter of the extracted table of C06/Model.v; the precedence
   ranks are extracted from VariantTypeId::precedence (Gen/C06Prec.v).

   No proofs in this file. *)
From Coq Require Import List ZArith Bool.
From Flocq Require Import Core IEEE754.BinarySingleNaN.
From Flocq Require IEEE754.Binary IEEE754.Bits.
From OV Require Import C06.Model.
From OV Require Gen.C06Prec.
Import ListNotations.
Open Scope Z_scope.

(* ---- VariantTypeId::precedence ---------------------------------------------------------------- *)
Fixpoint lookup1 (rows : list (ty * Z)) (t : ty) : option Z :=
  match rows with
  | [] => None
  | (t', n) :: rest => if ty_eqb t t' then Some n else lookup1 rest t
  end.
Definition precedence (t : ty) : Z :=
  match lookup1 Gen.C06Prec.precedence_rows t with Some n => n | None => Gen.C06Prec.precedence_default end.

(* ---- operator.rs `convert` --------------------------------------------------------------------- *)
Definition op_convert (cfg : config) (t1 t2 : ty) (v1 v2 : val) : res * res :=
  if ty_eqb t1 t2 then (Res t1 v1, Res t2 v2)
  else if precedence t1 <? precedence t2 then (Res t1 v1, convert cfg t2 t1 v2)
  else (convert cfg t1 t2 v1, Res t2 v2).

(* ---- compare_values! / compare_operands --------------------------------------------------------- *)
(* ComparisonResult; CUnm: outside the model (never reached on numeric operands) *)
Inductive cmp := CLt | CEq | CGt | CNe | CErr | CUnm.

Definition cmp_of (c : option comparison) : cmp :=
  match c with Some Lt => CLt | Some Eq => CEq | Some Gt => CGt | None => CNe end.
(* `v1 < v2`, `v1 == v2`, `v1 > v2`, else unordered (a NaN); -0.0 == +0.0 *)
Definition cmp_vals (a b : val) : cmp :=
  match a, b with
  | VInt x, VInt y => cmp_of (Some (x ?= y))
  | VF32 x, VF32 y => cmp_of (Bcompare x y)
  | VF64 x, VF64 y => cmp_of (Bcompare x y)
  | _, _ => CUnm
  end.

(* after `convert`: `match v1.type_id()`; a failed conversion left Variant::Empty on one side, which
   is ComparisonResult::Error whichever side it is on *)
Definition compare (cfg : config) (t1 t2 : ty) (v1 v2 : val) : cmp :=
  match op_convert cfg t1 t2 v1 v2 with
  | (Unmodelled, _) | (_, Unmodelled) => CUnm
  | (Res ta a, Res tb b) => if ty_eqb ta tb then cmp_vals a b else CErr
  | _ => CErr
  end.

(* eq, gt, lt, gte, lte as 0 / 1 *)
Definition b2z (b : bool) : Z := if b then 1 else 0.
Definition five (c : cmp) : list Z :=
  match c with
  | CLt => [0; 0; 1; 0; 1]
  | CEq => [1; 0; 0; 1; 1]
  | CGt => [0; 1; 0; 1; 0]
  | CNe | CErr => [0; 0; 0; 0; 0]
  | CUnm => [-3]
  end.

(* ---- correspondence interface -------------------------------------------------------------------- *)
(* one comparison: (type, payload) of both literal operands; a case is a HISTORY of comparisons made
   one after the other in the same process (the same bit pattern under several types, the same pair
   in both orders, ...) *)
Record item := mk_item { i_t1 : ty; i_p1 : Z; i_t2 : ty; i_p2 : Z }.

Definition run_item (cfg : config) (i : item) : list Z :=
  match decode (i_t1 i) (i_p1 i), decode (i_t2 i) (i_p2 i) with
  | Some a, Some b => five (compare cfg (i_t1 i) (i_t2 i) a b)
  | _, _ => [-3]
  end.
Definition run_cmp_with (cfg : config) (l : list item) : list Z := flat_map (run_item cfg) l.

(* ---- the property on comparisons, written without the model ---------------------------------------
   Part 4 "data precedence": rank of the ten numeric types, written out here by hand (the extracted
   table is compared with it in Props/C06.v). *)
Definition spec_rank (t : ty) : Z :=
  match t with
  | TDouble => 1 | TFloat => 2 | TInt64 => 3 | TUInt64 => 4 | TInt32 => 5 | TUInt32 => 6
  | TInt16 => 8 | TUInt16 => 9 | TSByte => 10 | TByte => 11 | _ => 100
  end.
Definition is_num (t : ty) : bool := spec_rank t <? 100.

(* the operand of lower rank [l] (type tl, payload pl) is converted to the type tw of the other [w]:
   - to an integer type: possible exactly when the number is in its range, and then exact;
   - to a float type: always possible; exact when the number is representable (an integer of at
     most [prec] bits, a Float going to Double), otherwise rounded to nearest, which is monotone and
     leaves the other operand (representable) where it is: the order can only collapse to "equal" *)
Definition mant_bits (t : ty) : Z := match t with TFloat => 24 | _ => 53 end.
Definition exactly_representable (tl tw : ty) (pl : Z) : bool :=
  match int_ty tl with
  | Some _ => Z.abs pl <=? 2 ^ mant_bits tw
  | None => true      (* Float -> Double, or the same float type *)
  end.

Definition xcmp (x y : xval) : option comparison :=
  match x, y with
  | XNaN, _ | _, XNaN => None
  | XInf s, XInf s' => Some (if Bool.eqb s s' then Eq else if s then Lt else Gt)
  | XInf s, XFin _ => Some (if s then Lt else Gt)
  | XFin _, XInf s => Some (if s then Gt else Lt)
  | XFin a, XFin b => Some (dy_l a b ?= dy_r a b)
  end.

Definition list_eqb (a b : list Z) : bool :=
  (Nat.eqb (length a) (length b)) && forallb (fun p => fst p =? snd p) (combine a b).

Definition check_item (i : item) (o : list Z) : bool :=
  let t1 := i_t1 i in let t2 := i_t2 i in
  if negb (is_num t1 && is_num t2) then negb (list_eqb o [-2])
  else
    match src_view t1 (i_p1 i), src_view t2 (i_p2 i) with
    | Some x, Some y =>
      (* which operand moves, and whether it can *)
      let first_wins := spec_rank t1 <=? spec_rank t2 in
      let tw := if first_wins then t1 else t2 in
      let tl := if first_wins then t2 else t1 in
      let pl := if first_wins then i_p2 i else i_p1 i in
      let fits := match int_ty tw with
                  | Some (s, b) => in_range s b pl
                  | None => true
                  end in
      if negb fits then list_eqb o [0; 0; 0; 0; 0]
      else match xcmp x y with
           | None => list_eqb o [0; 0; 0; 0; 0]
           | Some c =>
             let exact := five (cmp_of (Some c)) in
             let is_inf := match x, y with XInf _, _ | _, XInf _ => true | _, _ => false end in
             if exactly_representable tl tw pl || is_inf || match int_ty tw with Some _ => true | None => false end
             then list_eqb o exact
             else list_eqb o exact || list_eqb o (five CEq)
           end
    | _, _ => false
    end.

Fixpoint check_items (l : list item) (o : list Z) : bool :=
  match l with
  | [] => match o with [] => true | _ => false end
  | i :: r => check_item i (firstn 5 o) && check_items r (skipn 5 o)
  end.

(* valid comparison cases: numeric types, payloads in range *)
Definition item_ok (i : item) : Prop :=
  is_num (i_t1 i) = true /\ is_num (i_t2 i) = true /\
  match src_range (i_t1 i), src_range (i_t2 i) with
  | Some (lo1, hi1), Some (lo2, hi2) => lo1 <= i_p1 i <= hi1 /\ lo2 <= i_p2 i <= hi2
  | _, _ => False
  end.
