#!/usr/bin/env python3
"""C41 translator: the configuration structs of client/config.rs and server/config.rs that derive
Serialize/Deserialize, with their field names, types and serde attributes, as a Coq schema in
coq/Gen/C41Schema.v.  Also: which fields each `is_valid` reads, and which serde attributes occur.
Anything the schema language of coq/C41/Schema.v cannot express (an unknown attribute, an unknown
type, a default function that is not a string constant) makes the translator fail."""
import os, re, sys
REPO = os.environ.get("VERIF_REPO", "/repo")
V = os.path.dirname(os.path.dirname(os.path.dirname(os.path.abspath(__file__))))


def rd(p):
    return open(os.path.join(REPO, "lib/src", p)).read()


def strip_comments(src):
    src = re.sub(r"/\*.*?\*/", "", src, flags=re.S)
    return "\n".join(re.sub(r"//.*$", "", l) for l in src.split("\n"))


def block_after(src, i):
    """text between the brace at/after position i and its match"""
    j = src.index("{", i)
    d, k = 1, j + 1
    while d:
        d += {"{": 1, "}": -1}.get(src[k], 0)
        k += 1
    return src[j + 1:k - 1], k


def items_of(body):
    """attributes and field declarations of a struct body (fields split at top-level commas)"""
    i, n, out = 0, len(body), []
    while i < n:
        if body[i].isspace() or body[i] == ",":
            i += 1; continue
        if body.startswith("#[", i):
            d, k = 1, i + 2
            while d:
                d += {"[": 1, "]": -1}.get(body[k], 0); k += 1
            out.append(("attr", body[i + 2:k - 1])); i = k; continue
        d, k = 0, i
        while k < n and not (body[k] == "," and d == 0):
            d += {"<": 1, "(": 1, "[": 1, ">": -1, ")": -1, "]": -1}.get(body[k], 0); k += 1
        out.append(("field", body[i:k])); i = k + 1
    return out


INTS = {"u8": (0, 2**8 - 1), "u16": (0, 2**16 - 1), "u32": (0, 2**32 - 1), "u64": (0, 2**64 - 1),
        "usize": (0, 2**64 - 1), "i32": (-2**31, 2**31 - 1), "i64": (-2**63, 2**63 - 1)}


def z(n):
    return "(%d)" % n if n < 0 else "%d" % n


def ty(t, prefix, names):
    t = t.strip()
    if t == "String": return "TString"
    if t == "bool": return "TBool"
    if t in INTS: return "(TInt %s %s)" % (z(INTS[t][0]), z(INTS[t][1]))
    if t == "f64": return "TF64"
    if t == "PathBuf": return "TPath"
    if t == "Duration": return "TDuration"
    m = re.fullmatch(r"Option<(.*)>", t)
    if m: return "(TOpt %s)" % ty(m.group(1), prefix, names)
    m = re.fullmatch(r"Vec<(.*)>", t)
    if m: return "(TVec %s)" % ty(m.group(1), prefix, names)
    m = re.fullmatch(r"BTreeMap<\s*String\s*,\s*(.*)>", t)
    if m: return "(TMapS %s)" % ty(m.group(1), prefix, names)
    if re.fullmatch(r"BTreeSet<\s*String\s*>", t): return "TSetS"
    if re.fullmatch(r"\w+", t):
        if t in names: return '(TStruct "%s.%s")' % (prefix, t)
        return '(TOpaque "%s")' % t
    sys.exit("c41_schema: type not understood: %s" % t)


def string_const(src, fn_path):
    """value of a `fn name() -> String` whose body is CONST.to_string() / "lit".to_string() / String::from("lit")"""
    name = fn_path.split("::")[-1]
    m = re.search(r"fn\s+%s\s*\(\s*\)\s*->\s*String" % re.escape(name), src)
    if not m: sys.exit("c41_schema: default function %s not found" % fn_path)
    body, _ = block_after(src, m.end())
    body = body.strip()
    m = re.fullmatch(r'"((?:[^"\\]|\\.)*)"\s*\.\s*(?:to_string|into|to_owned)\(\)', body) or \
        re.fullmatch(r'String::from\(\s*"((?:[^"\\]|\\.)*)"\s*\)', body)
    if m: return m.group(1)
    m = re.fullmatch(r"(\w+)\s*\.\s*(?:to_string|into|to_owned)\(\)", body)
    if m:
        c = re.search(r'const\s+%s\s*:\s*&(?:\'static\s+)?str\s*=\s*"((?:[^"\\]|\\.)*)"' % m.group(1), src)
        if c: return c.group(1)
    sys.exit("c41_schema: default function %s is not a string constant: %s" % (fn_path, body))


def coq_str(s):
    if any(ord(c) > 126 or ord(c) < 32 or c == '"' for c in s): sys.exit("c41_schema: unsupported character in %r" % s)
    return '"%s"' % s


def structs_of(path, prefix):
    src = strip_comments(rd(path))
    out, attrs_seen = [], set()
    names = set(re.findall(r"#\[derive\([^)]*\bSerialize\b[^)]*\)\]\s*(?:#\[[^\]]*\]\s*)*pub\s+struct\s+(\w+)", src))
    for m in re.finditer(r"#\[derive\(([^)]*)\)\]\s*((?:#\[[^\]]*\]\s*)*)pub\s+struct\s+(\w+)\s*\{", src):
        derives, cattrs, name = m.group(1), m.group(2), m.group(3)
        if "Serialize" not in derives: continue
        if ("Deserialize" not in derives) or ("PartialEq" not in derives):
            sys.exit("c41_schema: %s does not derive Deserialize and PartialEq" % name)
        if "serde(" in cattrs: sys.exit("c41_schema: container attribute on %s not supported: %s" % (name, cattrs.strip()))
        body, _ = block_after(src, m.end() - 1)
        fields, pending = [], []
        for kind, text in items_of(body):
            if kind == "attr":
                pending.append(text.strip()); continue
            fm = re.fullmatch(r"(?:pub(?:\([^)]*\))?\s+)?(\w+)\s*:\s*(.+)", text.strip(), flags=re.S)
            if not fm: sys.exit("c41_schema: field not understood in %s: %r" % (name, text))
            fname, ftype = fm.group(1), re.sub(r"\s+", " ", fm.group(2).strip())
            key, skip, skip_none, default = fname, False, False, None
            for a in pending:
                m2 = re.fullmatch(r"serde\((.*)\)", a, flags=re.S)
                if not m2: sys.exit("c41_schema: attribute on %s.%s not supported: %s" % (name, fname, a))
                for item in re.findall(r'\w+(?:\s*=\s*"[^"]*")?', m2.group(1)):
                    item = item.strip(); attrs_seen.add(item.split("=")[0].strip())
                    if item == "skip": skip = True
                    elif re.fullmatch(r'skip_serializing_if\s*=\s*"Option::is_none"', item): skip_none = True
                    elif re.fullmatch(r'rename\s*=\s*"[^"]*"', item): key = re.search(r'"([^"]*)"', item).group(1)
                    elif re.fullmatch(r'default\s*=\s*"[^"]*"', item): default = string_const(src, re.search(r'"([^"]*)"', item).group(1))
                    else: sys.exit("c41_schema: serde attribute on %s.%s not supported: %s" % (name, fname, item))
            pending = []
            fields.append((fname, key, ty(ftype, prefix, names), skip, skip_none, default))
        # fields read by is_valid of this struct
        deps = set()
        for im in re.finditer(r"impl(?:\s+\w+\s+for)?\s+%s\s*\{" % name, src):
            ibody, _ = block_after(src, im.end() - 1)
            for fm in re.finditer(r"fn\s+is_valid\s*\(", ibody):
                fbody, _ = block_after(ibody, fm.end())
                deps |= set(re.findall(r"self\s*\.\s*(\w+)", fbody))
        deps = [f[0] for f in fields if f[0] in deps]
        out.append(("%s.%s" % (prefix, name), fields, deps))
    return out, attrs_seen


client, a1 = structs_of("client/config.rs", "C")
server, a2 = structs_of("server/config.rs", "S")
allst = client + server
if not any(n == "C.ClientConfig" for n, _, _ in allst) or not any(n == "S.ServerConfig" for n, _, _ in allst):
    sys.exit("c41_schema: ClientConfig / ServerConfig not found")
# save/load go through serde_yaml to_string / from_str and nothing else
core = strip_comments(rd("core/config.rs"))
save_body, _ = block_after(core, core.index("fn save"))
load_body, _ = block_after(core, core.index("fn load"))
uses_yaml = ("serde_yaml::to_string(&self)" in save_body) and ("serde_yaml::from_str(&s)" in load_body)
save_checks_valid = bool(re.search(r"if\s+self\.is_valid\(\)", save_body))
save_unwraps = "serde_yaml::to_string(&self).unwrap()" in save_body

o = ["(* GENERATED by tools/translate/c41_schema.py from client/config.rs, server/config.rs, core/config.rs — do not edit *)",
     "From Coq Require Import List String ZArith.", "From OV Require Import C41.Schema.", "Import ListNotations.",
     "Local Open Scope string_scope.", "Local Open Scope Z_scope.", "",
     "Definition cfg_schema : schema := ["]
rows = []
for n, fields, _ in allst:
    fl = ";\n     ".join('mk_field %s %s %s %s %s %s' % (coq_str(f[0]), coq_str(f[1]), f[2], "true" if f[3] else "false",
                                                      "true" if f[4] else "false",
                                                      ("(Some (zs %s))" % coq_str(f[5])) if f[5] is not None else "None") for f in fields)
    rows.append('  (%s,\n    [%s])' % (coq_str(n), fl))
o.append(";\n".join(rows) + "].")
o.append("")
o.append("(* the fields each struct's is_valid reads *)")
o.append("Definition isvalid_deps : list (string * list string) := [")
o.append(";\n".join('  (%s, [%s])' % (coq_str(n), "; ".join(coq_str(d) for d in deps)) for n, _, deps in allst) + "].")
o.append("")
o.append('Definition root_client : string := "C.ClientConfig".')
o.append('Definition root_server : string := "S.ServerConfig".')
o.append("(* Config::save is `if self.is_valid() { serde_yaml::to_string(&self) .. }`, Config::load is serde_yaml::from_str *)")
o.append("Definition save_load_use_serde_yaml : bool := %s." % ("true" if uses_yaml else "false"))
o.append("Definition save_refuses_invalid : bool := %s." % ("true" if save_checks_valid else "false"))
o.append("(* save calls .unwrap() on the serialiser's result: an error there is a panic *)")
o.append("Definition save_unwraps_serializer : bool := %s." % ("true" if save_unwraps else "false"))
out = "\n".join(o) + "\n"
path = os.path.join(V, "coq/Gen/C41Schema.v")
try: old = open(path).read()
except FileNotFoundError: old = None
if old != out: open(path, "w").write(out)
print("c41_schema: %d structs, %d fields, serde attributes %s, skipped %s" % (
    len(allst), sum(len(f) for _, f, _ in allst), sorted(a1 | a2),
    [(n, f[0]) for n, fs, _ in allst for f in fs if f[3]]))
