(* C42 — the millisecond RFC 3339 form reads back to the same instant, for every instant of
   0001-01-01 .. 9999-12-31 with millisecond precision (in particular the whole OPC UA range). *)
From Coq Require Import List ZArith Bool Lia.
From OV Require Import C42.Text.
Import ListNotations.
Open Scope Z_scope.

Ltac dm := Z.div_mod_to_equations; lia.

(* ---- bounded universal statements by computation --------------------------------------------- *)
Fixpoint all_from (fuel : nat) (z : Z) (f : Z -> bool) : bool :=
  match fuel with O => true | S k => f z && all_from k (z + 1) f end.

Lemma all_from_spec f : forall fuel z0, all_from fuel z0 f = true ->
  forall z, z0 <= z < z0 + Z.of_nat fuel -> f z = true.
Proof.
  induction fuel as [|k IH]; intros z0 H z Hz; [lia|].
  cbn [all_from] in H. apply andb_true_iff in H as [H1 H2].
  destruct (Z.eq_dec z z0) as [->|Hne]; [exact H1|].
  apply (IH (z0 + 1) H2). lia.
Qed.

(* ---- the calendar inside one 400-year era ------------------------------------------------------ *)
Definition chk_doe (doe : Z) : bool :=
  let '(yoe, m, d) := civil_of_doe doe in
  (0 <=? yoe) && (yoe <? 400) && (doe_of_civil yoe m d =? doe) &&
  (1 <=? m) && (m <=? 12) && (1 <=? d) && (d <=? 31) &&
  ((146036 <? doe) || (yoe + jf m <=? 399)) && ((doe <? 306) || (1 <=? yoe + jf m)).

Lemma chk_doe_all : all_from (Z.to_nat ERA_DAYS) 0 chk_doe = true.
Proof. vm_compute. reflexivity. Qed.

Lemma civil_of_doe_spec doe : 0 <= doe < ERA_DAYS ->
  let '(yoe, m, d) := civil_of_doe doe in
  0 <= yoe < 400 /\ doe_of_civil yoe m d = doe /\ 1 <= m <= 12 /\ 1 <= d <= 31 /\
  (doe <= 146036 -> yoe + jf m <= 399) /\ (306 <= doe -> 1 <= yoe + jf m).
Proof.
  intro H.
  pose proof (all_from_spec chk_doe _ _ chk_doe_all doe) as Hc.
  rewrite Z2Nat.id in Hc by (unfold ERA_DAYS; lia). specialize (Hc ltac:(lia)).
  unfold chk_doe in Hc. destruct (civil_of_doe doe) as [[yoe m] d].
  repeat (apply andb_true_iff in Hc as [Hc ?]).
  repeat match goal with
         | H : (_ || _) = true |- _ => apply orb_true_iff in H
         end.
  repeat match goal with
         | H : (_ <=? _) = true |- _ => apply Z.leb_le in H
         | H : (_ <? _) = true |- _ => apply Z.ltb_lt in H
         | H : (_ =? _) = true |- _ => apply Z.eqb_eq in H
         | H : _ \/ _ |- _ => destruct H
         end; repeat split; lia.
Qed.

Lemma civil_roundtrip z :
  let '(y, m, d) := civil_of_days z in
  days_of_civil y m d = z /\ 1 <= m <= 12 /\ 1 <= d <= 31.
Proof.
  unfold civil_of_days.
  pose proof (civil_of_doe_spec (z mod ERA_DAYS) ltac:(unfold ERA_DAYS; dm)) as H.
  destruct (civil_of_doe (z mod ERA_DAYS)) as [[yoe m] d].
  destruct H as (Hy & Hdoe & Hm & Hd & _).
  split; [|split; assumption].
  unfold days_of_civil.
  replace (yoe + z / ERA_DAYS * 400 + jf m - jf m) with (yoe + z / ERA_DAYS * 400) by lia.
  replace ((yoe + z / ERA_DAYS * 400) / 400) with (z / ERA_DAYS) by dm.
  replace ((yoe + z / ERA_DAYS * 400) mod 400) with yoe by dm.
  rewrite Hdoe. unfold ERA_DAYS. dm.
Qed.

(* years 1 .. 9999 for days 0001-01-01 .. 9999-12-31 (counted from 1601-01-01: -584388 .. 3067670) *)
Lemma civil_year_range days : -584388 <= days <= 3067670 ->
  let '(y, _, _) := civil_of_days (days + DAY0) in 1 <= y <= 9999.
Proof.
  intro H. unfold civil_of_days, DAY0.
  pose proof (civil_of_doe_spec ((days + 584694) mod ERA_DAYS) ltac:(unfold ERA_DAYS; dm)) as Hs.
  destruct (civil_of_doe ((days + 584694) mod ERA_DAYS)) as [[yoe m] d].
  destruct Hs as (Hy & _ & Hm & _ & Hlast & Hfirst).
  assert (Hj : 0 <= jf m <= 1) by (unfold jf; destruct (m <=? 2); lia).
  unfold ERA_DAYS in *.
  assert (He : 0 <= (days + 584694) / 146097 <= 24) by dm.
  assert (H0 : (days + 584694) / 146097 = 0 -> 306 <= (days + 584694) mod 146097) by dm.
  assert (H24 : (days + 584694) / 146097 = 24 -> (days + 584694) mod 146097 <= 146036) by dm.
  lia.
Qed.

(* ---- fixed-width numbers --------------------------------------------------------------------- *)
Lemma isd n : 0 <= n <= 9 -> is_digit (48 + n) = true.
Proof. intro; unfold is_digit; apply andb_true_iff; split; apply Z.leb_le; lia. Qed.

Lemma num_pad2 n : 0 <= n <= 99 -> num_of (pad2 n) 0 = Some n.
Proof. intro H. unfold pad2. cbn [num_of]. rewrite !isd by dm. f_equal. dm. Qed.
Lemma num_pad3 n : 0 <= n <= 999 -> num_of (pad3 n) 0 = Some n.
Proof. intro H. unfold pad3. cbn [num_of]. rewrite !isd by dm. f_equal. dm. Qed.
Lemma num_pad4 n : 0 <= n <= 9999 -> num_of (pad4 n) 0 = Some n.
Proof. intro H. unfold pad4. cbn [num_of]. rewrite !isd by dm. f_equal. dm. Qed.

(* ---- the time stamp text ----------------------------------------------------------------------- *)
Lemma parse_date_text t : TICKS_Y1 <= t < TICKS_Y10000 ->
  parse_date_ms (date_text t) = Some (t / TICKS_PER_MS).
Proof.
  intro Ht. unfold date_text.
  remember (t / TICKS_PER_MS) as ms eqn:Ems.
  remember (ms / MS_PER_DAY) as days eqn:Edays.
  remember (ms mod MS_PER_DAY) as r eqn:Er.
  assert (Hdays : -584388 <= days <= 3067670)
    by (subst; unfold TICKS_Y1, TICKS_Y10000, TICKS_PER_MS, MS_PER_DAY in *; dm).
  assert (Hr : 0 <= r < 86400000) by (subst r; unfold MS_PER_DAY; dm).
  pose proof (civil_roundtrip (days + DAY0)) as Hciv.
  pose proof (civil_year_range days Hdays) as Hyr.
  destruct (civil_of_days (days + DAY0)) as [[y m] d].
  destruct Hciv as (Hciv & Hm & Hd).
  remember (r / 3600000) as hh eqn:Ehh.
  remember (r / 60000 mod 60) as mi eqn:Emi.
  remember (r / 1000 mod 60) as ss eqn:Ess.
  remember (r mod 1000) as ff eqn:Eff.
  assert (Hhh : 0 <= hh <= 23) by (subst hh; dm).
  assert (Hmi : 0 <= mi <= 59) by (subst mi; dm).
  assert (Hss : 0 <= ss <= 59) by (subst ss; dm).
  assert (Hff : 0 <= ff <= 999) by (subst ff; dm).
  unfold parse_date_ms.
  cbn -[Z.div Z.modulo Z.mul Z.add Z.sub Z.opp num_of days_of_civil Z.ltb Z.leb].
  change [48 + y / 1000 mod 10; 48 + y / 100 mod 10; 48 + y / 10 mod 10; 48 + y mod 10] with (pad4 y).
  change [48 + m / 10 mod 10; 48 + m mod 10] with (pad2 m).
  change [48 + d / 10 mod 10; 48 + d mod 10] with (pad2 d).
  change [48 + hh / 10 mod 10; 48 + hh mod 10] with (pad2 hh).
  change [48 + mi / 10 mod 10; 48 + mi mod 10] with (pad2 mi).
  change [48 + ss / 10 mod 10; 48 + ss mod 10] with (pad2 ss).
  change [48 + ff / 100 mod 10; 48 + ff / 10 mod 10; 48 + ff mod 10] with (pad3 ff).
  rewrite num_pad4 by lia. rewrite !num_pad2 by lia. rewrite num_pad3 by lia.
  replace ((1 <=? m) && (m <=? 12) && (1 <=? d) && (d <=? 31) && (hh <? 24) && (mi <? 60) && (ss <? 60)) with true.
  2:{ symmetry. repeat (apply andb_true_iff; split); try apply Z.leb_le; try apply Z.ltb_lt; lia. }
  f_equal. rewrite Hciv. subst hh mi ss ff. unfold MS_PER_DAY in *. dm.
Qed.

Theorem date_roundtrip t : 0 <= t <= ENDTIMES_TICKS -> t mod TICKS_PER_MS = 0 ->
  parse_date (date_text t) = Some t.
Proof.
  intros Hr Hm. unfold parse_date.
  rewrite parse_date_text by (unfold TICKS_Y1, TICKS_Y10000, ENDTIMES_TICKS in *; lia).
  replace (t / TICKS_PER_MS * TICKS_PER_MS) with t by (unfold TICKS_PER_MS in *; dm).
  replace (t <? 0) with false by (symmetry; apply Z.ltb_ge; lia).
  replace (ENDTIMES_TICKS <? t) with false by (symmetry; apply Z.ltb_ge; lia).
  reflexivity.
Qed.

(* sub-millisecond digits are dropped; instants outside the OPC UA range are clipped *)
Theorem date_roundtrip_general t : TICKS_Y1 <= t < TICKS_Y10000 ->
  parse_date (date_text t) =
  Some (let t' := t / TICKS_PER_MS * TICKS_PER_MS in
        if t' <? 0 then 0 else if ENDTIMES_TICKS <? t' then ENDTIMES_TICKS else t').
Proof. intro H. unfold parse_date. rewrite parse_date_text by exact H. reflexivity. Qed.

Lemma date_text_nonempty t : date_text t <> [].
Proof.
  unfold date_text. destruct (civil_of_days (t / TICKS_PER_MS / MS_PER_DAY + DAY0)) as [[y m] d].
  discriminate.
Qed.
