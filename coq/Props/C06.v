(* C06 — Implicit Variant conversion never changes a numeric value.  Statements only.

   [gen_cfg] is the configuration TRANSLATED from lib/src/types/variant.rs (Gen/C06Table.v): the
   (source, target, rule) arms of Variant::convert, the explicit arms of Variant::cast and the
   comparators of the cast macros.  [convert] / [cast] interpret it with Rust's semantics of `as`,
   try_from, f64::round and IEEE comparison (C06/Model.v).  Floats are Flocq binary_float; [valR] is
   the real number a value denotes, ZnearestA is rounding to the nearest integer with ties away
   from zero, `round radix2 (FLT_exp emin prec) ZnearestE` is IEEE round-to-nearest-even. *)
From Coq Require Import List ZArith Bool Reals.
From Flocq Require Import Core IEEE754.BinarySingleNaN.
From OV Require Import C06.Model C06.Spec C06.Proofs C06.OracleProofs C06.Examples.
Import ListNotations.
Open Scope Z_scope.

(* The translated tables have the shape the generic theorems need: every implicit integer arm is a
   widening `as`, a try_from or a `v < 0` guard into an unsigned type at least as wide; integer ->
   float and Float -> Double are `as`; no implicit float -> integer or Double -> Float arm; every
   remaining numeric pair has a cast_to_integer! / cast_float_to_integer!(round(v)) / `as f32` arm;
   the macros compare with <, >=, <= / >=, < (MAX + 1.0); and both float bounds are exact. *)
Theorem C06_table_ok : cfg_ok gen_cfg = true.
Proof. exact gen_cfg_ok. Qed.
Print Assumptions C06_table_ok.

(* Key lemma of the repaired cast: for every integer type, in both float formats, `MIN as f` is MIN
   and `(MAX as f) + 1.0` is exactly 2^k (k = bits, or bits - 1 for a signed type), so that
   MIN <= v < MAX + 1 compared as floats is the exact range test. *)
Theorem C06_range_bounds : forall s b, In (s, b) int_types ->
  (B2R (f_of_Z 24 128 (pmin s b)) = IZR (pmin s b) /\
   B2R (f_upper 24 128 true (pmax s b)) = IZR (2 ^ (if s then b - 1 else b)) /\
   B2R (f_of_Z 53 1024 (pmin s b)) = IZR (pmin s b) /\
   B2R (f_upper 53 1024 true (pmax s b)) = IZR (2 ^ (if s then b - 1 else b)))%R.
Proof. exact range_bounds_real. Qed.
Print Assumptions C06_range_bounds.

(* Implicit conversion, every numeric source / target pair, every source value: a result has the
   target type, the class (finite / +inf / -inf / NaN) of the source and, for a finite source, denotes
   the same number — exactly for an integer target, the nearest representable value (ties to even)
   for a float target, the source being inside the float target's range; conversion to Double never
   fails, to Float it fails only from Double (not an implicit conversion). *)
Theorem C06_implicit : forall src tgt ks kt v,
  num_of src = Some ks -> num_of tgt = Some kt -> well_typed src v ->
  match convert gen_cfg src tgt v with
  | Res t w => t = tgt /\ well_typed tgt w /\ val_class w = val_class v /\
               (finite_val v = true ->
                match kt with
                | NInt _ _ => valR w = valR v
                | NF32 => valR w = round radix2 (FLT_exp (-149) 24) ZnearestE (valR v) /\
                          (Rabs (valR v) <= IZR (2 ^ 24 - 1) * bpow radix2 104)%R
                | NF64 => valR w = round radix2 (FLT_exp (-1074) 53) ZnearestE (valR v) /\
                          (Rabs (valR v) <= IZR (2 ^ 53 - 1) * bpow radix2 971)%R
                end)
  | Empty => match kt with NInt _ _ => True | NF32 => ks = NF64 | NF64 => False end
  | Unmodelled => False
  end.
Proof.
  intros src tgt ks kt v Hs Ht Hv.
  pose proof (convert_correct gen_cfg src tgt ks kt v gen_cfg_ok Hs Ht Hv) as H.
  destruct (convert gen_cfg src tgt v); [|exact H|exact H].
  destruct H as (H1 & H2 & H3 & H4). repeat split; try assumption.
  intros Hf. destruct (H4 Hf) as [Hd Hr]. destruct kt; [exact Hd | split; assumption | split; assumption].
Qed.
Print Assumptions C06_implicit.

(* A value outside the range of an integer target yields no result. *)
Theorem C06_implicit_none : forall src tgt ks ts tb v,
  num_of src = Some ks -> num_of tgt = Some (NInt ts tb) -> well_typed src v -> finite_val v = true ->
  (valR v < IZR (pmin ts tb) \/ IZR (pmax ts tb) < valR v)%R ->
  convert gen_cfg src tgt v = Empty.
Proof. intros src tgt ks ts tb v. apply convert_out_of_range. exact gen_cfg_ok. Qed.
Print Assumptions C06_implicit_none.

(* Explicit cast to an integer type, every numeric source type and value: the result is the source
   rounded to the nearest integer (ties away from zero; an integer source is unchanged), and there
   is no result exactly when the source is NaN / infinite or the rounded value is out of range. *)
Theorem C06_cast : forall src tgt ks ts tb v,
  num_of src = Some ks -> num_of tgt = Some (NInt ts tb) -> well_typed src v ->
  cast gen_cfg src tgt v =
  if finite_val v && in_range ts tb (ZnearestA (valR v))
  then Res tgt (VInt (ZnearestA (valR v))) else Empty.
Proof. intros src tgt ks ts tb v. apply cast_to_int_correct. exact gen_cfg_ok. Qed.
Print Assumptions C06_cast.

(* Explicit cast to a float type always yields a value of that type: the class of a non-finite
   source is kept, a finite source inside the target's range gives the nearest representable value
   (outside: Double -> Float rounds like `as f32`). *)
Theorem C06_cast_float : forall src tgt ks kt v,
  num_of src = Some ks -> num_of tgt = Some kt -> kt = NF32 \/ kt = NF64 -> well_typed src v ->
  exists w, cast gen_cfg src tgt v = Res tgt w /\ well_typed tgt w /\
    (finite_val v = false -> val_class w = val_class v) /\
    (finite_val v = true -> in_float_range kt v -> val_class w = CFinite /\ denotes kt w v).
Proof. intros src tgt ks kt v. apply cast_to_float_correct. exact gen_cfg_ok. Qed.
Print Assumptions C06_cast_float.

(* The decidable oracle used by the correspondence run (exact dyadic arithmetic on Z, no float
   operation) holds of the model's output on every valid case. *)
Theorem C06_oracle_conversions : forall c, valid c -> known c = 0 -> oracle c (run c) = true.
Proof. exact oracle_holds. Qed.
Print Assumptions C06_oracle_conversions.

(* The pinned code before the fixes violates the property: implicit unsigned -> signed wrapped, the
   float casts did not round to nearest and accepted NaN, UInt64 -> Int32 had no cast arm. *)
Theorem C06_legacy_refuted_convert :
  exists c, valid c /\ c_op c = Convert /\ oracle c (run_with Legacy.cfg c) = false.
Proof. exact legacy_refuted_convert. Qed.
Print Assumptions C06_legacy_refuted_convert.

Theorem C06_legacy_refuted_cast :
  exists c, valid c /\ c_op c = Cast /\ oracle c (run_with Legacy.cfg c) = false.
Proof. exact legacy_refuted_cast_round. Qed.
Print Assumptions C06_legacy_refuted_cast.

Theorem C06_legacy_refuted_cast_missing_arm :
  exists c, valid c /\ c_op c = Cast /\
            run1 Legacy.cfg Cast (c_src c) (c_tgt c) 5 = [-1; 0] /\ run1 gen_cfg Cast (c_src c) (c_tgt c) 5 = [6; 5] /\
            payloads c = [5] /\ oracle c (run_with Legacy.cfg c) = false.
Proof. exact legacy_refuted_cast_missing. Qed.
Print Assumptions C06_legacy_refuted_cast_missing_arm.

(* ==== the event filter operators: implicit conversion used for comparisons (operator.rs) ============
   [compare] models `convert` (the operand whose type has the lower precedence is implicitly converted
   to the type of the other; ranks extracted from VariantTypeId::precedence) followed by
   `compare_operands` / `compare_values!`; [five] lists the answers of eq, gt, lt, gte, lte. *)
From Coq Require Import String.
From OV Require Import C06.Compare C06.Top C06.CompareProofs C06.CompareFloat Gen.C06Prec.

(* pins: the extracted ranks are the hand-written ranks of the specification table on the ten numeric
   types, and the body of operator.rs `convert` is the one the model was written for *)
Example C06_pin_precedence :
  forallb (fun t => precedence t =? spec_rank t) numeric_types = true.
Proof. vm_compute. reflexivity. Qed.
Example C06_pin_operator_convert : operator_convert_body =
  "let dt1 = v1.type_id(); let dt2 = v2.type_id(); if dt1 != dt2 { if dt1.precedence() < dt2.precedence() { (v1, v2.convert(dt1)) } else { (v1.convert(dt2), v2) } } else { (v1, v2) }"%string.
Proof. reflexivity. Qed.

(* Two integer operands of ANY two of the eight integer types, any values: the operand whose type has
   the lower precedence must fit the type of the other; then the outcome is the comparison of the two
   NUMBERS (so no comparison is ever decided on a wrapped or truncated value), otherwise the
   comparison is an error and every operator answers false. *)
Theorem C06_compare_int : forall t1 t2 s1 b1 s2 b2 a b,
  int_ty t1 = Some (s1, b1) -> int_ty t2 = Some (s2, b2) ->
  in_range s1 b1 a = true -> in_range s2 b2 b = true ->
  compare gen_cfg t1 t2 (VInt a) (VInt b) =
    if (if precedence t1 <? precedence t2 then in_range s1 b1 b else in_range s2 b2 a)
    then cmp_of (Some (a ?= b)) else CErr.
Proof. exact compare_int. Qed.
Print Assumptions C06_compare_int.
Example C06_compare_int_ex :
  compare gen_cfg TUInt64 TInt32 (VInt (2 ^ 63)) (VInt 1) = CGt /\
  compare gen_cfg TInt32 TUInt64 (VInt (-1)) (VInt 5) = CErr /\
  compare gen_cfg TUInt32 TInt32 (VInt 4000000000) (VInt (-294967296)) = CErr.
Proof. repeat split; vm_compute; reflexivity. Qed.

(* Variant::convert between two different integer types that has a usable arm yields the value itself
   when it is in the range of the target and nothing otherwise (used above; the arm exists for every
   pair in the direction lower -> higher precedence: CompareProofs.table_cmp_ok_true) *)
Theorem C06_convert_int_exact : forall s t ss sb ts tb n,
  int_ty s = Some (ss, sb) -> int_ty t = Some (ts, tb) -> ty_eqb s t = false ->
  in_range ss sb n = true -> arm_ok s t = true ->
  convert gen_cfg s t (VInt n) = if in_range ts tb n then Res t (VInt n) else Empty.
Proof. exact convert_int_int. Qed.
Print Assumptions C06_convert_int_exact.

(* An integer operand (any of the eight integer types, any value) against a finite Double / Float
   operand, in either order: the integer is converted with round-to-nearest, so the order of the two
   NUMBERS is never inverted by the comparison; it can only collapse to "equal" (and it is "equal"
   when the numbers are equal).  [not_gt c]: c is CLt or CEq; [not_lt c]: c is CGt or CEq. *)
Theorem C06_compare_int_double_monotone : forall t s b n (f : binary_float 53 1024),
  int_ty t = Some (s, b) -> in_range s b n = true -> is_finite f = true ->
  ((IZR n < B2R f)%R -> not_gt (compare gen_cfg t TDouble (VInt n) (VF64 f)) /\ not_lt (compare gen_cfg TDouble t (VF64 f) (VInt n))) /\
  ((B2R f < IZR n)%R -> not_lt (compare gen_cfg t TDouble (VInt n) (VF64 f)) /\ not_gt (compare gen_cfg TDouble t (VF64 f) (VInt n))) /\
  (IZR n = B2R f -> compare gen_cfg t TDouble (VInt n) (VF64 f) = CEq /\ compare gen_cfg TDouble t (VF64 f) (VInt n) = CEq).
Proof. exact compare_int_double_monotone. Qed.
Print Assumptions C06_compare_int_double_monotone.

Theorem C06_compare_int_float_monotone : forall t s b n (f : binary_float 24 128),
  int_ty t = Some (s, b) -> in_range s b n = true -> is_finite f = true ->
  ((IZR n < B2R f)%R -> not_gt (compare gen_cfg t TFloat (VInt n) (VF32 f)) /\ not_lt (compare gen_cfg TFloat t (VF32 f) (VInt n))) /\
  ((B2R f < IZR n)%R -> not_lt (compare gen_cfg t TFloat (VInt n) (VF32 f)) /\ not_gt (compare gen_cfg TFloat t (VF32 f) (VInt n))) /\
  (IZR n = B2R f -> compare gen_cfg t TFloat (VInt n) (VF32 f) = CEq /\ compare gen_cfg TFloat t (VF32 f) (VInt n) = CEq).
Proof. exact compare_int_float_monotone. Qed.
Print Assumptions C06_compare_int_float_monotone.
Example C06_compare_int_float_ex :
  compare gen_cfg TInt32 TDouble (VInt 2) (VF64 (f64_of_bits 4609884578576439706)) = CGt /\
  compare gen_cfg TInt64 TFloat (VInt 16777217) (VF32 (f32_of_bits 1266679808)) = CEq.
Proof. split; vm_compute; reflexivity. Qed.

(* The oracle of comparison histories holds of the model on every history of integer comparisons.
   PARTIAL: the full statement is
     forall l, Forall item_ok l -> check_items l (run_cmp_with gen_cfg l) = true
   (item_ok: any two of the ten numeric types).  Missing: items with a Float / Double operand, where the
   oracle allows an order to collapse to "equal" under round-to-nearest.  The model-level fact is proved
   above (C06_compare_int_double_monotone / _float_monotone, on real numbers); what is missing is the
   link between the oracle's bit-level view of a float (sign / mantissa / exponent as a dyadic) and
   B2R for these items.  They are compared with the real code and checked by the oracle in the
   correspondence run. *)
Theorem C06_compare_oracle_partial : forall l,
  Forall int_item l -> check_items l (run_cmp_with gen_cfg l) = true.
Proof. exact check_items_int. Qed.
Print Assumptions C06_compare_oracle_partial.
Example C06_compare_oracle_ex : Forall int_item [mk_item TInt64 7 TInt32 (-1); mk_item TInt64 7 TUInt64 18446744073709551615].
Proof. repeat constructor; exists true, 64; [exists true, 32 | exists false, 64]; repeat split; reflexivity. Qed.

(* the oracle of the whole case language of the correspondence run (conversions / casts: every valid
   case; comparison histories: integer operands, see above) *)
Theorem C06_oracle : forall c, valid_int c -> Top.known c = 0 -> Top.oracle c (Top.run c) = true.
Proof. exact top_oracle_holds. Qed.
Print Assumptions C06_oracle.
