(* C09 — the secure-channel receive path is total on arbitrary peer bytes.
   Correspondence interface.  A case is a receiving channel (policy, mode, own certificate /
   private key / derived keys present or not), a list of chunks as the peer sends them, and the
   transcript of the external primitives on exactly the slices the receive path hands them
   (certificate parsing, RSA block decryption, RSA signature verification, AES decryption, UTF-8
   validation), obtained by the harness from the same primitives.  [run] feeds the chunks to
   verify_and_remove_security in order (the channel's policy is updated as the code does) and
   then to validate_chunks, using the shared channel model of C07/Chan.v; HMAC is the Gallina
   HMAC of C13.

   Long opaque regions (certificates, RSA cipher text blocks, RSA signatures) are replaced in the
   case by placeholders (a two-byte number followed by a constant filler) so that the case term
   stays short; the model only ever hands those regions to a primitive, whose answer is looked up
   in the transcript.  Chunk bytes are written run-length encoded as segments. *)
From Coq Require Import List ZArith NArith Bool.
Import ListNotations.
From OV Require Export C07.Chan.
From OV Require Import C07.Prims.
Open Scope Z_scope.

(* ---------------- segments ---------------- *)
Inductive seg :=
| L (l : bytes)                 (* literal bytes *)
| Rp (n : Z) (v : Z).           (* n copies of v *)
Definition seg_bytes (s : seg) : bytes :=
  match s with L l => l | Rp n v => rep n v end.
Definition flat (ss : list seg) : bytes := flat_map seg_bytes ss.

(* ---------------- transcript ---------------- *)
Record transcript := mk_tr {
  t_certs : list (list seg * option (Z * Z));     (* certificate bytes -> key pair id, key size *)
  t_rsa : list (list seg * option (list seg));    (* cipher text block -> plain text (own private key) *)
  t_ver : list (Z * Z * Z * list seg);            (* key id, checksum of the signed data (2), signature: verifies *)
  t_aes : list (list seg * list seg);             (* cipher text -> plain text (remote keys) *)
  t_utf8 : list (list seg * bool)                 (* non-ASCII string -> valid UTF-8 *)
}.

Fixpoint lookup {A} (k : bytes) (tbl : list (list seg * A)) : option A :=
  match tbl with
  | [] => None
  | (s, a) :: rest => if bytes_eqb (flat s) k then Some a else lookup k rest
  end.

Definition tr_prims (T : transcript) : prims :=
  {| p_mac := hmac_real;
     p_aes_enc := fun _ d => d;
     p_aes_dec := fun _ c => match lookup c (t_aes T) with Some p => flat p | None => rep (len c) 0 end;
     p_rsa_enc := fun _ _ b => b;
     p_rsa_dec := fun _ _ c => match lookup c (t_rsa T) with Some (Some p) => Some (flat p) | _ => None end;
     p_asign := fun _ _ _ => [];
     p_averify := fun k _ d s =>
       let '(a, b) := checksum d in
       existsb (fun e => let '(k', a', b', s') := e in (k' =? k) && (a' =? a) && (b' =? b) && bytes_eqb (flat s') s) (t_ver T);
     p_cert_key := fun c => match lookup c (t_certs T) with Some r => r | None => None end;
     p_utf8 := fun u => if ascii u then true else match lookup u (t_utf8 T) with Some b => b | None => false end |}.

(* ---------------- cases ---------------- *)
Record case := mk_case {
  c_policy : policy; c_mode : mode; c_chan : Z;
  c_thumb : option bytes;          (* own certificate's thumbprint; None = the channel has no certificate *)
  c_cert_ks : option Z;            (* key size of the own certificate *)
  c_pkey : option (Z * Z);         (* own private key: id, size; None = no private key *)
  c_keys : option bytes;           (* remote signing key; None = keys not derived yet *)
  c_start : Z;                     (* last received sequence number + 1 *)
  c_chunks : list (list seg);
  c_validate : bool;               (* also run validate_chunks on the received chunks *)
  c_tr : transcript }.

Definition receiver_of (c : case) (p : policy) : receiver :=
  {| r_policy := p; r_mode := c_mode c; r_chan := c_chan c;
     r_thumb := c_thumb c; r_cert_ks := c_cert_ks c; r_pkey := c_pkey c;
     r_verkey := match c_keys c with Some k => Some (k, []) | None => None end;
     r_limits := {| lim_string := 16777216; lim_bstring := 16777216 |} |}.

(* 0 = chunk returned, 1 = other error, 2 = security error, -2 = panic *)
Definition code9 {A} (r : res A) : Z := match r with Ok _ => 0 | Err e => if e =? E_SEC then 2 else 1 | Panic _ => -2 end.

Fixpoint feed (P : prims) (fx : fixes) (c : case) (p : policy) (chunks : list (list seg)) : list Z * option (list bytes) * policy :=
  match chunks with
  | [] => ([], Some [], p)
  | ch :: rest =>
      let '(r, p') := recv P fx (receiver_of c p) (flat ch) in
      let '(os, rcs, pf) := feed P fx c p' rest in
      match r with
      | Ok rc => (0 :: len rc :: os, match rcs with Some l => Some (rc :: l) | None => None end, pf)
      | _ => (code9 r :: -1 :: os, None, pf)
      end
  end.

Definition run_with (fx : fixes) (c : case) : list Z :=
  let P := tr_prims (c_tr c) in
  let '(o, rcs, pf) := feed P fx c (c_policy c) (c_chunks c) in
  o ++
  (if c_validate c then
     match rcs with
     | Some l => match validate_chunks P fx (receiver_of c pf) (c_start c) l with
                 | Ok last => [0; last]
                 | r => [code9 r; -1]
                 end
     | None => [-1; -1]
     end
   else []).
Definition run (c : case) : list Z := run_with current c.

(* ---------------- the property ---------------- *)
(* every status in the output is 0, 1 or 2: never the panic marker; records are pairs *)
Fixpoint no_panic (out : list Z) : bool :=
  match out with
  | [] => true
  | st :: _ :: rest => negb (st =? -2) && no_panic rest
  | _ => false
  end.
Definition oracle (c : case) (out : list Z) : bool :=
  no_panic out && (Z.of_nat (length out) =? 2 * Z.of_nat (length (c_chunks c)) + (if c_validate c then 2 else 0)).

Definition known (c : case) : Z := 0.

(* the transcript must answer like the real primitives: certificates are longer than their key,
   an RSA block decrypts to fewer bytes than the block, AES decryption preserves the length *)
Definition tr_ok (T : transcript) : bool :=
  forallb (fun e => match snd e with Some (_, ks) => (0 <? ks) && (ks <? len (flat (fst e))) | None => true end) (t_certs T)
  && forallb (fun e => match snd e with Some p => len (flat p) <=? len (flat (fst e)) | None => true end) (t_rsa T)
  && forallb (fun e => len (flat (snd e)) =? len (flat (fst e))) (t_aes T).
Definition validb (c : case) : bool :=
  tr_ok (c_tr c) && (0 <=? c_start c) && (if c_validate c then negb (Nat.eqb (length (c_chunks c)) 0) else true).
Definition valid (c : case) : Prop := validb c = true.

(* ---------------- the code before each C09 fix: commit ---------------- *)
Module Legacy.
  (* [current] without fix number [w]: 1 null sender certificate, 2 missing own certificate / private
     key, 3 keys not derived, 4 AES block size, 5 chunk shorter than its signature, 6 padding
     indices, 7 sequence number arithmetic, 8 RSA block loop (pre-landed) *)
  Definition without (w : Z) : fixes :=
    let fx := current in
    {| fx_pad_sign := fx_pad_sign fx; fx_budget := fx_budget fx; fx_opn_budget := fx_opn_budget fx;
       fx_null_cert := if w =? 1 then false else fx_null_cert fx;
       fx_own_cert := if w =? 2 then false else fx_own_cert fx;
       fx_no_keys := if w =? 3 then false else fx_no_keys fx;
       fx_aes_block := if w =? 4 then false else fx_aes_block fx;
       fx_size_sig := if w =? 5 then false else fx_size_sig fx;
       fx_padding := if w =? 6 then false else fx_padding fx;
       fx_seq := if w =? 7 then false else fx_seq fx;
       fx_rsa_block := if w =? 8 then false else fx_rsa_block fx |}.
  Definition run (w : Z) (c : case) : list Z := run_with (without w) c.
End Legacy.
