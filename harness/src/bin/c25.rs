//! C25: data change filters: the real `MonitoredItem::new` + `validate_filter` (as
//! `create_monitored_items` does) and `check_value` -> `check_for_data_change` ->
//! `DataChangeFilter::compare` on a history of sampled DataValues served by a value getter.
#[path = "../util.rs"]
mod util;
use util::*;
use opcua::server::address_space::{AddressSpace, AttrFnGetter};
use opcua::server::prelude::*;
use opcua::server::state::ServerState;
use opcua::server::subscriptions::monitored_item::{Notification, VerifMonitoredItem};
use opcua::sync::{Mutex, RwLock};
use std::sync::{Arc, OnceLock};

#[derive(Clone, Debug, PartialEq)]
pub enum V { Double(f64), Int(u8, i128), Text(u32) }
#[derive(Clone, Debug)]
pub struct Sample { val: Option<V>, status: Option<u32>, ts: Option<i64> }
pub struct Case { trigger: u8, dtype: u32, dval: f64, samples: Vec<Sample> }
pub struct P;

struct World { state: Arc<RwLock<ServerState>>, space: AddressSpace, cell: Arc<Mutex<DataValue>> }
fn node() -> NodeId { NodeId::new(1, 4242) }
fn world() -> &'static World {
    static W: OnceLock<World> = OnceLock::new();
    W.get_or_init(|| {
        let dir = std::env::temp_dir().join(format!("verif-c25-{}", std::process::id()));
        let server = ServerBuilder::new_anonymous("verif").pki_dir(dir).create_sample_keypair(false).server().unwrap();
        let mut space = AddressSpace::new();
        let cell = Arc::new(Mutex::new(DataValue::default()));
        let c2 = cell.clone();
        let getter = AttrFnGetter::new(move |_: &NodeId, _: TimestampsToReturn, _: AttributeId, _: NumericRange, _: &QualifiedName, _: f64| -> Result<Option<DataValue>, StatusCode> {
            Ok(Some(c2.lock().clone()))
        });
        VariableBuilder::new(&node(), "v", "v").data_type(DataTypeId::Double).value(0f64)
            .value_getter(Arc::new(Mutex::new(getter)))
            .organized_by(ObjectId::ObjectsFolder).insert(&mut space);
        World { state: server.server_state(), space, cell }
    })
}

fn variant(v: &V) -> Variant {
    match v {
        V::Double(f) => Variant::Double(*f),
        V::Int(0, x) => Variant::Int32(*x as i32),
        V::Int(1, x) => Variant::UInt32(*x as u32),
        V::Int(2, x) => Variant::Int64(*x as i64),
        V::Int(_, x) => Variant::UInt64(*x as u64),
        V::Text(i) => Variant::from(format!("text{}", i)),
    }
}
fn data_value(s: &Sample) -> DataValue {
    let base = DateTime::ymd_hms(2020, 1, 1, 0, 0, 0).as_chrono();
    DataValue {
        value: s.val.as_ref().map(variant),
        status: s.status.map(StatusCode::from_bits_truncate),
        source_timestamp: None, source_picoseconds: None,
        server_timestamp: s.ts.map(|t| DateTime::from(base + chrono::Duration::milliseconds(t))),
        server_picoseconds: None,
    }
}

fn v_term(v: &V) -> String {
    match v {
        V::Double(f) => format!("(VDouble {})", f.to_bits()),
        V::Int(t, x) => format!("(VInt {} {})", t, z(*x)),
        V::Text(i) => format!("(VText {})", i),
    }
}
fn s_term(s: &Sample) -> String {
    format!("mk_sample {} {} {}", coq_opt(&s.val, v_term), coq_opt(&s.status, |x| z(*x as i128)), coq_opt(&s.ts, |x| z(*x as i128)))
}

const STATUSES: [u32; 5] = [0, 0x8000_0000, 0x4000_0000, 0x8005_0000, 0x0000_0480];

fn gen_val(r: &mut Rng, kind: u64, base: f64, d: f64, prev: &Option<V>) -> Option<V> {
    // mostly small moves around the previous value so that the deadband / equality boundary is hit
    if r.chance(1, 3) { if let Some(p) = prev { return Some(p.clone()); } }
    let step = if d.is_finite() && d > 0.0 { d } else { 1.0 };
    match kind {
        0 => Some(V::Double(match r.below(10) {
            0 => *r.pick(&[0.0, -0.0, f64::INFINITY, f64::NEG_INFINITY, f64::MAX, f64::MIN, f64::MIN_POSITIVE, 1e308, -1e308]),
            1 => f64::from_bits(r.next()),
            2 | 3 => { if let Some(V::Double(p)) = prev { p + step * *r.pick(&[1.0, -1.0, 0.5, -0.5, 1.0000000000000002, 0.9999999999999999, 2.0, -2.0]) } else { base } }
            4 => { if let Some(V::Double(p)) = prev { f64::from_bits(p.to_bits().wrapping_add(r.below(3)).wrapping_sub(1)) } else { base } }
            _ => base + step * (r.range(-8, 8) as f64) / 4.0,
        })),
        1 => Some(match r.below(4) {
            0 => V::Int(0, r.range(-20, 20) as i128),
            1 => V::Int(1, r.below(40) as i128),
            2 => V::Int(2, *r.pick(&[i64::MAX as i128, i64::MAX as i128 - 1, i64::MIN as i128, 0, 1 << 53, (1 << 53) + 1, -5, 7])),
            _ => V::Int(3, *r.pick(&[u64::MAX as i128, u64::MAX as i128 - 1, 0, 1 << 53, (1 << 53) + 1, 9])),
        }),
        2 => Some(V::Text(r.below(3) as u32)),
        _ => None,
    }
}

fn gen_samples(r: &mut Rng, n: usize, d: f64) -> Vec<Sample> {
    let base = *r.pick(&[0.0, 10.0, -3.5, 1e6, 1e300]);
    // value kind profile: numeric double / integers / text / mixed with missing values
    let profile = r.below(6);
    let mut prev: Option<V> = None;
    let (mut status, mut ts) = (Some(0u32), Some(0i64));
    (0..n).map(|_| {
        let kind = match profile { 0 | 1 | 2 => 0, 3 => 1, 4 => 2, _ => r.below(4) };
        let val = gen_val(r, kind, base, d, &prev);
        if val.is_some() { prev = val.clone(); }
        if r.chance(1, 6) { status = match r.below(6) { 0 => None, k => Some(STATUSES[(k - 1) as usize]) }; }
        if r.chance(1, 4) { ts = match r.below(8) { 0 => None, _ => Some(ts.unwrap_or(0) + r.range(-2, 5)) }; }
        Sample { val, status, ts }
    }).collect()
}

impl Property for P {
    type Case = Case;
    fn fixed(tier: &str) -> Vec<Case> {
        let s = |v: f64, st: Option<u32>, ts: Option<i64>| Sample { val: Some(V::Double(v)), status: st, ts };
        let g = Some(0u32);
        let t = |i: u32| Sample { val: Some(V::Text(i)), status: g, ts: Some(0) };
        let walk = vec![s(10.0, g, Some(0)), s(10.0, g, Some(1)), s(10.9, g, Some(1)), s(11.0, g, Some(2)), s(11.00001, g, Some(2)),
                        s(11.00001, Some(0x8000_0000), Some(2)), s(11.00001, None, Some(2)), s(9.0, None, None), s(12.1, None, None)];
        let mut v = vec![
            // the repository's deadband test values, each trigger
            Case { trigger: 1, dtype: 1, dval: 1.0, samples: walk.clone() },
            Case { trigger: 0, dtype: 1, dval: 1.0, samples: walk.clone() },
            Case { trigger: 2, dtype: 1, dval: 1.0, samples: walk.clone() },
            Case { trigger: 1, dtype: 0, dval: 0.0, samples: walk.clone() },
            Case { trigger: 2, dtype: 0, dval: 0.0, samples: walk.clone() },
            // deadband creep: every step is below the deadband, the sum is not (compared with the last REPORTED value)
            Case { trigger: 1, dtype: 1, dval: 1.0, samples: (0..8).map(|i| s(10.0 + 0.4 * i as f64, g, Some(0))).collect() },
            // filters that can never report a value change: percent (no EU range), negative, unknown type, NaN
            // -- accepted before the fix, then silent for ever
            Case { trigger: 1, dtype: 2, dval: 10.0, samples: vec![s(0.0, g, Some(0)), s(50.0, g, Some(0)), s(1e9, g, Some(0))] },
            Case { trigger: 1, dtype: 1, dval: -1.0, samples: vec![s(0.0, g, Some(0)), s(50.0, g, Some(0))] },
            Case { trigger: 2, dtype: 7, dval: 1.0, samples: vec![s(0.0, g, Some(0)), s(50.0, g, Some(0))] },
            Case { trigger: 1, dtype: 1, dval: f64::NAN, samples: vec![s(0.0, g, Some(0)), s(50.0, g, Some(0))] },
            Case { trigger: 1, dtype: u32::MAX, dval: 0.0, samples: vec![s(0.0, g, Some(0)), s(50.0, g, Some(0))] },
            // an infinite deadband
            Case { trigger: 1, dtype: 1, dval: f64::INFINITY, samples: vec![s(0.0, g, Some(0)), s(1e308, g, Some(0)), s(-1e308, g, Some(0))] },
            // deadband 0, -0.0, signed zeros, infinities as values
            Case { trigger: 1, dtype: 1, dval: 0.0, samples: vec![s(0.0, g, None), s(-0.0, g, None), s(f64::MIN_POSITIVE, g, None), s(f64::INFINITY, g, None), s(f64::INFINITY, g, None), s(f64::NEG_INFINITY, g, None)] },
            Case { trigger: 1, dtype: 1, dval: -0.0, samples: vec![s(1.0, g, None), s(1.0, g, None), s(1.0000000000000002, g, None)] },
            Case { trigger: 1, dtype: 0, dval: 0.0, samples: vec![s(0.0, g, None), s(-0.0, g, None), s(1.0, g, None)] },
            // a text value under a deadband filter: unchanged text must not be reported
            Case { trigger: 1, dtype: 1, dval: 1.0, samples: vec![t(1), t(1), t(2), t(2)] },
            Case { trigger: 1, dtype: 0, dval: 0.0, samples: vec![t(1), t(1), t(2), t(2)] },
            // 64-bit integers are compared after rounding to f64
            Case { trigger: 1, dtype: 1, dval: 0.0, samples: vec![
                Sample { val: Some(V::Int(2, i64::MAX as i128)), status: g, ts: None }, Sample { val: Some(V::Int(2, i64::MAX as i128 - 1)), status: g, ts: None },
                Sample { val: Some(V::Int(3, 1 << 53)), status: g, ts: None }, Sample { val: Some(V::Int(3, (1 << 53) + 1)), status: g, ts: None }, Sample { val: Some(V::Int(0, -7)), status: g, ts: None }] },
            // missing values, type changes
            Case { trigger: 1, dtype: 1, dval: 2.0, samples: vec![
                Sample { val: None, status: None, ts: None }, Sample { val: None, status: None, ts: None }, s(1.0, None, None),
                Sample { val: Some(V::Int(0, 2)), status: None, ts: None }, Sample { val: Some(V::Int(1, 5)), status: None, ts: None }, Sample { val: None, status: None, ts: None }] },
            // NaN values (known finding 1)
            Case { trigger: 1, dtype: 0, dval: 0.0, samples: vec![s(f64::NAN, g, None), s(f64::NAN, g, None), s(1.0, g, None)] },
            Case { trigger: 1, dtype: 1, dval: 5.0, samples: vec![s(1.0, g, None), s(f64::NAN, g, None), s(f64::NAN, g, None), s(1.5, g, None)] },
        ];
        if tier == "thorough" {
            for trigger in 0..3u8 { for (dtype, dval) in [(0u32, 0.0), (1, 0.0), (1, 0.5), (1, 1.0), (1, -1.0), (2, 1.0), (3, 1.0), (1, f64::INFINITY), (1, f64::MAX)] {
                v.push(Case { trigger, dtype, dval, samples: walk.clone() });
            }}
        }
        v
    }
    fn gen(r: &mut Rng) -> Case {
        let trigger = r.below(3) as u8;
        let (dtype, dval) = match r.below(12) {
            0 | 1 | 2 => (0, *r.pick(&[0.0, 1.0, -1.0, f64::NAN])),
            3 => (2, 1.0 + r.below(50) as f64),
            4 => (*r.pick(&[3u32, 4, 255, u32::MAX]), 1.0),
            5 => (1, *r.pick(&[-1.0, -f64::MIN_POSITIVE, f64::NAN, f64::NEG_INFINITY, f64::INFINITY])),
            6 => (1, *r.pick(&[0.0, -0.0, f64::MIN_POSITIVE, f64::MAX, 1e300])),
            _ => (1, *r.pick(&[0.25, 0.5, 1.0, 2.0, 10.0, 0.1])),
        };
        let n = 1 + r.below(24) as usize;
        Case { trigger, dtype, dval, samples: gen_samples(r, n, dval) }
    }
    fn exec(c: &Case) -> Out {
        if let Err(e) = guarded(|| { world(); }) { eprintln!("world init panicked: {}", e); }
        let w = world();
        let st = w.state.read();
        let now = chrono::Utc::now();
        let trig = match c.trigger { 0 => DataChangeTrigger::Status, 1 => DataChangeTrigger::StatusValue, _ => DataChangeTrigger::StatusValueTimestamp };
        let filter = ExtensionObject::from_encodable(ObjectId::DataChangeFilter_Encoding_DefaultBinary,
            &DataChangeFilter { trigger: trig, deadband_type: c.dtype, deadband_value: c.dval });
        let req = MonitoredItemCreateRequest {
            item_to_monitor: ReadValueId { node_id: node(), attribute_id: AttributeId::Value as u32, index_range: UAString::null(), data_encoding: QualifiedName::null() },
            monitoring_mode: MonitoringMode::Reporting,
            requested_parameters: MonitoringParameters { client_handle: 7, sampling_interval: 0.0, filter, queue_size: 4, discard_oldest: true },
        };
        let mut out: Vec<i128> = Vec::new();
        let mut n_rep = 0;
        // which timestamps the subscriber asked for is not part of the case term: reporting must not
        // depend on it (the model has no such input), so it is derived from the case and every
        // setting is exercised; the reported value is compared after the same stripping
        let ttr = [TimestampsToReturn::Both, TimestampsToReturn::Source, TimestampsToReturn::Server, TimestampsToReturn::Neither]
            [(c.samples.len() + c.trigger as usize + (c.dval.to_bits() % 7) as usize) % 4];
        let strip = |dv: &DataValue| -> DataValue {
            let mut d = dv.clone();
            match ttr {
                TimestampsToReturn::Neither => { d.source_timestamp = None; d.source_picoseconds = None; d.server_timestamp = None; d.server_picoseconds = None; }
                TimestampsToReturn::Source => { d.server_timestamp = None; d.server_picoseconds = None; }
                TimestampsToReturn::Server => { d.source_timestamp = None; d.source_picoseconds = None; }
                _ => {}
            }
            d
        };
        // how the filter reaches the item is not part of the case term either: CreateMonitoredItems with the filter,
        // or an item created with an ordinary filter and then modified to it (ModifyMonitoredItems), or created with
        // a deadband filter, modified to an ordinary one and then to the case's.  A refusal at any of these is [-1];
        // an accepted filter must behave the same whichever way it came.
        let route = (c.samples.len() + c.dtype as usize + 2 * c.trigger as usize + (c.dval.to_bits() % 5) as usize) % 3;
        let plain = |dt: u32, dv: f64| ExtensionObject::from_encodable(ObjectId::DataChangeFilter_Encoding_DefaultBinary,
            &DataChangeFilter { trigger: DataChangeTrigger::StatusValue, deadband_type: dt, deadband_value: dv });
        let with_filter = |f: ExtensionObject| MonitoredItemCreateRequest { requested_parameters: MonitoringParameters { filter: f, ..req.requested_parameters.clone() }, ..req.clone() };
        let modify_to = |item: &mut VerifMonitoredItem, f: ExtensionObject| -> Result<(), StatusCode> {
            let m = MonitoredItemModifyRequest { monitored_item_id: 1, requested_parameters: MonitoringParameters { filter: f, ..req.requested_parameters.clone() } };
            item.modify(&st, &w.space, ttr, &m).map(|_| ())
        };
        let created = guarded(|| match route {
            0 => VerifMonitoredItem::new(&now, 1, ttr, &st, &req).and_then(|i| i.validate_filter(&w.space).map(|_| i)),
            1 => VerifMonitoredItem::new(&now, 1, ttr, &st, &with_filter(plain(0, 0.0))).and_then(|mut i| { i.validate_filter(&w.space)?; modify_to(&mut i, req.requested_parameters.filter.clone())?; Ok(i) }),
            _ => VerifMonitoredItem::new(&now, 1, ttr, &st, &with_filter(plain(1, 3.0))).and_then(|mut i| { i.validate_filter(&w.space)?; modify_to(&mut i, plain(0, 0.0))?;
                                                                                                        modify_to(&mut i, req.requested_parameters.filter.clone())?; Ok(i) }),
        });
        match created {
            Err(_) => out.push(-2),
            Ok(Err(_)) => out.push(-1),
            Ok(Ok(mut item)) => {
                for s in &c.samples {
                    let dv = data_value(s);
                    *w.cell.lock() = dv.clone();
                    match guarded(|| item.check_value(&w.space, &now, false)) {
                        Err(_) => { out.push(-2); break; }
                        Ok(changed) => {
                            let ns = item.all_notifications().unwrap_or_default();
                            if !changed { out.push(if ns.is_empty() { 0 } else { 3 }); continue; }
                            n_rep += 1;
                            // the report must be exactly the sample (compare the encodings: NaN-proof)
                            let same = ns.len() == 1 && match &ns[0] {
                                Notification::MonitoredItemNotification(m) => format!("{:?}", m.value) == format!("{:?}", strip(&dv)),
                                _ => false,
                            };
                            out.push(if same { 1 } else { 2 });
                        }
                    }
                }
            }
        }
        let kinds = |p: fn(&V) -> bool| c.samples.iter().any(|s| s.val.as_ref().map_or(false, p));
        let tag = format!("{}-{}{}{}-ttr{}", ["status", "statusvalue", "statusvaluets"][c.trigger as usize],
            match c.dtype { 0 => "nodeadband", 1 => "absolute", 2 => "percent", _ => "unknowntype" },
            if out == vec![-1] { "-refused" } else if n_rep <= 1 { "-quiet" } else { "" },
            if kinds(|v| matches!(v, V::Double(f) if f.is_nan())) { "+nan" } else if kinds(|v| matches!(v, V::Text(_))) { "+text" } else if kinds(|v| matches!(v, V::Int(..))) { "+int" } else { "" },
            match ttr { TimestampsToReturn::Both => "both", TimestampsToReturn::Source => "source", TimestampsToReturn::Server => "server", _ => "neither" });
        let term = format!("(mk_case (mk_filter {} {} {}) {})", c.trigger, c.dtype, c.dval.to_bits(), coq_list(&c.samples, s_term));
        Out { tag, term, out }
    }
}
fn main() { run_main::<P>() }
