From Coq Require Import List ZArith Bool Lia.
From Flocq Require Import Core.Core IEEE754.Binary IEEE754.Bits.
Import ListNotations.
From OV Require Import C25.Model.
Open Scope Z_scope.

(* ---- IEEE comparison facts (structural) ------------------------------------------------------ *)
Lemma fge_not_flt d : fge d fzero = true -> flt d fzero = false.
Proof. unfold fge, flt. destruct (fcmp d fzero) as [[| |]|]; intros H; try discriminate; reflexivity. Qed.

Lemma fle_inf_finite d : ffinite d = true -> fle (B754_infinity 53 1024 false) d = false.
Proof. destruct d as [s|s|s p H|s m e H]; cbn; intros Hf; try discriminate; reflexivity. Qed.

Lemma max_move : fabs (fsub (of_bits BITS_MAX) (of_bits BITS_NEG_MAX)) = B754_infinity 53 1024 false.
Proof. vm_compute. reflexivity. Qed.

Lemma max_not_nan : fnan (of_bits BITS_MAX) = false /\ fnan (of_bits BITS_NEG_MAX) = false.
Proof. split; vm_compute; reflexivity. Qed.

Lemma max_neq : feq (of_bits BITS_MAX) (of_bits BITS_NEG_MAX) = false.
Proof. vm_compute. reflexivity. Qed.

(* ---- an accepted filter can report ------------------------------------------------------------ *)
Theorem validate_can_report f : validate f = true -> can_report f = true.
Proof.
  unfold validate, can_report, value_moved. destruct max_not_nan as [N1 N2].
  destruct (Z.eqb_spec (f_dtype f) 0) as [E0|E0]; cbn [orb].
  - intros _. cbn [variant_same]. rewrite N1, max_neq. reflexivity.
  - destruct (Z.eqb_spec (f_dtype f) 1) as [E1|E1]; cbn [andb]; [|discriminate].
    intros H. apply andb_true_iff in H as [Hge Hfin].
    cbn [as_f64 is_nan_value]. rewrite N1, N2. cbn [orb].
    rewrite max_move, fle_inf_finite by exact Hfin. reflexivity.
Qed.

(* ---- the code's comparison against the description, without NaN values ------------------------ *)
Lemma same_eq_no_nan a b : is_nan_value a = false -> variant_same a b = variant_eq a b.
Proof. destruct a, b; cbn; try reflexivity. intros ->. reflexivity. Qed.

Lemma value_moved_code f a b : validate f = true ->
  is_nan_value a = false -> is_nan_value b = false ->
  compare_value f a b = Some (negb (value_moved f a b)).
Proof.
  intros Hv Ha Hb. unfold compare_value, value_moved, validate in *.
  destruct (Z.eqb_spec (f_dtype f) 0) as [E0|E0].
  - rewrite same_eq_no_nan by exact Ha. rewrite negb_involutive. reflexivity.
  - cbn [orb] in Hv. destruct (Z.eqb_spec (f_dtype f) 1) as [E1|E1]; [|discriminate].
    cbn [andb] in Hv. apply andb_true_iff in Hv as [Hge Hfin].
    destruct (as_f64 a) as [x|] eqn:Ea, (as_f64 b) as [y|] eqn:Eb;
      try (rewrite same_eq_no_nan by exact Ha; rewrite negb_involutive; reflexivity).
    rewrite Ha, Hb. cbn [orb]. rewrite fge_not_flt by exact Hge.
    unfold abs_compare. rewrite negb_involutive. reflexivity.
Qed.

Lemma cvo_code f a b : validate f = true -> variant_nan a = false -> variant_nan b = false ->
  compare_value_option compare_value f a b = negb (value_differs f a b).
Proof.
  intros Hv Ha Hb. destruct a as [x|], b as [y|]; cbn [compare_value_option value_differs]; try reflexivity.
  cbn [variant_nan] in Ha, Hb. rewrite value_moved_code by assumption. reflexivity.
Qed.

Lemma compare_code f s l : validate f = true -> 0 <= f_trigger f <= 2 ->
  variant_nan (s_val s) = false -> variant_nan (s_val l) = false ->
  negb (compare compare_value f s l) = differs f s l.
Proof.
  intros Hv Ht Hs Hl. unfold compare, differs. rewrite cvo_code by assumption.
  destruct (Z.eqb_spec (f_trigger f) 0) as [T0|T0].
  - rewrite T0. cbn. rewrite !orb_false_r. reflexivity.
  - destruct (Z.eqb_spec (f_trigger f) 1) as [T1|T1].
    + rewrite T1. cbn. rewrite orb_false_r, negb_andb, negb_involutive. reflexivity.
    + assert (f_trigger f = 2) as -> by lia. cbn.
      rewrite !negb_andb, negb_involutive. reflexivity.
Qed.

(* ---- histories ------------------------------------------------------------------------------------ *)
Definition no_nan (ss : list sample) : Prop := Forall (fun s => variant_nan (s_val s) = false) ss.
Definition last_no_nan (l : option sample) : Prop :=
  match l with Some s => variant_nan (s_val s) = false | None => True end.

(* for every history without NaN values: the code reports a sample exactly when it differs from
   the last REPORTED sample in the way the filter describes *)
Theorem feed_ok f : validate f = true -> 0 <= f_trigger f <= 2 ->
  forall ss last, no_nan ss -> last_no_nan last ->
  reports_ok f last ss (feed compare_value f last ss) = true.
Proof.
  intros Hv Ht ss. induction ss as [|s ss IH]; intros last Hn Hl; [reflexivity|].
  inversion Hn as [|s' ss' Hs Hss]; subst. cbn [feed check reports_ok].
  destruct last as [l|].
  - cbn [last_no_nan] in Hl. rewrite compare_code by assumption.
    destruct (differs f s l); cbn [Z.eqb andb].
    + apply IH; [exact Hss | exact Hs].
    + apply IH; [exact Hss | exact Hl].
  - cbn [Z.eqb andb]. apply IH; [exact Hss | exact Hs].
Qed.

Lemma has_nan_false c : has_nan c = false -> no_nan (c_samples c).
Proof.
  unfold has_nan, no_nan. intros H. apply Forall_forall. intros s Hin.
  destruct (variant_nan (s_val s)) eqn:E; [|reflexivity].
  assert (existsb (fun s => variant_nan (s_val s)) (c_samples c) = true)
    by (apply existsb_exists; exists s; split; assumption).
  congruence.
Qed.

Lemma oracle_of_parts c out :
  can_report (c_filter c) && reports_ok (c_filter c) None (c_samples c) out = true ->
  oracle c out = true.
Proof.
  intros H. unfold oracle. destruct out as [|o out]; [exact H|].
  destruct o as [|p|p]; try exact H. destruct p; try exact H.
  destruct out; [reflexivity | exact H].
Qed.

Lemma validb_trigger c : valid c -> 0 <= f_trigger (c_filter c) <= 2.
Proof.
  unfold valid, validb. intros H. repeat (apply andb_true_iff in H as [H ?]).
  apply Z.leb_le in H. match goal with H' : (_ <=? 2) = true |- _ => apply Z.leb_le in H' end. lia.
Qed.

Theorem oracle_holds c : valid c -> known c = 0 -> oracle c (run c) = true.
Proof.
  intros Hv Hk. unfold known in Hk. destruct (has_nan c) eqn:Hn; [discriminate|].
  unfold run, run_with. destruct (validate (c_filter c)) eqn:Ev; [|reflexivity].
  apply oracle_of_parts. rewrite validate_can_report by exact Ev. cbn [andb].
  apply feed_ok; [exact Ev | apply validb_trigger; exact Hv | apply has_nan_false; exact Hn | exact I].
Qed.

(* a refused filter is never one the description says can report?  No: refusing is conservative.
   The converse direction that matters: everything the description covers with a finite,
   non-negative deadband IS accepted. *)
Theorem describable_accepted f :
  f_dtype f = 0 \/ (f_dtype f = 1 /\ fge (of_bits (f_dval f)) fzero = true /\ ffinite (of_bits (f_dval f)) = true) ->
  validate f = true.
Proof.
  unfold validate. intros [E|(E & Hg & Hf)]; rewrite E; cbn; [reflexivity|]. rewrite Hg, Hf. reflexivity.
Qed.

(* ---- known finding and the code before the fixes ------------------------------------------------ *)
Definition nan_witness : case :=
  mk_case (mk_filter 1 0 0)
          [mk_sample (Some (VDouble 9221120237041090560)) (Some 0) None;
           mk_sample (Some (VDouble 9221120237041090560)) (Some 0) None].

Theorem known_1_refuted : exists c, valid c /\ known c = 1 /\ oracle c (run c) = false.
Proof. exists nan_witness. repeat split; vm_compute; reflexivity. Qed.

(* percent deadband accepted, then value changes of any size are never reported *)
Definition percent_witness : case :=
  mk_case (mk_filter 1 2 4621819117588971520)
          [mk_sample (Some (VDouble 0)) (Some 0) (Some 0);
           mk_sample (Some (VDouble 4632233691727265792)) (Some 0) (Some 0);
           mk_sample (Some (VDouble 4741671816366391296)) (Some 0) (Some 0)].

Theorem legacy_all_refuted : exists c, valid c /\ known c = 0 /\ oracle c (legacy_run_all c) = false.
Proof. exists percent_witness. repeat split; vm_compute; reflexivity. Qed.

(* negative deadband accepted: the description reports every move, the code none *)
Definition negative_witness : case :=
  mk_case (mk_filter 1 1 13830554455654793216)
          [mk_sample (Some (VDouble 0)) (Some 0) (Some 0);
           mk_sample (Some (VDouble 4632233691727265792)) (Some 0) (Some 0)].

Theorem legacy_all_refuted_negative :
  valid negative_witness /\ known negative_witness = 0 /\
  legacy_run_all negative_witness = [1; 0] /\ oracle negative_witness (legacy_run_all negative_witness) = false.
Proof. repeat split; vm_compute; reflexivity. Qed.

(* infinite deadband accepted after the first fix *)
Definition inf_witness : case :=
  mk_case (mk_filter 1 1 9218868437227405312)
          [mk_sample (Some (VDouble 0)) (Some 0) (Some 0);
           mk_sample (Some (VDouble 9214871658872686752)) (Some 0) (Some 0);
           mk_sample (Some (VDouble 18438243695727462560)) (Some 0) (Some 0)].

Theorem legacy_inf_refuted : exists c, valid c /\ known c = 0 /\ oracle c (legacy_run_inf c) = false.
Proof. exists inf_witness. repeat split; vm_compute; reflexivity. Qed.

(* unchanged text under an absolute deadband reported at every sample *)
Definition text_witness : case :=
  mk_case (mk_filter 1 1 4607182418800017408)
          [mk_sample (Some (VText 1)) (Some 0) (Some 0); mk_sample (Some (VText 1)) (Some 0) (Some 0)].

Theorem legacy_text_refuted : exists c, valid c /\ known c = 0 /\ oracle c (legacy_run_text c) = false.
Proof. exists text_witness. repeat split; vm_compute; reflexivity. Qed.

Example text_witness_now : run text_witness = [1; 0].
Proof. vm_compute. reflexivity. Qed.
Example inf_witness_now : run inf_witness = [-1].
Proof. vm_compute. reflexivity. Qed.
Example creep_example :
  (* deadband 1.0; 10.0, 10.4, 10.8, 11.2: only the last is more than 1.0 away from the last
     reported value 10.0 *)
  run (mk_case (mk_filter 1 1 4607182418800017408)
        [mk_sample (Some (VDouble 4621819117588971520)) (Some 0) None;
         mk_sample (Some (VDouble 4622044297570340045)) (Some 0) None;
         mk_sample (Some (VDouble 4622269477551708570)) (Some 0) None;
         mk_sample (Some (VDouble 4622494657533077094)) (Some 0) None]) = [1; 0; 0; 1].
Proof. vm_compute. reflexivity. Qed.
