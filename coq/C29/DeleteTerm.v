(* AddressSpace::delete terminates: on every state (any node set, any reference maps, cycles
   included) the recursion depth is at most (number of nodes + 1); the out-of-fuel value of
   [delete_fuel] is unreachable and more fuel never changes the result. *)
From Coq Require Import List ZArith Bool Lia.
Import ListNotations.
From OV Require Import C28.Refs C28.RefsFacts C29.Model C29.TypeMatch.
Open Scope Z_scope.

Lemma remove_length n l : memZ n l = true ->
  (length (filter (fun x : Z => negb (Z.eqb x n)) l) < length l)%nat.
Proof.
  induction l as [|a l IH]; cbn [memZ existsb]; [discriminate|]. fold (memZ n l). cbn [filter length].
  destruct (Z.eqb_spec n a) as [->|Hna]; cbn [orb].
  - intros _. rewrite Z.eqb_refl. cbn [negb]. pose proof (filter_length_le' (fun x => negb (x =? a)) l). lia.
  - intros H. specialize (IH H). destruct (negb (a =? n)); cbn [length]; lia.
Qed.

(* fuel needed for delete(n) in state st *)
Definition need (st : astate) (n : Z) : nat :=
  (length (nodes st) + (if memZ n (nodes st) then 0 else 1))%nat.

Lemma dels_total (D : astate -> Z -> option (bool * astate)) (k : nat) :
  (forall cur c, memZ c (nodes cur) = true -> (length (nodes cur) <= k)%nat ->
     exists b cur', D cur c = Some (b, cur') /\ (length (nodes cur') <= length (nodes cur))%nat) ->
  forall cs cur, (length (nodes cur) <= k)%nat ->
  exists cur', dels D cs cur = Some cur' /\ (length (nodes cur') <= length (nodes cur))%nat.
Proof.
  intros HD. induction cs as [|c cs IH]; intros cur Hk; cbn [dels].
  - exists cur. auto.
  - destruct (memZ c (nodes cur)) eqn:Hc.
    + destruct (HD cur c Hc Hk) as (b & cur1 & -> & H1).
      destruct (IH cur1) as (cur2 & E2 & H2); [lia|]. exists cur2. split; [exact E2|lia].
    + apply IH. exact Hk.
Qed.

Lemma delete_total dtr : forall k st n, (need st n <= k)%nat ->
  exists b st', delete_fuel k dtr st n = Some (b, st') /\ (length (nodes st') <= length (nodes st))%nat.
Proof.
  induction k as [|k IH]; intros st n Hk.
  - unfold need in Hk. destruct (nodes st) as [|a l] eqn:E; cbn in Hk; lia.
  - cbn [delete_fuel].
    destruct (if dtr then delete_node_references (rs st) n else (false, rs st)) as [rt rs1].
    set (nodes1 := filter (fun x => negb (x =? n)) (nodes st)).
    assert (H1 : (length nodes1 <= k)%nat /\ (length nodes1 <= length (nodes st))%nat).
    { unfold need in Hk. pose proof (filter_length_le' (fun x => negb (x =? n)) (nodes st)) as L.
      fold nodes1 in L. destruct (memZ n (nodes st)) eqn:Hn.
      - pose proof (remove_length n (nodes st) Hn) as L2. fold nodes1 in L2. lia.
      - lia. }
    destruct (dels_total (delete_fuel k dtr) k)
      with (cs := opt_list (if memZ n (nodes st) then find_aggregates_of st n else None))
                                                   (cur := mk_astate nodes1 rs1)
      as (st2 & E2 & H2).
    + intros cur c Hc Hlen. apply IH. unfold need. rewrite Hc. lia.
    + cbn [nodes]. apply H1.
    + rewrite E2. eexists _, _. split; [reflexivity|]. cbn [nodes] in H2. lia.
Qed.

Lemma dels_mono (D D' : astate -> Z -> option (bool * astate)) :
  (forall cur c r, D cur c = Some r -> D' cur c = Some r) ->
  forall cs cur r, dels D cs cur = Some r -> dels D' cs cur = Some r.
Proof.
  intros H. induction cs as [|c cs IH]; intros cur r E; cbn [dels] in *; [exact E|].
  destruct (memZ c (nodes cur)); [|apply IH, E].
  destruct (D cur c) as [[b cur1]|] eqn:E1; [|discriminate].
  rewrite (H _ _ _ E1). apply IH, E.
Qed.

Lemma delete_fuel_mono dtr : forall k st n r,
  delete_fuel k dtr st n = Some r -> delete_fuel (S k) dtr st n = Some r.
Proof.
  induction k as [|k IH]; intros st n r E; [discriminate|].
  cbn [delete_fuel] in E. change (delete_fuel (S (S k)) dtr st n) with
    (let child_nodes := if memZ n (nodes st) then find_aggregates_of st n else None in
     let removed_node := memZ n (nodes st) in
     let nodes1 := filter (fun x => negb (x =? n)) (nodes st) in
     let '(removed_target_references, rs1) :=
       if dtr then delete_node_references (rs st) n else (false, rs st) in
     match dels (delete_fuel (S k) dtr) (opt_list child_nodes) (mk_astate nodes1 rs1) with
     | Some st2 => Some (removed_node || removed_target_references, st2)
     | None => None
     end).
  cbv zeta.
  destruct (if dtr then delete_node_references (rs st) n else (false, rs st)) as [rt rs1].
  destruct (dels (delete_fuel k dtr) _ _) as [st2|] eqn:E2; [|discriminate].
  rewrite (dels_mono _ _ (IH) _ _ _ E2). exact E.
Qed.

Lemma delete_fuel_more dtr j : forall k st n r,
  delete_fuel k dtr st n = Some r -> delete_fuel (j + k) dtr st n = Some r.
Proof. induction j as [|j IH]; intros; [assumption|]. cbn [Nat.add]. apply delete_fuel_mono, IH. assumption. Qed.

Theorem delete_terminates st n dtr :
  exists b st', delete st n dtr = Some (b, st') /\
                forall j, delete_fuel (j + S (length (nodes st))) dtr st n = Some (b, st').
Proof.
  unfold delete. destruct (delete_total dtr (S (length (nodes st))) st n) as (b & st' & E & _).
  - unfold need. destruct (memZ n (nodes st)); lia.
  - exists b, st'. split; [exact E|]. intros j. apply delete_fuel_more. exact E.
Qed.
