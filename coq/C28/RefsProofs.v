(* The invariant of the model of `References` (C28/Refs.v), its preservation by every operation
   and the bucket-level effect of every operation.  Shared by C28 and C29. *)
From Coq Require Import List ZArith Bool Lia.
Import ListNotations.
From OV Require Import C28.Refs C28.RefsFacts.
Open Scope Z_scope.

(* ---- the invariant ------------------------------------------------------------------------ *)
Record Inv (st : refs) : Prop := {
  inv_wf_fwd : wfm (fwd st);                      (* no empty forward bucket *)
  inv_wf_rb : wfm (rb st);                        (* no empty referenced-by set *)
  inv_nodup_fwd : forall s, NoDup (F st s);       (* no duplicate reference *)
  inv_nodup_rb : forall t, NoDup (R st t);
  inv_noself : forall s r, In r (F st s) -> snd r <> s;
  (* the referenced-by map is the converse of the forward map *)
  inv_conv : forall s t, In s (R st t) <-> exists ty, In (ty, t) (F st s)
}.

Lemma Inv_empty : Inv empty_refs.
Proof.
  constructor; cbn.
  - intros k; discriminate.
  - intros k; discriminate.
  - intros s; constructor.
  - intros t; constructor.
  - intros s r [].
  - intros s t. split; [intros []|intros (ty & [])].
Qed.

Lemma has_reference_F st s t ty : has_reference st s t ty = mem_ref (ty, t) (F st s).
Proof. unfold has_reference, F, bucket. destruct (get s (fwd st)); reflexivity. Qed.

Lemma opt_list_nonempty {A} (l : list A) : opt_list (nonempty l) = l.
Proof. destruct l; reflexivity. Qed.

Lemma find_references_F st n : opt_list (find_references st n) = F st n.
Proof.
  unfold find_references, F, bucket. destruct (get n (fwd st)); [apply opt_list_nonempty|reflexivity].
Qed.

(* ---- insert_reference --------------------------------------------------------------------- *)
Lemma insert_self st s ty : insert_reference st s s ty = Panic.
Proof. unfold insert_reference. rewrite Z.eqb_refl. reflexivity. Qed.

Lemma insert_ok st s t ty : s <> t -> exists st',
  insert_reference st s t ty = Ok st' /\
  (forall y, F st' y = if y =? s then (if mem_ref (ty, t) (F st s) then F st s else F st s ++ [(ty, t)])
                       else F st y) /\
  (forall y, R st' y = if y =? t then (if memZ s (R st t) then R st t else R st t ++ [s])
                       else R st y) /\
  (wfm (fwd st) -> wfm (fwd st')) /\ (wfm (rb st) -> wfm (rb st')).
Proof.
  intros Hst. unfold insert_reference. destruct (Z.eqb_spec s t) as [|_]; [contradiction|].
  eexists. split; [reflexivity|]. unfold F, R; cbn [fwd rb]. repeat split.
  - intros y. unfold bucket at 2 3 4. destruct (get s (fwd st)) as [b|] eqn:E.
    + destruct (mem_ref (ty, t) b) eqn:M.
      * destruct (Z.eqb_spec y s) as [->|]; [apply get_some_bucket; exact E|reflexivity].
      * apply bucket_put.
    + cbn. apply bucket_put.
  - intros y. unfold bucket at 2 3 4. destruct (get t (rb st)) as [l|] eqn:E.
    + rewrite bucket_put. reflexivity.
    + cbn. apply bucket_put.
  - intros H. destruct (get s (fwd st)) as [b|].
    + destruct (mem_ref (ty, t) b); [exact H|]. apply wfm_put; [|exact H]. destruct b; discriminate.
    + apply wfm_put; [discriminate|exact H].
  - intros H. destruct (get t (rb st)) as [l|].
    + apply wfm_put; [|exact H]. destruct (memZ s l) eqn:M.
      * intros ->. discriminate.
      * destruct l; discriminate.
    + apply wfm_put; [discriminate|exact H].
Qed.

Lemma In_F_insert st st' s t ty :
  (forall y, F st' y = if y =? s then (if mem_ref (ty, t) (F st s) then F st s else F st s ++ [(ty, t)])
                       else F st y) ->
  forall y r, In r (F st' y) <-> In r (F st y) \/ (y = s /\ r = (ty, t)).
Proof.
  intros HF y r. rewrite HF. destruct (Z.eqb_spec y s) as [->|Hy].
  - destruct (mem_ref (ty, t) (F st s)) eqn:M.
    + apply mem_ref_In in M. split; [auto|]. intros [H|[_ ->]]; assumption.
    + rewrite in_app_iff. cbn. split.
      * intros [H|[H|[]]]; [left; exact H|right; split; [reflexivity|symmetry; exact H]].
      * intros [H|[_ ->]]; [left; exact H|right; left; reflexivity].
  - split; [auto|]. intros [H|[H _]]; [exact H|contradiction].
Qed.

Lemma In_R_insert st st' s t :
  (forall y, R st' y = if y =? t then (if memZ s (R st t) then R st t else R st t ++ [s])
                       else R st y) ->
  forall y x, In x (R st' y) <-> In x (R st y) \/ (y = t /\ x = s).
Proof.
  intros HR y x. rewrite HR. destruct (Z.eqb_spec y t) as [->|Hy].
  - destruct (memZ s (R st t)) eqn:M.
    + apply memZ_In in M. split; [auto|]. intros [H|[_ ->]]; assumption.
    + rewrite in_app_iff. cbn. split.
      * intros [H|[H|[]]]; [left; exact H|right; split; [reflexivity|symmetry; exact H]].
      * intros [H|[_ ->]]; [left; exact H|right; left; reflexivity].
  - split; [auto|]. intros [H|[H _]]; [exact H|contradiction].
Qed.

Lemma insert_inv st s t ty st' : Inv st -> insert_reference st s t ty = Ok st' ->
  Inv st' /\ forall y r, In r (F st' y) <-> In r (F st y) \/ (y = s /\ r = (ty, t)).
Proof.
  intros HI Hins. destruct (Z.eq_dec s t) as [->|Hst]; [rewrite insert_self in Hins; discriminate|].
  destruct (insert_ok st s t ty Hst) as (st2 & E & HF & HR & Hw1 & Hw2).
  rewrite E in Hins. inversion Hins; subst st2; clear Hins E.
  pose proof (In_F_insert _ _ _ _ _ HF) as InF. pose proof (In_R_insert _ _ _ _ HR) as InR.
  split; [|exact InF]. destruct HI as [W1 W2 N1 N2 NS CV]. constructor.
  - auto.
  - auto.
  - intros y. rewrite HF. destruct (y =? s); [|apply N1].
    destruct (mem_ref (ty, t) (F st s)) eqn:M; [apply N1|].
    apply NoDup_snoc; [apply N1|]. apply mem_ref_false. exact M.
  - intros y. rewrite HR. destruct (y =? t); [|apply N2].
    destruct (memZ s (R st t)) eqn:M; [apply N2|].
    apply NoDup_snoc; [apply N2|]. apply memZ_false. exact M.
  - intros y r Hr. apply InF in Hr. destruct Hr as [Hr|[-> ->]]; [eapply NS; exact Hr|].
    cbn. intros H; apply Hst; symmetry; exact H.
  - intros x y. rewrite InR, CV. split.
    + intros [(ty' & H)|[-> ->]].
      * exists ty'. apply InF. left. exact H.
      * exists ty. apply InF. right. split; reflexivity.
    + intros (ty' & H). apply InF in H. destruct H as [H|[-> H]].
      * left. exists ty'. exact H.
      * inversion H; subst. right. split; reflexivity.
Qed.

(* ---- delete_reference --------------------------------------------------------------------- *)
Definition difference (b : list ref) (t ty : Z) : list Z :=
  filter (fun x => negb (memZ x (map snd (filter (fun r => negb (hit t ty r)) b))))
         (nodup Z.eq_dec (map snd b)).

Lemma delete_reference_char st s t ty :
  let st' := snd (delete_reference st s t ty) in
  fst (delete_reference st s t ty) = existsb (hit t ty) (F st s) /\
  (forall y, F st' y = if y =? s then filter (fun r => negb (hit t ty r)) (F st s) else F st y) /\
  (forall y, R st' y = if memZ y (difference (F st s) t ty) then filter (keep_id s) (R st y) else R st y) /\
  (wfm (fwd st) -> wfm (fwd st')) /\ (wfm (rb st) -> wfm (rb st')).
Proof.
  cbv zeta. unfold delete_reference.
  destruct (get s (fwd st)) as [b|] eqn:E.
  - assert (Hb : F st s = b) by (apply get_some_bucket; exact E). rewrite Hb. cbn [fst snd].
    split; [reflexivity|]. split; [|split; [|split]].
    + intros y. unfold F; cbn [fwd]. apply bucket_set.
    + intros y. unfold R; cbn [rb]. apply (bucket_fold_retain (keep_id s)).
    + intros H. cbn [fwd]. apply wfm_set. exact H.
    + intros H. cbn [rb]. apply (wfm_fold_retain (keep_id s)). exact H.
  - assert (Hb : F st s = []) by (apply get_none_bucket; exact E). rewrite Hb. cbn [fst snd].
    split; [reflexivity|]. split; [|split; [|split]]; auto.
    intros y. destruct (Z.eqb_spec y s) as [->|]; [exact Hb|reflexivity].
Qed.

Lemma hit_eq t ty r : hit t ty r = true <-> r = (ty, t).
Proof.
  destruct r as [a b]. unfold hit; cbn. rewrite andb_true_iff, !Z.eqb_eq.
  split; [intros [-> ->]; reflexivity|intros H; inversion H; auto].
Qed.

Lemma difference_In b t ty y :
  memZ y (difference b t ty) = true <->
  In y (map snd b) /\ ~ In y (map snd (filter (fun r => negb (hit t ty r)) b)).
Proof.
  rewrite memZ_In. unfold difference. rewrite filter_In, nodup_In, negb_true_iff, memZ_false. tauto.
Qed.

Lemma delete_reference_inv st s t ty : Inv st ->
  let st' := snd (delete_reference st s t ty) in
  Inv st' /\
  (forall y r, In r (F st' y) <-> In r (F st y) /\ ~ (y = s /\ r = (ty, t))) /\
  fst (delete_reference st s t ty) = mem_ref (ty, t) (F st s).
Proof.
  intros HI st'. destruct (delete_reference_char st s t ty) as (Hd & HF & HR & Hw1 & Hw2).
  fold st' in HF, HR, Hw1, Hw2.
  assert (InF : forall y r, In r (F st' y) <-> In r (F st y) /\ ~ (y = s /\ r = (ty, t))).
  { intros y r. rewrite HF. destruct (Z.eqb_spec y s) as [->|Hy].
    - rewrite filter_In, negb_true_iff. split.
      + intros [H1 H2]. split; [exact H1|]. intros [_ ->].
        assert (hit t ty (ty, t) = true) by (apply hit_eq; reflexivity). congruence.
      + intros [H1 H2]. split; [exact H1|]. destruct (hit t ty r) eqn:Eh; [|reflexivity].
        apply hit_eq in Eh. contradiction H2. split; [reflexivity|exact Eh].
    - split; [intros H; split; [exact H|intros [H1 _]; contradiction]|intros [H _]; exact H]. }
  destruct HI as [W1 W2 N1 N2 NS CV]. split; [|split; [exact InF|]].
  - constructor.
    + auto.
    + auto.
    + intros y. rewrite HF. destruct (y =? s); [apply NoDup_filter'|]; apply N1.
    + intros y. rewrite HR. destruct (memZ y _); [apply NoDup_filter'|]; apply N2.
    + intros y r Hr. apply InF in Hr. eapply NS. apply Hr.
    + intros x y. rewrite HR. split.
      * intros Hx.
        assert (Hx0 : In x (R st y)).
        { destruct (memZ y _); [apply filter_In in Hx; apply Hx|exact Hx]. }
        apply CV in Hx0. destruct Hx0 as (ty' & Hty').
        destruct (Z.eq_dec x s) as [->|Hxs].
        -- destruct (memZ y (difference (F st s) t ty)) eqn:Md.
           ++ apply filter_In in Hx. destruct Hx as [_ Hk]. unfold keep_id in Hk.
              rewrite Z.eqb_refl in Hk. discriminate.
           ++ (* y is still a target of s after the deletion *)
              assert (Hm : In y (map snd (filter (fun r => negb (hit t ty r)) (F st s)))).
              { destruct (memZ y (map snd (filter (fun r => negb (hit t ty r)) (F st s)))) eqn:Ma.
                - apply memZ_In. exact Ma.
                - exfalso. assert (memZ y (difference (F st s) t ty) = true); [|congruence].
                  apply difference_In. split.
                  + apply in_map_iff. exists (ty', y). split; [reflexivity|exact Hty'].
                  + apply memZ_false. exact Ma. }
              apply in_map_iff in Hm. destruct Hm as ([a b] & Hb & Hin). cbn in Hb. subst b.
              exists a. rewrite HF, Z.eqb_refl. exact Hin.
        -- exists ty'. apply InF. split; [exact Hty'|]. intros [H _]. contradiction.
      * intros (ty' & Hty'). pose proof Hty' as H0. apply InF in H0. destruct H0 as [H0 Hne].
        assert (Hx0 : In x (R st y)) by (apply CV; exists ty'; exact H0).
        destruct (memZ y (difference (F st s) t ty)) eqn:Md; [|exact Hx0].
        apply filter_In. split; [exact Hx0|]. unfold keep_id. apply negb_true_iff.
        apply Z.eqb_neq. intros ->. apply difference_In in Md. destruct Md as [_ Hn].
        apply Hn. apply in_map_iff. exists (ty', y). split; [reflexivity|].
        rewrite HF, Z.eqb_refl in Hty'. exact Hty'.
  - rewrite Hd. apply eq_true_iff_eq. rewrite existsb_exists, mem_ref_In. split.
    + intros (r & Hr & Hh). apply hit_eq in Hh. subst. exact Hr.
    + intros H. exists (ty, t). split; [exact H|apply hit_eq; reflexivity].
Qed.

(* ---- delete_node_references --------------------------------------------------------------- *)
Definition is_some {A} (o : option A) : bool := match o with Some _ => true | None => false end.

Lemma delete_node_references_inv st n : Inv st ->
  let st' := snd (delete_node_references st n) in
  Inv st' /\
  (forall y r, In r (F st' y) <-> In r (F st y) /\ y <> n /\ snd r <> n) /\
  (forall y x, In x (R st' y) <-> In x (R st y) /\ y <> n /\ x <> n) /\
  (fst (delete_node_references st n) = true <-> F st n <> [] \/ R st n <> []) /\
  (forall y, F st' y = if y =? n then [] else filter (keep_tgt n) (F st y)).
Proof.
  intros HI. destruct HI as [W1 W2 N1 N2 NS CV].
  unfold delete_node_references.
  (* stage 1 *)
  set (xs := nodup Z.eq_dec (map snd (F st n))).
  set (st1 := remove_node_from_referenced_nodes xs n (mk_refs (del n (fwd st)) (rb st))).
  assert (HF1 : forall y, F st1 y = if y =? n then [] else
                          if memZ y xs then filter (keep_tgt n) (F st y) else F st y).
  { intros y. unfold st1. rewrite F_rnfrn. unfold F at 1 2; cbn [fwd]. rewrite bucket_del.
    destruct (y =? n); [destruct (memZ y xs); reflexivity|reflexivity]. }
  assert (HR1 : forall y, R st1 y = if memZ y xs then filter (keep_id n) (R st y) else R st y).
  { intros y. unfold st1. rewrite R_rnfrn. reflexivity. }
  assert (HW1 : wfm (fwd st1) /\ wfm (rb st1)).
  { unfold st1. apply wf_rnfrn; cbn [fwd rb]; [apply wfm_del|]; assumption. }
  assert (Hxs : forall y, memZ y xs = true <-> In n (R st y)).
  { intros y. unfold xs. rewrite memZ_In, nodup_In, in_map_iff, CV. split.
    - intros ([a b] & Hb & Hin). cbn in Hb. subst b. exists a. exact Hin.
    - intros (ty & Hin). exists (ty, y). split; [reflexivity|exact Hin]. }
  (* the state after stage 1, whichever branch was taken, has the buckets of st1 *)
  destruct (match get n (fwd st) with
            | Some b => (true, remove_node_from_referenced_nodes (nodup Z.eq_dec (map snd b)) n
                                 (mk_refs (del n (fwd st)) (rb st)))
            | None => (false, st) end) as [d1 s1] eqn:E1.
  assert (Hs1 : (forall y, F s1 y = F st1 y) /\ (forall y, R s1 y = R st1 y) /\
                wfm (fwd s1) /\ wfm (rb s1) /\ d1 = is_some (get n (fwd st))).
  { destruct (get n (fwd st)) as [b|] eqn:G; inversion E1; subst d1 s1; clear E1.
    - assert (F st n = b) by (apply get_some_bucket; exact G). subst b.
      fold xs. fold st1. destruct HW1. repeat split; auto.
    - assert (Hn : F st n = []) by (apply get_none_bucket; exact G).
      assert (xs = []) by (unfold xs; rewrite Hn; reflexivity).
      repeat split; auto.
      + intros y. rewrite HF1, H. cbn. destruct (Z.eqb_spec y n) as [->|]; [exact Hn|reflexivity].
      + intros y. rewrite HR1, H. reflexivity. }
  destruct Hs1 as (HFs1 & HRs1 & W1s & W2s & Hd1).
  (* stage 2 *)
  set (l := R s1 n).
  set (st2 := remove_node_from_referenced_nodes l n (mk_refs (fwd s1) (del n (rb s1)))).
  destruct (match get n (rb s1) with
            | Some l0 => (true, remove_node_from_referenced_nodes l0 n (mk_refs (fwd s1) (del n (rb s1))))
            | None => (false, s1) end) as [d2 s2] eqn:E2.
  assert (HF2 : forall y, F st2 y = if memZ y l then filter (keep_tgt n) (F s1 y) else F s1 y).
  { intros y. unfold st2. rewrite F_rnfrn. reflexivity. }
  assert (HR2 : forall y, R st2 y = if y =? n then [] else
                          if memZ y l then filter (keep_id n) (R s1 y) else R s1 y).
  { intros y. unfold st2. rewrite R_rnfrn. unfold R at 1 2; cbn [rb]. rewrite bucket_del.
    destruct (y =? n); [destruct (memZ y l); reflexivity|reflexivity]. }
  assert (Hs2 : (forall y, F s2 y = F st2 y) /\ (forall y, R s2 y = R st2 y) /\
                wfm (fwd s2) /\ wfm (rb s2) /\ d2 = is_some (get n (rb s1))).
  { destruct (get n (rb s1)) as [l0|] eqn:G; inversion E2; subst d2 s2; clear E2.
    - assert (R s1 n = l0) by (apply get_some_bucket; exact G). subst l0.
      fold l. fold st2.
      destruct (wf_rnfrn l n (mk_refs (fwd s1) (del n (rb s1)))) as [A B]; cbn [fwd rb];
        [exact W1s|apply wfm_del; exact W2s|].
      repeat split; auto.
    - assert (Hn : R s1 n = []) by (apply get_none_bucket; exact G).
      assert (l = []) by exact Hn.
      repeat split; auto.
      + intros y. rewrite HF2, H. reflexivity.
      + intros y. rewrite HR2, H. cbn. destruct (Z.eqb_spec y n) as [->|]; [exact Hn|reflexivity]. }
  destruct Hs2 as (HFs2 & HRs2 & W1f & W2f & Hd2).
  cbn [fst snd].
  (* membership in l *)
  assert (Hl : forall y, y <> n -> (memZ y l = true <-> In y (R st n))).
  { intros y Hy. unfold l. rewrite memZ_In, HRs1, HR1.
    destruct (memZ n xs); [|tauto]. rewrite filter_In. unfold keep_id.
    rewrite negb_true_iff, Z.eqb_neq. tauto. }
  (* the final buckets *)
  assert (InF : forall y r, In r (F s2 y) <-> In r (F st y) /\ y <> n /\ snd r <> n).
  { intros y r. rewrite HFs2, HF2.
    assert (K : In r (filter (keep_tgt n) (F s1 y)) <-> In r (F st y) /\ y <> n /\ snd r <> n).
    { rewrite filter_In, HFs1, HF1. unfold keep_tgt. rewrite negb_true_iff, Z.eqb_neq.
      destruct (Z.eqb_spec y n) as [->|Hy]; [cbn; tauto|].
      destruct (memZ y xs); [rewrite filter_In; unfold keep_tgt; rewrite negb_true_iff, Z.eqb_neq|]; tauto. }
    destruct (memZ y l) eqn:Ml; [exact K|].
    rewrite <- K, filter_In. unfold keep_tgt. rewrite negb_true_iff, Z.eqb_neq.
    split; [|tauto]. intros Hr. split; [exact Hr|].
    (* y is not in l, so it has no reference to n *)
    intros Hsn. rewrite HFs1, HF1 in Hr.
    destruct (Z.eqb_spec y n) as [->|Hy]; [destruct Hr|].
    assert (Hr0 : In r (F st y)).
    { destruct (memZ y xs); [apply filter_In in Hr; apply Hr|exact Hr]. }
    assert (memZ y l = true); [|congruence].
    apply Hl; [exact Hy|]. apply CV. exists (fst r). rewrite <- Hsn.
    destruct r; exact Hr0. }
  assert (InR : forall y x, In x (R s2 y) <-> In x (R st y) /\ y <> n /\ x <> n).
  { intros y x. rewrite HRs2, HR2.
    destruct (Z.eqb_spec y n) as [->|Hy]; [cbn; tauto|].
    assert (K : In x (filter (keep_id n) (R s1 y)) <-> In x (R st y) /\ y <> n /\ x <> n).
    { rewrite filter_In, HRs1, HR1. unfold keep_id. rewrite negb_true_iff, Z.eqb_neq.
      destruct (memZ y xs); [rewrite filter_In; unfold keep_id; rewrite negb_true_iff, Z.eqb_neq|]; tauto. }
    destruct (memZ y l) eqn:Ml; [exact K|].
    rewrite <- K, filter_In. unfold keep_id. rewrite negb_true_iff, Z.eqb_neq.
    split; [|tauto]. intros Hx. split; [exact Hx|].
    intros ->. rewrite HRs1, HR1 in Hx.
    destruct (memZ y xs) eqn:Mx.
    - apply filter_In in Hx. destruct Hx as [_ Hk]. unfold keep_id in Hk.
      rewrite Z.eqb_refl in Hk. discriminate.
    - assert (memZ y xs = true); [|congruence]. apply Hxs. exact Hx. }
  assert (EF : forall y, F s2 y = if y =? n then [] else filter (keep_tgt n) (F st y)).
  { intros y. rewrite HFs2, HF2.
    assert (K : filter (keep_tgt n) (F s1 y) = if y =? n then [] else filter (keep_tgt n) (F st y)).
    { rewrite HFs1, HF1. destruct (y =? n); [reflexivity|].
      destruct (memZ y xs); [apply filter_idem|reflexivity]. }
    destruct (memZ y l) eqn:Ml; [exact K|]. rewrite <- K. symmetry. apply filter_all.
    intros r Hr. unfold keep_tgt. apply negb_true_iff, Z.eqb_neq. intros Hsn.
    rewrite HFs1, HF1 in Hr.
    destruct (y =? n) eqn:Eyn; [destruct Hr|]. apply Z.eqb_neq in Eyn.
    assert (Hr0 : In r (F st y)).
    { destruct (memZ y xs); [apply filter_In in Hr; apply Hr|exact Hr]. }
    assert (memZ y l = true); [|congruence].
    apply Hl; [exact Eyn|]. apply CV. exists (fst r). rewrite <- Hsn.
    destruct r; exact Hr0. }
  split; [|split; [exact InF|split; [exact InR|split; [|exact EF]]]].
  - constructor.
    + exact W1f.
    + exact W2f.
    + intros y. rewrite HFs2, HF2.
      assert (NoDup (F s1 y)).
      { rewrite HFs1, HF1. destruct (y =? n); [constructor|].
        destruct (memZ y xs); [apply NoDup_filter'|]; apply N1. }
      destruct (memZ y l); [apply NoDup_filter'|]; assumption.
    + intros y. rewrite HRs2, HR2. destruct (y =? n); [constructor|].
      assert (NoDup (R s1 y)).
      { rewrite HRs1, HR1. destruct (memZ y xs); [apply NoDup_filter'|]; apply N2. }
      destruct (memZ y l); [apply NoDup_filter'|]; assumption.
    + intros y r Hr. apply InF in Hr. eapply NS. apply Hr.
    + intros x y. rewrite InR, CV. split.
      * intros ((ty & H) & Hy & Hx). exists ty. apply InF. cbn. tauto.
      * intros (ty & H). apply InF in H. cbn in H. split; [exists ty; tauto|tauto].
  - (* the returned flag *)
    rewrite Hd1, Hd2, orb_true_iff. split.
    + intros [H|H].
      * left. unfold F, bucket. destruct (get n (fwd st)) as [b|] eqn:G; [|discriminate].
        intros ->. apply (W1 n). exact G.
      * right. destruct (get n (rb s1)) as [l0|] eqn:G; [|discriminate].
        assert (Hl0 : R s1 n = l0) by (apply get_some_bucket; exact G).
        destruct l0 as [|x l0]; [contradiction (W2s n)|].
        assert (Hx : In x (R s1 n)) by (rewrite Hl0; left; reflexivity).
        rewrite HRs1, HR1 in Hx. intros E0.
        destruct (memZ n xs); [apply filter_In in Hx; destruct Hx as [Hx _]|]; rewrite E0 in Hx; destruct Hx.
    + intros [H|H].
      * left. unfold F, bucket in H. destruct (get n (fwd st)); [reflexivity|contradiction].
      * destruct (get n (fwd st)) as [b|] eqn:G; [left; reflexivity|right].
        (* some x references n; x <> n, so x survives stage 1 in the set of n *)
        destruct (R st n) as [|x l0] eqn:ER; [contradiction|].
        assert (Hx : In x (R st n)) by (rewrite ER; left; reflexivity).
        pose proof Hx as Hx'. apply CV in Hx'. destruct Hx' as (ty & Hty).
        assert (Hxn : x <> n) by (intros ->; apply (NS n (ty, n) Hty); reflexivity).
        assert (In x (R s1 n)).
        { rewrite HRs1, HR1. destruct (memZ n xs); [|exact Hx].
          apply filter_In. split; [exact Hx|]. unfold keep_id. apply negb_true_iff, Z.eqb_neq. exact Hxn. }
        unfold R, bucket in H0. destruct (get n (rb s1)); [reflexivity|destruct H0].
Qed.
