(* C28: the two-map index refines the set of triples. *)
From Coq Require Import List ZArith Bool Lia.
Import ListNotations.
From OV Require Import C28.Refs C28.RefsFacts C28.RefsProofs C28.Model.
Open Scope Z_scope.

Lemma triple_eqb_eq a b : triple_eqb a b = true <-> a = b.
Proof.
  destruct a as [[a1 a2] a3], b as [[b1 b2] b3]. unfold triple_eqb, src, typ, tgt; cbn.
  rewrite !andb_true_iff, !Z.eqb_eq. split; [intros [[-> ->] ->]; reflexivity|].
  intros H; inversion H; auto.
Qed.

Lemma mem3_In x X : mem3 x X = true <-> In x X.
Proof.
  unfold mem3. rewrite existsb_exists. split.
  - intros (y & Hy & He). apply triple_eqb_eq in He. subst. exact Hy.
  - intros H. exists x. split; [exact H|apply triple_eqb_eq; reflexivity].
Qed.

(* the abstraction: the triples of a state are the entries of its forward buckets *)
Definition abs_rel (st : refs) (X : list triple) : Prop :=
  forall s ty t, In (ty, t) (F st s) <-> In (s, ty, t) X.

Lemma abs_empty : abs_rel empty_refs [].
Proof. intros s ty t. cbn. tauto. Qed.

Lemma step_refines st X o : Inv st -> abs_rel st X ->
  fst (step st o) = fst (spec_step X o) /\
  Inv (snd (step st o)) /\
  abs_rel (snd (step st o)) (snd (spec_step X o)).
Proof.
  intros HI HA. unfold abs_rel in *. destruct o as [s t ty|s t ty|n]; cbn [step spec_step].
  - (* insert *)
    destruct (Z.eqb_spec s t) as [->|Hst].
    + rewrite insert_self. cbn [fst snd]. auto.
    + destruct (insert_ok st s t ty Hst) as (st' & E & _). rewrite E. cbn [fst snd].
      destruct (insert_inv st s t ty st' HI E) as [HI' InF].
      split; [reflexivity|split; [exact HI'|]].
      intros s' ty' t'. rewrite InF, HA.
      destruct (mem3 (s, ty, t) X) eqn:M.
      * apply mem3_In in M. split; [|auto].
        intros [H|[-> H]]; [exact H|]. inversion H; subst. exact M.
      * cbn [In]. split.
        -- intros [H|[-> H]]; [right; exact H|left]. inversion H; reflexivity.
        -- intros [H|H]; [right|left; exact H]. inversion H; auto.
  - (* delete reference *)
    pose proof (delete_reference_inv st s t ty HI) as H.
    destruct (delete_reference st s t ty) as [d st'] eqn:E. cbn [fst snd] in H |- *.
    destruct H as (HI' & InF & Hd). split; [|split; [exact HI'|]].
    + f_equal. rewrite Hd. apply eq_true_iff_eq. rewrite mem_ref_In, mem3_In. apply HA.
    + intros s' ty' t'. rewrite InF, filter_In, HA, negb_true_iff.
      destruct (triple_eqb (s, ty, t) (s', ty', t')) eqn:Et.
      * apply triple_eqb_eq in Et. inversion Et; subst. split; [|intros [_ H]; discriminate].
        intros [_ H]. contradiction H. auto.
      * split; [intros [H _]; auto|]. intros [H _]. split; [exact H|]. intros [-> H2].
        inversion H2; subst. assert (triple_eqb (s, ty, t) (s, ty, t) = true) by (apply triple_eqb_eq; reflexivity).
        congruence.
  - (* delete node *)
    pose proof (delete_node_references_inv st n HI) as H.
    destruct (delete_node_references st n) as [d st'] eqn:E. cbn [fst snd] in H |- *.
    destruct H as (HI' & InF & _ & Hd & _). split; [|split; [exact HI'|]].
    + f_equal. apply eq_true_iff_eq. rewrite Hd, existsb_exists. split.
      * intros [H|H].
        -- destruct (F st n) as [|[ty t] b] eqn:EF; [contradiction|].
           exists (n, ty, t). split; [apply HA; rewrite EF; left; reflexivity|].
           unfold src; cbn. rewrite Z.eqb_refl. reflexivity.
        -- destruct (R st n) as [|x l] eqn:ER; [contradiction|].
           assert (Hx : In x (R st n)) by (rewrite ER; left; reflexivity).
           apply (inv_conv st HI) in Hx. destruct Hx as (ty & Hty).
           exists (x, ty, n). split; [apply HA; exact Hty|].
           unfold tgt; cbn. rewrite Z.eqb_refl. apply orb_true_r.
      * intros ([[a ty] b] & Hin & Hor). apply HA in Hin. unfold src, tgt in Hor; cbn in Hor.
        apply orb_true_iff in Hor. destruct Hor as [Ha|Hb].
        -- apply Z.eqb_eq in Ha. subst a. left. intros E0. rewrite E0 in Hin. destruct Hin.
        -- apply Z.eqb_eq in Hb. subst b. right.
           assert (Ha : In a (R st n)) by (apply (inv_conv st HI); exists ty; exact Hin).
           intros E0. rewrite E0 in Ha. destruct Ha.
    + intros s' ty' t'. rewrite InF, filter_In, HA, andb_true_iff, !negb_true_iff.
      unfold src, tgt; cbn [fst snd]. rewrite !Z.eqb_neq. tauto.
Qed.

Lemma exec_refines ops : forall st X, Inv st -> abs_rel st X ->
  fst (exec st ops) = fst (spec_exec X ops) /\
  Inv (snd (exec st ops)) /\
  abs_rel (snd (exec st ops)) (snd (spec_exec X ops)).
Proof.
  induction ops as [|o ops IH]; intros st X HI HA; cbn [exec spec_exec].
  - cbn. auto.
  - pose proof (step_refines st X o HI HA) as H.
    destruct (step st o) as [r st'] eqn:Es. destruct (spec_step X o) as [r' X'] eqn:Ex.
    cbn [fst snd] in H. destruct H as (Hr & HI' & HA').
    specialize (IH st' X' HI' HA').
    destruct (exec st' ops) as [rs st''] eqn:Ee. destruct (spec_exec X' ops) as [rs' X''] eqn:Ee'.
    cbn [fst snd] in IH |- *. destruct IH as (Hrs & HI'' & HA'').
    split; [congruence|auto].
Qed.

(* ---- every query is a function of the set ------------------------------------------------- *)
Lemma inverse_inner st n x :
  match get x (fwd st) with
  | Some b => map (fun r => (fst r, x)) (filter (fun r => snd r =? n) b)
  | None => []
  end = map (fun r : ref => (fst r, x)) (filter (fun r => snd r =? n) (F st x)).
Proof. unfold F, bucket. destruct (get x (fwd st)); reflexivity. Qed.

Lemma find_inverse_eq st n :
  opt_list (find_inverse_references st n)
  = flat_map (fun s => map (fun r : ref => (fst r, s)) (filter (fun r => snd r =? n) (F st s))) (R st n).
Proof.
  unfold find_inverse_references, R, bucket. destruct (get n (rb st)) as [l|]; [|reflexivity].
  rewrite opt_list_nonempty. apply flat_map_ext. intros a. apply inverse_inner.
Qed.

Lemma find_inverse_In st n ty s : Inv st ->
  In (ty, s) (opt_list (find_inverse_references st n)) <-> In (ty, n) (F st s).
Proof.
  intros HI. rewrite find_inverse_eq, in_flat_map. split.
  - intros (x & Hx & Hin). apply in_map_iff in Hin. destruct Hin as ([a b] & He & Hf).
    cbn in He. inversion He; subst. apply filter_In in Hf. destruct Hf as [Hf Hb].
    cbn in Hb. apply Z.eqb_eq in Hb. subst. exact Hf.
  - intros H. exists s. split; [apply (inv_conv st HI); exists ty; exact H|].
    apply in_map_iff. exists (ty, n). split; [reflexivity|]. apply filter_In. split; [exact H|].
    cbn. apply Z.eqb_refl.
Qed.

Lemma NoDup_app' {A} (l1 l2 : list A) :
  NoDup l1 -> NoDup l2 -> (forall x, In x l1 -> ~ In x l2) -> NoDup (l1 ++ l2).
Proof.
  induction l1 as [|a l1 IH]; cbn; intros H1 H2 Hd; [exact H2|].
  inversion H1; subst. constructor.
  - rewrite in_app_iff. intros [H|H]; [contradiction|]. apply (Hd a); [left; reflexivity|exact H].
  - apply IH; auto.
Qed.

Lemma NoDup_map_inj {A B} (f : A -> B) l :
  (forall x y, In x l -> In y l -> f x = f y -> x = y) -> NoDup l -> NoDup (map f l).
Proof.
  induction l as [|a l IH]; cbn; intros Hinj Hn; [constructor|].
  inversion Hn; subst. constructor.
  - rewrite in_map_iff. intros (y & Hy & Hin). apply Hinj in Hy; auto. subst. contradiction.
  - apply IH; auto.
Qed.

Lemma find_inverse_NoDup st n : Inv st -> NoDup (opt_list (find_inverse_references st n)).
Proof.
  intros HI. rewrite find_inverse_eq. pose proof (inv_nodup_rb st HI n) as Hn.
  induction (R st n) as [|x l IH]; cbn [flat_map]; [constructor|].
  inversion Hn as [|? ? Hnx Hnl]; subst. apply NoDup_app'.
  - apply NoDup_map_inj.
    + intros [a1 b1] [a2 b2] K1 K2 He. apply filter_In in K1, K2. cbn in *.
      destruct K1 as [_ K1], K2 as [_ K2]. apply Z.eqb_eq in K1, K2. inversion He. congruence.
    + apply NoDup_filter'. apply (inv_nodup_fwd st HI).
  - apply IH. assumption.
  - intros [a b] H1 H2. apply in_map_iff in H1. destruct H1 as (r & He & _). inversion He; subst.
    apply in_flat_map in H2. destruct H2 as (y & Hy & Hin). apply in_map_iff in Hin.
    destruct Hin as (r' & He' & _). inversion He'; subst. contradiction.
Qed.

Lemma queries_sound st X : Inv st -> abs_rel st X -> forall n ty t,
  (has_reference st n t ty = true <-> In (n, ty, t) X) /\
  (In (ty, t) (opt_list (find_references st n)) <-> In (n, ty, t) X) /\
  (In (ty, t) (opt_list (find_inverse_references st n)) <-> In (t, ty, n) X) /\
  NoDup (opt_list (find_references st n)) /\
  NoDup (opt_list (find_inverse_references st n)).
Proof.
  intros HI HA n ty t. repeat split.
  - rewrite has_reference_F. intros H. apply HA, mem_ref_In, H.
  - rewrite has_reference_F. intros H. apply mem_ref_In, HA, H.
  - rewrite find_references_F. apply HA.
  - rewrite find_references_F. apply HA.
  - intros H. apply HA, (find_inverse_In st n ty t HI), H.
  - intros H. apply (find_inverse_In st n ty t HI), HA, H.
  - rewrite find_references_F. apply (inv_nodup_fwd st HI).
  - apply find_inverse_NoDup, HI.
Qed.

Lemma queries_eq st X univ tys : Inv st -> abs_rel st X ->
  queries st univ tys = spec_queries X univ tys.
Proof.
  intros HI HA. unfold queries, spec_queries, obs_fwd, obs_inv, obs_has. f_equal; [|f_equal].
  - apply flat_map_ext. intros n. unfold obs_set.
    rewrite (filter_ext _ (fun p => mem3 (n, fst p, snd p) X)); [reflexivity|].
    intros [ty t]. cbn [fst snd]. apply eq_true_iff_eq. rewrite mem_ref_In, mem3_In.
    apply (queries_sound st X HI HA n ty t).
  - apply flat_map_ext. intros n. unfold obs_set.
    rewrite (filter_ext _ (fun p => mem3 (snd p, fst p, n) X)); [reflexivity|].
    intros [ty t]. cbn [fst snd]. apply eq_true_iff_eq. rewrite mem_ref_In, mem3_In.
    apply (queries_sound st X HI HA n ty t).
  - apply flat_map_ext. intros s. apply flat_map_ext. intros t. apply map_ext. intros ty.
    f_equal. apply eq_true_iff_eq. rewrite mem3_In. apply (queries_sound st X HI HA s ty t).
Qed.

Lemma prefix_eqb_app p r : prefix_eqb p (p ++ r) = true.
Proof. induction p as [|x p IH]; cbn; [reflexivity|]. rewrite Z.eqb_refl. exact IH. Qed.

Lemma run_shape c :
  exists dump, run c = (spec_out c ++ [-7]) ++ dump.
Proof.
  unfold run, spec_out.
  pose proof (exec_refines (c_ops c) empty_refs [] Inv_empty abs_empty) as H.
  destruct (exec empty_refs (c_ops c)) as [rs st]. destruct (spec_exec [] (c_ops c)) as [rs' X].
  cbn [fst snd] in H. destruct H as (-> & HI & HA).
  unfold observe. rewrite (queries_eq st X _ _ HI HA).
  eexists. rewrite <- !app_assoc. reflexivity.
Qed.

Lemma oracle_holds c : oracle c (run c) = true.
Proof. destruct (run_shape c) as (d & ->). unfold oracle. apply prefix_eqb_app. Qed.

(* deleting one reference never removes or hides a different one *)
Lemma delete_isolated st s t ty s' t' ty' : Inv st -> (s', ty', t') <> (s, ty, t) ->
  has_reference (snd (delete_reference st s t ty)) s' t' ty' = has_reference st s' t' ty'.
Proof.
  intros HI Hne. destruct (delete_reference_inv st s t ty HI) as (_ & InF & _).
  rewrite !has_reference_F. apply eq_true_iff_eq. rewrite !mem_ref_In, InF.
  split; [intros [H _]; exact H|]. intros H. split; [exact H|]. intros [-> E]. inversion E; subst.
  apply Hne. reflexivity.
Qed.

Lemma inverse_index_converse st : Inv st ->
  forall s t, In s (bucket t (rb st)) <-> exists ty, has_reference st s t ty = true.
Proof.
  intros HI s t. change (bucket t (rb st)) with (R st t). rewrite (inv_conv st HI). split.
  - intros (ty & H). exists ty. rewrite has_reference_F. apply mem_ref_In. exact H.
  - intros (ty & H). exists ty. rewrite has_reference_F in H. apply mem_ref_In. exact H.
Qed.

Lemma history_inv ops : Inv (snd (exec empty_refs ops)).
Proof. apply (exec_refines ops empty_refs [] Inv_empty abs_empty). Qed.

(* ---- the code before the fix --------------------------------------------------------------- *)
Definition witness : case :=
  mk_case [1; 2; 3] [1] [Ins 1 2 1; Ins 2 1 1; Ins 1 3 1; Del 1 2 1].

Lemma legacy_refuted : exists c, oracle c (Legacy.run c) = false.
Proof. exists witness. vm_compute. reflexivity. Qed.

(* non-trivial instances of the hypotheses *)
Example inv_example :
  let st := snd (exec empty_refs [Ins 1 2 1; Ins 2 1 1; Ins 1 3 2; Del 1 2 1]) in
  Inv st /\ has_reference st 2 1 1 = true /\ has_reference st 1 2 1 = false.
Proof. split; [apply history_inv|split; vm_compute; reflexivity]. Qed.
