(* C20 — statements only (stub, to be completed) *)
From Coq Require Import List ZArith Bool.
From OV Require Import C20.Model C20.Proofs.
Open Scope Z_scope.
