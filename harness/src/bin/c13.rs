//! C13: key derivation.  A HISTORY of OpenSecureChannel exchanges (issue + renewals) on ONE real
//! client-role and ONE real server-role `SecureChannel`: per exchange the policy and both nonces
//! are set again (peer nonce by `set_remote_nonce` or `set_remote_nonce_from_byte_string`), and
//! `derive_keys` is called when the peer nonce was accepted.  After every exchange the stored key
//! sets (hook verif_derived_keys) and the keys handed out by the private accessors the message
//! securing code uses (hook verif_used_keys) are printed for both channels.
#[path = "../util.rs"]
mod util;
use util::*;
use opcua::core::comms::secure_channel::{Role, SecureChannel};
use opcua::crypto::CertificateStore;
use opcua::sync::RwLock;
use opcua::types::{ByteString, DecodingOptions};
use std::sync::Arc;
use opcua::crypto::SecurityPolicy;

#[derive(Clone)]
pub struct Round { policy: SecurityPolicy, client_nonce: Vec<u8>, server_nonce: Vec<u8>, mode: u8 }
pub struct Case { rounds: Vec<Round> }
pub struct P;

const POLICIES: [SecurityPolicy; 5] = [SecurityPolicy::Basic128Rsa15, SecurityPolicy::Basic256, SecurityPolicy::Basic256Sha256,
    SecurityPolicy::Aes128Sha256RsaOaep, SecurityPolicy::Aes256Sha256RsaPss];

fn channel(role: Role) -> SecureChannel {
    let store = Arc::new(RwLock::new(CertificateStore::new(std::path::Path::new("/tmp/verif-c13-pki"))));
    SecureChannel::new(store, role, DecodingOptions::default())
}
fn name(p: SecurityPolicy) -> &'static str {
    match p {
        SecurityPolicy::Basic128Rsa15 => "Basic128Rsa15", SecurityPolicy::Basic256 => "Basic256",
        SecurityPolicy::Basic256Sha256 => "Basic256Sha256", SecurityPolicy::Aes128Sha256RsaOaep => "Aes128Sha256RsaOaep",
        _ => "Aes256Sha256RsaPss",
    }
}
/// nonce for an exchange; `strict` = it has to pass the length check of the byte string setter
/// most of the time, with the neighbouring lengths and the OTHER policies' length as near misses
fn nonce(r: &mut Rng, policy: SecurityPolicy, strict: bool) -> Vec<u8> {
    let pl = policy.secure_channel_nonce_length();
    let len = if strict {
        match r.below(16) { 0 => pl - 1, 1 => pl + 1, 2 => 48 - pl, 3 => 0, _ => pl }
    } else {
        match r.below(10) {
            0 => 0, 1 => 1, 2 => 64, 3 => 63 + r.below(2) as usize, 4 => r.below(65) as usize,
            5 => 65 + r.below(40) as usize,         // longer than one HMAC block: the key is hashed first
            _ => pl,
        }
    };
    match r.below(5) {
        0 => vec![0u8; len], 1 => vec![0xffu8; len], 2 => vec![r.next() as u8; len],
        _ => r.bytes(len),
    }
}
fn enc_set(k: &(Vec<u8>, Vec<u8>, Vec<u8>), out: &mut Vec<i128>) {
    out.push(k.0.len() as i128); out.push(k.1.len() as i128); out.push(k.2.len() as i128);
    for b in k.0.iter().chain(k.1.iter()).chain(k.2.iter()) { out.push(*b as i128); }
}
fn obs(ch: &SecureChannel, out: &mut Vec<i128>) {
    let (l, r) = ch.verif_derived_keys();
    match l { Some(k) => enc_set(&k, out), None => out.push(-1) }
    match r { Some(k) => enc_set(&k, out), None => out.push(-1) }
    match ch.verif_used_keys() { Some((a, b)) => { enc_set(&a, out); enc_set(&b, out); } None => out.push(-1) }
}
/// one side of one exchange; returns 0 if the peer nonce was accepted (and keys derived), else 1
fn side(ch: &mut SecureChannel, policy: SecurityPolicy, mode: u8, own: &[u8], peer: &[u8]) -> i128 {
    ch.set_security_policy(policy);
    ch.set_local_nonce(own);
    let ok = match mode {
        0 => { ch.set_remote_nonce(peer); true }
        1 => ch.set_remote_nonce_from_byte_string(&ByteString::from(peer)).is_ok(),
        _ => ch.set_remote_nonce_from_byte_string(&ByteString::null()).is_ok(),
    };
    if ok { ch.derive_keys(); 0 } else { 1 }
}
fn one(p: SecurityPolicy, c: Vec<u8>, s: Vec<u8>, mode: u8) -> Round { Round { policy: p, client_nonce: c, server_nonce: s, mode } }

impl Property for P {
    type Case = Case;
    fn fixed(_tier: &str) -> Vec<Case> {
        let mut v = Vec::new();
        for (i, p) in POLICIES.iter().enumerate() {
            let p = *p;
            let n = p.secure_channel_nonce_length();
            let a: Vec<u8> = (0..n as u8).collect(); let b: Vec<u8> = (100..100 + n as u8).collect();
            v.push(Case { rounds: vec![one(p, a.clone(), b.clone(), 0)] });
            // fixed {fix: HMAC / P_SHA key derivation panicked on an empty secret}: empty nonces
            v.push(Case { rounds: vec![one(p, vec![], vec![], 0)] });
            v.push(Case { rounds: vec![one(p, vec![0; n], vec![0; n], 0)] });
            // issue, then a renewal with fresh nonces, then one with the old nonces again
            v.push(Case { rounds: vec![one(p, a.clone(), b.clone(), 1), one(p, b.clone(), a.clone(), 1), one(p, a.clone(), b.clone(), 1)] });
            // a renewal whose nonces are refused (one byte short / long / null) keeps the keys; the next one replaces them
            let q = POLICIES[(i + 1) % 5];
            let m = q.secure_channel_nonce_length();
            v.push(Case { rounds: vec![one(p, a.clone(), b.clone(), 1), one(p, a[1..].to_vec(), b.clone(), 1), one(p, a.clone(), [&b[..], &[1]].concat(), 1),
                                       one(p, b.clone(), a.clone(), 2), one(q, vec![5; m], vec![6; m], 1)] });
            // the same nonces under another policy; only one nonce changed; a nonce shortened and grown again
            v.push(Case { rounds: vec![one(p, vec![9; 32], vec![8; 32], 0), one(q, vec![9; 32], vec![8; 32], 0), one(q, vec![9; 32], vec![7; 32], 0),
                                       one(q, vec![9; 3], vec![7; 32], 0), one(q, vec![9; 32], vec![7; 40], 0)] });
            // first exchange refused: nothing derived yet
            v.push(Case { rounds: vec![one(p, vec![1; n + 1], vec![2; n], 1), one(p, vec![1; n], vec![2; n], 1)] });
        }
        // same nonce on both sides; nonce of exactly one HMAC block, and longer (hashed key)
        v.push(Case { rounds: vec![one(SecurityPolicy::Basic256Sha256, vec![7; 64], vec![7; 64], 0)] });
        v.push(Case { rounds: vec![one(SecurityPolicy::Basic256, vec![7; 65], vec![3; 100], 0), one(SecurityPolicy::Basic256Sha256, vec![7; 65], vec![3; 100], 0)] });
        v
    }
    fn gen(r: &mut Rng) -> Case {
        let n = match r.below(8) { 0 | 1 => 1, 2 | 3 | 4 => 2, 5 | 6 => 3, _ => 4 };
        let mut rounds: Vec<Round> = Vec::new();
        for i in 0..n {
            let policy = if i > 0 && r.chance(1, 2) { rounds[i - 1].policy } else { *r.pick(&POLICIES) };
            let mode = match r.below(10) { 0..=3 => 0u8, 4..=8 => 1, _ => 2 };
            let mut rd = one(policy, nonce(r, policy, mode != 0), nonce(r, policy, mode != 0), mode);
            if i > 0 {
                // renewals that repeat all or part of the previous exchange
                match r.below(8) {
                    0 => { rd.client_nonce = rounds[i - 1].client_nonce.clone(); rd.server_nonce = rounds[i - 1].server_nonce.clone(); }
                    1 => rd.client_nonce = rounds[i - 1].client_nonce.clone(),
                    2 => rd.server_nonce = rounds[i - 1].server_nonce.clone(),
                    3 => { rd.client_nonce = rounds[i - 1].server_nonce.clone(); rd.server_nonce = rounds[i - 1].client_nonce.clone(); }
                    _ => {}
                }
            }
            rounds.push(rd);
        }
        Case { rounds }
    }
    fn exec(c: &Case) -> Out {
        let res = guarded(|| {
            let mut out = Vec::new();
            let mut client = channel(Role::Client);
            let mut server = channel(Role::Server);
            for rd in &c.rounds {
                let stc = side(&mut client, rd.policy, rd.mode, &rd.client_nonce, &rd.server_nonce);
                let sts = side(&mut server, rd.policy, rd.mode, &rd.server_nonce, &rd.client_nonce);
                out.push(stc); out.push(sts);
                obs(&client, &mut out); obs(&server, &mut out);
            }
            out
        });
        let out = match res { Ok(o) => o, Err(_) => vec![-2] };
        let refused = c.rounds.iter().any(|rd| rd.mode == 2 || (rd.mode == 1 && (rd.client_nonce.len() != rd.policy.secure_channel_nonce_length()
            || rd.server_nonce.len() != rd.policy.secure_channel_nonce_length())));
        let pols = c.rounds.windows(2).any(|w| w[0].policy != w[1].policy);
        let tag = format!("{}-exchange{}{}{}", c.rounds.len(), if c.rounds.len() > 1 { "s" } else { "" },
                          if pols { "-policy-change" } else { "" }, if refused { "-with-refused-nonce" } else { "" });
        let term = format!("(mk_case {})", coq_list(&c.rounds, |rd| format!("(mk_round {} {} {} {})", name(rd.policy), zbytes(&rd.client_nonce), zbytes(&rd.server_nonce), rd.mode)));
        Out { tag, term, out }
    }
}
fn main() { run_main::<P>() }
