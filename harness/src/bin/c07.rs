//! C07: a message is chunked (Chunker::encode), every chunk secured (apply_security) by a real
//! sender channel, verified/decrypted (verify_and_remove_security) by the real peer channel and
//! reassembled (validate_chunks + Chunker::decode).  Observed: per-chunk structure, sizes, checksums
//! of the secured bytes where they are deterministic, and the reassembled message.
#[path = "../util.rs"]
mod util;
#[path = "../chan_util.rs"]
mod chan;
use chan::*;
use util::*;
use opcua::core::comms::chunker::Chunker;
use opcua::core::comms::message_writer::MessageWriter;
use opcua::core::comms::message_chunk::{MessageChunk, MessageChunkType, MessageIsFinalType};
use opcua::crypto::pkey::KeySize;

pub struct Case {
    policy: usize, mode: usize, mty: usize, max_chunk: usize,
    chan_id: u32, token_id: u32, seq0: u32, req_id: u32,
    sid: usize, rid: usize, fill: Fill, exact: bool,
    /// Some((k, d)): the filler length is chosen at run time so that the encoded message is exactly
    /// k full chunk bodies plus d bytes (the body room is asked from the real code)
    boundary: Option<(usize, i64)>,
    /// the message goes through the server's `MessageWriter` whose send buffer size (negotiated in
    /// HEL/ACK) is `max_chunk`, instead of through `Chunker::encode` + `apply_security` directly
    writer: bool,
}
pub struct P;

/// split what the writer put on the wire into secured chunks by the size field of each chunk header
fn split_wire(bs: &[u8]) -> Vec<Vec<u8>> {
    let mut v = Vec::new();
    let mut i = 0;
    while i + 8 <= bs.len() {
        let n = u32::from_le_bytes([bs[i + 4], bs[i + 5], bs[i + 6], bs[i + 7]]) as usize;
        if n < 12 || i + n > bs.len() { break; }
        v.push(bs[i..i + n].to_vec());
        i += n;
    }
    if i < bs.len() { v.push(bs[i..].to_vec()); }
    v
}

fn fin_code(f: MessageIsFinalType) -> i128 { match f { MessageIsFinalType::Intermediate => 0, MessageIsFinalType::Final => 1, MessageIsFinalType::FinalError => 2 } }

fn mk(policy: usize, mode: usize, mty: usize, max_chunk: usize, len: usize, exact: bool) -> Case {
    Case { policy, mode, mty, max_chunk, chan_id: 5, token_id: 9, seq0: 1, req_id: 1000, sid: 0, rid: 1,
           fill: Fill { len, a: 3, b: 7, m: if mty == 2 { 95 } else { 256 }, lo: if mty == 2 { 32 } else { 0 } }, exact, boundary: None, writer: false }
}

/// OpenSecureChannel messages whose filler length makes the padding the sender has to add land on the values where
/// the padding bytes / extra padding byte change shape: 1..3, 254..259 (the second padding-size byte of keys longer
/// than 2048 bits becomes non-zero at 256 + 2), a whole plain-text block.  The lengths are found by asking the real
/// `SecureChannel::padding_size` for every filler length of one block cycle.
fn opn_padding_cases(policy: usize, sid: usize, rid: usize) -> Vec<Case> {
    let ns = nonce_for(policy, 11);
    let nr = nonce_for(policy, 77);
    let (sender, _) = channel_pair(policy, 2, sid, rid, true, 5, 9, &ns, &nr);
    let hdr = sender.make_security_header(MessageChunkType::OpenSecureChannel);
    let sig = ident(sid).cert.public_key().unwrap().size();
    let pb = ident(rid).cert.public_key().unwrap().plain_text_block_size(POLICIES[policy].asymmetric_encryption_padding());
    let base = message_bytes(&message(1, 2, &Fill { len: 0, a: 3, b: 7, m: 256, lo: 0 })).len();
    let targets: Vec<usize> = vec![1, 2, 3, 254, 255, 256, 257, 258, 259, pb - 1, pb, pb + 1];
    let mut v = Vec::new();
    for len in 0..pb + 2 {
        let (total, _) = sender.padding_size(&hdr, base + len, sig);
        if targets.contains(&total) {
            let mut c = mk(policy, 2, 1, 0, len, false);
            c.sid = sid; c.rid = rid;
            v.push(c);
        }
    }
    v
}

/// identities whose key length the policy allows (quick: 2048 only)
fn ids_for(policy: usize, tier_thorough: bool, r: &mut Rng) -> (usize, usize) {
    if !tier_thorough || policy == 0 { return if r.chance(1, 2) { (0, 1) } else { (1, 0) }; }
    let small = policy == 1 || policy == 2;
    let pool: &[usize] = if small { &[0, 1, 2, 3] } else { &[0, 1, 4, 5] };
    let s = *r.pick(pool);
    let mut t = *r.pick(pool);
    if t == s { t = pool[(pool.iter().position(|x| *x == s).unwrap() + 1) % pool.len()]; }
    (s, t)
}

thread_local! { static THOROUGH: std::cell::Cell<bool> = std::cell::Cell::new(false); }

impl Property for P {
    type Case = Case;
    fn fixed(tier: &str) -> Vec<Case> {
        THOROUGH.with(|t| t.set(tier == "thorough"));
        let mut v = Vec::new();
        // every valid policy/mode, MSG, message spanning 2 chunks of the minimum size and unlimited
        for policy in 0..6 {
            for mode in 0..3 {
                if (policy == 0) != (mode == 0) { continue; }
                v.push(mk(policy, mode, 0, 8196, 9000, mode != 2));
                v.push(mk(policy, mode, 0, 0, 300, mode != 2));
                v.push(mk(policy, mode, 1, 0, 32, policy == 0));
                v.push(mk(policy, mode, 2, 8196, 10, mode != 2));
            }
        }
        // witnesses of the two pre-landed C07 fixes: Sign mode (padding was added and never removed),
        // SignAndEncrypt with a full body (secured chunk was 8208 > 8196)
        v.push(mk(3, 1, 0, 8196, 100, true));
        v.push(mk(3, 2, 0, 8196, 20000, false));
        v.push(mk(1, 2, 0, 9000, 20000, false));
        v.push(mk(5, 2, 0, 12345, 30000, false));
        // asymmetric (OPN) chunks with a size limit: the body budget must count whole RSA blocks
        v.push(mk(1, 2, 1, 8196, 9000, false));
        v.push(mk(3, 1, 1, 8196, 20000, false));
        v.push(mk(5, 2, 1, 9001, 7000, false));
        // the server's MessageWriter with a negotiated send buffer of 8196 / 9000 bytes and a response that does
        // not fit one chunk: before the fix it wrote one chunk of 9064 bytes (max_chunk_size 0 = no limit)
        for (policy, mode, max_chunk, len, exact) in [(0usize, 0usize, 8196usize, 9000usize, true), (0, 0, 8196, 30000, false), (3, 1, 8196, 8900, true),
                                                      (3, 2, 9000, 9500, false), (1, 2, 8196, 20000, false), (0, 0, 8196, 100, true), (4, 1, 12000, 40000, false)] {
            let mut c = mk(policy, mode, 0, max_chunk, len, exact);
            c.writer = true;
            v.push(c);
        }
        // OPN padding shapes: 2048-bit receiver (one padding-size byte) and 4096-bit receiver (two)
        v.extend(opn_padding_cases(3, 0, 1));
        v.extend(opn_padding_cases(3, 0, 4));
        if tier == "thorough" { v.extend(opn_padding_cases(4, 5, 4)); v.extend(opn_padding_cases(5, 1, 5)); v.extend(opn_padding_cases(1, 2, 3)); }
        // empty filler; exactly one full chunk; one byte more
        v.push(mk(0, 0, 0, 8196, 0, true));
        // encoded message = exactly k full chunk bodies (and one byte either side): the last chunk is
        // completely full and must still be the Final one
        for (policy, mode) in [(0usize, 0usize), (3, 1), (3, 2), (4, 2)] {
            for max_chunk in [8196usize, 8207] {
                for k in 1..=3usize {
                    for d in [-1i64, 0, 1] {
                        let mut c = mk(policy, mode, 0, max_chunk, 0, false);
                        c.boundary = Some((k, d));
                        v.push(c);
                    }
                }
            }
        }
        v
    }
    fn gen(r: &mut Rng) -> Case {
        let thorough = THOROUGH.with(|t| t.get());
        let policy = r.below(6) as usize;
        let mode = if policy == 0 { 0 } else { 1 + r.below(2) as usize };
        let mty = match r.below(8) { 0 | 1 => 1, 2 => 2, _ => 0 };
        let max_chunk = match r.below(6) { 0 => 0, 1 => 8196, 2 => 8197 + r.below(64) as usize, 3 => 9000 + r.below(3000) as usize, 4 => 8196 + r.below(16) as usize, _ => 8196 + r.below(9000) as usize };
        let (sid, rid) = ids_for(policy, thorough, r);
        // sizes straddling 1..N chunk boundaries: pick a target number of chunks and an offset around the boundary
        let approx_body = if max_chunk == 0 { 8000 } else { max_chunk - 80 };
        let k = r.below(4) as usize; // 0..3 full chunks
        let len = match r.below(5) {
            0 => r.below(200) as usize,
            1 | 2 => (k * approx_body + r.below(120) as usize).saturating_sub(r.below(120) as usize),
            _ => k * approx_body + r.below(approx_body as u64) as usize,
        };
        let exact = (policy == 0 || (mode == 1 && mty != 1)) && r.chance(1, 3);
        let (m, lo) = if mty == 2 { (95, 32) } else { (256, 0) };
        Case { policy, mode, mty, max_chunk, chan_id: r.next() as u32, token_id: r.next() as u32,
               // near the top of the u32 range, but the sequence numbers of the message stay below 2^32 (wrap-around is C12's subject)
               seq0: if r.chance(1, 10) { u32::MAX - (len as u32 + 64) - r.below(6) as u32 } else { 1 + r.below(100000) as u32 }, req_id: r.next() as u32,
               sid, rid, fill: Fill { len, a: r.below(256) as u32, b: r.below(256) as u32, m, lo }, exact,
               boundary: if max_chunk > 0 && r.chance(1, 5) { Some((1 + r.below(3) as usize, r.range(-1, 1))) } else { None },
               writer: max_chunk > 0 && r.chance(1, 4) }
    }
    fn exec(c: &Case) -> Out {
        let ns = nonce_for(c.policy, 11);
        let nr = nonce_for(c.policy, 77);
        let (sender, mut receiver) = channel_pair(c.policy, c.mode, c.sid, c.rid, c.mty != 0, c.chan_id, c.token_id, &ns, &nr);
        // resolve an exact-boundary request against the body room the real code computes
        let mut fill = Fill { len: c.fill.len, a: c.fill.a, b: c.fill.b, m: c.fill.m, lo: c.fill.lo };
        if let (Some((k, d)), true) = (c.boundary, c.max_chunk > 0) {
            let mt = match c.mty { 0 => MessageChunkType::Message, 1 => MessageChunkType::OpenSecureChannel, _ => MessageChunkType::CloseSecureChannel };
            if let Ok(room) = MessageChunk::body_size_from_message_size(mt, &sender, c.max_chunk) {
                let base = message_bytes(&message(c.mty, c.mode, &Fill { len: 0, a: fill.a, b: fill.b, m: fill.m, lo: fill.lo })).len();
                let want = (k * room) as i64 + d - base as i64;
                if want >= 0 { fill.len = want as usize; }
            }
        }
        let c_fill = &fill;
        let msg = message(c.mty, c.mode, c_fill);
        let data = message_bytes(&msg);
        let (prefix, suffix) = split_around_fill(&data, c_fill);
        let deterministic = c.policy == 0 || (c.mode == 1 && c.mty != 1);
        let mut out: Vec<i128> = Vec::new();
        let mut nchunks = 0usize;
        if c.writer {
            // MessageWriter::new(send buffer size negotiated for the connection, no message size limit, no chunk count limit)
            let mut mw = MessageWriter::new(c.max_chunk, 0, 0);
            mw.verif_set_last_sent_sequence_number(c.seq0.wrapping_sub(1));
            // what a sender honouring the negotiated size produces, to compare the received chunks with
            let reference: Vec<MessageChunk> = Chunker::encode(c.seq0, c.req_id, 0, c.max_chunk, &sender, &msg).unwrap_or_default();
            match guarded(|| mw.write(c.req_id, msg.clone(), &sender)) {
                Err(_) => out.push(-2),
                Ok(Err(_)) => out.push(1),
                Ok(Ok(_)) => {
                    let wire = split_wire(&mw.bytes_to_write());
                    out.push(0);
                    out.push(wire.len() as i128);
                    nchunks = wire.len();
                    let mut received: Vec<MessageChunk> = Vec::new();
                    let mut all_ok = true;
                    for (i, sec) in wire.iter().enumerate() {
                        match guarded(|| receiver.verify_and_remove_security(sec)) {
                            Ok(Ok(rc)) => {
                                match rc.chunk_info(&receiver) {
                                    Ok(info) => { out.push(rc.data.len() as i128); out.push(fin_code(info.message_header.is_final));
                                                  out.push(info.sequence_header.sequence_number as i128); out.push(info.sequence_header.request_id as i128); }
                                    Err(_) => out.extend([rc.data.len() as i128, -1, -1, -1]),
                                }
                                out.push(0);
                                out.push(sec.len() as i128);
                                if c.exact && deterministic { let (a, b) = checksum(sec); out.push(a); out.push(b); } else { out.push(-1); out.push(-1); }
                                out.push(0);
                                out.push(rc.data.len() as i128);
                                out.push(reference.get(i).map(|r| r.data == rc.data).unwrap_or(false) as i128);
                                received.push(rc);
                            }
                            Ok(Err(_)) => { out.extend([-1, -1, -1, -1, 0, sec.len() as i128, -1, -1, 1, -1, -1]); all_ok = false; }
                            Err(_) => { out.extend([-1, -1, -1, -1, 0, sec.len() as i128, -1, -1, -2, -1, -1]); all_ok = false; }
                        }
                    }
                    if all_ok {
                        match guarded(|| Chunker::validate_chunks(c.seq0, &receiver, &received)) {
                            Ok(Ok(last)) => { out.push(0); out.push(last as i128); }
                            Ok(Err(_)) => { out.push(1); out.push(-1); }
                            Err(_) => { out.push(-2); out.push(-1); }
                        }
                        match guarded(|| Chunker::decode(&received, &receiver, None)) {
                            Ok(Ok(m2)) => { out.push(0); out.push((m2 == msg) as i128); }
                            Ok(Err(_)) => { out.push(1); out.push(-1); }
                            Err(_) => { out.push(-2); out.push(-1); }
                        }
                    } else {
                        out.extend([-1, -1, -1, -1]);
                    }
                }
            }
        } else {
        match guarded(|| Chunker::encode(c.seq0, c.req_id, 0, c.max_chunk, &sender, &msg)) {
            Err(_) => out.push(-2),
            Ok(Err(_)) => out.push(1),
            Ok(Ok(chunks)) => {
                out.push(0);
                out.push(chunks.len() as i128);
                nchunks = chunks.len();
                let mut received: Vec<MessageChunk> = Vec::new();
                let mut all_ok = true;
                for ch in &chunks {
                    let info = ch.chunk_info(&sender).unwrap();
                    out.push(ch.data.len() as i128);
                    out.push(fin_code(info.message_header.is_final));
                    out.push(info.sequence_header.sequence_number as i128);
                    out.push(info.sequence_header.request_id as i128);
                    let mut dst = vec![0u8; ch.data.len() * 2 + 4096];
                    match guarded(|| sender.apply_security(ch, &mut dst)) {
                        Ok(Ok(n)) => {
                            out.push(0);
                            out.push(n as i128);
                            if c.exact && deterministic { let (a, b) = checksum(&dst[..n]); out.push(a); out.push(b); } else { out.push(-1); out.push(-1); }
                            match guarded(|| receiver.verify_and_remove_security(&dst[..n])) {
                                Ok(Ok(rc)) => {
                                    out.push(0);
                                    out.push(rc.data.len() as i128);
                                    out.push((rc.data == ch.data) as i128);
                                    received.push(rc);
                                }
                                Ok(Err(_)) => { out.extend([1, -1, -1]); all_ok = false; }
                                Err(_) => { out.extend([-2, -1, -1]); all_ok = false; }
                            }
                        }
                        Ok(Err(_)) => { out.extend([1, -1, -1, -1, -1, -1, -1]); all_ok = false; }
                        Err(_) => { out.extend([-2, -1, -1, -1, -1, -1, -1]); all_ok = false; }
                    }
                }
                if all_ok {
                    match guarded(|| Chunker::validate_chunks(c.seq0, &receiver, &received)) {
                        Ok(Ok(last)) => { out.push(0); out.push(last as i128); }
                        Ok(Err(_)) => { out.push(1); out.push(-1); }
                        Err(_) => { out.push(-2); out.push(-1); }
                    }
                    match guarded(|| Chunker::decode(&received, &receiver, None)) {
                        Ok(Ok(m2)) => { out.push(0); out.push((m2 == msg) as i128); }
                        Ok(Err(_)) => { out.push(1); out.push(-1); }
                        Err(_) => { out.push(-2); out.push(-1); }
                    }
                } else {
                    out.extend([-1, -1, -1, -1]);
                }
            }
        }
        }
        let (sks, rks, certlen) = if c.policy == 0 { (0, 0, 0) } else {
            (ident(c.sid).cert.public_key().unwrap().size(), ident(c.rid).cert.public_key().unwrap().size(),
             ident(c.sid).cert.as_byte_string().as_ref().len())
        };
        let sigkey: Vec<u8> = if c.exact && c.policy != 0 { sender.verif_derived_keys().0.map(|k| k.0).unwrap_or_default() } else { vec![] };
        let tag = format!("{}-{}-{}-{}{}", pol_name(c.policy), mode_name(c.mode), mty_name(c.mty),
            if c.max_chunk == 0 { "nolimit".to_string() } else { format!("{}chunks", nchunks.min(4)) }, if c.writer { "-writer" } else if c.exact && deterministic { "-exact" } else if c.boundary.is_some() { "-boundary" } else { "" });
        let term = format!("(mk_case {} {} {} {} {} {} {} {} {} {} {} {} {} {} {} {} {})",
            pol_name(c.policy), mode_name(c.mode), mty_name(c.mty), c.max_chunk, c.chan_id, c.token_id, c.seq0, c.req_id,
            sks, rks, certlen, zbytes(&prefix), c_fill.term(), zbytes(&suffix), zbytes(&sigkey), coq_bool(c.exact && deterministic), coq_bool(c.writer));
        Out { tag, term, out }
    }
}
fn main() { run_main::<P>() }
