(* C31 — browse path translation finds exactly the matching nodes.  Statements only.
   Model: coq/C31/Model.v ([translate false] = the code as committed); proofs: coq/C31/Proofs.v. *)
From Coq Require Import List ZArith.
From OV Require Import Gen.C34RefTypes C31.Model C31.Proofs.
Import ListNotations.
Open Scope Z_scope.

(* For every address space (any nodes, any references, cyclic or not), starting node and path
   with at least one element and no null target name: the nodes returned are exactly
   [spec_set] = the start set {start} pushed through [spec_step] element by element, where
   m is in the step of n iff some reference (n, t, m) in the requested direction has a type that
   passes [type_ok] and m is a node whose browse name equals the target name.  The status is Good
   iff that set is not empty, BadNoMatch otherwise. *)
Theorem C31_translate_exact : forall c e es,
  c_path c = Some (e :: es) -> well_formed c = true ->
  (forall m, In m (snd (translate false c)) <-> In m (spec_set c (e :: es))) /\
  ((fst (translate false c) = 0 /\ snd (translate false c) <> []) \/
   (fst (translate false c) = 4 /\ snd (translate false c) = [])).
Proof. exact translate_exact. Qed.
Print Assumptions C31_translate_exact.

(* Any other request (no path, empty path, unknown start, a null target name) gets a Bad status
   and no targets. *)
Theorem C31_translate_malformed : forall c, well_formed c = false ->
  0 < fst (translate false c) /\ snd (translate false c) = [].
Proof. exact translate_malformed. Qed.
Print Assumptions C31_translate_malformed.

(* One step of the implementation (per-source de-duplication, HashSet order ignored) and one step
   of the specification reach the same nodes from the same set. *)
Theorem C31_step_agree : forall c e cur set m,
  (forall x, In x cur <-> In x set) ->
  (In m (flat_map (follow false c e) cur) <-> In m (spec_step c e set)).
Proof. exact step_agree. Qed.
Print Assumptions C31_step_agree.

(* The type test: no reference type given (null id), the type itself, or - when subtypes are
   requested - any type reachable from it along HasSubtype references (the full reflexive-transitive
   closure [reach], on every graph: a shortest path never needs more steps than there are
   references, so the depth bound of the search loses nothing). *)
Theorem C31_type_ok_closure : forall rs e t,
  type_ok rs e t = true <-> e_reftype e = 0 \/ t = e_reftype e \/ (e_sub e = true /\ reach rs (e_reftype e) t).
Proof. exact type_ok_closure. Qed.
Print Assumptions C31_type_ok_closure.

Theorem C31_search_complete : forall rs a b, subtype_search (length rs) rs a b = true <-> reach rs a b.
Proof. intros rs a b. rewrite subtype_search_iff. symmetry. apply reach_bounded. Qed.
Print Assumptions C31_search_complete.

(* The filter of the implementation is that type test, for standard and non-standard reference
   type ids alike. *)
Theorem C31_filter_is_type_ok : forall rs e t, passes rs (filter_of false e) t = type_ok rs e t.
Proof. exact passes_type_ok. Qed.
Print Assumptions C31_filter_is_type_ok.

Theorem C31_oracle : forall c, valid c -> known c = 0 -> oracle c (run c) = true.
Proof. exact oracle_holds. Qed.
Print Assumptions C31_oracle.

(* Before "fix: browse path elements with a non-standard reference type followed every reference". *)
Theorem C31_legacy_refuted : exists c, valid c /\ oracle c (run_with true c) = false.
Proof. exact legacy_refuted. Qed.
Print Assumptions C31_legacy_refuted.
