(* C09: the named malformed shapes are security errors; the transcript primitives satisfy the
   length laws; the correspondence oracle holds of the model's run for every valid case. *)
From Coq Require Import List ZArith Bool Lia.
Import ListNotations.
From OV Require Import C07.Chan C07.Lemmas C07.ChanProofs C07.Prims C09.Total C09.Model.
Open Scope Z_scope.

(* ================= the malformed shapes of the statement are security errors ================= *)
Lemma null_certificate P fx r src b1 off pol thumb : fx_null_cert fx = true ->
  recv_asym P fx r src b1 off pol None thumb = Err E_SEC.
Proof. intro H. unfold recv_asym. rewrite H. reflexivity. Qed.

Lemma malformed_certificate P fx r src b1 off pol c thumb : p_cert_key P c = None ->
  recv_asym P fx r src b1 off pol (Some c) thumb = Err E_SEC.
Proof. intro H. unfold recv_asym. rewrite H. reflexivity. Qed.

Lemma missing_own_certificate P fx r src b1 off pol c thumb k ks : fx_own_cert fx = true ->
  p_cert_key P c = Some (k, ks) -> r_thumb r = None ->
  recv_asym P fx r src b1 off pol (Some c) thumb = Err E_SEC.
Proof. intros H1 H2 H3. unfold recv_asym. rewrite H2, H3, H1. reflexivity. Qed.

Lemma missing_private_key P fx r src b1 off pol c thumb k ks th : fx_own_cert fx = true ->
  p_cert_key P c = Some (k, ks) -> r_thumb r = Some th ->
  bytes_eqb th (match thumb with Some t => t | None => [] end) = true -> r_pkey r = None ->
  recv_asym P fx r src b1 off pol (Some c) thumb = Err E_SEC.
Proof. intros H1 H2 H3 H4 H5. unfold recv_asym. rewrite H2, H3, H4, H5, H1. reflexivity. Qed.

Lemma rsa_cipher_text_wrong_length P fx key ks pol src : fx_rsa_block fx = true ->
  len src mod ks <> 0 -> rsa_decrypt P fx key ks pol src = Err E_SEC.
Proof.
  intros H1 H2. unfold rsa_decrypt. rewrite H1. cbn [andb].
  destruct (Z.eqb_spec (len src mod ks) 0); [contradiction|]. cbn [negb]. rewrite orb_true_r. reflexivity.
Qed.

Lemma shorter_than_signature P fx r src b1 off msize : fx_size_sig fx = true ->
  secured (r_policy r) (r_mode r) = true -> msize < src_sym_sig (r_policy r) ->
  recv_sym P fx r src b1 off msize = Err E_SEC.
Proof.
  intros H1 H2 H3. unfold recv_sym. rewrite H2, H1.
  destruct (Z.ltb_spec msize (src_sym_sig (r_policy r))); [reflexivity|lia].
Qed.

Lemma keys_not_derived P fx r src b1 off msize : fx_no_keys fx = true ->
  secured (r_policy r) (r_mode r) = true -> src_sym_sig (r_policy r) <= msize -> r_verkey r = None ->
  recv_sym P fx r src b1 off msize = Err E_SEC.
Proof.
  intros H1 H2 H3 H4. unfold recv_sym. rewrite H2, H4, H1.
  destruct (Z.ltb_spec msize (src_sym_sig (r_policy r))); [lia|reflexivity].
Qed.

Lemma aes_cipher_text_wrong_length P fx r src b1 off msize vk dk : fx_aes_block fx = true ->
  secured (r_policy r) (r_mode r) = true -> r_mode r = MSignEnc -> src_sym_sig (r_policy r) <= msize ->
  r_verkey r = Some (vk, dk) -> (msize - off) mod 16 <> 0 ->
  recv_sym P fx r src b1 off msize = Err E_SEC.
Proof.
  intros H1 H2 H3 H4 H5 H6. unfold recv_sym. rewrite H2, H5, H3, H1.
  destruct (Z.ltb_spec msize (src_sym_sig (r_policy r))); [lia|].
  destruct (Z.eqb_spec ((msize - off) mod 16) 0); [contradiction|]. reflexivity.
Qed.

(* a padding size byte (or byte pair) that claims more padding than there is data in front of it *)
Lemma bogus_padding_length fx d ks pe : fx_padding fx = true ->
  (ks <= 256 -> 1 <= pe <= len d -> pe < nth (Z.to_nat (pe - 1)) d 0 + 1 -> verify_padding fx d ks pe = Err E_SEC) /\
  (256 < ks -> 2 <= pe <= len d ->
   pe < nth (Z.to_nat (pe - 1)) d 0 * 256 + nth (Z.to_nat (pe - 2)) d 0 + 2 -> verify_padding fx d ks pe = Err E_SEC).
Proof.
  intro H. unfold verify_padding. rewrite H. split; intros Hk Hp Hb.
  - destruct (Z.ltb_spec 256 ks); [lia|]. destruct (Z.ltb_spec pe 1); [reflexivity|].
    destruct (Z.ltb_spec (len d) pe); [reflexivity|].
    destruct (Z.ltb_spec pe (nth (Z.to_nat (pe - 1)) d 0 + 1)); [reflexivity|lia].
  - destruct (Z.ltb_spec 256 ks); [|lia]. destruct (Z.ltb_spec pe 2); [reflexivity|].
    destruct (Z.ltb_spec (len d) pe); [reflexivity|].
    destruct (Z.ltb_spec pe (nth (Z.to_nat (pe - 1)) d 0 * 256 + nth (Z.to_nat (pe - 2)) d 0 + 2)); [reflexivity|lia].
Qed.

(* ================= the transcript primitives satisfy the laws ================= *)
Lemma lookup_some {A} k (tbl : list (list seg * A)) a : lookup k tbl = Some a ->
  exists s, In (s, a) tbl /\ flat s = k.
Proof.
  induction tbl as [|[s a'] rest IH]; cbn; [discriminate|].
  destruct (bytes_eqb (flat s) k) eqn:E.
  - intro H. injection H as <-. exists s. split; [left; reflexivity|apply bytes_eqb_eq; exact E].
  - intro H. destruct (IH H) as (s' & Hin & Hf). exists s'. split; [right; exact Hin|exact Hf].
Qed.

Section Transcript.
  Variable T : transcript.
  Hypothesis HT : tr_ok T = true.

  Lemma tr_cert c k ks : p_cert_key (tr_prims T) c = Some (k, ks) -> 0 < ks < len c.
  Proof.
    cbn [tr_prims p_cert_key]. destruct (lookup c (t_certs T)) as [r|] eqn:E; [|discriminate].
    intro H. subst r. destruct (lookup_some _ _ _ E) as (s & Hin & Hf).
    unfold tr_ok in HT. apply andb_true_iff in HT as [HT1 _]. apply andb_true_iff in HT1 as [HT1 _].
    rewrite forallb_forall in HT1. specialize (HT1 _ Hin). cbn [fst snd] in HT1.
    apply andb_true_iff in HT1 as [A B]. apply Z.ltb_lt in A, B. rewrite Hf in B. lia.
  Qed.
  Lemma tr_rsa k p blk pt : p_rsa_dec (tr_prims T) k p blk = Some pt -> len pt <= len blk.
  Proof.
    cbn [tr_prims p_rsa_dec]. destruct (lookup blk (t_rsa T)) as [[q|]|] eqn:E; try discriminate.
    intro H. injection H as <-. destruct (lookup_some _ _ _ E) as (s & Hin & Hf).
    unfold tr_ok in HT. apply andb_true_iff in HT as [HT1 _]. apply andb_true_iff in HT1 as [_ HT1].
    rewrite forallb_forall in HT1. specialize (HT1 _ Hin). cbn [fst snd] in HT1.
    apply Z.leb_le in HT1. rewrite Hf in HT1. exact HT1.
  Qed.
  Lemma tr_aes k c : len (p_aes_dec (tr_prims T) k c) = len c.
  Proof.
    cbn [tr_prims p_aes_dec]. destruct (lookup c (t_aes T)) as [q|] eqn:E.
    - destruct (lookup_some _ _ _ E) as (s & Hin & Hf).
      unfold tr_ok in HT. apply andb_true_iff in HT as [_ HT1].
      rewrite forallb_forall in HT1. specialize (HT1 _ Hin). cbn [fst snd] in HT1.
      apply Z.eqb_eq in HT1. rewrite Hf in HT1. exact HT1.
    - apply len_rep. apply len_nonneg.
  Qed.
End Transcript.

(* ================= the oracle holds of the model's run ================= *)
Lemma current_guarded : guarded_fixes current.
Proof. repeat split; reflexivity. Qed.

Lemma code9_total {A} (r : res A) : total r -> (code9 r =? -2) = false.
Proof. destruct r; cbn; intro H; try contradiction; [reflexivity|destruct (class =? E_SEC); reflexivity]. Qed.

Section Run.
  Variable c : case.
  Hypothesis Hv : valid c.
  Let P := tr_prims (c_tr c).
  Let fx := current.

  Lemma tr_ok_c : tr_ok (c_tr c) = true.
  Proof. unfold valid, validb in Hv. apply andb_true_iff in Hv as [H _]. apply andb_true_iff in H as [H _]. exact H. Qed.

  Lemma recv_total_c r src : total (fst (recv P fx r src)).
  Proof.
    apply recv_total; [exact current_guarded|apply tr_rsa|apply tr_cert|apply tr_aes]; exact tr_ok_c.
  Qed.

  Lemma feed_ok : forall chunks p tail,
    let '(o, rcs, pf) := feed P fx c p chunks in
    no_panic (o ++ tail) = no_panic tail /\ length o = (2 * length chunks)%nat /\
    (forall l, rcs = Some l -> length l = length chunks).
  Proof.
    induction chunks as [|ch rest IH]; intros p tail.
    - cbn. repeat split. intros l H. injection H as <-. reflexivity.
    - cbn [feed]. pose proof (recv_total_c (receiver_of c p) (flat ch)) as Ht.
      destruct (recv P fx (receiver_of c p) (flat ch)) as [r p'] eqn:Er. cbn [fst] in Ht.
      specialize (IH p' tail). destruct (feed P fx c p' rest) as [[os rcs] pf].
      destruct IH as (I1 & I2 & I3).
      destruct r as [rc|e|s]; [| |contradiction].
      + cbn [app no_panic Z.eqb negb andb length]. repeat split; [exact I1|lia|].
        intros l H. destruct rcs as [l'|]; [|discriminate]. injection H as <-. cbn [length]. rewrite (I3 l' eq_refl). reflexivity.
      + cbn [app no_panic length]. rewrite (code9_total (Err e) I). cbn [negb andb].
        repeat split; [exact I1|lia|discriminate].
  Qed.

  Theorem oracle_run : oracle c (run_with fx c) = true.
  Proof.
    unfold run_with. fold P.
    set (tail := fun (rcs : option (list bytes)) (pf : policy) =>
      if c_validate c then
        match rcs with
        | Some l => match validate_chunks P fx (receiver_of c pf) (c_start c) l with
                    | Ok last => [0; last]
                    | r => [code9 r; -1]
                    end
        | None => [-1; -1]
        end
      else []).
    pose proof (feed_ok (c_chunks c) (c_policy c)) as F.
    destruct (feed P fx c (c_policy c) (c_chunks c)) as [[o rcs] pf].
    destruct (F (tail rcs pf)) as (F1 & F2 & F3). fold (tail rcs pf).
    unfold oracle. rewrite F1. rewrite app_length, F2.
    assert (Hne : c_validate c = true -> c_chunks c <> []).
    { intro E. unfold valid, validb in Hv. apply andb_true_iff in Hv as [_ H]. rewrite E in H.
      destruct (c_chunks c); [discriminate|discriminate]. }
    unfold tail. destruct (c_validate c) eqn:Ev.
    - destruct rcs as [l|].
      + assert (Hl : l <> []).
        { specialize (F3 l eq_refl). specialize (Hne eq_refl). destruct l; [|discriminate].
          destruct (c_chunks c); [congruence|discriminate]. }
        pose proof (validate_chunks_total P fx current_guarded (receiver_of c pf) (c_start c) l Hl) as Tv.
        destruct (validate_chunks P fx (receiver_of c pf) (c_start c) l) as [last|e|s]; [| |contradiction].
        * cbn [no_panic Z.eqb negb andb length]. apply Z.eqb_eq. lia.
        * cbn [no_panic length]. rewrite (code9_total (Err e) I). cbn [negb andb]. apply Z.eqb_eq. lia.
      + cbn [no_panic Z.eqb negb andb length]. apply Z.eqb_eq. lia.
    - cbn [no_panic andb length]. apply Z.eqb_eq. lia.
  Qed.
End Run.

Theorem oracle_holds c : valid c -> known c = 0 -> oracle c (run c) = true.
Proof. intros Hv _. apply oracle_run. exact Hv. Qed.

(* ================= the code before each fix panics ================= *)
Definition no_tr : transcript := mk_tr [] [] [] [] [].
Definition uri256 : bytes := src_uri Basic256Sha256.
Definition opn_of (body : bytes) : bytes := enc_hdr OPN 1 (12 + len body) 0 ++ body.
Definition msg_of (chan : Z) (rest : bytes) : bytes := enc_hdr MSG 1 (12 + len rest) chan ++ rest.

(* 1: OPN chunk naming Basic256Sha256 with a null sender certificate, sent to an unsecured channel *)
Definition w1 : case :=
  mk_case PNone MNone 0 None None None None 1 [[L (opn_of (bstr uri256 ++ bnull ++ bnull))]] false no_tr.
(* 2: the certificate parses but the receiving channel has no certificate of its own *)
Definition w2 : case :=
  mk_case PNone MNone 0 None None None None 1 [[L (opn_of (bstr uri256 ++ bstr (rep 300 7) ++ bnull))]] false
          (mk_tr [([Rp 300 7], Some (1, 256))] [] [] [] []).
(* 3: MSG chunk on a Sign channel whose keys are not derived yet *)
Definition w3 : case :=
  mk_case Basic256Sha256 MSign 5 None None None None 1 [[L (msg_of 5 (le32 9 ++ rep 40 0))]] false no_tr.
(* 4: 33 bytes behind the header on a SignAndEncrypt channel *)
Definition w4 : case :=
  mk_case Basic256Sha256 MSignEnc 5 None None None (Some [1; 2; 3]) 1 [[L (msg_of 5 (le32 9 ++ rep 33 0))]] false no_tr.
(* 5: a 16 byte MSG chunk on a Sign channel (signatures are 32 bytes) *)
Definition w5 : case :=
  mk_case Basic256Sha256 MSign 5 None None None (Some [1; 2; 3]) 1 [[L (msg_of 5 (le32 9))]] false no_tr.
(* 6: a correctly signed and encrypted OPN chunk whose padding byte claims 200 bytes of padding *)
Definition w6_chunk : bytes := opn_of (bstr uri256 ++ bstr (rep 17 7) ++ bstr (rep 20 3) ++ rep 32 9).
Definition w6_signed : bytes := take (len w6_chunk - 32) w6_chunk ++ rep 8 200.
Definition w6 : case :=
  mk_case PNone MNone 0 (Some (rep 20 3)) (Some 32) (Some (2, 32)) None 1 [[L w6_chunk]] false
          (mk_tr [([Rp 17 7], Some (1, 16))] [([Rp 32 9], Some [Rp 24 200])]
                 [(1, fst (checksum w6_signed), snd (checksum w6_signed), [Rp 16 200])] [] []).
(* 7: a single unsecured chunk with sequence number 4294967295 *)
Definition w7 : case :=
  mk_case PNone MNone 0 None None None None 1 [[L (msg_of 0 (le32 0 ++ le32 4294967295 ++ le32 7 ++ [1; 2; 3]))]] true no_tr.

Definition witness (w : Z) : case :=
  if w =? 1 then w1 else if w =? 2 then w2 else if w =? 3 then w3 else if w =? 4 then w4
  else if w =? 5 then w5 else if w =? 6 then w6 else w7.

Lemma legacy_refuted : forall w, In w [1; 2; 3; 4; 5; 6; 7] ->
  valid (witness w) /\ oracle (witness w) (Legacy.run w (witness w)) = false /\ oracle (witness w) (run (witness w)) = true.
Proof.
  intros w Hw. cbn [In] in Hw.
  repeat (destruct Hw as [<-|Hw]; [repeat split; vm_compute; reflexivity|]). contradiction.
Qed.
