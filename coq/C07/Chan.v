(* Shared model of the secure channel: chunk layout, Chunker::encode / validate_chunks / decode,
   SecureChannel::apply_security / verify_and_remove_security and what they call, byte for byte,
   as committed in the repository checkout (after the fix: commits).  No proofs here.

   Sources: lib/src/core/comms/{chunker,message_chunk,message_chunk_info,secure_channel,
   security_header}.rs, lib/src/crypto/{security_policy,aeskey,pkey,hash}.rs.

   Bytes are Z in 0..255.  Every Rust panic site is an explicit [Panic site] outcome.
   External primitives (HMAC, AES-CBC, RSA block encryption / decryption, RSA signatures, X509
   parsing, the certificate thumbprint, UTF-8 validation) are parameters collected in [prims];
   the theorems quantify over them under the laws stated in Proofs.v, the correspondence runs
   instantiate them (Model.v).

   [fixes] selects, per repaired defect, the behaviour before (false) or after (true) its fix:
   commit; [current] is the code as it is now. *)
From Coq Require Import List ZArith Bool Lia.
Import ListNotations.
From OV Require Export Gen.C07Tables.
Open Scope Z_scope.

Definition bytes := list Z.
Definition len (l : bytes) : Z := Z.of_nat (length l).
Global Arguments len : simpl never.

Fixpoint take (n : Z) (l : bytes) : bytes :=
  match l with
  | [] => []
  | x :: t => if n <=? 0 then [] else x :: take (n - 1) t
  end.
Fixpoint drop (n : Z) (l : bytes) : bytes :=
  match l with
  | [] => []
  | x :: t => if n <=? 0 then l else drop (n - 1) t
  end.
Definition slice (a b : Z) (l : bytes) : bytes := take (b - a) (drop a l).   (* l[a..b] *)
Fixpoint rep_nat (n : nat) (b : Z) : bytes := match n with O => [] | S k => b :: rep_nat k b end.
Definition rep (n : Z) (b : Z) : bytes := rep_nat (Z.to_nat n) b.
Fixpoint bytes_eqb (a b : bytes) : bool :=
  match a, b with
  | [], [] => true
  | x :: a', y :: b' => (x =? y) && bytes_eqb a' b'
  | _, _ => false
  end.
Fixpoint all_eqb (v : Z) (l : bytes) : bool :=
  match l with [] => true | x :: t => (x =? v) && all_eqb v t end.

(* outcome of a fallible operation: error classes, not codes: 1 = decoding / communication /
   unexpected error, 2 = security error (BadSecurityChecksFailed, BadCertificateInvalid,
   BadNoValidCertificates, BadSecurityPolicyRejected, BadSequenceNumberInvalid,
   BadSecureChannelIdInvalid, BadNonceInvalid, ...) *)
Inductive res (A : Type) : Type := Ok (a : A) | Err (class : Z) | Panic (site : Z).
Arguments Ok {A} a. Arguments Err {A} class. Arguments Panic {A} site.
Definition E_DEC : Z := 1.
Definition E_SEC : Z := 2.
Definition bind {A B} (r : res A) (f : A -> res B) : res B :=
  match r with Ok a => f a | Err e => Err e | Panic s => Panic s end.
Notation "'do' x <- r ; k" := (bind r (fun x => k)) (at level 200, x pattern, r at level 100, k at level 200).

(* panic sites *)
Definition P_NULL_CERT := 1.      (* security_header.sender_certificate.value.unwrap() on a null certificate *)
Definition P_NO_OWN_CERT := 2.    (* self.cert.as_ref().unwrap() *)
Definition P_NO_PKEY := 3.        (* self.private_key.as_ref().unwrap() *)
Definition P_NO_KEYS := 4.        (* self.remote_keys / local_keys .as_ref().unwrap() *)
Definition P_AES_BLOCK := 5.      (* panic!("Block size {} is wrong, check stack") *)
Definition P_SIZE_SIG := 6.       (* message_size - signature_size *)
Definition P_DEC_SIG := 7.        (* encrypted_range.start + decrypted_size - verification_key_signature_size *)
Definition P_PADDING := 8.        (* verify_padding index arithmetic / slicing *)
Definition P_NO_CHUNKS := 9.      (* chunks[0], chunks.len() - 1 on an empty slice *)
Definition P_SEQ_OVERFLOW := 10.  (* first_sequence_number + i as u32 *)
Definition P_RSA_BLOCK := 11.     (* src[src_idx..src_idx + block] in private_decrypt *)
Definition P_BUDGET := 12.        (* message_size - data_size in body_size_from_message_size, data.chunks(0) *)
Definition P_SEND := 13.          (* sender-side slices / asserts (sequence_number + i, encrypted size check) *)

Record fixes := {
  fx_pad_sign : bool;     (* no symmetric padding unless encrypting; receiver strips symmetric padding *)
  fx_budget : bool;       (* body budget uses worst-case symmetric padding *)
  fx_rsa_block : bool;    (* private_decrypt rejects cipher text that is not a whole number of blocks *)
  fx_null_cert : bool;    (* null sender certificate is an error *)
  fx_own_cert : bool;     (* missing own certificate / private key is an error *)
  fx_no_keys : bool;      (* MSG/CLO chunk before keys are derived is an error *)
  fx_aes_block : bool;    (* cipher text not a multiple of the AES block is an error *)
  fx_size_sig : bool;     (* chunk shorter than its signature is an error *)
  fx_padding : bool;      (* padding larger than the data in front of it is an error *)
  fx_seq : bool;          (* sequence number arithmetic in validate_chunks is checked *)
  fx_opn_budget : bool    (* body budget of asymmetric chunks counts RSA blocks *)
}.

Inductive mode := MNone | MSign | MSignEnc | MInvalid.
Inductive mtype := MSG | OPN | CLO.
Definition mode_eqb (a b : mode) : bool :=
  match a, b with MNone, MNone | MSign, MSign | MSignEnc, MSignEnc | MInvalid, MInvalid => true | _, _ => false end.
Definition is_none (p : policy) : bool := match p with PNone => true | _ => false end.
Definition policy_eqb (a b : policy) : bool :=
  match a, b with
  | PNone, PNone | Basic128Rsa15, Basic128Rsa15 | Basic256, Basic256 | Basic256Sha256, Basic256Sha256
  | Aes128Sha256RsaOaep, Aes128Sha256RsaOaep | Aes256Sha256RsaPss, Aes256Sha256RsaPss => true
  | _, _ => false
  end.
Definition all_policies := [PNone; Basic128Rsa15; Basic256; Basic256Sha256; Aes128Sha256RsaOaep; Aes256Sha256RsaPss].
(* an RSA key of [ks] bytes is within the policy's key length range *)
Definition key_ok (p : policy) (ks : Z) : bool :=
  is_none p || ((src_key_min_bits p <=? 8 * ks) && (8 * ks <=? src_key_max_bits p)).
(* the channel signs (and maybe encrypts) its chunks *)
Definition secured (p : policy) (m : mode) : bool :=
  negb (is_none p) && (mode_eqb m MSign || mode_eqb m MSignEnc).

(* ---------------- little-endian integers ---------------- *)
Definition le32 (v : Z) : bytes := [v mod 256; (v / 256) mod 256; (v / 65536) mod 256; (v / 16777216) mod 256].
Definition rd32 (a b c d : Z) : Z := a + 256 * b + 65536 * c + 16777216 * d.
Definition U32 : Z := 4294967296.

(* ---------------- message chunk header (message_chunk.rs) ---------------- *)
Definition type_bytes (t : mtype) : bytes :=
  match t with MSG => [77; 83; 71] | OPN => [79; 80; 78] | CLO => [67; 76; 79] end.
Definition mtype_of (a b c : Z) : option mtype :=
  if (a =? 77) && (b =? 83) && (c =? 71) then Some MSG
  else if (a =? 79) && (b =? 80) && (c =? 78) then Some OPN
  else if (a =? 67) && (b =? 76) && (c =? 79) then Some CLO
  else None.
(* is_final: 0 = Intermediate 'C', 1 = Final 'F', 2 = FinalError 'A' *)
Definition final_byte (f : Z) : Z := if f =? 0 then 67 else if f =? 1 then 70 else 65.
Definition final_of (b : Z) : option Z :=
  if b =? 70 then Some 1 else if b =? 67 then Some 0 else if b =? 65 then Some 2 else None.

Record hdr := { h_type : mtype; h_final : Z; h_size : Z; h_chan : Z }.
Definition enc_hdr (t : mtype) (f size chan : Z) : bytes :=
  type_bytes t ++ [final_byte f] ++ le32 size ++ le32 chan.
(* MessageChunkHeader::decode; the remaining bytes are returned *)
Definition parse_hdr (b : bytes) : res (hdr * bytes) :=
  match b with
  | t0 :: t1 :: t2 :: f :: s0 :: s1 :: s2 :: s3 :: c0 :: c1 :: c2 :: c3 :: rest =>
      match mtype_of t0 t1 t2 with
      | None => Err E_DEC
      | Some t =>
          match final_of f with
          | None => Err E_DEC
          | Some fin => Ok ({| h_type := t; h_final := fin; h_size := rd32 s0 s1 s2 s3; h_chan := rd32 c0 c1 c2 c3 |}, rest)
          end
      end
  | _ => Err E_DEC
  end.
(* update_message_size: decode the header, rewrite the size, encode it again over the first 12 bytes *)
Definition set_size (d : bytes) (n : Z) : bytes := take 4 d ++ le32 n ++ drop 8 d.

(* ---------------- strings, byte strings (types/string.rs, byte_string.rs) ---------------- *)
Definition bstr (b : bytes) : bytes := le32 (len b) ++ b.
Definition bnull : bytes := [255; 255; 255; 255].
Definition bopt (o : option bytes) : bytes := match o with Some b => bstr b | None => bnull end.
(* i32 length, -1 = null, other negatives and lengths above [limit] are decoding errors, short
   input is a decoding error *)
Definition parse_bstr (limit : Z) (b : bytes) : res (option bytes * bytes) :=
  match b with
  | l0 :: l1 :: l2 :: l3 :: rest =>
      let u := rd32 l0 l1 l2 l3 in
      if u =? U32 - 1 then Ok (None, rest)
      else if 2147483648 <=? u then Err E_DEC
      else if limit <? u then Err E_DEC
      else if len rest <? u then Err E_DEC
      else Ok (Some (take u rest), drop u rest)
  | _ => Err E_DEC
  end.

(* ---------------- external primitives ---------------- *)
Record prims := {
  (* HMAC of the policy's hash: policy, key, data *)
  p_mac : policy -> bytes -> bytes -> bytes;
  (* AES-CBC without padding on a whole number of blocks: key (key ++ iv), data *)
  p_aes_enc : bytes -> bytes -> bytes;
  p_aes_dec : bytes -> bytes -> bytes;
  (* one RSA block with the policy's padding: key pair id, policy, block *)
  p_rsa_enc : Z -> policy -> bytes -> bytes;
  p_rsa_dec : Z -> policy -> bytes -> option bytes;
  (* RSA signature with the policy's scheme: key pair id, policy, data *)
  p_asign : Z -> policy -> bytes -> bytes;
  p_averify : Z -> policy -> bytes -> bytes -> bool;
  (* X509::from_byte_string + public_key(): key pair id and key size in bytes *)
  p_cert_key : bytes -> option (Z * Z);
  (* String::from_utf8(..).is_ok() *)
  p_utf8 : bytes -> bool
}.

(* ---------------- security headers (security_header.rs) ---------------- *)
Definition policy_of_uri (u : bytes) : option policy :=
  find (fun p => bytes_eqb (src_uri p) u) all_policies.

Inductive sechdr :=
| Sym (token : Z)
| Asym (uri : option bytes) (cert : option bytes) (thumb : option bytes).

(* the decoding limits of the channel *)
Record limits := { lim_string : Z; lim_bstring : Z }.

(* AsymmetricSecurityHeader::decode *)
Definition parse_asym (P : prims) (lm : limits) (b : bytes) : res (sechdr * bytes) :=
  do (uri, b1) <- parse_bstr (lim_string lm) b;
  if negb (match uri with Some u => p_utf8 P u | None => true end) then Err E_DEC else
  do (cert, b2) <- parse_bstr (lim_bstring lm) b1;
  do (thumb, b3) <- parse_bstr (lim_bstring lm) b2;
  if (match cert with Some c => src_max_cert <=? len c | None => false end) then Err E_DEC
  else let tl := match thumb with Some t => len t | None => 0 end in
       if (0 <? tl) && negb (tl =? src_thumb) then Err E_DEC
       else Ok (Asym uri cert thumb, b3).
Definition parse_sym (b : bytes) : res (sechdr * bytes) :=
  match b with
  | a :: b0 :: c :: d :: rest => Ok (Sym (rd32 a b0 c d), rest)
  | _ => Err E_DEC
  end.

(* ---------------- ChunkInfo::new (message_chunk_info.rs) ---------------- *)
Record info := { i_hdr : hdr; i_sec : sechdr; i_seq : Z; i_req : Z; i_seq_off : Z; i_body_off : Z; i_body : bytes }.
Definition chunk_info (P : prims) (lm : limits) (d : bytes) : res info :=
  do (h, b0) <- parse_hdr d;
  do (sh, b1) <-
     (match h_type h with
      | OPN =>
          match parse_asym P lm b0 with
          | Ok (Asym uri cert thumb, b1) =>
              (* a null uri is policy None; an unrecognised one is rejected *)
              match uri with
              | None => Ok (Asym uri cert thumb, b1)
              | Some u => match policy_of_uri u with Some _ => Ok (Asym uri cert thumb, b1) | None => Err E_SEC end
              end
          | Ok (Sym _, _) => Err E_DEC
          | Err _ => Err E_DEC
          | Panic s => Panic s
          end
      | _ => match parse_sym b0 with Ok x => Ok x | Err _ => Err E_DEC | Panic s => Panic s end
      end);
  match b1 with
  | s0 :: s1 :: s2 :: s3 :: r0 :: r1 :: r2 :: r3 :: body =>
      Ok {| i_hdr := h; i_sec := sh; i_seq := rd32 s0 s1 s2 s3; i_req := rd32 r0 r1 r2 r3;
            i_seq_off := len d - len b1; i_body_off := len d - len body; i_body := body |}
  | _ => Err E_DEC
  end.

(* ================= the sending side ================= *)
Record sender := {
  s_policy : policy; s_mode : mode; s_chan : Z; s_token : Z;
  s_cert : bytes;              (* own certificate (DER); used when the policy is not None *)
  s_key : Z; s_ks : Z;         (* own key pair id and size in bytes (= size of an asymmetric signature) *)
  s_rthumb : option bytes;     (* thumbprint of the remote certificate, if one is set *)
  s_rkey : Z; s_rks : Z;       (* remote key pair id and size in bytes *)
  s_sigkey : bytes; s_enckey : bytes   (* local derived keys: signing key, encryption key ++ iv *)
}.

(* SecureChannel::make_security_header *)
Definition sec_header (s : sender) (t : mtype) : bytes :=
  match t with
  | OPN => if is_none (s_policy s) then bstr (src_uri PNone) ++ bnull ++ bnull
           else bstr (src_uri (s_policy s)) ++ bstr (s_cert s) ++ bopt (s_rthumb s)
  | _ => le32 (s_token s)
  end.

(* MessageChunk::new *)
Definition new_chunk (s : sender) (t : mtype) (fin seq req : Z) (body : bytes) : bytes :=
  let sh := sec_header s t in
  enc_hdr t fin (src_chunk_header + len sh + 8 + len body) (s_chan s) ++ sh ++ le32 seq ++ le32 req ++ body.

(* SecureChannel::signature_size for a header made by make_security_header *)
Definition signature_size (s : sender) (t : mtype) : Z :=
  match t with
  | OPN => if is_none (s_policy s) then 0 else s_ks s
  | _ => src_sym_sig (s_policy s)
  end.

Definition min_padding (key_length : Z) : Z := if key_length <=? 256 then 1 else 2.
Definition rsa_plain_block (p : policy) (ks : Z) : Z := ks - src_rsa_overhead p.

(* SecureChannel::padding_size -> (padding, minimum padding); None = `%` by zero *)
Definition padding_size (fx : fixes) (s : sender) (t : mtype) (body sig : Z) : option (Z * Z) :=
  if is_none (s_policy s) || mode_eqb (s_mode s) MNone then Some (0, 0)
  else
    let sym_skip := match t with OPN => false | _ => fx_pad_sign fx && negb (mode_eqb (s_mode s) MSignEnc) end in
    if sym_skip then Some (0, 0)
    else
      let '(pbs, klen) := match t with
                          | OPN => (rsa_plain_block (s_policy s) (s_rks s), s_rks s)
                          | _ => (src_sym_block (s_policy s), sig)
                          end in
      if pbs <=? 0 then None
      else
        let mp := min_padding klen in
        let es := 8 + body + sig + mp in
        let ps := if es mod pbs =? 0 then 0 else pbs - es mod pbs in
        Some (mp + ps, mp).

(* the bytes written by add_space_for_padding_and_signature *)
Definition padding_bytes (p mp : Z) : bytes :=
  if p <=? 0 then []
  else if mp =? 1 then rep p ((p - 1) mod 256)
  else rep (p - 1) ((p - 2) mod 256) ++ [((p - 2) / 256) mod 256].

(* KeySize::calculate_cipher_text_size *)
Definition cipher_text_size (pbs ks n : Z) : Z :=
  (if n mod pbs =? 0 then n / pbs else n / pbs + 1) * ks.

(* PublicKey::public_encrypt: blocks of at most [pbs] plain bytes, each encrypted to [ks] bytes *)
Fixpoint rsa_encrypt_f (P : prims) (fuel : nat) (key : Z) (p : policy) (pbs : Z) (src : bytes) : bytes :=
  match fuel with
  | O => []
  | S f => match src with
           | [] => []
           | _ => p_rsa_enc P key p (take pbs src) ++ rsa_encrypt_f P f key p pbs (drop pbs src)
           end
  end.
Definition rsa_encrypt (P : prims) (key : Z) (p : policy) (pbs : Z) (src : bytes) : bytes :=
  rsa_encrypt_f P (length src) key p pbs src.

(* MessageBody budget: MessageChunk::body_size_from_message_size *)
Definition body_budget (fx : fixes) (s : sender) (t : mtype) (max_chunk : Z) : res Z :=
  if max_chunk <? src_min_chunk then Err E_DEC
  else
    let hs := src_chunk_header + len (sec_header s t) in
    let sig := signature_size s t in
    match padding_size fx s t 1 sig with
    | None => Panic P_BUDGET
    | Some (p, mp) =>
        let is_asym := match t with OPN => negb (is_none (s_policy s)) | _ => false end in
        if is_asym && fx_opn_budget fx && (0 <? p) then
          (* whole RSA blocks that fit behind the headers, less sequence header, signature and minimum padding *)
          let pbs := rsa_plain_block (s_policy s) (s_rks s) in
          let blocks := (max_chunk - Z.min hs max_chunk) / s_rks s in
          let room := blocks * pbs in
          if room <=? 8 + sig + mp then Err E_DEC else Ok (room - (8 + sig + mp))
        else
          let pad := if 0 <? p then (if fx_budget fx then mp + src_sym_block (s_policy s) - 1 else p) else 0 in
          let ds := hs + 8 + pad + sig in
          if max_chunk <? ds then Panic P_BUDGET else Ok (max_chunk - ds)
    end.

(* data.chunks(k) *)
Fixpoint chunks_f (fuel : nat) (k : Z) (l : bytes) : list bytes :=
  match fuel with
  | O => []
  | S f => match l with [] => [] | _ => take k l :: chunks_f f k (drop k l) end
  end.
Definition chunks_of (k : Z) (l : bytes) : list bytes := chunks_f (length l) k l.

Fixpoint number_chunks (s : sender) (t : mtype) (seq req : Z) (parts : list bytes) : res (list bytes) :=
  match parts with
  | [] => Ok []
  | b :: rest =>
      (* sequence_number + i as u32 *)
      if U32 <=? seq then Panic P_SEND
      else do cs <- number_chunks s t (seq + 1) req rest;
           Ok (new_chunk s t (match rest with [] => 1 | _ => 0 end) seq req b :: cs)
  end.

(* Chunker::encode from the encoded node id + message [data] on; the max_message_size check is not
   modelled (the harness passes 0 = no limit) *)
Definition encode (fx : fixes) (s : sender) (t : mtype) (seq req max_chunk : Z) (data : bytes) : res (list bytes) :=
  if 0 <? max_chunk then
    match body_budget fx s t max_chunk with
    | Err _ => Err E_DEC
    | Panic x => Panic x
    | Ok k =>
        if k =? 0 then Panic P_BUDGET      (* chunks(0) panics *)
        else number_chunks s t seq req (chunks_of k data)
    end
  else Ok [new_chunk s t 1 seq req data].

(* MessageWriter::write (core/comms/message_writer.rs, the server's writer), up to apply_security:
   Chunker::encode(last_sent_sequence_number + 1, request_id, max_message_size, max_chunk_size, ..)
   where max_chunk_size is the send buffer size negotiated for the connection in HEL / ACK
   ([fixed] = true); before the fix the writer passed 0 = no limit ([fixed] = false).  The writer
   secures each chunk into a buffer of negotiated size + 1024 bytes. *)
Definition writer_chunks (fixed : bool) (fx : fixes) (s : sender) (t : mtype) (last_sent req negotiated : Z)
           (data : bytes) : res (list bytes) :=
  encode fx s t (last_sent + 1) req (if fixed then negotiated else 0) data.

(* SecureChannel::apply_security for a chunk made by MessageChunk::new ([hs] = offset of the
   sequence header); the destination buffer is assumed large enough *)
Definition apply_security (P : prims) (fx : fixes) (s : sender) (t : mtype) (plain : bytes) : res bytes :=
  if secured (s_policy s) (s_mode s) then
    let hs := src_chunk_header + len (sec_header s t) in
    let body := len plain - hs - 8 in
    let sig := signature_size s t in
    match padding_size fx s t body sig with
    | None => Panic P_SEND
    | Some (p, mp) =>
        let data := set_size (plain ++ padding_bytes p mp ++ rep sig 0) (len plain + p + sig) in
        match t with
        | OPN =>
            let e := len data in
            if e - hs <? s_ks s then Panic P_SEND else
            let pbs := rsa_plain_block (s_policy s) (s_rks s) in
            let cts := cipher_text_size pbs (s_rks s) (e - hs) in
            let tmp := set_size (take (e - s_ks s) data) (hs + cts) in
            let sg := p_asign P (s_key s) (s_policy s) tmp in
            if negb (len sg =? s_ks s) then Panic P_SEND else
            let ct := rsa_encrypt P (s_rkey s) (s_policy s) pbs (drop hs tmp ++ sg) in
            if len ct =? cts then Ok (take hs tmp ++ ct) else Panic P_SEND
        | _ =>
            let ss := src_sym_sig (s_policy s) in
            let signed := take (len data - ss) data in
            let tag := p_mac P (s_policy s) (s_sigkey s) signed in
            if negb (len tag =? ss) then Panic P_SEND else
            let full := signed ++ tag in
            match s_mode s with
            | MSign => Ok full
            | MSignEnc =>
                if (len full - hs) mod 16 =? 0
                then Ok (take hs full ++ p_aes_enc P (s_enckey s) (drop hs full))
                else if fx_aes_block fx then Err E_SEC else Panic P_AES_BLOCK
            | _ => Panic P_SEND
            end
        end
    end
  else Ok plain.

(* ================= the receiving side ================= *)
Record receiver := {
  r_policy : policy; r_mode : mode; r_chan : Z;
  r_thumb : option bytes;          (* thumbprint of the own certificate; None = no certificate *)
  r_cert_ks : option Z;            (* key size of the own certificate's public key, if it has one *)
  r_pkey : option (Z * Z);         (* own private key: key pair id, size in bytes *)
  r_verkey : option (bytes * bytes);   (* remote derived keys: signing key, encryption key ++ iv *)
  r_limits : limits
}.

(* PrivateKey::private_decrypt: [ks]-byte blocks *)
Fixpoint rsa_decrypt_f (P : prims) (fx : fixes) (fuel : nat) (key ks : Z) (p : policy) (src : bytes) : res bytes :=
  match fuel with
  | O => Ok []
  | S f => match src with
           | [] => Ok []
           | _ => if len src <? ks then Panic P_RSA_BLOCK
                  else match p_rsa_dec P key p (take ks src) with
                       | None => Err E_SEC
                       | Some blk => do rest <- rsa_decrypt_f P fx f key ks p (drop ks src); Ok (blk ++ rest)
                       end
           end
  end.
Definition rsa_decrypt (P : prims) (fx : fixes) (key ks : Z) (p : policy) (src : bytes) : res bytes :=
  if fx_rsa_block fx && ((ks <=? 0) || negb (len src mod ks =? 0)) then Err E_SEC
  else if ks <=? 0 then Err E_SEC
  else rsa_decrypt_f P fx (length src) key ks p src.

(* SecureChannel::verify_padding: the start of the padding range, for padding ending at [pe] *)
Definition verify_padding (fx : fixes) (d : bytes) (key_size pe : Z) : res Z :=
  if 256 <? key_size then
    if pe <? 2 then (if fx_padding fx then Err E_SEC else Panic P_PADDING) else
    if len d <? pe then (if fx_padding fx then Err E_SEC else Panic P_PADDING) else
    let pb := nth (Z.to_nat (pe - 2)) d 0 in
    let xb := nth (Z.to_nat (pe - 1)) d 0 in
    let ps := xb * 256 + pb in
    if pe <? ps + 2 then (if fx_padding fx then Err E_SEC else Panic P_PADDING) else
    let start := pe - ps - 2 in
    if all_eqb pb (slice start (pe - 1) d) then Ok start else Err E_SEC
  else
    if pe <? 1 then (if fx_padding fx then Err E_SEC else Panic P_PADDING) else
    if len d <? pe then (if fx_padding fx then Err E_SEC else Panic P_PADDING) else
    let pb := nth (Z.to_nat (pe - 1)) d 0 in
    if pe <? pb + 1 then (if fx_padding fx then Err E_SEC else Panic P_PADDING) else
    let start := pe - pb - 1 in
    if all_eqb pb (slice start pe d) then Ok start else Err E_SEC.

(* asymmetric_decrypt_and_verify and the code around it, for an OPN chunk whose security header
   names the policy [pol] (not None); [off] = length of the headers, [b1] = the bytes behind them *)
Definition recv_asym (P : prims) (fx : fixes) (r : receiver) (src b1 : bytes) (off : Z)
           (pol : policy) (cert thumb : option bytes) : res bytes :=
  match cert with
  | None => if fx_null_cert fx then Err E_SEC else Panic P_NULL_CERT
  | Some c =>
    match p_cert_key P c with
    | None => Err E_SEC
    | Some (vkey, vks) =>
      match r_thumb r with
      | None => if fx_own_cert fx then Err E_SEC else Panic P_NO_OWN_CERT
      | Some own_thumb =>
        if negb (bytes_eqb own_thumb (match thumb with Some t => t | None => [] end)) then Err E_SEC else
        match r_pkey r with
        | None => if fx_own_cert fx then Err E_SEC else Panic P_NO_PKEY
        | Some (okey, oks) =>
          do plain <- rsa_decrypt P fx okey oks pol b1;
          let dsz := len plain in
          if off + dsz <? vks then Panic P_DEC_SIG else
          let sig_off := off + dsz - vks in
          let dst := take off src ++ plain ++ rep (len b1 - dsz) 0 in
          let key_size := match r_cert_ks r with Some k => k | None => vks end in
          if negb (p_averify P vkey pol (take sig_off dst) (slice sig_off (sig_off + vks) dst)) then Err E_SEC else
          do start <- verify_padding fx dst key_size sig_off;
          Ok (take start (set_size dst start))
        end
      end
    end
  end.

(* symmetric_decrypt_and_verify and the stripping of signature and padding, for a MSG / CLO chunk
   of declared (= actual) size [msize] *)
Definition recv_sym (P : prims) (fx : fixes) (r : receiver) (src b1 : bytes) (off msize : Z) : res bytes :=
  if secured (r_policy r) (r_mode r) then
    let ss := src_sym_sig (r_policy r) in
    if msize <? ss then (if fx_size_sig fx then Err E_SEC else Panic P_SIZE_SIG) else
    let signed_end := msize - ss in
    match r_verkey r with
    | None => if fx_no_keys fx then Err E_SEC else Panic P_NO_KEYS
    | Some (vk, dk) =>
      match r_mode r with
      | MSign =>
          if negb (bytes_eqb (p_mac P (r_policy r) vk (take signed_end src)) (drop signed_end src)) then Err E_SEC
          else Ok (take signed_end (set_size src signed_end))
      | _ (* MSignEnc *) =>
          if negb ((msize - off) mod 16 =? 0) then (if fx_aes_block fx then Err E_SEC else Panic P_AES_BLOCK) else
          let dst := take off src ++ p_aes_dec P dk b1 in
          if negb (bytes_eqb (p_mac P (r_policy r) vk (take signed_end dst)) (drop signed_end dst)) then Err E_SEC else
          if fx_pad_sign fx then
            if msize <? ss + off + 1 then Err E_SEC else
            let pe := msize - ss in
            let ps := nth (Z.to_nat (pe - 1)) dst 0 + 1 in
            if pe <? off + ps then Err E_SEC else
            do start <- verify_padding fx dst ss pe;
            Ok (take start (set_size dst start))
          else Ok (take signed_end (set_size dst signed_end))
      end
    end
  else Ok src.

(* SecureChannel::verify_and_remove_security: the plain chunk and the policy the channel is left with *)
Definition recv (P : prims) (fx : fixes) (r : receiver) (src : bytes) : res bytes * policy :=
  let keep := r_policy r in
  match parse_hdr src with
  | Err e => (Err e, keep) | Panic s => (Panic s, keep)
  | Ok (h, b0) =>
    match (match h_type h with OPN => parse_asym P (r_limits r) b0 | _ => parse_sym b0 end) with
    | Err e => (Err e, keep) | Panic s => (Panic s, keep)
    | Ok (sh, b1) =>
      let off := len src - len b1 in
      let msize := h_size h in
      if negb (msize =? len src) then (Err E_DEC, keep) else
      match sh with
      | Asym uri cert thumb =>
          match policy_of_uri (match uri with Some u => u | None => [] end) with
          | None => (Err E_SEC, keep)
          | Some pol =>
              if is_none pol then (Ok src, keep)
              else (* self.security_policy = security_policy *)
                   (recv_asym P fx r src b1 off pol cert thumb, pol)
          end
      | Sym _ => (recv_sym P fx r src b1 off msize, keep)
      end
    end
  end.

(* ---------------- Chunker::validate_chunks, Chunker::decode ---------------- *)
Fixpoint validate_from (P : prims) (fx : fixes) (r : receiver) (first i req0 : Z) (cs : list bytes) : res unit :=
  match cs with
  | [] => Ok tt
  | c :: rest =>
      do inf <- chunk_info P (r_limits r) c;
      if negb (r_chan r =? 0) && negb (h_chan (i_hdr inf) =? r_chan r) then Err E_SEC else
      if U32 <=? first + i then (if fx_seq fx then Err E_SEC else Panic P_SEQ_OVERFLOW) else
      if negb (i_seq inf =? first + i) then Err E_SEC else
      if negb (i =? 0) && negb (i_req inf =? req0) then Err E_SEC else
      validate_from P fx r first (i + 1) (if i =? 0 then i_req inf else req0) rest
  end.
(* returns the last sequence number *)
Definition validate_chunks (P : prims) (fx : fixes) (r : receiver) (start : Z) (cs : list bytes) : res Z :=
  match cs with
  | [] => Panic P_NO_CHUNKS
  | c0 :: _ =>
      do inf <- chunk_info P (r_limits r) c0;
      let first := i_seq inf in
      if first <? start then Err E_SEC else
      do _ <- validate_from P fx r first 0 0 cs;
      let n := Z.of_nat (length cs) in
      (* first + chunks.len() as u32 - 1 overflowed in its first addition; repaired: first + (len - 1) *)
      if U32 <=? first + n then (if fx_seq fx then Ok (first + n - 1) else Panic P_SEQ_OVERFLOW) else Ok (first + n - 1)
  end.

(* the reassembled body (node id + message); the binary decoding of the message is not part of
   this model *)
Fixpoint decode_bodies (P : prims) (r : receiver) (cs : list bytes) : res bytes :=
  match cs with
  | [] => Ok []
  | c :: rest =>
      do inf <- chunk_info P (r_limits r) c;
      let expect := match rest with [] => 1 | _ => 0 end in
      if negb (h_final (i_hdr inf) =? expect) then Err E_DEC else
      do tl <- decode_bodies P r rest; Ok (i_body inf ++ tl)
  end.
Definition decode (P : prims) (r : receiver) (cs : list bytes) : res bytes :=
  match cs with [] => Panic P_NO_CHUNKS | _ => decode_bodies P r cs end.

(* the code as it is in the repository checkout now *)
Definition current : fixes :=
  {| fx_pad_sign := true; fx_budget := true; fx_rsa_block := true; fx_null_cert := true; fx_own_cert := true;
     fx_no_keys := true; fx_aes_block := true; fx_size_sig := true; fx_padding := true; fx_seq := true;
     fx_opn_budget := true |}.
(* the pinned code before any fix: commit *)
Definition pinned : fixes :=
  {| fx_pad_sign := false; fx_budget := false; fx_rsa_block := false; fx_null_cert := false; fx_own_cert := false;
     fx_no_keys := false; fx_aes_block := false; fx_size_sig := false; fx_padding := false; fx_seq := false;
     fx_opn_budget := false |}.
