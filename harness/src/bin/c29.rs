//! C29: AddressSpace::delete on small reference graphs (cycles, shared children, ghost targets,
//! perturbed reference type hierarchies).  The REAL delete runs in a worker child process, because
//! the failures this property is about are a stack overflow (process abort) and an endless loop:
//! a dead worker is reported as [-3], a worker that does not answer within the time limit as [-4].
#[path = "../util.rs"]
mod util;
use opcua::server::address_space::{object::Object, AddressSpace, EventNotifier};
use opcua::types::NodeId;
use std::io::{BufRead, BufReader, Write};
use std::process::{Child, ChildStdin, Command, Stdio};
use std::sync::mpsc::{channel, Receiver};
use std::sync::Mutex;
use std::time::Duration;
use util::*;

pub const AGGREGATES: u32 = 44;
pub const HAS_SUBTYPE: u32 = 45;
pub const HAS_PROPERTY: u32 = 46;
pub const HAS_COMPONENT: u32 = 47;
pub const HAS_ORDERED_COMPONENT: u32 = 49;
pub const ORGANIZES: u32 = 35;
pub const HAS_TYPE_DEFINITION: u32 = 40;

#[derive(Clone)]
pub struct Case { nodes: Vec<u32>, refs: Vec<(u32, u32, u32)>, target: u32, dtr: bool }   // refs: (source, type, target)
pub struct P;

fn nid(k: u32) -> NodeId { NodeId::new(0, k) }
fn num(n: &NodeId) -> i128 {
    match (&n.identifier, n.namespace) {
        (opcua::types::Identifier::Numeric(v), 0) => *v as i128,
        _ => -99,
    }
}
fn universe(c: &Case) -> Vec<u32> {
    let mut u: Vec<u32> = c.nodes.clone();
    for (s, ty, t) in &c.refs { u.push(*s); u.push(*ty); u.push(*t); }
    u.push(c.target);
    u.sort();
    u.dedup();
    u
}

/// the real code: build the address space, delete, observe
fn real_delete(c: &Case) -> Vec<i128> {
    let mut a = AddressSpace::default();
    let mut out = Vec::new();
    for n in &c.nodes {
        let o = Object::new(&nid(*n), "n", "n", EventNotifier::empty());
        if !a.insert::<Object, NodeId>(o, None) { return vec![-6]; }
    }
    for (s, ty, t) in &c.refs {
        if guarded(|| a.insert_reference(&nid(*s), &nid(*t), nid(*ty))).is_err() { return vec![-2]; }
    }
    match guarded(|| a.delete(&nid(c.target), c.dtr)) {
        Ok(b) => out.push(b as i128),
        Err(_) => return vec![-2],
    }
    out.push(-1);
    let univ = universe(c);
    for n in &univ { if a.node_exists(&nid(*n)) { out.push(*n as i128); } }
    out.push(-5);
    let (mut fwd, mut inv) = a.references().verif_dump();
    fwd.sort_by_key(|(k, _)| num(k));
    for (k, b) in fwd {
        out.push(num(&k)); out.push(b.len() as i128);
        for r in b { out.push(num(&r.reference_type)); out.push(num(&r.target_node)); }
    }
    out.push(-8);
    inv.sort_by_key(|(k, _)| num(k));
    for (k, l) in inv {
        let mut l: Vec<i128> = l.iter().map(num).collect();
        l.sort();
        out.push(num(&k)); out.push(l.len() as i128);
        out.extend(l);
    }
    out
}

// ---- worker protocol: one case per line in, one output per line back ---------------------------
fn encode(c: &Case) -> String {
    let mut v: Vec<String> = vec![c.nodes.len().to_string()];
    v.extend(c.nodes.iter().map(|x| x.to_string()));
    v.push(c.refs.len().to_string());
    for (s, ty, t) in &c.refs { v.push(s.to_string()); v.push(ty.to_string()); v.push(t.to_string()); }
    v.push(c.target.to_string());
    v.push((c.dtr as u32).to_string());
    v.join(" ")
}
fn decode(line: &str) -> Option<Case> {
    let mut it = line.split_whitespace().map(|x| x.parse::<u32>());
    let mut next = || it.next().and_then(|r| r.ok());
    let n = next()?;
    let mut nodes = Vec::new();
    for _ in 0..n { nodes.push(next()?); }
    let m = next()?;
    let mut refs = Vec::new();
    for _ in 0..m { refs.push((next()?, next()?, next()?)); }
    Some(Case { nodes, refs, target: next()?, dtr: next()? != 0 })
}
fn worker_main() {
    std::panic::set_hook(Box::new(|_| {}));
    let stdin = std::io::stdin();
    let stdout = std::io::stdout();
    for line in stdin.lock().lines() {
        let line = match line { Ok(l) => l, Err(_) => break };
        let out = match decode(&line) { Some(c) => real_delete(&c), None => vec![-9] };
        let s: Vec<String> = out.iter().map(|x| x.to_string()).collect();
        let mut w = stdout.lock();
        let _ = writeln!(w, "{}", s.join(" "));
        let _ = w.flush();
    }
}
struct Worker { child: Child, stdin: ChildStdin, rx: Receiver<String> }
fn spawn_worker() -> Worker {
    let exe = std::env::current_exe().expect("current_exe");
    let mut child = Command::new(exe).arg("--worker").stdin(Stdio::piped()).stdout(Stdio::piped())
        .stderr(Stdio::null()).spawn().expect("spawn worker");
    let stdin = child.stdin.take().unwrap();
    let stdout = child.stdout.take().unwrap();
    let (tx, rx) = channel();
    std::thread::spawn(move || {
        for line in BufReader::new(stdout).lines() {
            match line { Ok(l) => { if tx.send(l).is_err() { break; } } Err(_) => break }
        }
    });
    Worker { child, stdin, rx }
}
static WORKER: Mutex<Option<Worker>> = Mutex::new(None);
const TIME_LIMIT: Duration = Duration::from_secs(20);

fn run_in_worker(c: &Case) -> Vec<i128> {
    let mut g = WORKER.lock().unwrap();
    if g.is_none() { *g = Some(spawn_worker()); }
    let w = g.as_mut().unwrap();
    let sent = writeln!(w.stdin, "{}", encode(c)).and_then(|_| w.stdin.flush()).is_ok();
    let res = if sent { w.rx.recv_timeout(TIME_LIMIT) } else { Err(std::sync::mpsc::RecvTimeoutError::Disconnected) };
    match res {
        Ok(line) => line.split_whitespace().filter_map(|x| x.parse::<i128>().ok()).collect(),
        Err(e) => {
            // the worker died (stack overflow -> abort) or hangs (endless loop): drop it
            let code = if matches!(e, std::sync::mpsc::RecvTimeoutError::Timeout) { -4 } else { -3 };
            let mut w = g.take().unwrap();
            let _ = w.child.kill();
            let _ = w.child.wait();
            vec![code]
        }
    }
}

// ---- cases -----------------------------------------------------------------------------------------
fn hierarchy() -> Vec<(u32, u32, u32)> {
    vec![(AGGREGATES, HAS_SUBTYPE, HAS_PROPERTY), (AGGREGATES, HAS_SUBTYPE, HAS_COMPONENT),
         (HAS_COMPONENT, HAS_SUBTYPE, HAS_ORDERED_COMPONENT)]
}
fn case(nodes: &[u32], extra_h: &[(u32, u32, u32)], edges: &[(u32, u32, u32)], target: u32, dtr: bool) -> Case {
    let mut refs = hierarchy();
    refs.extend_from_slice(extra_h);
    refs.extend_from_slice(edges);
    Case { nodes: nodes.to_vec(), refs, target, dtr }
}

impl Property for P {
    type Case = Case;
    fn fixed(_tier: &str) -> Vec<Case> {
        let (c, p, o, g) = (HAS_COMPONENT, HAS_PROPERTY, HAS_ORDERED_COMPONENT, ORGANIZES);
        vec![
            // a tree: 1 -> 2 -> 3, 1 -> 4 (property), 5 organizes 1
            case(&[1, 2, 3, 4, 5], &[], &[(1, c, 2), (2, c, 3), (1, p, 4), (5, g, 1)], 1, true),
            case(&[1, 2, 3, 4, 5], &[], &[(1, c, 2), (2, c, 3), (1, p, 4), (5, g, 1)], 1, false),
            // the defect fixed by "fix: deleting a node recursed for ever on cycles of aggregating
            // references": two nodes that are components of each other
            case(&[1, 2], &[], &[(1, c, 2), (2, c, 1)], 1, true),
            case(&[1, 2], &[], &[(1, c, 2), (2, c, 1)], 1, false),
            // a longer cycle entered from outside, mixed aggregate types
            case(&[1, 2, 3, 4], &[], &[(1, c, 2), (2, p, 3), (3, o, 4), (4, c, 2)], 1, true),
            // shared child (diamond) and a child referenced by a survivor
            case(&[1, 2, 3, 4, 5], &[], &[(1, c, 2), (1, c, 3), (2, c, 4), (3, p, 4), (5, c, 4), (5, g, 1)], 1, true),
            // same child through two aggregate types (listed twice by find_aggregates_of)
            case(&[1, 2], &[], &[(1, c, 2), (1, p, 2)], 1, true),
            // non-aggregating references are not followed; ghost target 9 is not a node
            case(&[1, 2, 3], &[], &[(1, g, 2), (1, HAS_TYPE_DEFINITION, 3), (1, c, 9), (9, c, 3)], 1, true),
            // deleting an id that is not a node but has references: only the references go, the
            // "children" reached through left-over references stay (delete looks for children of existing nodes only)
            case(&[2], &[], &[(1, c, 2)], 1, true),
            case(&[2, 3], &[], &[(1, c, 2), (2, c, 3), (3, g, 1)], 1, true),
            case(&[2, 3], &[], &[(1, c, 2), (2, c, 3), (3, g, 1)], 1, false),
            // nothing to delete
            case(&[1, 2], &[], &[(1, c, 2)], 7, true),
            // the reference type hierarchy contains a cycle of HasSubtype references
            case(&[1, 2, 3], &[(HAS_PROPERTY, HAS_SUBTYPE, AGGREGATES)], &[(1, g, 2), (1, c, 3)], 1, true),
            case(&[1, 2], &[(HAS_ORDERED_COMPONENT, HAS_SUBTYPE, HAS_COMPONENT)], &[(1, HAS_TYPE_DEFINITION, 2)], 1, true),
        ]
    }
    fn gen(r: &mut Rng) -> Case {
        let n = 2 + r.below(5) as u32;                       // ids 1..n, 2..6
        let mut nodes: Vec<u32> = (1..=n).filter(|_| r.chance(6, 7)).collect();
        if nodes.is_empty() { nodes.push(1); }
        let tys = [HAS_COMPONENT, HAS_COMPONENT, HAS_COMPONENT, HAS_PROPERTY, HAS_PROPERTY, HAS_ORDERED_COMPONENT,
                   ORGANIZES, HAS_TYPE_DEFINITION, AGGREGATES];
        let mut edges: Vec<(u32, u32, u32)> = Vec::new();
        let m = r.below(2 * n as u64 + 1);
        for _ in 0..m {
            let s = 1 + r.below(n as u64) as u32;
            let mut t = 1 + r.below(n as u64) as u32;
            if t == s { t = if s == n { 1 } else { s + 1 }; }
            let ty = *r.pick(&tys);
            edges.push((s, ty, t));
            if r.chance(1, 5) { edges.push((t, *r.pick(&tys), s)); }       // back edge: a cycle of length two
        }
        if r.chance(1, 3) && n >= 3 {                                       // a cycle through all of 1..k
            let k = 2 + r.below(n as u64 - 1) as u32;
            for i in 1..=k { edges.push((i, *r.pick(&tys[..6]), if i == k { 1 } else { i + 1 })); }
        }
        if r.chance(1, 8) { edges.push((1 + r.below(n as u64) as u32, HAS_COMPONENT, n + 1)); }   // ghost target
        // reference type hierarchy: the standard one, sometimes with an edge missing, an extra
        // subtype, or a cycle
        let mut h = hierarchy();
        if r.chance(1, 8) { let i = r.below(h.len() as u64) as usize; h.remove(i); }
        if r.chance(1, 8) { h.push((HAS_PROPERTY, HAS_SUBTYPE, ORGANIZES)); }
        if r.chance(1, 6) {
            let back = [(HAS_PROPERTY, HAS_SUBTYPE, AGGREGATES), (HAS_ORDERED_COMPONENT, HAS_SUBTYPE, HAS_COMPONENT),
                        (HAS_COMPONENT, HAS_SUBTYPE, AGGREGATES), (HAS_ORDERED_COMPONENT, HAS_SUBTYPE, AGGREGATES)];
            h.push(*r.pick(&back));
        }
        let mut refs = h;
        refs.extend(edges);
        let target = if r.chance(1, 15) { n + 1 + r.below(2) as u32 } else { 1 + r.below(n as u64) as u32 };
        Case { nodes, refs, target, dtr: r.chance(5, 6) }
    }
    fn exec(c: &Case) -> Out {
        let out = run_in_worker(c);
        let is_agg = |ty: u32| ty == HAS_COMPONENT || ty == HAS_PROPERTY || ty == HAS_ORDERED_COMPONENT || ty == AGGREGATES;
        let agg_edges: Vec<(u32, u32)> = c.refs.iter().filter(|(_, ty, _)| is_agg(*ty)).map(|(s, _, t)| (*s, *t)).collect();
        // is there an aggregate cycle at all (tag only)
        let mut cyc = false;
        for (s0, _) in &agg_edges {
            let mut seen = vec![*s0];
            let mut i = 0;
            while i < seen.len() {
                let x = seen[i]; i += 1;
                for (s, t) in &agg_edges { if *s == x { if *t == *s0 { cyc = true; } if !seen.contains(t) { seen.push(*t); } } }
            }
        }
        let tcyc = c.refs.iter().any(|(s, ty, t)| *ty == HAS_SUBTYPE && (*t == AGGREGATES || (*s == HAS_ORDERED_COMPONENT && *t == HAS_COMPONENT)));
        let has_children = agg_edges.iter().any(|(s, _)| *s == c.target);
        let tag = format!("{}{}{}{}",
            if has_children { "subtree" } else { "leaf" },
            if cyc { "-cycle" } else { "" }, if tcyc { "-typecycle" } else { "" }, if c.dtr { "" } else { "-keeprefs" });
        let term = format!("(mk_case {} {} {} {} {})",
            zlist(universe(c).iter().map(|x| *x as i128)), zlist(c.nodes.iter().map(|x| *x as i128)),
            coq_list(&c.refs, |(s, ty, t)| format!("({}, {}, {})", s, ty, t)), c.target, coq_bool(c.dtr));
        Out { tag, term, out }
    }
}
fn main() {
    if std::env::args().any(|a| a == "--worker") { worker_main(); } else { run_main::<P>(); }
}
