(* C42 — known finding 2 described completely: an ExpandedNodeId comes back from JSON with its
   namespace index replaced by 0 when it has a namespace uri, and otherwise unchanged; nothing else
   is ever lost.  (The JSON form of Part 6 5.4.2.11 has one Namespace field.) *)
From Coq Require Import List ZArith Bool Lia.
From OV Require Import C42.Text C42.Flt C42.Model C42.TextLaws C42.DateLaws C42.StructLaws.
Import ListNotations.
Open Scope Z_scope.

Definition x_canon (x : xnodeid) : xnodeid :=
  let '(XNodeId (NodeId ns i) uri srv) := x in
  XNodeId (NodeId (match uri with Some _ => 0 | None => ns end) i) uri srv.

Lemma x_canon_id x : x_both x = false -> x_canon x = x.
Proof.
  destruct x as [[ns i] [u|] srv]; cbn [x_both x_canon]; intro H; [|reflexivity].
  apply negb_false_iff, Z.eqb_eq in H. subst. reflexivity.
Qed.

Theorem xnodeid_rt_any x : xnodeid_ok x = true ->
  xnodeid_of now (Some (xnodeid_tree now x)) = Some (x_canon x).
Proof.
  destruct x as [[ns i] uri srv]. cbn [xnodeid_ok nodeid_ok x_canon]. intros H.
  apply andb_true_iff in H as [H Hsrv]. apply andb_true_iff in H as [Hns Hi].
  pose proof (ident_rt i Hi) as Hid. unfold xnodeid_tree. destruct (ident_parts i) as [ty id].
  destruct Hid as [Hid Hty]. unfold xnodeid_of. cbn [fix_xuri now]. getk.
  rewrite opt_ty by exact Hty.
  assert (Hs : match opt_value (if srv =? 0 then None else Some (tint srv)) with
               | Some t => do n <- as_u64 t; if U32MAX <? n then None else Some n
               | None => Some 0 end = Some srv).
  { apply in_range_iff in Hsrv. unfold U32MAX in *. destruct (srv =? 0) eqn:E.
    - apply Z.eqb_eq in E. subst. reflexivity.
    - cbn [opt_value tint as_u64]. unfold U64MAX. rewrite in_range_true by lia.
      replace (4294967295 <? srv) with false by (symmetry; apply Z.ltb_ge; lia). reflexivity. }
  destruct uri as [u|].
  - cbn [opt_value as_str]. rewrite Hs, Hid. reflexivity.
  - destruct (ns =? 0) eqn:E.
    + apply Z.eqb_eq in E. subst ns. cbn [opt_value]. rewrite Hs, Hid. reflexivity.
    + cbn [opt_value tint as_str]. change (TNum (NInt ns)) with (tint ns).
      rewrite ns_index_rt by exact Hns. rewrite Hs, Hid. reflexivity.
Qed.

(* known finding 1 described completely: the serialiser panics exactly on the values that hold an
   array (directly, in a DataValue or in a nested Variant), and on no other value *)
Fixpoint panics_iff_array (v : variant) : variant_tree now v = None <-> v_has_array v = true.
Proof.
  destruct v as [ | | | | | | | | | | | | | | | | | | | | | | | [v'|] r | v' | | ];
    cbn [variant_tree v_has_array]; try (split; discriminate).
  - specialize (panics_iff_array v'). destruct (variant_tree now v') as [t|].
    + split; [discriminate|]. intro H. apply panics_iff_array in H. discriminate.
    + split; [intros _; apply panics_iff_array; reflexivity | reflexivity].
  - specialize (panics_iff_array v'). destruct (variant_tree now v') as [t|].
    + split; [discriminate|]. intro H. apply panics_iff_array in H. discriminate.
    + split; [intros _; apply panics_iff_array; reflexivity | reflexivity].
  - split; reflexivity.
Qed.

Definition holds_array (a : value) : bool :=
  match a with ADataValue (Some v) _ => v_has_array v | AVariant v => v_has_array v | _ => false end.
Theorem to_tree_panics_iff_array a : to_tree now a = None <-> holds_array a = true.
Proof.
  destruct a as [ | | | | | | | | | [v|] r | v | | ]; cbn [to_tree holds_array]; try (split; discriminate).
  - pose proof (panics_iff_array v) as H. destruct (variant_tree now v) as [t|].
    + split; [discriminate|]. intro H'. apply H in H'. discriminate.
    + split; [intros _; apply H; reflexivity | reflexivity].
  - apply panics_iff_array.
Qed.
