//! C17: signature data.  Real `create_signature_data` / `verify_signature_data` with real RSA keys
//! and certificates; every single input is mutated in turn.
#[path = "../util.rs"]
mod util;
use util::*;
use opcua::crypto::{self, PrivateKey, SecurityPolicy, X509, x509::X509Data};
use opcua::types::{ByteString, StatusCode, SignatureData};
use std::sync::OnceLock;

const POLS: [(SecurityPolicy, &str); 5] = [(SecurityPolicy::Basic128Rsa15, "Basic128Rsa15"), (SecurityPolicy::Basic256, "Basic256"),
    (SecurityPolicy::Basic256Sha256, "Basic256Sha256"), (SecurityPolicy::Aes128Sha256RsaOaep, "Aes128Sha256RsaOaep"),
    (SecurityPolicy::Aes256Sha256RsaPss, "Aes256Sha256RsaPss")];

/// identities: (certificate, private key); ids 0,1 are 2048 bit, 2,3 1024 bit, 4,5 4096 bit (both tiers:
/// code that depends on the key size - signature buffer, block arithmetic - must meet all three)
fn idents(n: usize) -> &'static Vec<(X509, PrivateKey)> {
    static C: OnceLock<Vec<(X509, PrivateKey)>> = OnceLock::new();
    C.get_or_init(|| {
        (0..n).map(|i| {
            let key_size = [2048, 2048, 1024, 1024, 4096, 4096][i];
            X509::cert_and_pkey(&X509Data {
                key_size, common_name: format!("verif{}", i), organization: "o".into(), organizational_unit: "u".into(),
                country: "IE".into(), state: "D".into(), alt_host_names: vec![format!("urn:verif:{}", i), "localhost".into()],
                certificate_duration_days: 30 }).unwrap()
        }).collect()
    })
}
static NID: OnceLock<usize> = OnceLock::new();

#[derive(Clone)]
pub struct Case { p_sign: usize, p_verify: usize, signer: usize, signed_cert: usize, signed_nonce: Vec<u8>, verify_cert: usize,
                  checked_cert: usize, checked_nonce: Vec<u8>, mutk: u8, pos: usize }
pub struct P;

fn cert_term(i: usize) -> String {
    let der = idents(*NID.get().unwrap())[i].0.to_der().unwrap();
    format!("(mk_cert {} {} {} {})", i, i, zbytes(&der[..der.len().min(6)]), der.len())
}

impl Property for P {
    type Case = Case;
    fn fixed(tier: &str) -> Vec<Case> {
        let _ = tier;
        let n = 6;
        let _ = NID.set(n);
        let mut v = Vec::new();
        for p in 0..5 {
            for id in (0..n).step_by(2) {
                let base = Case { p_sign: p, p_verify: p, signer: id, signed_cert: id + 1, signed_nonce: (1..=32).collect(), verify_cert: id,
                                  checked_cert: id + 1, checked_nonce: (1..=32).collect(), mutk: 0, pos: 0 };
                v.push(base.clone());
                v.push(Case { checked_cert: id, ..base.clone() });                              // other certificate expected
                v.push(Case { verify_cert: id + 1, ..base.clone() });                           // another signer's certificate
                v.push(Case { checked_nonce: (2..=33).collect(), ..base.clone() });
                v.push(Case { checked_nonce: (1..=31).collect(), ..base.clone() });             // nonce truncated
                v.push(Case { checked_nonce: (1..=33).collect(), ..base.clone() });             // nonce extended
                for (k, pos) in [(1u8, 0usize), (1, 17), (1, 100_000), (2, 0), (3, 0), (4, 0)] { v.push(Case { mutk: k, pos, ..base.clone() }); }
                v.push(Case { p_verify: (p + 2) % 5, ..base.clone() });
                v.push(Case { p_verify: (p + 1) % 5, ..base.clone() });
            }
        }
        v
    }
    fn gen(r: &mut Rng) -> Case {
        let n = *NID.get_or_init(|| 6);
        let id = r.below(n as u64) as usize;
        let nl = r.below(65) as usize; let nonce = r.bytes(nl);
        let mut c = Case { p_sign: r.below(5) as usize, p_verify: 0, signer: id, signed_cert: r.below(n as u64) as usize, signed_nonce: nonce.clone(),
                           verify_cert: id, checked_cert: 0, checked_nonce: nonce, mutk: 0, pos: r.next() as usize };
        c.p_verify = c.p_sign; c.checked_cert = c.signed_cert;
        // change exactly one thing, or (1 in 5) nothing
        match r.below(10) {
            0 | 1 => {}
            2 => c.checked_cert = r.below(n as u64) as usize,
            3 => c.verify_cert = r.below(n as u64) as usize,
            4 => { if c.checked_nonce.is_empty() { c.checked_nonce.push(1) } else { let i = r.below(c.checked_nonce.len() as u64) as usize; c.checked_nonce[i] ^= 1 << r.below(8); } }
            5 => { if r.chance(1, 2) { c.checked_nonce.pop(); } else { c.checked_nonce.push(r.next() as u8); } }
            6 | 7 => c.mutk = 1,
            8 => c.mutk = 2 + r.below(3) as u8,
            _ => c.p_verify = r.below(5) as usize,
        }
        c
    }
    fn exec(c: &Case) -> Out {
        let ids = idents(*NID.get_or_init(|| 6));
        let res = guarded(|| {
            let cert_bytes = ids[c.signed_cert].0.as_byte_string();
            let mut sd = crypto::create_signature_data(&ids[c.signer].1, POLS[c.p_sign].0, &cert_bytes, &ByteString::from(&c.signed_nonce)).unwrap();
            let mut sig: Vec<u8> = sd.signature.as_ref().to_vec();
            match c.mutk {
                1 => { let i = c.pos % sig.len(); sig[i] ^= 1 << (c.pos / 7 % 8); }
                2 => { sig.pop(); }
                3 => { sig.push(0); }
                4 => { sig.clear(); }
                _ => {}
            }
            sd = SignatureData { algorithm: sd.algorithm.clone(), signature: ByteString::from(&sig) };
            crypto::verify_signature_data(&sd, POLS[c.p_verify].0, &ids[c.verify_cert].0, &ids[c.checked_cert].0, &c.checked_nonce)
        });
        let out = match res { Ok(s) => vec![if s == StatusCode::Good { 0 } else { 1 }], Err(_) => vec![-2] };
        let changed = [c.p_sign != c.p_verify, c.signer != c.verify_cert, c.signed_cert != c.checked_cert, c.signed_nonce != c.checked_nonce, c.mutk != 0];
        let tag = if !changed.iter().any(|b| *b) { "unchanged".to_string() } else {
            format!("changed{}{}{}{}{}", if changed[0] { "-policy" } else { "" }, if changed[1] { "-signer" } else { "" }, if changed[2] { "-cert" } else { "" },
                    if changed[3] { "-nonce" } else { "" }, if changed[4] { "-signature" } else { "" }) };
        let term = format!("(mk_case {} {} {} {} {} {} {} {} {})", POLS[c.p_sign].1, POLS[c.p_verify].1, c.signer, cert_term(c.signed_cert), zbytes(&c.signed_nonce),
            cert_term(c.verify_cert), cert_term(c.checked_cert), zbytes(&c.checked_nonce), ["SigIntact", "SigFlipped", "SigTruncated", "SigExtended", "SigEmpty"][c.mutk as usize]);
        Out { tag, term, out }
    }
}
fn main() { run_main::<P>() }
