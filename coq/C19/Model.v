(* C19 — only activated sessions on their own channel can use services
   (lib/src/server/services/message_handler.rs, services/session.rs, server/session.rs).

   Model of one connection as the dispatcher sees it:
     SessionManager.sessions      : the sessions of the connection (creation order)
     Session.{authentication_token, activated, secure_channel_id,
              last_service_request_timestamp, session_timeout, terminate_session}
     SecureChannel.secure_channel_id of the connection (may change), the clock (ms).
   Authentication tokens are canonicalised to the order of their creation (the k-th successful
   CreateSession issues token k; the real ones are random 32-byte strings), 0 is the null NodeId and
   -1 any value that was never issued.  Which requests go through which guard is NOT written here:
   it is read from the table [dispatch_arms] that tools/translate/c19_dispatch.py regenerates from
   the match arms of MessageHandler::handle_message on every run.  The effect of a service on the
   rest of the server is an arbitrary function [eff]. *)
From Coq Require Import List ZArith Bool String.
Import ListNotations.
From OV Require Import Gen.C19Dispatch.
Open Scope Z_scope.

(* every request the dispatcher handles except the three session life-cycle requests (which are
   operations of their own below); constructor = name of the SupportedMessage variant without
   "Request" *)
Inductive svc :=
| Read | Write | CreateSubscription | Browse | Publish | Cancel
| AddNodes | AddReferences | DeleteNodes | DeleteReferences | BrowseNext
| TranslateBrowsePathsToNodeIds | RegisterNodes | UnregisterNodes | QueryFirst | QueryNext
| HistoryRead | HistoryUpdate | Call | CreateMonitoredItems | ModifyMonitoredItems
| SetMonitoringMode | SetTriggering | DeleteMonitoredItems | ModifySubscription
| SetPublishingMode | DeleteSubscriptions | TransferSubscriptions | Republish
| GetEndpoints | FindServers | RegisterServer | RegisterServer2.

Definition svc_name (s : svc) : string :=
  match s with
  | Read => "Read" | Write => "Write" | CreateSubscription => "CreateSubscription"
  | Browse => "Browse" | Publish => "Publish" | Cancel => "Cancel"
  | AddNodes => "AddNodes" | AddReferences => "AddReferences" | DeleteNodes => "DeleteNodes"
  | DeleteReferences => "DeleteReferences" | BrowseNext => "BrowseNext"
  | TranslateBrowsePathsToNodeIds => "TranslateBrowsePathsToNodeIds"
  | RegisterNodes => "RegisterNodes" | UnregisterNodes => "UnregisterNodes"
  | QueryFirst => "QueryFirst" | QueryNext => "QueryNext" | HistoryRead => "HistoryRead"
  | HistoryUpdate => "HistoryUpdate" | Call => "Call"
  | CreateMonitoredItems => "CreateMonitoredItems" | ModifyMonitoredItems => "ModifyMonitoredItems"
  | SetMonitoringMode => "SetMonitoringMode" | SetTriggering => "SetTriggering"
  | DeleteMonitoredItems => "DeleteMonitoredItems" | ModifySubscription => "ModifySubscription"
  | SetPublishingMode => "SetPublishingMode" | DeleteSubscriptions => "DeleteSubscriptions"
  | TransferSubscriptions => "TransferSubscriptions" | Republish => "Republish"
  | GetEndpoints => "GetEndpoints" | FindServers => "FindServers"
  | RegisterServer => "RegisterServer" | RegisterServer2 => "RegisterServer2"
  end.

Fixpoint lookup_arm (n : string) (l : list (string * arm_kind)) : option arm_kind :=
  match l with
  | [] => None
  | (m, k) :: l' => if String.eqb n m then Some k else lookup_arm n l'
  end.

(* how the CURRENT source dispatches the request *)
Definition arm_of (s : svc) : option arm_kind := lookup_arm (svc_name s) dispatch_arms.

(* ---- the specification's classification (OPC UA Part 4: Discovery and Session service sets) *)
Definition exempt_names : list string :=
  ["GetEndpoints"; "FindServers"; "RegisterServer"; "RegisterServer2";
   "CreateSession"; "ActivateSession"; "CloseSession"; "Cancel"].
Definition discovery_names : list string :=
  ["GetEndpoints"; "FindServers"; "RegisterServer"; "RegisterServer2"].
Fixpoint mem_str (n : string) (l : list string) : bool :=
  match l with [] => false | m :: l' => String.eqb n m || mem_str n l' end.
Definition exempt (s : svc) : bool := mem_str (svc_name s) exempt_names.
Definition discovery (s : svc) : bool := mem_str (svc_name s) discovery_names.

(* the obligation on the generated table: every arm that is neither discovery nor a session
   service is wrapped in validate_service_request *)
Definition arm_ok (a : string * arm_kind) : bool :=
  mem_str (fst a) exempt_names || match snd a with FullGuard => true | _ => false end.
Definition dispatch_ok : bool := forallb arm_ok dispatch_arms.

(* ---- state ------------------------------------------------------------------------------- *)
Record session := mk_session {
  s_tok : Z; s_act : bool; s_chan : Z; s_last : Z; s_timeout : Z; s_term : bool }.

Record conn (W : Type) := mk_conn {
  sessions : list session; chan_now : Z; clock : Z; next_tok : Z; world : W }.
Arguments mk_conn {W}. Arguments sessions {W}. Arguments chan_now {W}. Arguments clock {W}.
Arguments next_tok {W}. Arguments world {W}.

Definition MAX_SESSIONS : Z := 5.            (* MAX_SESSIONS_PER_TRANSPORT *)
Definition MAX_SESSION_TIMEOUT : Z := 60000. (* constants::MAX_SESSION_TIMEOUT, ms *)

Inductive tokref := Tok (i : Z) | Forged | Null.
Definition tok_val (t : tokref) : Z :=
  match t with Tok i => if 1 <=? i then i else -1 | Forged => -1 | Null => 0 end.

Inductive op :=
| Create (timeout : Z) (ok : bool)          (* CreateSession; ok = the endpoint url is one of the server's *)
| Activate (t : tokref) (cred : Z)          (* ActivateSession; cred 0,1 acceptable identity, 2.. rejected *)
| Close (t : tokref)                        (* CloseSession *)
| Service (t : tokref) (s : svc) (arg : Z)  (* any other request *)
| Channel (id : Z)                          (* the connection's secure channel id becomes id *)
| Elapse (ms : Z).                          (* time passes *)

(* is_session_timed_out: elapsed.num_milliseconds() as f64 > timeout && timeout > 0.0 *)
Definition timed_out (now : Z) (s : session) : bool :=
  (s_timeout s <? now - s_last s) && (0 <? s_timeout s).

(* SessionManager::find_session_by_token *)
Definition find_tok (t : Z) (l : list session) : option session :=
  find (fun s => s_tok s =? t) l.

Definition upd (t : Z) (f : session -> session) (l : list session) : list session :=
  map (fun s => if s_tok s =? t then f s else s) l.

Definition set_term (s : session) : session :=
  mk_session (s_tok s) (s_act s) (s_chan s) (s_last s) (s_timeout s) true.
Definition set_last (now : Z) (s : session) : session :=
  mk_session (s_tok s) (s_act s) (s_chan s) now (s_timeout s) (s_term s).
Definition set_act (a : bool) (ch now : Z) (s : session) : session :=
  mk_session (s_tok s) a ch now (s_timeout s) (s_term s).

Definition with_sessions {W} (c : conn W) (l : list session) : conn W :=
  mk_conn l (chan_now c) (clock c) (next_tok c) (world c).
Definition with_world {W} (c : conn W) (w : W) : conn W :=
  mk_conn (sessions c) (chan_now c) (clock c) (next_tok c) w.

(* response classes: 0 a response that is not one of the guard's faults (the request was carried
   out), 1 ServiceFault BadSessionIdInvalid, 2 ServiceFault BadSessionNotActivated, 3 another
   ServiceFault (session services only), 5 handle_message returned an error *)

(* validate_service_request, before the action runs *)
Inductive gres := Pass (s : session) | Refuse (class : Z) (term : bool).
Definition full_guard {W} (c : conn W) (t : Z) : gres :=
  match find_tok t (sessions c) with
  | None => Refuse 1 false
  | Some s =>
      if negb (s_act s) then Refuse 2 false
      else if negb (s_chan s =? chan_now c) then Refuse 1 false
      else if timed_out (clock c) s then Refuse 1 true
      else Pass s
  end.
(* validate_activate_service_request *)
Definition activate_guard {W} (c : conn W) (t : Z) : gres :=
  match find_tok t (sessions c) with
  | None => Refuse 1 false
  | Some s => if timed_out (clock c) s then Refuse 1 true else Pass s
  end.

Definition guarded_call {W} (eff : svc -> Z -> Z -> W -> W) (g : gres) (c : conn W)
           (t : Z) (sv : svc) (arg : Z) : conn W * Z :=
  match g with
  | Pass _ =>
      (mk_conn (upd t (set_last (clock c)) (sessions c)) (chan_now c) (clock c) (next_tok c)
               (eff sv arg t (world c)), 0)
  | Refuse k true => (with_sessions c (upd t set_term (sessions c)), k)
  | Refuse k false => (c, k)
  end.

Definition step {W} (eff : svc -> Z -> Z -> W -> W) (c : conn W) (o : op) : conn W * Z :=
  match o with
  | Create timeout ok =>
      if MAX_SESSIONS <=? Z.of_nat (List.length (sessions c)) then (c, 3)      (* BadTooManySessions *)
      else if negb ok then (c, 3)                                        (* BadTcpEndpointUrlInvalid *)
      else
        let s := mk_session (next_tok c) false (chan_now c) (clock c)
                            (Z.min timeout MAX_SESSION_TIMEOUT) false in
        (mk_conn (sessions c ++ [s]) (chan_now c) (clock c) (next_tok c + 1) (world c), 0)
  | Activate tr cred =>
      let t := tok_val tr in
      match activate_guard c t with
      | Refuse k true => (with_sessions c (upd t set_term (sessions c)), k)
      | Refuse k false => (c, k)
      | Pass s =>
          (* identity rejected, or first activation on a channel other than the creating one *)
          if (cred <? 2) && (s_act s || (s_chan s =? chan_now c))
          then (with_sessions c (upd t (set_act true (chan_now c) (clock c)) (sessions c)), 0)
          else (with_sessions c (upd t (set_act false (s_chan s) (clock c)) (sessions c)), 3)
      end
  | Close tr =>
      let t := tok_val tr in
      match find_tok t (sessions c) with
      | None => (c, 1)
      | Some s =>
          if negb (s_act s) && negb (s_chan s =? chan_now c) then (c, 3)  (* BadSecureChannelIdInvalid *)
          else (with_sessions c (filter (fun s' => negb (s_tok s' =? t)) (sessions c)), 0)
      end
  | Service tr sv arg =>
      let t := tok_val tr in
      match arm_of sv with
      | None => (c, 5)
      | Some Unguarded => (with_world c (eff sv arg t (world c)), 0)
      | Some ActivateGuard => guarded_call eff (activate_guard c t) c t sv arg
      | Some FullGuard => guarded_call eff (full_guard c t) c t sv arg
      end
  | Channel id => (mk_conn (sessions c) id (clock c) (next_tok c) (world c), 0)
  | Elapse ms => (mk_conn (sessions c) (chan_now c) (clock c + ms) (next_tok c) (world c), 0)
  end.

Definition init {W} (w : W) : conn W := mk_conn [] 1 0 1 w.

Definition exec {W} (eff : svc -> Z -> Z -> W -> W) (h : list op) (c : conn W) : conn W :=
  fold_left (fun c o => fst (step eff c o)) h c.

(* ---- the statement's vocabulary (used by the theorems in Props/C19.v) ---------------------- *)
Definition timed_out_P (now : Z) (s : session) : Prop :=
  0 < s_timeout s /\ s_timeout s < now - s_last s.
(* the token belongs to a session of the connection *)
Definition resolves {W} (c : conn W) (t : Z) : Prop :=
  exists s, In s (sessions c) /\ s_tok s = t.
(* ... that is activated, bound to the connection's current secure channel, and not timed out *)
Definition authorised {W} (c : conn W) (t : Z) : Prop :=
  exists s, In s (sessions c) /\ s_tok s = t /\ s_act s = true /\ s_chan s = chan_now c /\
            ~ timed_out_P (clock c) s.
(* what a request may not change when it is refused: which tokens exist, which are activated,
   which channel each is bound to (and the rest of the server, [world]) *)
Definition binding (s : session) : Z * bool * Z := (s_tok s, s_act s, s_chan s).
Definition bindings {W} (c : conn W) : list (Z * bool * Z) := map binding (sessions c).

(* ---- correspondence interface ------------------------------------------------------------ *)
(* the harness's services: Write sets a variable, CreateSubscription adds a subscription to the
   calling session, everything else is sent with nothing to do *)
Definition world0 := (Z * list (Z * Z))%type.     (* the variable; subscriptions per token *)
Fixpoint subs_of (t : Z) (l : list (Z * Z)) : Z :=
  match l with [] => 0 | (k, n) :: l' => if k =? t then n else subs_of t l' end.
Fixpoint bump (t : Z) (l : list (Z * Z)) : list (Z * Z) :=
  match l with
  | [] => [(t, 1)]
  | (k, n) :: l' => if k =? t then (k, n + 1) :: l' else (k, n) :: bump t l'
  end.
Definition eff0 (sv : svc) (arg t : Z) (w : world0) : world0 :=
  match sv with
  | Write => (arg, snd w)
  | CreateSubscription => (fst w, bump t (snd w))
  | _ => w
  end.

Definition case := list op.

(* one digest row per live session: token, activated + 2 * terminate flag, channel id,
   number of subscriptions *)
Definition row := (Z * Z * Z * Z)%type.
Definition flags (s : session) : Z := Z.b2z (s_act s) + 2 * Z.b2z (s_term s).
Definition row_of (w : world0) (s : session) : row :=
  (s_tok s, flags s, s_chan s, subs_of (s_tok s) (snd w)).
Definition rows_of (c : conn world0) : list row := map (row_of (world c)) (sessions c).
Fixpoint flat_rows (l : list row) : list Z :=
  match l with [] => [] | (a, b, c, d) :: l' => a :: b :: c :: d :: flat_rows l' end.
Definition enc_obs (class var : Z) (rows : list row) : list Z :=
  class :: var :: Z.of_nat (List.length rows) :: flat_rows rows.

Fixpoint run_from (c : conn world0) (h : case) : list Z :=
  match h with
  | [] => []
  | o :: h' => let '(c', k) := step eff0 c o in
               enc_obs k (fst (world c')) (rows_of c') ++ run_from c' h'
  end.
Definition run (h : case) : list Z := run_from (init (0, [])) h.

(* ---- the property as a predicate on an observed output --------------------------------- *)
(* The oracle replays the statement against what was observed: the binding state it judges a
   request by is the digest the implementation showed after the previous operation; time is its
   own ledger (token -> time of the last accepted request, revised timeout). *)
Fixpoint take_rows (n : nat) (l : list Z) : option (list row * list Z) :=
  match n with
  | O => Some ([], l)
  | S n' => match l with
            | a :: b :: c :: d :: l' =>
                match take_rows n' l' with
                | Some (rs, r) => Some ((a, b, c, d) :: rs, r)
                | None => None
                end
            | _ => None
            end
  end.
Definition dec_obs (l : list Z) : option (Z * Z * list row * list Z) :=
  match l with
  | k :: v :: n :: l' =>
      if n <? 0 then None
      else match take_rows (Z.to_nat n) l' with
           | Some (rs, r) => Some (k, v, rs, r)
           | None => None
           end
  | _ => None
  end.

Definition r_tok (r : row) : Z := let '(a, _, _, _) := r in a.
Definition r_flags (r : row) : Z := let '(_, b, _, _) := r in b.
Definition r_chan (r : row) : Z := let '(_, _, c, _) := r in c.
Definition r_subs (r : row) : Z := let '(_, _, _, d) := r in d.
Definition r_act (r : row) : bool := Z.odd (r_flags r).
Definition r_term (r : row) : bool := 2 <=? r_flags r.
Definition mk_flags (a t : bool) : Z := Z.b2z a + 2 * Z.b2z t.

Definition row_eqb (x y : row) : bool :=
  (r_tok x =? r_tok y) && (r_flags x =? r_flags y) && (r_chan x =? r_chan y) && (r_subs x =? r_subs y).
Fixpoint rows_eqb (a b : list row) : bool :=
  match a, b with
  | [], [] => true
  | x :: a', y :: b' => row_eqb x y && rows_eqb a' b'
  | _, _ => false
  end.
(* equal except for the subscriptions of the session with token t *)
Fixpoint rows_eqb_but_subs (t : Z) (a b : list row) : bool :=
  match a, b with
  | [], [] => true
  | x :: a', y :: b' =>
      (r_tok x =? r_tok y) && (r_flags x =? r_flags y) && (r_chan x =? r_chan y) &&
      ((r_tok x =? t) || (r_subs x =? r_subs y)) && rows_eqb_but_subs t a' b'
  | _, _ => false
  end.

Definition find_row (t : Z) (l : list row) : option row := find (fun r => r_tok r =? t) l.
Definition upd_row (t : Z) (f : row -> row) (l : list row) : list row :=
  map (fun r => if r_tok r =? t then f r else r) l.
Definition row_set_term (r : row) : row := (r_tok r, mk_flags (r_act r) true, r_chan r, r_subs r).
Definition row_set_act (a : bool) (ch : Z) (r : row) : row :=
  (r_tok r, mk_flags a (r_term r), ch, r_subs r).

Record ostate := mk_ostate {
  o_rows : list row;                 (* the digest after the previous operation *)
  o_var : Z;
  o_chan : Z; o_clock : Z;
  o_next : Z;                        (* the next token to be issued (canonical numbering) *)
  o_led : list (Z * (Z * Z)) }.      (* token -> (time of the last accepted request, timeout) *)

Fixpoint led_get (t : Z) (l : list (Z * (Z * Z))) : option (Z * Z) :=
  match l with [] => None | (k, v) :: l' => if k =? t then Some v else led_get t l' end.
Fixpoint led_touch (t now : Z) (l : list (Z * (Z * Z))) : list (Z * (Z * Z)) :=
  match l with
  | [] => []
  | (k, (la, to)) :: l' => if k =? t then (k, (now, to)) :: l' else (k, (la, to)) :: led_touch t now l'
  end.

(* "timed out": a positive timeout and more than that since the last accepted request *)
Definition o_timed_out (o : ostate) (t : Z) : bool :=
  match led_get t (o_led o) with
  | Some (la, to) => (0 <? to) && (to <? o_clock o - la)
  | None => false
  end.

(* the statement's condition: the token belongs to a session of the connection that is
   activated, bound to the current channel, and not timed out *)
Definition o_authorised (o : ostate) (t : Z) : bool :=
  match find_row t (o_rows o) with
  | Some r => r_act r && (r_chan r =? o_chan o) && negb (o_timed_out o t)
  | None => false
  end.

(* nothing changed — except that the code marks a timed-out session for termination *)
Definition unchanged_mod_term (o : ostate) (t : Z) (var : Z) (rows : list row) : bool :=
  (var =? o_var o) &&
  (rows_eqb rows (o_rows o) ||
   (o_timed_out o t && rows_eqb rows (upd_row t row_set_term (o_rows o)))).

Definition all_tokens_positive (rows : list row) : bool := forallb (fun r => 0 <? r_tok r) rows.

Definition ostep (o : ostate) (op0 : op) (k var : Z) (rows : list row) : option ostate :=
  let keep led := Some (mk_ostate rows var (o_chan o) (o_clock o) (o_next o) led) in
  if negb (all_tokens_positive rows) then None else
  match op0 with
  | Service tr sv arg =>
      let t := tok_val tr in
      if discovery sv then
        (* no session is needed and none is touched *)
        if (k =? 0) && rows_eqb rows (o_rows o) then keep (o_led o) else None
      else if o_authorised o t then
        (* carried out: the effect is the service's business, the bindings are not *)
        if (k =? 0) && rows_eqb_but_subs t (o_rows o) rows then keep (led_touch t (o_clock o) (o_led o))
        else None
      else if exempt sv then
        (* Cancel is a session service: the statement does not say when it is refused *)
        if (k =? 0) && rows_eqb_but_subs t (o_rows o) rows then keep (led_touch t (o_clock o) (o_led o))
        else if ((k =? 1) || (k =? 2)) && unchanged_mod_term o t var rows then keep (o_led o)
        else None
      else
        (* refused with a ServiceFault and nothing changes *)
        if ((k =? 1) || (k =? 2)) && unchanged_mod_term o t var rows then keep (o_led o) else None
  | Create timeout ok =>
      if k =? 0 then
        (* a new session: a token never seen before, not activated, bound to the current channel *)
        if (var =? o_var o) && rows_eqb rows (o_rows o ++ [(o_next o, 0, o_chan o, 0)])
        then Some (mk_ostate rows var (o_chan o) (o_clock o) (o_next o + 1)
                             (o_led o ++ [(o_next o, (o_clock o, Z.min timeout MAX_SESSION_TIMEOUT))]))
        else None
      else if (var =? o_var o) && rows_eqb rows (o_rows o) then keep (o_led o) else None
  | Activate tr cred =>
      let t := tok_val tr in
      if k =? 0 then
        (* only an existing session, only with acceptable credentials; it is then bound to the
           current channel *)
        match find_row t (o_rows o) with
        | Some _ =>
            if (cred <? 2) && (var =? o_var o) &&
               rows_eqb rows (upd_row t (row_set_act true (o_chan o)) (o_rows o))
            then keep (led_touch t (o_clock o) (o_led o)) else None
        | None => None
        end
      else if k =? 1 then
        if unchanged_mod_term o t var rows then keep (o_led o) else None
      else
        (* a failed activation never activates; the code de-activates *)
        if (var =? o_var o) &&
           (rows_eqb rows (o_rows o) ||
            match find_row t (o_rows o) with
            | Some r => rows_eqb rows (upd_row t (row_set_act false (r_chan r)) (o_rows o))
            | None => false
            end)
        then keep (led_touch t (o_clock o) (o_led o)) else None
  | Close tr =>
      let t := tok_val tr in
      if k =? 0 then
        match find_row t (o_rows o) with
        | Some _ =>
            if (var =? o_var o) && rows_eqb rows (filter (fun r => negb (r_tok r =? t)) (o_rows o))
            then keep (o_led o) else None
        | None => None
        end
      else if (var =? o_var o) && rows_eqb rows (o_rows o) then keep (o_led o) else None
  | Channel id =>
      if (k =? 0) && (var =? o_var o) && rows_eqb rows (o_rows o)
      then Some (mk_ostate rows var id (o_clock o) (o_next o) (o_led o)) else None
  | Elapse ms =>
      if (k =? 0) && (var =? o_var o) && rows_eqb rows (o_rows o)
      then Some (mk_ostate rows var (o_chan o) (o_clock o + ms) (o_next o) (o_led o)) else None
  end.

Fixpoint oracle_from (o : ostate) (h : case) (out : list Z) : bool :=
  match h with
  | [] => match out with [] => true | _ => false end
  | op0 :: h' =>
      match dec_obs out with
      | None => false
      | Some (k, var, rows, out') =>
          match ostep o op0 k var rows with
          | Some o' => oracle_from o' h' out'
          | None => false
          end
      end
  end.

Definition oinit : ostate := mk_ostate [] 0 1 0 1 [].
Definition oracle (h : case) (out : list Z) : bool := oracle_from oinit h out.

Definition known (h : case) : Z := 0.

(* time does not run backwards; tokens are referred to by positive creation indices *)
Definition valid_op (o : op) : Prop := match o with Elapse ms => 0 <= ms | _ => True end.
Definition valid (h : case) : Prop := Forall valid_op h.
