(* C03 — limit theorems: the length checks of strings, byte strings and arrays, with the limits
   as parameters. *)
From Coq Require Import List ZArith Bool Lia.
Import ListNotations.
From OV Require Import C01.Codec C01.CodecProofs C01.Builtins C01.Types.
Open Scope Z_scope.

(* what the string / byte string decoder does on a declared length L followed by any bytes *)
Lemma ustr_length_check limit utf8 L bs : in_i 4 L ->
  run (dec_ustr limit utf8) (enc_i 4 L ++ bs) =
  if L =? -1 then Ok (None, bs)
  else if L <? -1 then Err ENeg
  else if limit <? L then Err ELimit
  else run (b <- take (Z.to_nat L) ;;
            if utf8 && negb (utf8_valid b) then fail EUtf8 else ret (Some b)) bs.
Proof.
  intros HL. unfold dec_ustr. rewrite run_bind, run_read_i by (try lia; exact HL).
  destruct (L =? -1); [reflexivity|]. destruct (L <? -1); [reflexivity|].
  destruct (limit <? L); [reflexivity|]. rewrite run_bind, run_alloc. reflexivity.
Qed.

Lemma ustr_over limit utf8 L bs : in_i 4 L -> 0 <= limit -> limit < L ->
  run (dec_ustr limit utf8) (enc_i 4 L ++ bs) = Err ELimit.
Proof.
  intros HL H0 H. rewrite ustr_length_check by exact HL.
  destruct (Z.eqb_spec L (-1)); [lia|]. destruct (Z.ltb_spec L (-1)); [lia|].
  destruct (Z.ltb_spec limit L); [reflexivity|lia].
Qed.
Lemma ustr_negative limit utf8 L bs : in_i 4 L -> L < -1 ->
  run (dec_ustr limit utf8) (enc_i 4 L ++ bs) = Err ENeg.
Proof.
  intros HL H. rewrite ustr_length_check by exact HL.
  destruct (Z.eqb_spec L (-1)); [lia|]. destruct (Z.ltb_spec L (-1)); [reflexivity|lia].
Qed.
Lemma ustr_within limit utf8 items rest :
  Z.of_nat (length items) <= limit -> Z.of_nat (length items) < 2 ^ 31 ->
  (utf8 = true -> utf8_valid items = true) ->
  run (dec_ustr limit utf8) (enc_i 4 (Z.of_nat (length items)) ++ items ++ rest) = Ok (Some items, rest).
Proof.
  intros Hl H31 Hu.
  pose proof (run_dec_ustr limit utf8 (Some items) rest) as H. cbn [enc_ustr chk_ustr] in H.
  rewrite <- app_assoc in H. rewrite H by (split; assumption).
  destruct (Z.ltb_spec limit (Z.of_nat (length items))); [lia|reflexivity].
Qed.
Lemma ustr_null limit utf8 rest : run (dec_ustr limit utf8) (enc_i 4 (-1) ++ rest) = Ok (None, rest).
Proof. rewrite ustr_length_check by (unfold in_i; cbn; lia). reflexivity. Qed.

(* read_array *)
Lemma array_length_check {A} o esize (m : M A) L bs : in_i 4 L ->
  run (dec_array o esize m) (enc_i 4 L ++ bs) =
  if L =? -1 then Ok (None, bs)
  else if L <? -1 then Err ENeg
  else if max_arr o <? L then Err ELimit
  else run (xs <- dec_n (Z.to_nat L) m ;; ret (Some xs)) bs.
Proof.
  intros HL. unfold dec_array. rewrite run_bind, run_read_i by (try lia; exact HL).
  destruct (L =? -1); [reflexivity|]. destruct (L <? -1); [reflexivity|].
  destruct (max_arr o <? L); [reflexivity|]. rewrite run_bind, run_alloc. reflexivity.
Qed.
Lemma array_over {A} o esize (m : M A) L bs : in_i 4 L -> 0 <= max_arr o -> max_arr o < L ->
  run (dec_array o esize m) (enc_i 4 L ++ bs) = Err ELimit.
Proof.
  intros HL H0 H. rewrite array_length_check by exact HL.
  destruct (Z.eqb_spec L (-1)); [lia|]. destruct (Z.ltb_spec L (-1)); [lia|].
  destruct (Z.ltb_spec (max_arr o) L); [reflexivity|lia].
Qed.
Lemma array_negative {A} o esize (m : M A) L bs : in_i 4 L -> L < -1 ->
  run (dec_array o esize m) (enc_i 4 L ++ bs) = Err ENeg.
Proof.
  intros HL H. rewrite array_length_check by exact HL.
  destruct (Z.eqb_spec L (-1)); [lia|]. destruct (Z.ltb_spec L (-1)); [reflexivity|lia].
Qed.

(* chunk: a declared size above max_message_size is rejected whatever follows the header, with no
   allocation: the body is not read *)
Definition chunk_header_bytes (mt fin size ch : Z) : bytes := enc_chunk_header [mt; fin; size; ch].

Lemma run_chunk_header mt fin size ch rest :
  (mt = 0 \/ mt = 1 \/ mt = 2) -> (fin = 0 \/ fin = 1 \/ fin = 2) -> in_u 4 size -> in_u 4 ch ->
  run dec_chunk_header (chunk_header_bytes mt fin size ch ++ rest) = Ok ([mt; fin; size; ch], rest).
Proof.
  intros Hm Hf Hs Hc. unfold dec_chunk_header, chunk_header_bytes, enc_chunk_header.
  destruct Hm as [-> | [-> | ->]]; destruct Hf as [-> | [-> | ->]]; cbn [Z.eqb Pos.eqb];
    rewrite <- !app_assoc; cbn [app]; rewrite run_bind;
    (match goal with |- context [run (take 3) (?a :: ?b :: ?c :: ?more)] =>
       change (a :: b :: c :: more) with ([a; b; c] ++ more); rewrite (run_take_n 3) by reflexivity end);
    cbn [Z.eqb Pos.eqb andb]; rewrite run_bind; rewrite run_read_byte by (unfold is_byte; lia);
    cbn [Z.eqb Pos.eqb]; rewrite run_bind, run_read_u by exact Hs;
    rewrite run_bind, run_read_u by exact Hc; reflexivity.
Qed.

Lemma chunk_too_large o mt fin size ch body :
  (mt = 0 \/ mt = 1 \/ mt = 2) -> (fin = 0 \/ fin = 1 \/ fin = 2) -> in_u 4 size -> in_u 4 ch ->
  0 < max_msg o < size ->
  dec_chunk o (chunk_header_bytes mt fin size ch ++ body) = (Err ELimit, st0).
Proof.
  intros Hm Hf Hs Hc Hl. pose proof (run_chunk_header mt fin size ch body Hm Hf Hs Hc) as H.
  unfold run in H. unfold dec_chunk, bind at 1.
  destruct (dec_chunk_header (chunk_header_bytes mt fin size ch ++ body)) as [r s] eqn:E.
  cbn [fst] in H. subst r.
  assert (Hs0 : s = st0).
  { clear - E Hm Hf. unfold dec_chunk_header, chunk_header_bytes, enc_chunk_header in E.
    destruct Hm as [-> | [-> | ->]]; destruct Hf as [-> | [-> | ->]]; cbn in E; inversion E; reflexivity. }
  subst s. cbn [nth].
  destruct (Z.ltb_spec 0 (max_msg o)); [|lia]. destruct (Z.ltb_spec (max_msg o) size); [|lia].
  reflexivity.
Qed.
