(* List / byte lemmas for the channel model *)
From Coq Require Import List ZArith Bool Lia.
Import ListNotations.
From OV Require Import C07.Chan.
Open Scope Z_scope.

Ltac Zify.zify_post_hook ::= Z.div_mod_to_equations.

Lemma len_nonneg l : 0 <= len l.
Proof. unfold len. lia. Qed.
Lemma len_nil : len [] = 0.
Proof. reflexivity. Qed.
Lemma len_cons x l : len (x :: l) = 1 + len l.
Proof. unfold len. cbn [length]. lia. Qed.
Lemma len_app a b : len (a ++ b) = len a + len b.
Proof. unfold len. rewrite app_length. lia. Qed.
Lemma len_0_nil l : len l = 0 -> l = [].
Proof. destruct l; [reflexivity|]. rewrite len_cons. pose proof (len_nonneg l). lia. Qed.

Lemma take_nonpos n l : n <= 0 -> take n l = [].
Proof. intro H. destruct l; cbn; [reflexivity|]. destruct (Z.leb_spec n 0); [reflexivity|lia]. Qed.
Lemma drop_nonpos n l : n <= 0 -> drop n l = l.
Proof. intro H. destruct l; cbn; [reflexivity|]. destruct (Z.leb_spec n 0); [reflexivity|lia]. Qed.
Lemma take_cons n x l : 0 < n -> take n (x :: l) = x :: take (n - 1) l.
Proof. intro H. cbn. destruct (Z.leb_spec n 0); [lia|reflexivity]. Qed.
Lemma drop_cons n x l : 0 < n -> drop n (x :: l) = drop (n - 1) l.
Proof. intro H. cbn. destruct (Z.leb_spec n 0); [lia|reflexivity]. Qed.
Lemma take_nil n : take n [] = []. Proof. reflexivity. Qed.
Lemma drop_nil n : drop n [] = []. Proof. reflexivity. Qed.

Lemma take_drop l : forall n, take n l ++ drop n l = l.
Proof.
  induction l as [|x l IH]; intro n; [reflexivity|].
  cbn. destruct (Z.leb_spec n 0); [reflexivity|]. cbn. f_equal. apply IH.
Qed.

Lemma len_take l : forall n, 0 <= n <= len l -> len (take n l) = n.
Proof.
  induction l as [|x l IH]; intros n H.
  - rewrite len_nil in H. cbn. rewrite len_nil. lia.
  - rewrite len_cons in H. cbn. destruct (Z.leb_spec n 0).
    + rewrite len_nil. lia.
    + rewrite len_cons, IH by lia. lia.
Qed.
Lemma len_take_le l : forall n, len (take n l) <= len l.
Proof.
  induction l as [|x l IH]; intro n; cbn; [lia|].
  destruct (Z.leb_spec n 0); rewrite ?len_nil, ?len_cons; [pose proof (len_nonneg l); lia|].
  specialize (IH (n - 1)). lia.
Qed.
Lemma take_all l : forall n, len l <= n -> take n l = l.
Proof.
  induction l as [|x l IH]; intros n H; [reflexivity|].
  rewrite len_cons in H. pose proof (len_nonneg l). rewrite take_cons by lia. f_equal. apply IH. lia.
Qed.
Lemma drop_all l : forall n, len l <= n -> drop n l = [].
Proof.
  induction l as [|x l IH]; intros n H; [reflexivity|].
  rewrite len_cons in H. pose proof (len_nonneg l). rewrite drop_cons by lia. apply IH. lia.
Qed.
Lemma len_drop l : forall n, 0 <= n <= len l -> len (drop n l) = len l - n.
Proof.
  intros n H. pose proof (take_drop l n) as E. apply (f_equal len) in E.
  rewrite len_app, len_take in E by exact H. lia.
Qed.

Lemma take_app_le a b : forall n, n <= len a -> take n (a ++ b) = take n a.
Proof.
  induction a as [|x a IH]; intros n H.
  - rewrite len_nil in H. rewrite !take_nonpos by lia. reflexivity.
  - rewrite len_cons in H. cbn. destruct (Z.leb_spec n 0); [reflexivity|]. f_equal. apply IH. lia.
Qed.
Lemma take_app_exact a b n : len a = n -> take n (a ++ b) = a.
Proof. intro H. rewrite take_app_le by lia. apply take_all. lia. Qed.
Lemma drop_app_le a b : forall n, n <= len a -> drop n (a ++ b) = drop n a ++ b.
Proof.
  induction a as [|x a IH]; intros n H.
  - rewrite len_nil in H. rewrite !drop_nonpos by lia. reflexivity.
  - rewrite len_cons in H. cbn [app]. destruct (Z.leb_spec n 0) as [Hn|Hn].
    + rewrite !drop_nonpos by lia. reflexivity.
    + rewrite !drop_cons by lia. apply IH. lia.
Qed.
Lemma drop_app_exact a b n : len a = n -> drop n (a ++ b) = b.
Proof. intro H. rewrite drop_app_le by lia. rewrite drop_all by lia. reflexivity. Qed.
Lemma take_app_ge a b : forall n, len a <= n -> take n (a ++ b) = a ++ take (n - len a) b.
Proof.
  induction a as [|x a IH]; intros n H.
  - rewrite len_nil. cbn [app]. f_equal. lia.
  - rewrite len_cons in *. pose proof (len_nonneg a). cbn [app]. rewrite take_cons by lia. f_equal.
    rewrite IH by lia. do 2 f_equal. lia.
Qed.
Lemma drop_app_ge a b : forall n, len a <= n -> drop n (a ++ b) = drop (n - len a) b.
Proof.
  induction a as [|x a IH]; intros n H.
  - rewrite len_nil. cbn [app]. f_equal. lia.
  - rewrite len_cons in *. pose proof (len_nonneg a). cbn [app]. rewrite drop_cons by lia.
    rewrite IH by lia. f_equal. lia.
Qed.

Lemma len_rep n b : 0 <= n -> len (rep n b) = n.
Proof.
  intro H. unfold rep, len. assert (E : forall k, length (rep_nat k b) = k) by (induction k; cbn; congruence).
  rewrite E. lia.
Qed.
Lemma rep_nonpos n b : n <= 0 -> rep n b = [].
Proof. intro H. unfold rep. replace (Z.to_nat n) with O by lia. reflexivity. Qed.
Lemma rep_succ n b : 0 <= n -> rep (n + 1) b = b :: rep n b.
Proof. intro H. unfold rep. replace (Z.to_nat (n + 1)) with (S (Z.to_nat n)) by lia. reflexivity. Qed.
Lemma all_eqb_rep_nat k b : all_eqb b (rep_nat k b) = true.
Proof. induction k; cbn; [reflexivity|]. rewrite Z.eqb_refl. exact IHk. Qed.
Lemma all_eqb_rep n b : all_eqb b (rep n b) = true.
Proof. apply all_eqb_rep_nat. Qed.
Lemma rep_snoc_nat k b : rep_nat k b ++ [b] = b :: rep_nat k b.
Proof. induction k; cbn; [reflexivity|]. rewrite IHk. reflexivity. Qed.

Lemma bytes_eqb_refl l : bytes_eqb l l = true.
Proof. induction l; cbn; [reflexivity|]. rewrite Z.eqb_refl. exact IHl. Qed.
Lemma bytes_eqb_eq a : forall b, bytes_eqb a b = true -> a = b.
Proof.
  induction a as [|x a IH]; intros [|y b] H; cbn in H; try discriminate; [reflexivity|].
  apply andb_true_iff in H as [H1 H2]. apply Z.eqb_eq in H1. apply IH in H2. congruence.
Qed.

Lemma nth_app_exact (a : bytes) x b n : len a = n -> nth (Z.to_nat n) (a ++ x :: b) 0 = x.
Proof.
  intro H. unfold len in H. rewrite app_nth2 by lia. replace (Z.to_nat n - length a)%nat with O by lia. reflexivity.
Qed.

(* ---------------- u32 ---------------- *)
Lemma len_le32 v : len (le32 v) = 4.
Proof. reflexivity. Qed.
Lemma rd32_le32 v : 0 <= v < U32 ->
  rd32 (v mod 256) ((v / 256) mod 256) ((v / 65536) mod 256) ((v / 16777216) mod 256) = v.
Proof. unfold rd32, U32. intro H. lia. Qed.
Lemma le32_bytes v : Forall (fun b => 0 <= b < 256) (le32 v).
Proof. unfold le32. repeat constructor; lia. Qed.

(* ---------------- headers ---------------- *)
Lemma len_type_bytes t : len (type_bytes t) = 3.
Proof. destruct t; reflexivity. Qed.
Lemma len_enc_hdr t f s c : len (enc_hdr t f s c) = 12.
Proof. destruct t; reflexivity. Qed.
Lemma mtype_of_type_bytes t : match type_bytes t with [a; b; c] => mtype_of a b c = Some t | _ => False end.
Proof. destruct t; reflexivity. Qed.
Lemma final_of_byte f : f = 0 \/ f = 1 \/ f = 2 -> final_of (final_byte f) = Some f.
Proof. intros [H|[H|H]]; subst; reflexivity. Qed.

Lemma parse_hdr_enc t f s c rest :
  (f = 0 \/ f = 1 \/ f = 2) -> 0 <= s < U32 -> 0 <= c < U32 ->
  parse_hdr (enc_hdr t f s c ++ rest) = Ok ({| h_type := t; h_final := f; h_size := s; h_chan := c |}, rest).
Proof.
  intros Hf Hs Hc. unfold enc_hdr, le32.
  destruct t; cbn [type_bytes app parse_hdr mtype_of Z.eqb Pos.eqb andb];
    rewrite (final_of_byte f Hf), !rd32_le32 by assumption; reflexivity.
Qed.

Lemma set_size_enc t f s c n rest : set_size (enc_hdr t f s c ++ rest) n = enc_hdr t f n c ++ rest.
Proof. destruct t; reflexivity. Qed.

Lemma parse_sym_le32 v rest : 0 <= v < U32 -> parse_sym (le32 v ++ rest) = Ok (Sym v, rest).
Proof. intro H. unfold le32. cbn [app parse_sym]. rewrite rd32_le32 by exact H. reflexivity. Qed.

Lemma len_bstr b : len (bstr b) = 4 + len b.
Proof. unfold bstr. rewrite len_app, len_le32. reflexivity. Qed.
Lemma parse_bstr_bstr lim x rest :
  len x <= lim -> len x < 2147483648 -> parse_bstr lim (bstr x ++ rest) = Ok (Some x, rest).
Proof.
  intros H1 H2. pose proof (len_nonneg x) as H0. unfold bstr, le32. cbn [app parse_bstr].
  rewrite rd32_le32 by (unfold U32; lia).
  destruct (Z.eqb_spec (len x) (U32 - 1)); [unfold U32 in *; lia|].
  destruct (Z.leb_spec 2147483648 (len x)); [lia|].
  destruct (Z.ltb_spec lim (len x)); [lia|].
  rewrite len_app. destruct (Z.ltb_spec (len x + len rest) (len x)); [pose proof (len_nonneg rest); lia|].
  rewrite take_app_exact, drop_app_exact by reflexivity. reflexivity.
Qed.
Lemma parse_bstr_null lim rest : parse_bstr lim (bnull ++ rest) = Ok (None, rest).
Proof. reflexivity. Qed.

Lemma policy_of_uri_src p : policy_of_uri (src_uri p) = Some p.
Proof. destruct p; vm_compute; reflexivity. Qed.
Lemma policy_of_uri_nil : policy_of_uri [] = None.
Proof. vm_compute. reflexivity. Qed.
